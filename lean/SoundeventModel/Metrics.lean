/-
  C09 (and the metric part of C08): the evaluation metrics of
  `soundevent/evaluation/metrics.py`, the three encodings the task modules feed them
  (`soundevent/evaluation/encoding.py`), the (term, function) tables of the four task
  modules and the three task drivers that are not detection
  (`soundevent/evaluation/tasks/{clip_classification,clip_multilabel_classification,
  sound_event_classification}.py`; detection is in `Detection.lean`).

  Everything is over `Rat`.  scikit-learn is not modelled: the definitions below are the
  *independent* definitions the metric terms name, with the degenerate conventions of the
  installed scikit-learn 1.9.1 spelled out (the correspondence tie compares them with what
  scikit-learn returns on every run):

  * `argmaxFirst`   numpy `argmax`: the first maximal entry wins;
  * top-k           `argsort(kind="mergesort")[:, ::-1][:, :k]`: among equal scores the
                    HIGHER class index ranks first; with k ≥ number of classes every item hits;
  * balanced accuracy   mean recall over the classes that occur in the truth;
  * average precision   step integral  Σₙ (Rₙ − Rₙ₋₁)·Pₙ  over the distinct thresholds,
                    0 when there is no positive example;
  * mean average precision   macro mean over the vocabulary's classes (a class without
                    positive example contributes 0); unlabelled rows are removed first;
  * Jaccard (samples)   |T ∩ P| / |T ∪ P| with P = {score > 1/2}, 0 when T ∪ P is empty.
-/
import SoundeventModel.Basic
namespace SE.Metrics

/-! ### small helpers -/

/-- a ratio of two counts -/
def ratio (a b : Nat) : Rat := (a : Rat) / (b : Rat)

/-- arithmetic mean; `0` on the empty list (callers that can see an empty list guard it) -/
def mean (xs : List Rat) : Rat := xs.sum / (xs.length : Rat)

/-! ### encodings (`evaluation/encoding.py`), over the encoder's answers

A tag is represented by the encoder's answer for it: `some i` (index in the vocabulary)
or `none` (not in the vocabulary). -/

/-- `classification_encoding`: the first tag the encoder knows -/
def classEnc : List (Option Nat) → Option Nat
  | [] => none
  | some c :: _ => some c
  | none :: ts => classEnc ts

/-- `multilabel_encoding`: indicator vector of length `C` -/
def multiEnc (C : Nat) (tags : List (Option Nat)) : List Bool :=
  (List.range C).map (fun c => tags.contains (some c))

/-- `prediction_encoding`: score vector of length `C`; a later assignment to the same class
    overwrites an earlier one; the scores are the `float32` values the array stores -/
def predEnc (C : Nat) (ps : List (Option Nat × Rat)) : List Rat :=
  (List.range C).map (fun c =>
    match ps.reverse.find? (fun p => p.1 == some c) with
    | some p => p.2
    | none => 0)

/-! ### single-label items and the 'none' column -/

/-- one evaluated item of a single-label task: encoded truth and predicted score row -/
structure Item where
  y : Option Nat
  row : List Rat
  deriving DecidableEq, Repr, Inhabited

/-- probability mass left for "none of the classes" -/
def noneScore (row : List Rat) : Rat := 1 - row.sum

/-- `np.c_[y_score, 1 - y_score.sum(axis=1)]` -/
def withNone (row : List Rat) : List Rat := row ++ [noneScore row]

/-- `y if y is not None else num_classes` -/
def trueIdx (C : Nat) : Option Nat → Nat
  | some c => c
  | none => C

def argmaxAux : List Rat → Nat → Nat → Rat → Nat
  | [], _, bi, _ => bi
  | x :: xs, i, bi, bv => if bv < x then argmaxAux xs (i + 1) i x else argmaxAux xs (i + 1) bi bv

/-- numpy `argmax`: index of the first maximal entry -/
def argmaxFirst : List Rat → Nat
  | [] => 0
  | x :: xs => argmaxAux xs 1 0 x

/-- the predicted class (with the 'none' column) is the true class -/
def correct (C : Nat) (it : Item) : Bool := argmaxFirst (withNone it.row) == trueIdx C it.y

/-- `true_class_probability` / `classification_score` -/
def tcp (it : Item) : Rat :=
  match it.y with
  | some c => it.row.getD c 0
  | none => noneScore it.row

/-! ### accuracy family -/

def accuracy (C : Nat) (items : List Item) : Rat :=
  ratio (items.countP (correct C)) items.length

/-- recall of class `c` (index with 'none' = `C`) -/
def recallOf (C : Nat) (items : List Item) (c : Nat) : Rat :=
  ratio (items.countP (fun it => trueIdx C it.y == c && correct C it))
        (items.countP (fun it => trueIdx C it.y == c))

/-- classes (incl. 'none') that occur in the truth, in increasing order -/
def presentClasses (C : Nat) (items : List Item) : List Nat :=
  (List.range (C + 1)).filter (fun c => items.any (fun it => trueIdx C it.y == c))

def balancedAccuracy (C : Nat) (items : List Item) : Rat :=
  mean ((presentClasses C items).map (recallOf C items))

/-- number of classes ranked strictly before class `c` by scikit-learn's top-k order:
    higher score first, among equal scores the higher index first -/
def rankBefore (row : List Rat) (c : Nat) : Nat :=
  row.zipIdx.countP (fun p => decide (row.getD c 0 < p.1) || (p.1 == row.getD c 0 && decide (c < p.2)))

def hitK (k C : Nat) (it : Item) : Bool :=
  decide (rankBefore (withNone it.row) (trueIdx C it.y) < k)

def topK (k C : Nat) (items : List Item) : Rat :=
  ratio (items.countP (hitK k C)) items.length

/-! ### average precision -/

/-- binary-labelled scores -/
abbrev Labelled := List (Bool × Rat)

def numPos (xs : Labelled) : Nat := xs.countP (·.1)

/-- precision at threshold `t`: positives among the examples scored at least `t` -/
def precisionAt (xs : Labelled) (t : Rat) : Rat :=
  ratio (xs.countP (fun x => x.1 && decide (t ≤ x.2))) (xs.countP (fun x => decide (t ≤ x.2)))

/-- recall at threshold `t` -/
def recallAt (xs : Labelled) (t : Rat) : Rat :=
  ratio (xs.countP (fun x => x.1 && decide (t ≤ x.2))) (numPos xs)

/-- recall at the next higher threshold = positives scored strictly above `t` -/
def recallAbove (xs : Labelled) (t : Rat) : Rat :=
  ratio (xs.countP (fun x => x.1 && decide (t < x.2))) (numPos xs)

/-- the distinct values of a list, in order of first occurrence -/
def distinct : List Rat → List Rat
  | [] => []
  | x :: xs => x :: (distinct xs).filter (fun y => y != x)

/-- the distinct thresholds -/
def thresholds (xs : Labelled) : List Rat := distinct (xs.map (·.2))

/-- `average_precision_score` on a binary problem: the step integral of the
    precision-recall curve, `Σₙ (Rₙ − Rₙ₋₁)·Pₙ` over the distinct thresholds; `0` when no
    example is positive. -/
def averagePrecision (xs : Labelled) : Rat :=
  if numPos xs = 0 then 0
  else ((thresholds xs).map (fun t => (recallAt xs t - recallAbove xs t) * precisionAt xs t)).sum

/-- the same number as the mean, over the positive examples, of the precision at their own
    score (proved equal in `Proofs/Lemmas/Metrics.lean`) -/
def apMeanPrecision (xs : Labelled) : Rat :=
  if numPos xs = 0 then 0
  else ((xs.filter (·.1)).map (fun x => precisionAt xs x.2)).sum / (numPos xs : Rat)

/-- macro average over the `C` classes of the vocabulary -/
def macroAP (C : Nat) (col : Nat → Labelled) : Rat :=
  mean ((List.range C).map (fun c => averagePrecision (col c)))

/-- rows with a label (`None` truths removed) -/
def labelled (items : List Item) : List (Nat × List Rat) :=
  items.filterMap (fun it => it.y.map (fun y => (y, it.row)))

/-- column `c` of the one-hot truth next to column `c` of the scores -/
def onehotColumn (rows : List (Nat × List Rat)) (c : Nat) : Labelled :=
  rows.map (fun r => (r.1 == c, r.2.getD c 0))

/-- `mean_average_precision` with a one-dimensional truth; `none` = `ValueError`
    (scikit-learn rejects an array with 0 samples when every truth is unlabelled) -/
def meanAveragePrecision (C : Nat) (items : List Item) : Option Rat :=
  if (labelled items).isEmpty then none
  else some (macroAP C (onehotColumn (labelled items)))

/-- a multilabel example: indicator truth and score row -/
structure MLItem where
  truth : List Bool
  row : List Rat
  deriving DecidableEq, Repr, Inhabited

def mlColumn (rows : List MLItem) (c : Nat) : Labelled :=
  rows.map (fun r => (r.truth.getD c false, r.row.getD c 0))

/-- `mean_average_precision` with a two-dimensional (indicator) truth: macro mean of the
    per-class average precision over the examples -/
def meanAveragePrecisionML (C : Nat) (rows : List MLItem) : Rat :=
  macroAP C (mlColumn rows)

/-- `average_precision` of one example (micro average over a single row = the binary
    problem whose examples are the classes of that row) -/
def exampleAP (it : MLItem) : Rat := averagePrecision (it.truth.zip it.row)

/-- the default `threshold` argument of `metrics.jaccard` (tied to the signature on every run) -/
def jaccardThreshold : Rat := 1 / 2

/-- `jaccard` of one example at threshold 1/2 -/
def jaccard (it : MLItem) : Rat :=
  let pairs := it.truth.zip (it.row.map (fun s => decide (jaccardThreshold < s)))
  let union := pairs.countP (fun p => p.1 || p.2)
  if union = 0 then 0 else ratio (pairs.countP (fun p => p.1 && p.2)) union

/-- `jaccard` with a two-dimensional input: scikit-learn's `average="samples"` = mean over the rows -/
def jaccardSamples (rows : List MLItem) : Rat := mean (rows.map jaccard)

/-- `average_precision` with a two-dimensional input: `average="micro"` = the binary problem whose
    examples are all (row, class) cells -/
def microAP (rows : List MLItem) : Rat := averagePrecision (rows.flatMap (fun r => r.truth.zip r.row))

/-! ### the clip score of the multilabel task

`multilabel_example_score` is `exp(-log_loss(y_true, y_score))` of one example with an indicator
truth.  scikit-learn's `log_loss` clips every probability to `[eps, 1 - eps]` (`eps` = the machine
epsilon of the score array's dtype, float32: 2⁻²³) and sums `-log p` over the true classes, so the
score is the *product of the clipped probabilities of the true classes* (1 when no class is true).
`exp`/`log` have no rational value: the harness compares this closed form with the float the
library returned within 2⁻¹⁸ (float32 logarithms). -/

/-- machine epsilon of float32 -/
def f32eps : Rat := 1 / 8388608

/-- `np.clip(p, eps, 1 - eps)` -/
def clipEps (p : Rat) : Rat := if p < f32eps then f32eps else if 1 - f32eps < p then 1 - f32eps else p

def prod : List Rat → Rat
  | [] => 1
  | x :: xs => x * prod xs

/-- `multilabel_example_score` of one example -/
def mlScore (it : MLItem) : Rat :=
  prod ((it.truth.zip it.row).map (fun p => if p.1 then clipEps p.2 else 1))

/-! ### metric kinds, their terms, and the tables of the four task modules -/

inductive Metric
  | balancedAccuracy | accuracy | top3Accuracy | meanAveragePrecision
  | trueClassProbability | jaccard | averagePrecision
  deriving DecidableEq, Repr, Inhabited

/-- `__name__` of the function in `soundevent.evaluation.metrics` -/
def Metric.fn : Metric → String
  | .balancedAccuracy => "balanced_accuracy"
  | .accuracy => "accuracy"
  | .top3Accuracy => "top_3_accuracy"
  | .meanAveragePrecision => "mean_average_precision"
  | .trueClassProbability => "true_class_probability"
  | .jaccard => "jaccard"
  | .averagePrecision => "average_precision"

/-- `name` of the term in `soundevent.terms.metrics` that names the metric -/
def Metric.termName : Metric → String
  | .balancedAccuracy => "soundevent_metrics:balancedAccuracy"
  | .accuracy => "stato:accuracy"
  | .top3Accuracy => "soundevent_metrics:top3Accuracy"
  | .meanAveragePrecision => "soundevent_metrics:meanAveragePrecision"
  | .trueClassProbability => "soundevent_metrics:trueClassProbability"
  | .jaccard => "soundevent_metrics:jaccard"
  | .averagePrecision => "soundevent_metrics:averagePrecision"

/-- `label` of that term (the key of the metric in an AOEF document) -/
def Metric.label : Metric → String
  | .balancedAccuracy => "Balanced Accuracy"
  | .accuracy => "Accuracy"
  | .top3Accuracy => "Top 3 Accuracy"
  | .meanAveragePrecision => "Mean Average Precision"
  | .trueClassProbability => "True Class Probability"
  | .jaccard => "Jaccard Index"
  | .averagePrecision => "Average Precision"

def Metric.all : List Metric :=
  [.balancedAccuracy, .accuracy, .top3Accuracy, .meanAveragePrecision,
   .trueClassProbability, .jaccard, .averagePrecision]

def Metric.ofFn (s : String) : Option Metric := Metric.all.find? (fun m => m.fn == s)

/-- a row of a task module's table as introspection sees it -/
structure Row where
  termName : String
  termLabel : String
  fn : String
  deriving DecidableEq, Repr, Inhabited

/-- labels (and names) pairwise distinct within the list -/
def TermsDistinct (t : List Row) : Bool :=
  decide ((t.map (·.termLabel)).Nodup) && decide ((t.map (·.termName)).Nodup)

/-- each row's term is the one that names its function (seven-row expected table above) -/
def TermMatchesFunction (t : List Row) : Bool :=
  t.all (fun r => match Metric.ofFn r.fn with
    | some m => r.termName == m.termName && r.termLabel == m.label
    | none => false)

inductive Task
  | clipClassification | clipMultilabel | soundEventClassification | soundEventDetection
  deriving DecidableEq, Repr, Inhabited

inductive Level
  | run | example | soundEvent
  deriving DecidableEq, Repr, Inhabited

/-- which metrics the task computes at which level (`RUN_METRICS`, `EXAMPLE_METRICS`,
    `SOUNDEVENT_METRICS`; clip tasks have no sound-event level) -/
def taskMetrics : Task → Level → List Metric
  | .clipClassification, .run => [.balancedAccuracy, .accuracy, .top3Accuracy]
  | .clipClassification, .example => [.trueClassProbability]
  | .clipClassification, .soundEvent => []
  | .clipMultilabel, .run => [.meanAveragePrecision]
  | .clipMultilabel, .example => [.jaccard, .averagePrecision]
  | .clipMultilabel, .soundEvent => []
  | .soundEventClassification, .run => [.balancedAccuracy, .accuracy, .top3Accuracy]
  | .soundEventClassification, .example => []
  | .soundEventClassification, .soundEvent => [.trueClassProbability]
  | .soundEventDetection, .run => [.meanAveragePrecision, .balancedAccuracy, .accuracy, .top3Accuracy]
  | .soundEventDetection, .example => []
  | .soundEventDetection, .soundEvent => [.trueClassProbability]

/-- the table of the code agrees with the model's driver: same functions in the same order -/
def TableAgrees (task : Task) (lvl : Level) (t : List Row) : Bool :=
  t.map (·.fn) == (taskMetrics task lvl).map (·.fn)

/-- the table of the code lists the same functions as the model's driver, in any order (the order
    of the metrics within a list is not part of the property) -/
def TableAgreesPerm (task : Task) (lvl : Level) (t : List Row) : Bool :=
  (t.map (·.fn)).isPerm ((taskMetrics task lvl).map (·.fn))

/-! ### what a task returns -/

/-- a metric list as `(term label, value)` -/
abbrev Features := List (String × Rat)

structure MatchOut where
  src : Option Nat        -- index of the predicted sound event in the clip's prediction list
  tgt : Option Nat        -- index of the annotated sound event in the clip's annotation list
  affinity : Rat
  score : Option Rat
  metrics : Features
  deriving DecidableEq, Repr, Inhabited

structure ClipOut where
  clip : Nat              -- clip id
  metrics : Features
  score : Option Rat
  mts : List MatchOut      -- the matches
  deriving DecidableEq, Repr, Inhabited

structure EvalOut where
  metrics : Features
  score : Rat
  clips : List ClipOut
  deriving DecidableEq, Repr, Inhabited

/-- value of a run-level metric of a single-label task; `none` = the metric function raises -/
def runMetricSL (C : Nat) (items : List Item) : Metric → Option Rat
  | .balancedAccuracy => some (balancedAccuracy C items)
  | .accuracy => some (accuracy C items)
  | .top3Accuracy => some (topK 3 C items)
  | .meanAveragePrecision => meanAveragePrecision C items
  | _ => none

/-- value of an item-level metric of a single-label task -/
def itemMetricSL (it : Item) : Metric → Option Rat
  | .trueClassProbability => some (tcp it)
  | _ => none

/-- value of an example-level metric of the multilabel task -/
def itemMetricML (it : MLItem) : Metric → Option Rat
  | .jaccard => some (jaccard it)
  | .averagePrecision => some (exampleAP it)
  | _ => none

/-- evaluate a list of metrics; `ValueError` when one of them raises -/
def features (ms : List Metric) (f : Metric → Option Rat) : Except Err Features :=
  ms.mapM (fun m => match f m with
    | some v => .ok (m.label, v)
    | none => .error .invalid)

/-- `_compute_overall_score`: mean of the clip scores that are not `None`, `0.0` if none -/
def overallScore (clips : List ClipOut) : Rat :=
  let ss := clips.filterMap (·.score)
  if ss.isEmpty then 0 else mean ss

/-! ### pairing of clips (`tasks/common.py iterate_over_valid_clips`) -/

/-- a dictionary built by a comprehension: the last entry for a key wins -/
def lookupLast {α} (k : Nat) (xs : List (Nat × α)) : Option α :=
  (xs.reverse.find? (fun p => p.1 == k)).map (·.2)

/-- iterate over the predictions, in order, keeping those whose clip id is annotated -/
def pairClips {α β} (preds : List (Nat × α)) (anns : List (Nat × β)) : List (Nat × β × α) :=
  preds.filterMap (fun p => (lookupLast p.1 anns).map (fun a => (p.1, a, p.2)))

/-! ### clip_classification -/

structure CCPred where
  tags : List (Option Nat × Rat)
  deriving Repr, Inhabited
structure CCAnn where
  tags : List (Option Nat)
  deriving Repr, Inhabited

def ccItem (C : Nat) (a : CCAnn) (p : CCPred) : Item := ⟨classEnc a.tags, predEnc C p.tags⟩

def ccClip (C : Nat) (x : Nat × CCAnn × CCPred) : Except Err ClipOut := do
  let it := ccItem C x.2.1 x.2.2
  let fs ← features (taskMetrics .clipClassification .example) (itemMetricSL it)
  return { clip := x.1, metrics := fs, score := some (tcp it), mts := [] }

/-- `clip_classification`.  No evaluated clip: the metric functions raise (outside the
    property's quantifier); a one-tag vocabulary is fine once `top_3_accuracy` no longer goes
    through scikit-learn's binary special case. -/
def clipClassification (C : Nat) (preds : List (Nat × CCPred)) (anns : List (Nat × CCAnn)) :
    Except Err EvalOut := do
  let pairs := pairClips preds anns
  let clips ← pairs.mapM (ccClip C)
  let items := pairs.map (fun x => ccItem C x.2.1 x.2.2)
  if items.isEmpty then throw .invalid
  let fs ← features (taskMetrics .clipClassification .run) (runMetricSL C items)
  return { metrics := fs, score := overallScore clips, clips := clips }

/-! ### clip_multilabel_classification -/

def mlItem (C : Nat) (a : CCAnn) (p : CCPred) : MLItem := ⟨multiEnc C a.tags, predEnc C p.tags⟩

/-- value of the run-level metric of the multilabel task -/
def runMetricML (C : Nat) (rows : List MLItem) : Metric → Option Rat
  | .meanAveragePrecision => some (meanAveragePrecisionML C rows)
  | _ => none

/-- `clip_multilabel_classification`.  The clip score is `exp(-log_loss)`, which has no
    rational value: the scores the code computed are a parameter (`clipScores`, in the order of
    the evaluated clips) and only their aggregation is modelled.  A one-tag vocabulary raises
    inside scikit-learn (`jaccard_score`, `log_loss`): `ValueError`. -/
def clipMultilabel (C : Nat) (preds : List (Nat × CCPred)) (anns : List (Nat × CCAnn))
    (clipScores : List Rat) : Except Err EvalOut := do
  let pairs := pairClips preds anns
  if pairs.isEmpty then throw .invalid
  if C ≤ 1 then throw .invalid
  let rows := pairs.map (fun x => mlItem C x.2.1 x.2.2)
  let clips ← (pairs.zip clipScores).mapM (fun (x, s) => do
    let fs ← features (taskMetrics .clipMultilabel .example) (itemMetricML (mlItem C x.2.1 x.2.2))
    return ({ clip := x.1, metrics := fs, score := some s, mts := [] } : ClipOut))
  let fs ← features (taskMetrics .clipMultilabel .run) (runMetricML C rows)
  return { metrics := fs, score := overallScore clips, clips := clips }

/-! ### sound_event_classification -/

structure SEPred where
  id : Nat                          -- uuid of the sound event
  hasGeom : Bool := true
  tags : List (Option Nat × Rat)
  deriving Repr, Inhabited
structure SEAnn where
  id : Nat
  hasGeom : Bool := true
  tags : List (Option Nat)
  deriving Repr, Inhabited

def seItem (C : Nat) (a : SEAnn) (p : SEPred) : Item := ⟨classEnc a.tags, predEnc C p.tags⟩

/-- the clip's matches: the predicted sound events, in order, whose sound event is annotated
    in the clip (`(source index, target index, item)`) -/
def secMatches (C : Nat) (anns : List SEAnn) (preds : List SEPred) : List (Nat × Nat × Item) :=
  preds.zipIdx.filterMap (fun (p, i) =>
    (lookupLast p.id (anns.zipIdx.map (fun (a, j) => (a.id, (a, j))))).map
      (fun (a, j) => (i, j, seItem C a p)))

def secMatchOut (m : Nat × Nat × Item) : Except Err MatchOut := do
  let fs ← features (taskMetrics .soundEventClassification .soundEvent) (itemMetricSL m.2.2)
  return { src := some m.1, tgt := some m.2.1, affinity := 1, score := some (tcp m.2.2), metrics := fs }

/-- `ClipEvaluation`'s validator accepts the matches of a clip only when every predicted and every
    annotated sound event of the clip is in exactly one of them: every prediction found its
    annotation (`nP` matches) and every annotation position is the target of exactly one match -/
def secCovered (nP nA : Nat) (ms : List (Nat × Nat × Item)) : Bool :=
  ms.length == nP && (List.range nA).all (fun j => (ms.map (·.2.1)).count j == 1)

/-- one clip of `sound_event_classification`: a clip without evaluated sound event has no
    score (`None`), it is then left out of the overall mean.  When the predictions and the
    annotations of the clip do not refer to the same sound events one-to-one the construction of
    the `ClipEvaluation` fails (`ValueError` of its validator). -/
def secClip (C : Nat) (x : Nat × List SEAnn × List SEPred) : Except Err (ClipOut × List Item) := do
  let ms := secMatches C x.2.1 x.2.2
  if !(secCovered x.2.2.length x.2.1.length ms) then throw .invalid
  let outs ← ms.mapM secMatchOut
  let scores := ms.map (fun m => tcp m.2.2)
  let score := if scores.isEmpty then none else some (mean scores)
  return ({ clip := x.1, metrics := [], score := score, mts := outs }, ms.map (·.2.2))

def soundEventClassification (C : Nat) (preds : List (Nat × List SEPred))
    (anns : List (Nat × List SEAnn)) : Except Err EvalOut := do
  let rs ← (pairClips preds anns).mapM (secClip C)
  let items := (rs.map (·.2)).flatten
  if items.isEmpty then throw .invalid
  let fs ← features (taskMetrics .soundEventClassification .run) (runMetricSL C items)
  let clips := rs.map (·.1)
  return { metrics := fs, score := overallScore clips, clips := clips }

/-! ### the AOEF representation of a metric list: a mapping keyed by the term's label -/

/-- `{key_from_term(m.term): m.value for m in metrics}`: a later entry with the same label
    overwrites the value of the earlier one (the key keeps its first position) -/
def dictInsert (d : Features) (k : String) (v : Rat) : Features :=
  if d.any (fun p => p.1 == k) then d.map (fun p => if p.1 == k then (k, v) else p) else d ++ [(k, v)]

def toDict (fs : Features) : Features := fs.foldl (fun d p => dictInsert d p.1 p.2) []

/-- loading turns every `(key, value)` of the mapping back into a feature, in order -/
def fromDict (d : Features) : Features := d

end SE.Metrics
