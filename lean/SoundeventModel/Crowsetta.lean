/-
  C10: the crowsetta converters of `soundevent/io/crowsetta/{labels,segment,bbox,sequence,annotation}.py`.

  * `labelToTags`, `labelFromTag`, `labelFromTags`: the two label cascades as priority cascades
    over an options record.  A user supplied function is a Lean function into `Except Err _`
    (absent / returns / raises).  The definitions follow the code *after* the three `fix:` patches
    `fixes/C10-{1,2,3}-*.patch`; namespace `Pinned` keeps the cascades of the pinned commit, so
    that the defects are theorems (`Proofs/C10.lean`, `C10_pinned_*`).
  * `segTimes`, `boxCoords`: the time / frequency arithmetic of the importers (tied to the source
    for all inputs by symbolic tracing), `importSegment`, `importBBox`, `importSequence`,
    `importAnnotation`.
  * `exportSegment`, `exportBBox` (bounds of any geometry, `int(time * samplerate)`, Nyquist cap,
    the cast / raise switches, crowsetta's own `BBox` validators), `exportSequence`,
    `exportAnnotation` with the `ignore_errors` policy.

  Numbers are `Rat`; sample rates are positive integers in the code (`Recording.samplerate : int`),
  here a `Rat` so that the arithmetic can be tied symbolically.  Division by a zero
  `time_expansion` / `samplerate` (`ZeroDivisionError` in Python, `x / 0 = 0` in Lean) is outside
  the model: every theorem that depends on it carries `te ≠ 0` / `sr ≠ 0` as a hypothesis and the
  harness never sends such a recording.
-/
import SoundeventModel.Geometry
namespace SE.Crowsetta

/-! ## terms, tags -/

/-- `data.Term` restricted to its three required fields (the harness only builds such terms) -/
structure Term where
  label : String
  name : String
  defn : String
  deriving DecidableEq, Repr, Inhabited

structure Tag where
  term : Term
  value : String
  deriving DecidableEq, Repr, Inhabited

/-- `data.term_from_key` -/
def termFromKey (k : String) : Term := { label := k, name := "soundevent:" ++ k, defn := "Unknown" }
/-- `data.key_from_term` -/
def keyFromTerm (t : Term) : String := t.label

/-- what a `tag_fn` / a `tag_mapping` entry holds: one tag or a list of tags -/
inductive TagRes
  | single (t : Tag)
  | many (ts : List Tag)
  deriving DecidableEq, Repr, Inhabited

/-- `tags if isinstance(tags, list) else [tags]` -/
def TagRes.toList : TagRes → List Tag
  | .single t => [t]
  | .many ts => ts

/-! ## label → tags -/

/-- keyword arguments of `label_to_tags` -/
structure LabelOpts where
  tagFn : Option (String → Except Err TagRes) := none
  tagMapping : Option (List (String × TagRes)) := none
  termMapping : Option (List (String × Term)) := none
  keyMapping : Option (List (String × String)) := none
  key : Option String := none
  term : Option Term := none
  fallback : String := "crowsetta"
  emptyLabels : List String := ["__empty__"]

/-- dictionary lookup of an optional mapping: `m is not None and label in m` -/
def hit {β} (m : Option (List (String × β))) (label : String) : Option β := m.bind (·.lookup label)

/-- the function rung: `none` = no function or it raised `ValueError` (caught, falls through);
    any other exception propagates -/
def fnRung (o : LabelOpts) (label : String) : Option (Except Err (List Tag)) :=
  match o.tagFn with
  | none => none
  | some f =>
    match f label with
    | .ok r => some (.ok r.toList)
    | .error .invalid => none
    | .error e => some (.error e)

/-- rungs 5–6 of the docstring: key mapping hit, else explicit key, else fallback -/
def chooseKey (o : LabelOpts) (label : String) : String :=
  match hit o.keyMapping label with
  | some k => k
  | none => o.key.getD o.fallback

/-- `label_to_tags` (repaired tree) -/
def labelToTags (o : LabelOpts) (label : String) : Except Err (List Tag) :=
  if label ∈ o.emptyLabels then .ok []
  else
    match fnRung o label with
    | some r => r
    | none =>
      match hit o.termMapping label with
      | some t => .ok [⟨t, label⟩]
      | none =>
        match hit o.tagMapping label with
        | some r => .ok r.toList
        | none =>
          match o.term with
          | some t => .ok [⟨t, label⟩]
          | none => .ok [⟨termFromKey (chooseKey o label), label⟩]

/-! ## tag(s) → label -/

/-- keyword arguments that `label_from_tags` passes on to `label_from_tag` (`separator` is
    consumed by `label_from_tags` itself and can therefore never reach `label_from_tag`) -/
structure TagKw where
  labelFn : Option (Tag → Except Err String) := none
  labelMapping : Option (List (Tag × String)) := none
  valueOnly : Option Bool := none      -- keyword absent / given

/-- `label_from_tag(tag, **kw, separator=sep)` -/
def labelFromTag (kw : TagKw) (sep : String) (t : Tag) : Except Err String :=
  match kw.labelFn with
  | some f => f t
  | none =>
    match kw.labelMapping.bind (·.lookup t) with
    | some l => .ok l
    | none =>
      if kw.valueOnly.getD false then .ok t.value
      else .ok (keyFromTerm t.term ++ sep ++ t.value)

/-- keyword arguments of `label_from_tags` -/
structure TagsOpts where
  seqLabelFn : Option (List Tag → Except Err String) := none
  selectByKey : Option String := none
  index : Option Int := none
  separator : String := ","
  emptyLabel : String := "__empty__"
  kw : TagKw := {}

/-- the key–value separator `label_from_tag` is left with when called through `label_from_tags` -/
def tagSep : String := ":"

/-- `label_from_tags` (repaired tree) -/
def labelFromTags (o : TagsOpts) (tags : List Tag) : Except Err String :=
  match o.seqLabelFn with
  | some f => f tags
  | none =>
    if tags.isEmpty then .ok o.emptyLabel
    else
      match o.selectByKey with
      | some k =>
        match tags.find? (fun t => keyFromTerm t.term == k) with
        | none => .ok o.emptyLabel
        | some t => labelFromTag { o.kw with valueOnly := some true } tagSep t
      | none =>
        match o.index with
        | some i =>
          match tags[(i % (tags.length : Int)).toNat]? with
          | some t => labelFromTag o.kw tagSep t
          | none => .error .key        -- IndexError: unreachable (`C10_from_tags_index`)
        | none => (tags.mapM (labelFromTag o.kw tagSep)).map (String.intercalate o.separator)

/-! ## the cascades of the pinned commit (before the `fix:` patches) -/
namespace Pinned

def labelToTags (o : LabelOpts) (label : String) : Except Err (List Tag) :=
  if label ∈ o.emptyLabels then .ok []
  else
    match fnRung o label with
    | some r => r
    | none =>
      -- `if term_mapping is not None: if label in term_mapping: term = term_mapping[label]`
      let term : Option Term := match hit o.termMapping label with
        | some t => some t
        | none => o.term
      -- `if term is None and tag_mapping is not None: if label in tag_mapping: return …`
      match (if term.isNone then hit o.tagMapping label else none) with
      | some r => .ok r.toList
      | none =>
        -- `if term is None and key_mapping is not None: key = key_mapping.get(label)`
        let key : Option String :=
          if term.isNone ∧ o.keyMapping.isSome then hit o.keyMapping label else o.key
        let key := key.getD o.fallback
        .ok [⟨term.getD (termFromKey key), label⟩]

/-- `label_from_tag(tag, value_only=True, **kwargs)`: a `value_only` among the keyword
    arguments is a duplicate keyword → `TypeError` -/
def labelFromTags (o : TagsOpts) (tags : List Tag) : Except Err String :=
  match o.seqLabelFn with
  | some f => f tags
  | none =>
    if tags.isEmpty then .ok o.emptyLabel
    else
      match o.selectByKey with
      | some k =>
        match tags.find? (fun t => keyFromTerm t.term == k) with
        | none => .ok o.emptyLabel
        | some t =>
          if o.kw.valueOnly.isSome then .error .type
          else labelFromTag { o.kw with valueOnly := some true } tagSep t
      | none =>
        match o.index with
        | some i =>
          match tags[(i % (tags.length : Int)).toNat]? with
          | some t => labelFromTag o.kw tagSep t
          | none => .error .key
        | none => (tags.mapM (labelFromTag o.kw tagSep)).map (String.intercalate o.separator)

end Pinned

/-! ## crowsetta objects and recordings -/

/-- `crowsetta.Segment` -/
structure Segment where
  label : String
  onsetS : Option Rat
  offsetS : Option Rat
  onsetSample : Option Int
  offsetSample : Option Int
  deriving DecidableEq, Repr, Inhabited

/-- `crowsetta.BBox` -/
structure BBox where
  onset : Rat
  offset : Rat
  lowFreq : Rat
  highFreq : Rat
  label : String
  deriving DecidableEq, Repr, Inhabited

/-- the fields of `data.Recording` the converters read -/
structure Rec where
  samplerate : Rat
  te : Rat               -- time_expansion
  path : String := "rec.wav"
  deriving DecidableEq, Repr, Inhabited

/-- a `SoundEventAnnotation` as far as the property pins it: geometry (may be absent) and tags -/
structure Ann where
  geom : Option Geom
  tags : List Tag
  deriving DecidableEq, Repr, Inhabited

/-! ## import: time / frequency arithmetic -/

/-- onset (or offset) in seconds of the *file*: the seconds field if present, else the sample
    index over `samplerate / time_expansion`; `none` = `ValueError` (neither given) -/
def fileTime (sec sample : Option Rat) (sr te : Rat) : Option Rat :=
  match sec with
  | some s => some s
  | none =>
    match sample with
    | none => none
    | some n => some (n / (sr / te))

/-- `if adjust_time_expansion and recording.time_expansion != 1: t = t / time_expansion` -/
def adjTime (adjust : Bool) (te t : Rat) : Rat := if adjust = true ∧ te ≠ 1 then t / te else t
/-- `… f = f * time_expansion` -/
def adjFreq (adjust : Bool) (te f : Rat) : Rat := if adjust = true ∧ te ≠ 1 then f * te else f

/-- coordinates handed to `data.TimeInterval` by `segment_to_annotation` -/
def segTimes (os oe ns ne : Option Rat) (sr te : Rat) (adjust : Bool) : Option (Rat × Rat) :=
  match fileTime os ns sr te with
  | none => none
  | some a =>
    match fileTime oe ne sr te with
    | none => none
    | some b => some (adjTime adjust te a, adjTime adjust te b)

/-- coordinates handed to `data.BoundingBox` by `bbox_to_annotation`: (start, low, end, high) -/
def boxCoords (onset offset low high te : Rat) (adjust : Bool) : Rat × Rat × Rat × Rat :=
  (adjTime adjust te onset, adjFreq adjust te low, adjTime adjust te offset, adjFreq adjust te high)

/-- `data.TimeInterval(coordinates=[s, e])`: start ≤ end, both non-negative -/
def mkInterval (s e : Rat) : Except Err Geom :=
  if s > e ∨ s < 0 ∨ e < 0 then .error .invalid else .ok (.timeInterval s e)

/-- `data.BoundingBox(coordinates=[s, l, e, h])`: range checks, then reversed pairs are swapped -/
def mkBox (s l e h : Rat) : Except Err Geom :=
  if s < 0 ∨ l < 0 ∨ l > MAXF ∨ e < 0 ∨ h < 0 ∨ h > MAXF then .error .invalid
  else .ok (.boundingBox (if s > e then e else s) (if l > h then h else l)
                         (if s > e then s else e) (if l > h then l else h))

def ratOfInt (n : Int) : Rat := n

/-- `segment_to_annotation` -/
def importSegment (o : LabelOpts) (adjust : Bool) (r : Rec) (s : Segment) : Except Err Ann :=
  match segTimes s.onsetS s.offsetS (s.onsetSample.map ratOfInt) (s.offsetSample.map ratOfInt)
      r.samplerate r.te adjust with
  | none => .error .invalid
  | some (a, b) => do
    let g ← mkInterval a b
    let tags ← labelToTags o s.label
    return ⟨some g, tags⟩

/-- `bbox_to_annotation` -/
def importBBox (o : LabelOpts) (adjust : Bool) (r : Rec) (b : BBox) : Except Err Ann :=
  match boxCoords b.onset b.offset b.lowFreq b.highFreq r.te adjust with
  | (s, l, e, h) => do
    let g ← mkBox s l e h
    let tags ← labelToTags o b.label
    return ⟨some g, tags⟩

/-- `sequence_to_annotations`: one annotation per segment, in order; the first error is raised -/
def importSequence (o : LabelOpts) (adjust : Bool) (r : Rec) (segs : List Segment) :
    Except Err (List Ann) :=
  segs.mapM (importSegment o adjust r)

/-! ## export -/

/-- Python's `int()` of a float: truncation towards zero -/
def pyInt (q : Rat) : Int := if 0 ≤ q then q.floor else q.ceil

/-- `convert_time_to_sample` -/
def timeToSample (sr t : Rat) : Int := pyInt (t * sr)

/-- `convert_geometry_to_interval` -/
def geomToInterval (g : Geom) (cast : Bool) : Except Err (Rat × Rat) :=
  match g with
  | .timeInterval s e => .ok (s, e)
  | g =>
    if !cast then .error .invalid
    else
      match g.bounds with
      | none => .error .invalid          -- a geometry without points is never valid
      | some b =>
        match mkInterval b.st b.en with  -- `data.TimeInterval(coordinates=[start, end])`
        | .ok _ => .ok (b.st, b.en)
        | .error e => .error e

/-- `segment_from_annotation` -/
def exportSegment (o : TagsOpts) (cast : Bool) (sr : Rat) (a : Ann) : Except Err Segment :=
  match a.geom with
  | none => .error .invalid
  | some g => do
    let (s, e) ← geomToInterval g cast
    let label ← labelFromTags o a.tags
    return ⟨label, some s, some e, some (timeToSample sr s), some (timeToSample sr e)⟩

def isTimeGeom : Geom → Bool
  | .timeStamp _ => true
  | .timeInterval .. => true
  | _ => false

def isBoxGeom : Geom → Bool
  | .boundingBox .. => true
  | _ => false

/-- `convert_geometry_to_bbox` -/
def geomToBounds (g : Geom) (cast raiseTime : Bool) : Except Err Bounds :=
  if !isBoxGeom g ∧ !cast then .error .invalid
  else if isTimeGeom g ∧ raiseTime then .error .invalid
  else
    match g.bounds with
    | none => .error .invalid
    | some b => .ok b

/-- the validators of `crowsetta.BBox` (attrs): all fields non-negative, onset < offset,
    low_freq < high_freq; `ValueError` otherwise -/
def mkBBox (onset offset low high : Rat) (label : String) : Except Err BBox :=
  if onset < 0 ∨ ¬ onset < offset ∨ offset < 0 ∨ low < 0 ∨ ¬ low < high ∨ high < 0 then .error .invalid
  else .ok ⟨onset, offset, low, high, label⟩

/-- `bbox_from_annotation` -/
def exportBBox (o : TagsOpts) (cast raiseTime : Bool) (sr : Rat) (a : Ann) : Except Err BBox :=
  match a.geom with
  | none => .error .invalid
  | some g => do
    let b ← geomToBounds g cast raiseTime
    let high := min b.hi (sr / 2)
    let label ← labelFromTags o a.tags
    mkBBox b.st b.en b.lo high label

/-! ## export: the decisions of the converters as functions of the geometry's type tag
    (tied to the source by symbolic tracing for every type × switch combination) -/

/-- the numbers `segment_from_annotation` hands to `crowsetta.Segment` for the time span `(s, e)`:
    the two seconds fields and the two arguments of `int()` (the sample fields are `pyInt` of them) -/
def segFields (sr s e : Rat) : Rat × Rat × Rat × Rat := (s, e, s * sr, e * sr)

/-- the time span `convert_geometry_to_interval` chooses, as a function of the geometry's type tag,
    the coordinates `(s, e)` of a `TimeInterval` and the bounds `compute_bounds` returned; `none` =
    `ValueError`.  (pydantic's validation of the cast interval is `mkInterval`, see `geomToInterval`.) -/
def spanOf (tag : String) (cast : Bool) (s e : Rat) (b : Bounds) : Option (Rat × Rat) :=
  if tag = "TimeInterval" then some (s, e) else if cast = true then some (b.st, b.en) else none

/-- `convert_geometry_to_bbox` raises `ValueError`: decided by the type tag and the two switches -/
def boxRefused (tag : String) (cast raiseTime : Bool) : Bool :=
  (tag != "BoundingBox" && !cast) || ((tag == "TimeInterval" || tag == "TimeStamp") && raiseTime)

/-- `bbox_from_annotation` after `compute_bounds` returned `b`: the switches, the Nyquist cap and
    crowsetta's own validators -/
def boxOf (tag : String) (cast raiseTime : Bool) (b : Bounds) (sr : Rat) (label : String) : Except Err BBox :=
  if boxRefused tag cast raiseTime = true then .error .invalid
  else mkBBox b.st b.en b.lo (min b.hi (sr / 2)) label

/-- the loop of `sequence_from_annotations` / `annotation_from_clip_annotation`: results in
    order; a `ValueError` is skipped when `ignore_errors`, every other error (and a `ValueError`
    when not ignoring) is raised at the first element that produces it -/
def collect {α β} (f : α → Except Err β) (ignore : Bool) : List α → Except Err (List β)
  | [] => .ok []
  | a :: as =>
    match f a with
    | .ok b =>
      match collect f ignore as with
      | .ok bs => .ok (b :: bs)
      | .error e => .error e
    | .error e => if e = .invalid ∧ ignore = true then collect f ignore as else .error e

/-- `sequence_from_annotations` (the segments of the resulting `crowsetta.Sequence`) -/
def exportSequence (o : TagsOpts) (cast ignore : Bool) (sr : Rat) (anns : List Ann) :
    Except Err (List Segment) :=
  collect (exportSegment o cast sr) ignore anns

/-! ## annotation level -/

/-- `crowsetta.Annotation`: the notated path, the boxes and the sequence(s) -/
structure CrowAnn where
  notatedPath : Option String
  bboxes : List BBox
  seqs : List (List Segment)
  deriving DecidableEq, Repr, Inhabited

inductive Fmt
  | bbox | seq | other
  deriving DecidableEq, Repr, Inhabited

/-- `annotation_from_clip_annotation`; `raiseTime` is `raise_on_time_geometries` as it reaches
    `bbox_from_annotation` through `**kwargs` (default `true`) -/
def exportAnnotation (o : TagsOpts) (fmt : Fmt) (ignore cast raiseTime : Bool) (r : Rec)
    (anns : List Ann) : Except Err CrowAnn :=
  match fmt with
  | .bbox => do
    let boxes ← collect (exportBBox o cast raiseTime r.samplerate) ignore anns
    return ⟨some r.path, boxes, []⟩
  | .seq => do
    let segs ← exportSequence o cast ignore r.samplerate anns
    return ⟨some r.path, [], [segs]⟩
  | .other => .error .invalid

/-- the parts of the resulting `ClipAnnotation` the property pins: the sound event annotations
    in order and, per crowsetta sequence, the sound events of the `SequenceAnnotation` -/
structure ClipAnn where
  soundEvents : List Ann
  sequences : List (List Ann)
  deriving DecidableEq, Repr, Inhabited

def importSeqs (o : LabelOpts) (adjust : Bool) (r : Rec) :
    List (List Segment) → Except Err (List (List Ann))
  | [] => .ok []
  | s :: ss => do
    let a ← importSequence o adjust r s
    let as ← importSeqs o adjust r ss
    return a :: as

/-- `annotation_to_clip_annotation` with a recording given -/
def importAnnotation (o : LabelOpts) (adjust : Bool) (r : Rec) (ca : CrowAnn) : Except Err ClipAnn :=
  match (match ca.notatedPath with | some p => decide (p ≠ r.path) | none => false) with
  | true => .error .invalid
  | false => do
    let boxes ← ca.bboxes.mapM (importBBox o adjust r)
    let seqs ← importSeqs o adjust r ca.seqs
    return ⟨boxes ++ seqs.flatten, seqs⟩

/-- `annotation_to_clip_annotation(annot, recording=None, recording_kwargs=…)`: the recording is
    loaded from the notated path by `Recording.from_file` (outside the model: the parameter `load`;
    its contract `(load p).path = p` is a hypothesis of the theorems and is evaluated at run time);
    no notated path is a `ValueError` -/
def importAnnotationLoad (o : LabelOpts) (adjust : Bool) (load : String → Rec) (ca : CrowAnn) :
    Except Err ClipAnn :=
  match ca.notatedPath with
  | none => .error .invalid
  | some p => importAnnotation o adjust (load p) ca

/-! ## export after import (the round trip of the property) -/

def roundtripSegment (io : LabelOpts) (eo : TagsOpts) (adjust cast : Bool) (r : Rec) (s : Segment) :
    Except Err Segment := do
  let a ← importSegment io adjust r s
  exportSegment eo cast r.samplerate a

def roundtripBBox (io : LabelOpts) (eo : TagsOpts) (adjust cast raiseTime : Bool) (r : Rec) (b : BBox) :
    Except Err BBox := do
  let a ← importBBox io adjust r b
  exportBBox eo cast raiseTime r.samplerate a

def roundtripSequence (io : LabelOpts) (eo : TagsOpts) (adjust cast ignore : Bool) (r : Rec)
    (segs : List Segment) : Except Err (List Segment) := do
  let as ← importSequence io adjust r segs
  exportSequence eo cast ignore r.samplerate as

def roundtripAnnotation (io : LabelOpts) (eo : TagsOpts) (fmt : Fmt) (adjust ignore cast raiseTime : Bool)
    (r : Rec) (ca : CrowAnn) : Except Err CrowAnn := do
  let c ← importAnnotation io adjust r ca
  exportAnnotation eo fmt ignore cast raiseTime r c.soundEvents

/-- "reproduces onsets, offsets and labels": the seconds that were given come back, sample
    indices are `int(seconds * samplerate)`; a segment given in samples only gets its samples back -/
def rtEndOk (sr : Rat) (xs : Option Rat) (xn : Option Int) (ys : Option Rat) (yn : Option Int) : Bool :=
  match xs with
  | some a => decide (ys = some a) && decide (yn = some (timeToSample sr a))
  | none => decide (yn = xn) && decide (ys = xn.map (fun n => ratOfInt n / sr))

def rtSegmentOk (sr : Rat) (x y : Segment) : Bool :=
  decide (y.label = x.label) && rtEndOk sr x.onsetS x.onsetSample y.onsetS y.onsetSample &&
    rtEndOk sr x.offsetS x.offsetSample y.offsetS y.offsetSample

def rtSeqOk (sr : Rat) : List Segment → List Segment → Bool
  | [], [] => true
  | x :: xs, y :: ys => rtSegmentOk sr x y && rtSeqOk sr xs ys
  | _, _ => false

def rtSeqsOk (sr : Rat) : List (List Segment) → List (List Segment) → Bool
  | [], [] => true
  | x :: xs, y :: ys => rtSeqOk sr x y && rtSeqsOk sr xs ys
  | _, _ => false

/-- annotation level: same notated path, the same boxes in the same order, the sequence
    reproduced segment by segment -/
def rtAnnOk (sr : Rat) (x y : CrowAnn) : Bool :=
  decide (y.notatedPath = x.notatedPath) && decide (y.bboxes = x.bboxes) && rtSeqsOk sr x.seqs y.seqs

/-! ## defaults of the keyword arguments (re-extracted from the signatures on every run) -/

structure Defaults where
  fallback : String
  emptyLabel : String            -- `EMPTY_LABEL`, default of `empty_labels` and `empty_label`
  tagSeparator : String          -- `label_from_tag(separator=)`
  joinSeparator : String         -- `label_from_tags(separator=)`
  valueOnly : Bool
  segCast : Bool                 -- `segment_from_annotation(cast_to_segment=)`
  seqCast : Bool
  seqIgnore : Bool               -- `sequence_from_annotations(ignore_errors=)`
  boxCast : Bool
  boxRaiseTime : Bool
  annIgnore : Bool
  annCast : Bool
  adjust : Bool                  -- all four importers agree (checked by the harness)
  deriving DecidableEq, Repr

def defaults : Defaults :=
  { fallback := "crowsetta", emptyLabel := "__empty__", tagSeparator := ":", joinSeparator := ",",
    valueOnly := false, segCast := true, seqCast := true, seqIgnore := false, boxCast := true,
    boxRaiseTime := true, annIgnore := true, annCast := true, adjust := true }

/-- the defaults of the option records above are the ones of the signatures -/
def defaultsAgree : Bool :=
  ({} : LabelOpts).fallback = defaults.fallback ∧ ({} : LabelOpts).emptyLabels = [defaults.emptyLabel] ∧
  ({} : TagsOpts).separator = defaults.joinSeparator ∧ ({} : TagsOpts).emptyLabel = defaults.emptyLabel ∧
  tagSep = defaults.tagSeparator ∧ ({} : TagKw).valueOnly.getD false = defaults.valueOnly

end SE.Crowsetta
