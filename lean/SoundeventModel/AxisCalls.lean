/-
  C16 (follow-up: histories and construction paths).

  * **RangeCall forms.**  The order and the names of the parameters of the five public functions are API:
    `create_range_dim(name, start, stop, step, size, dtype, **attrs)` may be called positionally, by
    keyword, or with any mixture.  `bindParams` is Python's binding of a call to a signature table
    (positional arguments first, the remaining parameters by keyword, then defaults); the reference
    tables `rangeSig` … `setSig` are the documented signatures.  The tables are re-extracted from the
    imported functions on every run (`inspect.signature`, Tie 1) and must be these tables;
    `C16_call_forms` proves that under a table with distinct names every split of the arguments into
    a positional prefix and keywords binds every parameter to the same value.
  * **Histories.**  `RangeCall` / `callModel`: the five functions as one pure function of the content of
    their arguments (`C16_history`: an implementation with whatever state agrees on every sequence of
    calls iff it is history free).  `session` / `contentAfter`: consecutive writes into one live array
    (`C16_session`).
-/
import SoundeventModel.Axis
import SoundeventModel.AxisKernel
import SoundeventModel.History
namespace SE.Axis

/-! ## call forms -/

/-- one positional-or-keyword parameter of a signature: its name, whether it has no default, and the
    default as written (`None`, `True`, a string, the name of a type; empty when there is none) -/
structure Param where
  name : String
  required : Bool
  dflt : String
  deriving DecidableEq, Repr

/-- a parameter without default / with the default `d` -/
def Param.req (n : String) : Param := ⟨n, true, ""⟩
def Param.opt (n d : String) : Param := ⟨n, false, d⟩

/-- a signature table: the positional-or-keyword parameters in order, and whether `**kwargs` follows -/
structure Sig where
  params : List Param
  varkw : Bool
  deriving DecidableEq, Repr

inductive BindErr
  | tooMany      -- more positional arguments than parameters
  | multiple     -- a parameter given positionally and by keyword
  | missing      -- a parameter without default not given
  | unexpected   -- an unknown keyword and no `**kwargs`
  deriving DecidableEq, Repr

/-- Python's binding of a call: positional arguments go to the parameters in order; a parameter
    that got no positional argument takes the keyword argument of its name, else its default
    (`none`), else the call is a `TypeError`.  The result lists every parameter, in the order of the
    table, with the value it was bound to. -/
def bindParams {α : Type} : List Param → List α → List (String × α) → Except BindErr (List (String × Option α))
  | [], [], _ => .ok []
  | [], _ :: _, _ => .error .tooMany
  | p :: ps, a :: as, kw =>
    if (kw.lookup p.name).isSome then .error .multiple
    else match bindParams ps as kw with
      | .error e => .error e
      | .ok r => .ok ((p.name, some a) :: r)
  | p :: ps, [], kw =>
    match kw.lookup p.name with
    | some a =>
      match bindParams ps [] kw with
      | .error e => .error e
      | .ok r => .ok ((p.name, some a) :: r)
    | none =>
      if p.required then .error .missing
      else match bindParams ps [] kw with
        | .error e => .error e
        | .ok r => .ok ((p.name, none) :: r)

def Sig.names (s : Sig) : List String := s.params.map (·.name)

/-- keywords that name no parameter: they go to `**kwargs` (the `attrs` of a range, the query of a
    write) or make the call a `TypeError` -/
def extraKw {α : Type} (s : Sig) (kw : List (String × α)) : List (String × α) :=
  kw.filter (fun e => !s.names.contains e.1)

/-- a whole call -/
def bindCall {α : Type} (s : Sig) (pos : List α) (kw : List (String × α)) :
    Except BindErr (List (String × Option α) × List (String × α)) :=
  if !s.varkw && !(extraKw s kw).isEmpty then .error .unexpected
  else match bindParams s.params pos kw with
    | .error e => .error e
    | .ok b => .ok (b, extraKw s kw)

/-- the documented signatures (the order, the names and the defaults are API) -/
def rangeSig : Sig :=
  { params := [.req "name", .req "start", .req "stop", .opt "step" "None", .opt "size" "None", .opt "dtype" "float64"],
    varkw := true }
def timeSig : Sig :=
  { params := [.req "start_time", .req "end_time", .opt "step" "None", .opt "samplerate" "None", .opt "name" "time",
               .opt "dtype" "float64"],
    varkw := true }
def freqSig : Sig :=
  { params := [.req "low_freq", .req "high_freq", .req "step", .opt "name" "frequency", .opt "dtype" "float64"],
    varkw := true }
def indexSig : Sig :=
  { params := [.req "arr", .req "dim", .req "value", .opt "raise_error" "True"], varkw := false }
def setSig : Sig :=
  { params := [.req "array", .req "value"], varkw := true }

/-- a table is well formed when no two parameters share a name -/
def Sig.WellFormed (s : Sig) : Prop := s.names.Nodup

instance (s : Sig) : Decidable s.WellFormed := by unfold Sig.WellFormed; infer_instance

/-- `s` extends the documented table `ref`: the same parameters in the same order with the same
    defaults first, then only parameters that have a default; `**kwargs` as documented -/
def Sig.Extends (s ref : Sig) : Bool :=
  s.params.take ref.params.length == ref.params
  && (s.params.drop ref.params.length).all (fun p => !p.required)
  && s.varkw == ref.varkw

/-! ## histories -/

/-- a call of one of the five functions, by the content of its arguments -/
inductive RangeCall
  | range (start stop : Rat) (step : Option Rat) (size : Option Int)
  | time (start stop : Rat) (step samplerate : Option Rat)
  | freq (lo hi step : Rat)
  | index (coords : List Rat) (v : Rat) (raise : Bool)
  | set (a : NDArr Rat) (axes : List (List Rat)) (query : List (Nat × Rat)) (v : Val Rat)

inductive Answer
  | dim (r : Except AErr RangeDim)
  | idx (r : Except AErr Nat)
  | arr (r : Except AErr (NDArr Rat))
  deriving DecidableEq

/-- what the pure model answers -/
def callModel : RangeCall → Answer
  | .range a b s n => .dim (createRangeDim a b s n)
  | .time a b s sr => .dim (createTimeRange a b s sr)
  | .freq a b s => .dim (createFrequencyRange a b s)
  | .index cs v r => .idx (coordIndex cs v r)
  | .set a axes q v => .arr (setValueAtPos a axes q v)

/-- a write request of a session: the query and the value -/
abbrev Write (α : Type) := List (Nat × Rat) × Val α

/-- the content of a live array after one call: a successful write replaces it, a rejected call
    leaves it -/
def contentStep {α : Type} [Inhabited α] (axes : List (List Rat)) (a : NDArr α) (w : Write α) : NDArr α :=
  match setValueAtPos a axes w.1 w.2 with
  | .ok a' => a'
  | .error _ => a

/-- the answers of consecutive writes into one live array: every call works on the content the
    array has at that moment -/
def session {α : Type} [Inhabited α] (axes : List (List Rat)) : NDArr α → List (Write α) → List (Except AErr (NDArr α))
  | _, [] => []
  | a, w :: ws => setValueAtPos a axes w.1 w.2 :: session axes (contentStep axes a w) ws

def contentAfter {α : Type} [Inhabited α] (axes : List (List Rat)) (a : NDArr α) (ws : List (Write α)) : NDArr α :=
  ws.foldl (contentStep axes) a

end SE.Axis
