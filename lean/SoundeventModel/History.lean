/-
Histories.  The library functions the properties speak about are specified as *pure* functions of the
content of their arguments.  A real implementation runs in a process with state (module-level caches,
values memoised on argument objects, buffers that are reused); a history is a sequence of calls in one
process.  `runS` runs a stateful implementation over a history, `runPure` is what the pure model says
about the same history: every step judged on its own.
-/
namespace SE.History

/-- a stateful implementation run over a history of inputs, starting in state `s` -/
def runS {σ α β : Type} (step : σ → α → σ × β) : σ → List α → List β
  | _, [] => []
  | s, x :: xs => (step s x).2 :: runS step (step s x).1 xs

/-- the state after a history -/
def stateAfter {σ α β : Type} (step : σ → α → σ × β) : σ → List α → σ
  | s, [] => s
  | s, x :: xs => stateAfter step (step s x).1 xs

/-- the pure model over a history: each step on its own -/
def runPure {α β : Type} (f : α → β) (xs : List α) : List β := xs.map f

/-- states reachable from `s0` by some history -/
def Reachable {σ α β : Type} (step : σ → α → σ × β) (s0 s : σ) : Prop :=
  ∃ xs, stateAfter step s0 xs = s

/-- the output never depends on what happened before -/
def HistoryFree {σ α β : Type} (step : σ → α → σ × β) (s0 : σ) (f : α → β) : Prop :=
  ∀ s, Reachable step s0 s → ∀ x, (step s x).2 = f x

end SE.History
