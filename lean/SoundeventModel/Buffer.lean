/-
  C11: `buffer_geometry` of `soundevent/geometry/operations.py`.

    buffer_timestamp, buffer_interval, buffer_bounding_box_geometry   closed forms with clamps,
                                                                      followed by the data-model
                                                                      constructor (which validates)
    buffer_geometry                                                   negative guard and dispatch
    buffer_shapely_geometry                                           scale / GEOS buffer / unscale /
                                                                      clip / re-validate: NOT modelled,
                                                                      a parameter `lib` with a
                                                                      bounds-level post-condition

  `none` stands for `ValueError` (pydantic's ValidationError is one): the only error class here.
-/
import SoundeventModel.Geometry
namespace SE.Buf
open SE

/-! ### the data-model constructors the closed forms call -/

/-- `data.TimeInterval(coordinates=[s, e])`: start not after end, no negative time -/
def mkInterval (s e : Rat) : Option Geom :=
  if s > e then none
  else if s < 0 ∨ e < 0 then none
  else some (.timeInterval s e)

/-- `data.BoundingBox(coordinates=[s, l, e, h])`: range checks, then the two swaps -/
def mkBox (s l e h : Rat) : Option Geom :=
  if s < 0 then none
  else if l < 0 ∨ l > MAXF then none
  else if e < 0 then none
  else if h < 0 ∨ h > MAXF then none
  else some (.boundingBox (if s > e then e else s) (if l > h then h else l)
                          (if s > e then s else e) (if l > h then l else h))

/-! ### closed forms -/

/-- `buffer_timestamp` -/
def bufferTS (t tb : Rat) : Option Geom := mkInterval (max (t - tb) 0) (t + tb)

/-- `buffer_interval` -/
def bufferTI (s e tb : Rat) : Option Geom := mkInterval (max (s - tb) 0) (e + tb)

/-- `buffer_bounding_box_geometry` -/
def bufferBB (s l e h tb fb : Rat) : Option Geom :=
  mkBox (max (s - tb) 0) (max (l - fb) 0) (e + tb) (min (h + fb) MAXF)

/-- `buffer_geometry`: the guard, the three closed forms, everything else goes through the
    shapely pipeline `lib` (its own `none` = it raised) -/
def bufferGeometry (lib : Geom → Rat → Rat → Option Geom) (g : Geom) (tb fb : Rat) : Option Geom :=
  if tb < 0 ∨ fb < 0 then none
  else match g with
    | .timeStamp t => bufferTS t tb
    | .timeInterval s e => bufferTI s e tb
    | .boundingBox s l e h => bufferBB s l e h tb fb
    | _ => lib g tb fb

/-- the three types with a closed form -/
def closedForm : Geom → Bool
  | .timeStamp _ => true
  | .timeInterval .. => true
  | .boundingBox .. => true
  | _ => false

/-! ### validity (the part of C03's specification C11 needs: what the validators accept) -/

def okTime (t : Rat) : Bool := decide (0 ≤ t)
def okPt (p : Pt) : Bool := decide (0 ≤ p.1) && decide (0 ≤ p.2) && decide (p.2 ≤ MAXF)
def okRing (r : List Pt) : Bool := decide (3 ≤ r.length) && r.all okPt
def okPoly (rings : List (List Pt)) : Bool := decide (1 ≤ rings.length) && rings.all okRing

/-- the geometry is a value the data model accepts unchanged: times ≥ 0, frequencies in
    `[0, MAXF]`, intervals and boxes ordered, the size constraints of every type -/
def valid : Geom → Bool
  | .timeStamp t => okTime t
  | .timeInterval s e => okTime s && okTime e && decide (s ≤ e)
  | .point t f => okPt (t, f)
  | .lineString pts => decide (2 ≤ pts.length) && pts.all okPt &&
      (match pts.head?, pts.getLast? with
       | some a, some b => decide (a.1 ≤ b.1)
       | _, _ => false)
  | .polygon rings => okPoly rings
  | .boundingBox s l e h => okPt (s, l) && okPt (e, h) && decide (s ≤ e) && decide (l ≤ h)
  | .multiPoint pts => decide (1 ≤ pts.length) && pts.all okPt
  | .multiLineString ls => decide (1 ≤ ls.length) &&
      ls.all (fun l => decide (2 ≤ l.length) && l.all okPt &&
        (match l.head?, l.getLast? with
         | some a, some b => decide (a.1 < b.1)
         | _, _ => false))
  | .multiPolygon ps => decide (1 ≤ ps.length) && ps.all okPoly

/-- every stored point of a polygonal geometry (shells and holes) -/
def polyPts : Geom → List Pt
  | .polygon rings => rings.flatten
  | .multiPolygon ps => (ps.map List.flatten).flatten
  | _ => []

/-! ### point sets of the three closed-form types -/

/-- the set of (time, frequency) points a time stamp / interval / box stands for: a time-only
    geometry spans the whole band `[0, MAXF]` -/
def mem (p : Pt) : Geom → Prop
  | .timeStamp t => p.1 = t ∧ 0 ≤ p.2 ∧ p.2 ≤ MAXF
  | .timeInterval s e => s ≤ p.1 ∧ p.1 ≤ e ∧ 0 ≤ p.2 ∧ p.2 ≤ MAXF
  | .boundingBox s l e h => s ≤ p.1 ∧ p.1 ≤ e ∧ l ≤ p.2 ∧ p.2 ≤ h
  | _ => False

/-- the point lies in the valid domain -/
def inDomain (p : Pt) : Prop := 0 ≤ p.1 ∧ 0 ≤ p.2 ∧ p.2 ≤ MAXF

/-! ### bounds-level post-condition -/

def absR (x : Rat) : Rat := if x < 0 then -x else x

/-- slack of the monitor: `tol · max(1, |x|)` (0 in the theorems) -/
def slack (tol x : Rat) : Rat := tol * max 1 (absR x)

/-- the bounds `r` of a buffered geometry against the bounds `o` of the original: every side
    moved outwards by at least the buffer or reached the domain edge, and `r` is inside the
    domain.  `tol` is the floating-point slack used by the run-time monitor. -/
def bufferPostTol (tol : Rat) (o : Bounds) (tb fb : Rat) (r : Bounds) : Bool :=
  decide (r.st ≤ max (o.st - tb) 0 + slack tol (max (o.st - tb) 0)) &&
  decide (r.lo ≤ max (o.lo - fb) 0 + slack tol (max (o.lo - fb) 0)) &&
  decide (o.en + tb - slack tol (o.en + tb) ≤ r.en) &&
  decide (min (o.hi + fb) MAXF - slack tol (min (o.hi + fb) MAXF) ≤ r.hi) &&
  decide (0 ≤ r.st) && decide (0 ≤ r.lo) && decide (r.hi ≤ MAXF)

def bufferPost (o : Bounds) (tb fb : Rat) (r : Bounds) : Bool := bufferPostTol 0 o tb fb r

/-- how far each side falls short of the requested extension, as a fraction of the buffer on
    that axis (0 where the side is where it should be or beyond; sides with a zero buffer
    report the absolute shortfall) — the quantity the known findings bound -/
def shortfall (o : Bounds) (tb fb : Rat) (r : Bounds) : List Rat :=
  let rel (d b : Rat) : Rat := if d ≤ 0 then 0 else if b = 0 then d else d / b
  [rel (r.st - max (o.st - tb) 0) tb, rel (r.lo - max (o.lo - fb) 0) fb,
   rel (o.en + tb - r.en) tb, rel (min (o.hi + fb) MAXF - r.hi) fb]

/-- `shortfall` beyond the monitor's floating-point slack (`bufferPostTol tol` holds iff all four are 0) -/
def shortfallTol (tol : Rat) (o : Bounds) (tb fb : Rat) (r : Bounds) : List Rat :=
  let rel (d b : Rat) : Rat := if d ≤ 0 then 0 else if b = 0 then d else d / b
  [rel (r.st - max (o.st - tb) 0 - slack tol (max (o.st - tb) 0)) tb,
   rel (r.lo - max (o.lo - fb) 0 - slack tol (max (o.lo - fb) 0)) fb,
   rel (o.en + tb - slack tol (o.en + tb) - r.en) tb,
   rel (min (o.hi + fb) MAXF - slack tol (min (o.hi + fb) MAXF) - r.hi) fb]

/-! ### the shapely pipeline `buffer_shapely_geometry`, on point sets

    factor      = [1 / tb if tb > 0 else 1e9, 1 / fb if fb > 0 else 1e9]
    transformed = transform(geometry, x ↦ x * factor)
    buffered    = buffer(transformed, 1, round caps, mitre joins)          -- GEOS: the parameter `buf`
    buffered    = transform(buffered, x ↦ x / factor)
    buffered    = clip_by_rect(buffered, 0, 0, buffered.bounds[2] + 1, MAX_FREQUENCY)

  Everything except GEOS's `buffer` is modelled: the two factors, the two coordinate maps, the
  distance 1 and the clip rectangle (`pipelineSkeleton`, tied to the source by a symbolic trace for
  all inputs), and their composition as an operation on sets of (time, frequency) points
  (`pipelineSet`).  What the theorems need of `buffer` are hypotheses (`Extensive`, `CoversDisc ρ`),
  evaluated at run time on what GEOS returned. -/

/-- the scale factor of one axis: `1 / buffer if buffer > 0 else 1e9` -/
def factor (b : Rat) : Rat := if b > 0 then 1 / b else 1000000000

/-- `x * factor` of the first `shapely.transform` -/
def scalePt (tb fb : Rat) (p : Pt) : Pt := (p.1 * factor tb, p.2 * factor fb)

/-- `x / factor` of the second `shapely.transform` -/
def unscalePt (tb fb : Rat) (q : Pt) : Pt := (q.1 / factor tb, q.2 / factor fb)

/-- the rectangle handed to `clip_by_rect`, `maxT` being `buffered.bounds[2]` and `m` the margin the
    code adds to it (1 in the source; all that matters, and all the tie pins, is `0 ≤ m`) -/
def clipRect (m maxT : Rat) : Bounds := ⟨0, 0, maxT + m, MAXF⟩

/-- the straight-line skeleton of `buffer_shapely_geometry` (target of the symbolic trace):
    where a point `(x, y)` of the input is sent before buffering, the buffer distance, where a
    point `(bx, by)` of GEOS's buffer is sent afterwards, and the clip rectangle: its lower time,
    lower frequency and upper frequency, and for its upper time `xmax` only that it is not below the
    largest time of the unscaled buffer (`b2` being the largest x of GEOS's buffer) -/
def pipelineSkeleton (x y bx by_ b2 xmax tb fb : Rat) : Pt × Rat × Pt × Rat × Rat × Bool × Rat :=
  let r := clipRect (xmax - (unscalePt tb fb (b2, 0)).1) (unscalePt tb fb (b2, 0)).1
  (scalePt tb fb (x, y), 1, unscalePt tb fb (bx, by_), r.st, r.lo, decide ((unscalePt tb fb (b2, 0)).1 ≤ r.en), r.hi)

/-- what the tie establishes of the skeleton for all inputs -/
def pipelineSkeletonSpec (x y bx by_ tb fb : Rat) : Pt × Rat × Pt × Rat × Rat × Bool × Rat :=
  (scalePt tb fb (x, y), 1, unscalePt tb fb (bx, by_), 0, 0, true, MAXF)

/-- a set of (time, frequency) points -/
abbrev PSet := Pt → Prop

def inRect (r : Bounds) (p : Pt) : Prop := r.st ≤ p.1 ∧ p.1 ≤ r.en ∧ r.lo ≤ p.2 ∧ p.2 ≤ r.hi

/-- the image of the input under the first transform -/
def scaled (tb fb : Rat) (S : PSet) : PSet := fun q => ∃ p, S p ∧ q = scalePt tb fb p

/-- squared Euclidean distance (in the scaled space) -/
def dist2 (q c : Pt) : Rat := (q.1 - c.1) * (q.1 - c.1) + (q.2 - c.2) * (q.2 - c.2)

/-- the result of the pipeline as a point set: the unscaled GEOS buffer (`buf`, distance 1) of the
    scaled input, cut to the clip rectangle.  `maxT` is what `buffered.bounds[2]` returned, `m` the
    margin added to it. -/
def pipelineSet (buf : PSet → PSet) (S : PSet) (tb fb m maxT : Rat) : PSet :=
  fun p => inRect (clipRect m maxT) p ∧ ∃ q, buf (scaled tb fb S) q ∧ p = unscalePt tb fb q

/-- `maxT` bounds the times of the unscaled buffer from above (it is shapely's `bounds[2]` of it) -/
def IsMaxTime (buf : PSet → PSet) (S : PSet) (tb fb maxT : Rat) : Prop :=
  ∀ q, buf (scaled tb fb S) q → (unscalePt tb fb q).1 ≤ maxT

/-- contract: a buffer (distance 1 ≥ 0) contains what it buffers -/
def Extensive (buf : PSet → PSet) : Prop := ∀ T q, T q → buf T q

/-- contract: the buffer contains the disc of radius `ρ` around every point of its input
    (`ρ = 1` for an exact buffer; GEOS's round caps are 32-gons inscribed in the unit circle,
    which contain the disc of radius cos(π/32) = 0.99518…) -/
def CoversDisc (ρ : Rat) (buf : PSet → PSet) : Prop :=
  ∀ T c q, T c → dist2 q c ≤ ρ * ρ → buf T q

/-- the exact buffer of distance 1: everything within distance 1 of the input -/
def discBuf : PSet → PSet := fun T q => ∃ c, T c ∧ dist2 q c ≤ 1

/-- the anisotropic (elliptical) neighbourhood the pipeline is designed to produce: `p` is within
    the buffers of `c`, measured in buffer widths (semi-axes `1 / factor`, i.e. `tb` and `fb`) -/
def withinBuffers (ρ tb fb : Rat) (p c : Pt) : Prop :=
  ((p.1 - c.1) * factor tb) * ((p.1 - c.1) * factor tb) +
  ((p.2 - c.2) * factor fb) * ((p.2 - c.2) * factor fb) ≤ ρ * ρ

/-- decidable version of `withinBuffers` for the driver -/
def withinBuffersB (ρ tb fb : Rat) (p c : Pt) : Bool :=
  decide (((p.1 - c.1) * factor tb) * ((p.1 - c.1) * factor tb) +
  ((p.2 - c.2) * factor fb) * ((p.2 - c.2) * factor fb) ≤ ρ * ρ)

/-- the sample points at which the run-time monitor evaluates `CoversDisc ρ` around a vertex `c`
    of the scaled input: `c + ρ·d` for the direction table `dirs` (unit vectors) -/
def discProbes (ρ : Rat) (dirs : List Pt) (c : Pt) : List Pt :=
  dirs.map (fun d => (c.1 + ρ * d.1, c.2 + ρ * d.2))

/-! ### where the outline of the buffer is a polygonal round cap

  GEOS draws the unit buffer of the scaled geometry with mitre joins at the vertices of lines and
  rings (they reach the full distance along both axes), circles around isolated points whose
  vertices sit exactly on the axis directions, and polygonal round caps (32-gons, oriented along the
  line) at the two ends of an *open* line: only there can a side of the bounds fall short of the
  buffer by more than offset-curve noise (known finding C11-round-caps). -/

/-- the two ends of an open line (none for a closed one) -/
def openEnds (pts : List Pt) : List Pt :=
  match pts.head?, pts.getLast? with
  | some a, some b => if a = b then [] else [a, b]
  | _, _ => []

/-- the ends of the open lines of a geometry -/
def lineEnds : Geom → List Pt
  | .lineString pts => openEnds pts
  | .multiLineString ls => (ls.map openEnds).flatten
  | _ => []

/-- per side of the bounds `b` (start time, low frequency, end time, high frequency): no end of an
    open line attains that side's extreme or comes within `μ` buffers of it (`μ = 1/100` in the
    check: GEOS simplifies its input by 1 % of the distance, so an end that close to the extreme
    can put its cap there) -- the extreme is then attained at vertices drawn with mitre joins or
    axis-aligned circles only -/
def offCap (g : Geom) (b : Bounds) (tb fb μ : Rat) : List Bool :=
  [!(lineEnds g).any (fun e => decide (e.1 ≤ b.st + μ * tb)), !(lineEnds g).any (fun e => decide (e.2 ≤ b.lo + μ * fb)),
   !(lineEnds g).any (fun e => decide (b.en - μ * tb ≤ e.1)), !(lineEnds g).any (fun e => decide (b.hi - μ * fb ≤ e.2))]

/-! ### binding of the arguments of a call (positional / keyword / omitted)

  `buffer_geometry(geometry, time_buffer=0, freq_buffer=0, **kwargs)`: a caller may pass the two
  buffers by position, by keyword (in any order), mixed, or leave them out.  `Sig` is the list of
  the parameters after `geometry` that can be bound by position, with their defaults, as
  `inspect.signature` reports it (regenerated from the source on every run). -/

abbrev Sig := List (String × Rat)

/-- Python's binding of positional values `pos` and keyword values `kw` to the parameters `sig`:
    `none` = `TypeError` (too many positionals, a parameter given twice); a keyword that names no
    parameter goes to `**kwargs` and binds nothing here -/
def bindArgs : Sig → List Rat → List (String × Rat) → Option (List (String × Rat))
  | [], [], _ => some []
  | [], _ :: _, _ => none
  | (n, _) :: sig, v :: pos, kw =>
      if (kw.lookup n).isSome then none
      else (bindArgs sig pos kw).map (fun r => (n, v) :: r)
  | (n, d) :: sig, [], kw =>
      (bindArgs sig [] kw).map (fun r => (n, (kw.lookup n).getD d) :: r)

/-- the (time buffer, frequency buffer) a call of `buffer_geometry` ends up with -/
def boundBuffers (sig : Sig) (pos : List Rat) (kw : List (String × Rat)) : Option (Rat × Rat) :=
  match bindArgs sig pos kw with
  | some r => match r.lookup "time_buffer", r.lookup "freq_buffer" with
    | some a, some b => some (a, b)
    | _, _ => none
  | none => none

/-- the signature the property module expects -/
def bufferSig : Sig := [("time_buffer", 0), ("freq_buffer", 0)]


/-! ### histories: consecutive calls in one process

  The code keeps no state between calls, so the model of a session is the list of the models of
  its calls.  A call may carry extra options for `shapely.buffer` (`opts`, opaque to the model):
  they select the buffer function of *that* call (`lib opts`) and nothing else. -/

structure Call where
  g : Geom
  tb : Rat
  fb : Rat
  opts : List (String × String) := []

/-- what a sequence of `buffer_geometry` calls returns, call by call -/
def runHistory (lib : List (String × String) → Geom → Rat → Rat → Option Geom) : List Call → List (Option Geom)
  | [] => []
  | c :: cs => bufferGeometry (lib c.opts) c.g c.tb c.fb :: runHistory lib cs

end SE.Buf
