/-
  C17 (review additions): what `crop_dim` / `extend_dim` compute *before* they hand over to xarray
  (the label-slice bounds, the `np.arange` calls), `get_dim_step` with all of its options, and the
  cells an array holds (finite numbers, NaN, ±inf).

  `cropBounds` and `extendPlan` are the straight-line numeric kernels of the two functions; they are
  tied to the current source for **all** inputs by symbolic traces (Tie 1b, regenerated on every
  run) and to `cropDim` / `extendDim` by the theorems `C17_crop_bounds` / `C17_extend_plan`.
-/
import SoundeventModel.Axis
import SoundeventModel.Tactics
namespace SE.Axis

/-! ## cells -/

/-- one cell of an array.  The operations of C17 move cells around and never compute with them, so
    a NaN (or an infinity, or a number equal to the fill value) is a value like any other: it
    stays at its coordinate.  (`xarray.reindex(…, fill_value=…)` fills by position of the *new*
    labels; `reindex(…).fillna(…)` would also overwrite NaN cells that were in the data.) -/
inductive Cell
  | num (q : Rat)
  | nan
  | posInf
  | negInf
  deriving DecidableEq, Repr, Inhabited

/-- the datum of a sample: the cells at that coordinate over all other dimensions (row-major) -/
abbrev Datum := List Cell

/-! ## `crop_dim`: the bounds of the label slice -/

/-- the bounds `crop_dim` passes to `arr.sel({dim: slice(lo, hi)})`; `none` = `ValueError`.
    `cs`, `ce` are `get_dim_range`. -/
def cropBounds (cs ce : Rat) (start stop : Option Rat) (leftClosed rightClosed : Bool) (eps : Rat) :
    Option (Rat × Rat) :=
  let lc := match start with | none => true | some _ => leftClosed
  let s := start.getD cs
  let rc := match stop with | none => true | some _ => rightClosed
  let e := stop.getD ce
  if s > e then none
  else if s < cs ∨ e > ce then none
  else some (if lc then s else s + eps, if rc then e else e - eps)

/-! ## `extend_dim`: the `np.arange` calls -/

/-- arguments `(start, stop, step)` of one `np.arange` call -/
abbrev ArangeArgs := Rat × Rat × Rat

/-- what `extend_dim` generates: `none` = `ValueError` (reversed request); otherwise the arguments
    of `np.arange(current_start - step, start', -step)[::-1]` (when the shifted start reaches one
    step below the axis) and of `np.arange(coords[-1], stop', step)[1:]` (when the shifted stop
    reaches the axis end).  `cs`, `ce` = `get_dim_range`, `last` = `coords[-1]`. -/
def extendPlan (cs ce last step : Rat) (start stop : Option Rat) (eps : Rat) (leftClosed rightClosed : Bool) :
    Option (Option ArangeArgs × Option ArangeArgs) :=
  let s := start.getD cs
  let e := stop.getD ce
  if s > e then none
  else
    let s' := if leftClosed then s - eps else s + eps
    let e' := if rightClosed then e + eps else e - eps
    some (if s' ≤ cs - step then some (cs - step, s', -step) else none,
          if e' ≥ ce then some (last, e', step) else none)

/-- the coordinates a plan yields around the current ones (`np.arange` with a zero step raises
    `ZeroDivisionError`) -/
def planCoords (coords : List Rat) (p : Option ArangeArgs × Option ArangeArgs) : Except AErr (List Rat) :=
  let left : Except AErr (List Rat) :=
    match p.1 with
    | none => .ok []
    | some (a, b, c) => if c = 0 then .error .zerodiv else .ok (arange a b c).reverse
  let right : Except AErr (List Rat) :=
    match p.2 with
    | none => .ok []
    | some (a, b, c) => if c = 0 then .error .zerodiv else .ok ((arange a b c).drop 1)
  match left, right with
  | .error err, _ => .error err
  | _, .error err => .error err
  | .ok l, .ok r => .ok (l ++ coords ++ r)

/-! ## `get_dim_step` / `estimate_dim_step` with all options -/

/-- `get_dim_step(arr, dim, rtol, atol, check_tolerance, estimate_step)`: the `step` attribute when
    present; otherwise `ValueError` unless `estimate_step`; otherwise the mean of the consecutive
    differences, checked against `atol + rtol * |mean|` only when `check_tolerance`.
    `ok none` = NaN (fewer than two coordinates). -/
def dimStepFull (attr : Option Rat) (coords : List Rat) (rtol atol : Rat) (checkTol estimate : Bool) :
    Except AErr (Option Rat) :=
  match attr with
  | some s => .ok (some s)
  | none =>
    if !estimate then .error .invalid
    else
      let ds := diffs coords
      if ds.isEmpty then .ok none
      else
        let mean := sumRat ds / (ds.length : Rat)
        if !checkTol || ds.all (fun d => decide ((d - mean).abs ≤ atol + rtol * mean.abs)) then .ok (some mean)
        else .error .invalid

/-- `get_dim_range`: minimum and maximum label (`ValueError` on an empty index) -/
def dimRange (coords : List Rat) : Except AErr (Rat × Rat) :=
  match listMin coords, listMax coords with
  | some lo, some hi => .ok (lo, hi)
  | _, _ => .error .invalid

/-- `get_dim_width` -/
def dimWidth (coords : List Rat) : Except AErr Rat :=
  match dimRange coords with
  | .ok (lo, hi) => .ok (hi - lo)
  | .error e => .error e

/-! ## histories: each call works on what the previous call returned -/

/-- one call of a history -/
inductive Step (α : Type)
  | crop (start stop : Option Rat) (leftClosed rightClosed : Bool) (eps : Rat)
  | extend (start stop : Option Rat) (fill : α) (eps : Rat) (leftClosed rightClosed : Bool)
  | width (w : Int) (fill : α) (pos : Option Pos)

/-- one call on the array as it is now.  The `step` attribute travels with the coordinate
    (`sel` and `reindex` keep coordinate attributes); nothing else of the past does: the result of a
    call depends only on the coordinates and data the array has at that moment (in particular not
    on the `start` / `stop` attributes an earlier `extend_dim` wrote). -/
def applyStep {α} (attr : Option Rat) (a : Samples α) : Step α → Except AErr (Samples α)
  | .crop start stop lc rc eps => cropDim a start stop lc rc eps
  | .extend start stop fill eps lc rc => extendDim a attr start stop fill eps lc rc
  | .width w fill pos => adjustWidth a attr w fill pos

/-- the result of every call of a history, in order; the history ends with the first call that raises -/
def runChain {α} (attr : Option Rat) (a : Samples α) : List (Step α) → List (Except AErr (Samples α))
  | [] => []
  | s :: rest =>
    match applyStep attr a s with
    | .error e => [.error e]
    | .ok r => .ok r :: runChain attr r rest

/-! ## call signatures: how Python binds positional and keyword arguments

  The closedness flags of `crop_dim` are declared `(right_closed, left_closed)`, those of
  `extend_dim` `(…, eps, left_closed, right_closed)`: a caller who passes them positionally in the
  documented order relies on exactly this order for "closed or open at each end as asked".  The
  tables below are the model's argument order; they are compared with `inspect.signature` of the
  current source on every run (Tie 1, obligation `signature-order`), and the JSON glue binds the
  positional arguments of a request through `bindArgs` with these tables. -/

def sigCropDim : List String := ["arr", "dim", "start", "stop", "right_closed", "left_closed", "eps"]
def sigExtendDim : List String :=
  ["arr", "dim", "start", "stop", "fill_value", "eps", "left_closed", "right_closed"]
def sigCropDimWidth : List String := ["array", "dim", "width", "position"]
def sigExtendDimWidth : List String := ["array", "dim", "width", "fill_value", "position"]
def sigAdjustDimWidth : List String := ["array", "dim", "width", "fill_value", "position"]
def sigGetDimStep : List String := ["arr", "dim", "rtol", "atol", "check_tolerance", "estimate_step"]
def sigEstimateDimStep : List String := ["data", "rtol", "atol", "check_tolerance"]

/-- the documented parameters are the leading positional parameters of the current signature, in
    this order (further parameters may follow them: they cannot be reached by a documented call) -/
def sigOK (doc current : List String) : Bool := doc.isPrefixOf current

/-- Python's argument binding for a function whose positional-or-keyword parameters are `params`:
    positional arguments go to the leading parameters in order; a keyword argument must name one
    of the remaining parameters (`TypeError` = `none`: too many positional arguments, an unknown
    keyword, or a parameter given twice). -/
def bindArgs {β} (params : List String) (pos : List β) (kw : List (String × β)) : Option (List (String × β)) :=
  if params.length < pos.length then none
  else if kw.any (fun p => !(params.drop pos.length).contains p.1) then none
  else some (params.zip pos ++ kw)

/-! ## sessions: independent calls in one process -/

/-- one call of a session: the array (with its step attribute) as it is when the call is made -/
structure Call (α : Type) where
  attr : Option Rat
  arr : Samples α
  step : Step α

/-- a session: consecutive calls in one process, each on its own argument.  The model has no state:
    whatever was called before (with the same array and other options, the same axis and other data,
    an array object that was changed in between, a result the caller wrote into), call `k` returns
    what the operation returns for the content its argument has at that moment. -/
def runSession {α} (cs : List (Call α)) : List (Except AErr (Samples α)) :=
  cs.map (fun c => applyStep c.attr c.arr c.step)

end SE.Axis


/-- closing tactic of the regenerated kernel ties of C17 (tie 1b): extracted decision tree = model -/
macro "se_c17" : tactic =>
  `(tactic| first
    | se_close
    | (simp only [Option.getD]; grind)
    | (simp only [Option.getD]; repeat' split <;> simp_all <;> grind))
