/-
  C20: `soundevent.geometry.rasterize` on index space.

  The code maps every vertex of a geometry to bin indices with
  `get_coord_index(..., raise_error=False)` (C16's lookup with clamping), lets rasterio burn the
  index-space shapes into an array and labels the transposed result with the template's time
  and frequency coordinates.  rasterio / GDAL scan conversion is not modelled; for the shapes
  whose vertices are integers and whose edges are axis-parallel (bounding boxes, time
  intervals) its rule is the contract `covered`: a cell is burnt iff its centre lies in the
  index-space box, with or without `all_touched` (monitored on the library on every run).
-/
import SoundeventModel.Axis
import SoundeventModel.Geometry
namespace SE.Raster
open SE SE.Axis

/-- `get_coord_index(array, dim, v, raise_error=False)`: the bin containing `v`, `0` below the
    axis, the axis size above it (an empty axis does not occur: xarray templates have coordinates) -/
def binOf (coords : List Rat) (v : Rat) : Nat :=
  match coordIndex coords v false with
  | .ok i => i
  | .error _ => 0

/-- a box in index space with the value to burn -/
structure IBox where
  ix0 : Nat
  iy0 : Nat
  ix1 : Nat
  iy1 : Nat
  val : Rat        -- the value to burn (a binary64 / dtype value: a rational)
  deriving DecidableEq, Repr

/-- rasterio's rule for an integer-cornered box: the cell `(i, j)` is burnt iff its centre
    `(i + 1/2, j + 1/2)` lies in the box -/
def covered (b : IBox) (i j : Nat) : Bool :=
  decide ((b.ix0 : Rat) ≤ (i : Rat) + 1 / 2 ∧ (i : Rat) + 1 / 2 ≤ (b.ix1 : Rat) ∧
          (b.iy0 : Rat) ≤ (j : Rat) + 1 / 2 ∧ (j : Rat) + 1 / 2 ≤ (b.iy1 : Rat))

/-- the raster as the result presents it: `grid[i][j]`, `i` the time bin, `j` the frequency bin -/
abbrev Grid := List (List Rat)

/-- burn one box: covered cells are overwritten -/
def burn (g : Grid) (b : IBox) : Grid :=
  g.mapIdx (fun i row => row.mapIdx (fun j old => if covered b i j then b.val else old))

/-- `features.rasterize(shapes, fill=fill)` for boxes: shapes are burnt in order into a raster
    initialised with `fill` -/
def rasterBoxes (nx ny : Nat) (boxes : List IBox) (fill : Rat) : Grid :=
  boxes.foldl burn (List.replicate nx (List.replicate ny fill))

/-- the template array: only its dimension order and its coordinates matter -/
structure Template where
  timeFirst : Bool        -- dims are ("time", "frequency"); otherwise ("frequency", "time")
  time : List Rat
  freq : List Rat
  deriving Repr

/-- the geometries whose index-space image is a box -/
inductive RGeom
  | box (s l e h : Rat)       -- BoundingBox(start_time, low_freq, end_time, high_freq)
  | interval (s e : Rat)      -- TimeInterval: the box from frequency 0 to MAX_FREQUENCY
  deriving Repr

def toIBox (t : Template) (g : RGeom) (v : Rat) : IBox :=
  match g with
  | .box s l e h => ⟨binOf t.time s, binOf t.freq l, binOf t.time e, binOf t.freq h, v⟩
  | .interval s e => ⟨binOf t.time s, binOf t.freq 0, binOf t.time e, binOf t.freq MAXF, v⟩

/-- `values`: one value for all geometries, or a list / tuple -/
inductive Values
  | one (v : Rat)
  | many (vs : List Rat)
  deriving Repr

structure Raster where
  time : List Rat        -- coordinates of the first dimension ("time")
  freq : List Rat        -- coordinates of the second dimension ("frequency")
  grid : Grid            -- `time.length` rows of `freq.length` cells
  deriving DecidableEq, Repr

/-- `if not isinstance(values, (list, tuple)): values = [values] * len(geometries)` -/
def expandValues (values : Values) (n : Nat) : List Rat :=
  match values with
  | .one v => List.replicate n v
  | .many vs => vs

/-- `rasterize(geometries, array, values, fill, dtype, all_touched=…)` for box-like geometries.
    The raster has `(size of ydim, size of xdim)` rows and columns whatever the template's
    dimension order (repaired code, fixes/C20-1: the pinned tree passed `array.shape`, so that a
    time-first non-square template failed with "conflicting sizes"); the result is the transposed
    raster labelled `(time, frequency)` with the template's coordinates. -/
def rasterize (t : Template) (geoms : List RGeom) (values : Values) (fill : Rat) (_allTouched : Bool) :
    Except AErr Raster :=
  let vs := expandValues values geoms.length
  if vs.length ≠ geoms.length then .error .invalid
  else
    .ok { time := t.time, freq := t.freq,
          grid := rasterBoxes t.time.length t.freq.length (List.zipWith (toIBox t) geoms vs) fill }


/-! ## all nine geometry types: the index-space image, the rasteriser as a parameter

  `rasterize` hands `shapely.transform(geometry_to_shapely(geom), transform_coordinates)` to
  `rasterio.features.rasterize`: every vertex of the shapely form of the geometry is replaced by
  its pair of bin indices.  That *image* is the library's own code and is modelled here for every
  geometry type.  Which cells rasterio / GDAL burns for a shape is not modelled: it is the
  parameter `Burner`; the contracts the theorems need of it (box rule, point rule, centre rule,
  all-touched superset) are hypotheses, monitored on the library on every run, and the
  correspondence runs instantiate it with rasterio's answers for the model's images. -/

/-- a vertex in index space: (time bin, frequency bin) -/
abbrev ICell := Nat × Nat

/-- what is handed to rasterio, by shapely geometry type -/
inductive IShape
  | point (p : ICell)
  | multiPoint (ps : List ICell)
  | line (l : List ICell)
  | multiLine (ls : List (List ICell))
  | poly (rings : List (List ICell))                 -- shell, then holes
  | multiPoly (polys : List (List (List ICell)))
  deriving DecidableEq, Repr

/-- `transform_coordinates`: a (time, frequency) vertex becomes its pair of bins (clamped lookup) -/
def binPt (t : Template) (p : Pt) : ICell := (binOf t.time p.1, binOf t.freq p.2)

/-- shapely closes a ring whose last vertex is not its first -/
def closeRing (r : List Pt) : List Pt :=
  match r.head?, r.getLast? with
  | some a, some b => if a = b then r else r ++ [a]
  | _, _ => r

/-- `shapely.geometry.box(s, l, e, h)`: the ring in shapely's vertex order -/
def boxPts (s l e h : Rat) : List Pt := [(e, l), (e, h), (s, h), (s, l), (e, l)]

/-- `shapely.transform(geometry_to_shapely(geom), transform_coordinates)` -/
def image (t : Template) : Geom → IShape
  | .timeStamp x => .line [binPt t (x, 0), binPt t (x, MAXF)]
  | .timeInterval s e => .poly [(boxPts s 0 e MAXF).map (binPt t)]
  | .point x f => .point (binPt t (x, f))
  | .lineString pts => .line (pts.map (binPt t))
  | .polygon rings => .poly (rings.map (fun r => (closeRing r).map (binPt t)))
  | .boundingBox s l e h => .poly [(boxPts s l e h).map (binPt t)]
  | .multiPoint pts => .multiPoint (pts.map (binPt t))
  | .multiLineString ls => .multiLine (ls.map (fun l => l.map (binPt t)))
  | .multiPolygon ps => .multiPoly (ps.map (fun rings => rings.map (fun r => (closeRing r).map (binPt t))))

/-- the cells one shape burns: `mask i j` -/
abbrev Mask := Nat → Nat → Bool

/-- rasterio / GDAL: shape, `all_touched`, raster size `nx ny` ↦ the cells burnt -/
abbrev Burner := IShape → Bool → Nat → Nat → Mask

/-- burn one mask with a value: marked cells are overwritten -/
def burnMask (m : Mask) (v : Rat) (g : Grid) : Grid :=
  g.mapIdx (fun i row => row.mapIdx (fun j old => if m i j then v else old))

/-- shapes are burnt in order into a raster initialised with `fill` -/
def rasterMasks (nx ny : Nat) (shapes : List (Mask × Rat)) (fill : Rat) : Grid :=
  shapes.foldl (fun g p => burnMask p.1 p.2 g) (List.replicate nx (List.replicate ny fill))

/-- `rasterize` given the cells every geometry's image burns (`n` = number of geometries) -/
def rasterizeM (t : Template) (masks : List Mask) (n : Nat) (values : Values) (fill : Rat) :
    Except AErr Raster :=
  let vs := expandValues values n
  if vs.length ≠ n then .error .invalid
  else
    .ok { time := t.time, freq := t.freq,
          grid := rasterMasks t.time.length t.freq.length (List.zip masks vs) fill }

/-- `rasterize(geometries, array, values, fill, dtype, all_touched=…)` for every geometry type,
    with the rasteriser `B` as a parameter -/
def rasterizeG (B : Burner) (t : Template) (geoms : List Geom) (values : Values) (fill : Rat)
    (allTouched : Bool) : Except AErr Raster :=
  rasterizeM t (geoms.map (fun g => B (image t g) allTouched t.time.length t.freq.length)) geoms.length
    values fill

/-- the box-like geometries of the first model as geometries -/
def RGeom.toGeom : RGeom → Geom
  | .box s l e h => .boundingBox s l e h
  | .interval s e => .timeInterval s e

/-- the ring shapely's `box` makes of an index-space box -/
def shapelyBoxRing (b : IBox) : List ICell :=
  [(b.ix1, b.iy0), (b.ix1, b.iy1), (b.ix0, b.iy1), (b.ix0, b.iy0), (b.ix1, b.iy0)]

/-- defaults of `rasterize`'s signature (re-extracted from the signature on every run, Tie 1) -/
def defaultValue : Rat := 1
def defaultFill : Rat := 0
def defaultAllTouched : Bool := false
/-- `xdim`, `ydim`: geometry times are looked up on the "time" axis, frequencies on "frequency" -/
def defaultXDim : String := "time"
def defaultYDim : String := "frequency"

/-- `rasterize(geometries, array)` with `values`, `fill`, `all_touched` left out as given -/
def rasterizeD (B : Burner) (t : Template) (geoms : List Geom) (values : Option Values) (fill : Option Rat)
    (allTouched : Option Bool) : Except AErr Raster :=
  rasterizeG B t geoms (values.getD (.one defaultValue)) (fill.getD defaultFill)
    (allTouched.getD defaultAllTouched)

/-! ## the call: parameter order, Python's argument binding, sessions of calls -/

/-- the parameters of `rasterize` in signature order, all positional-or-keyword (re-extracted from
    `inspect.signature` on every run, Tie 1: obligation `rasterize_params`) -/
def paramOrder : List String :=
  ["geometries", "array", "values", "fill", "dtype", "xdim", "ydim", "all_touched"]

/-- the optional parameters, in the documented order -/
def optionalOrder : List String := paramOrder.drop 2

/-- Python's binding of a call `f(*pos, **kw)` to parameters `order` that are all
    positional-or-keyword: positional arguments go to the leading parameters in signature order,
    keyword arguments by name; too many positional arguments, an unknown keyword or a keyword for a
    parameter already bound positionally is a `TypeError` (`none`) -/
def bindCall {α : Type} (order : List String) (pos : List α) (kw : List (String × α)) :
    Option (List (String × α)) :=
  if order.length < pos.length then none
  else if kw.all (fun p => order.contains p.1 && !((order.take pos.length).contains p.1)) then
    some ((order.take pos.length).zip pos ++ kw)
  else none

/-- an argument as the caller writes it -/
inductive Arg
  | values (v : Values)     -- a list / tuple of values
  | num (r : Rat)           -- a number (one value for all geometries, or the fill value)
  | flag (b : Bool)
  | other                   -- dtype, dimension names: not read by the index-space model
  deriving Repr

def Arg.values? : Arg → Option Values
  | .values v => some v
  | .num r => some (.one r)
  | _ => none

def Arg.num? : Arg → Option Rat
  | .num r => some r
  | _ => none

def Arg.flag? : Arg → Option Bool
  | .flag b => some b
  | _ => none

/-- `rasterize` on bound arguments: a parameter that is not bound takes its default -/
def rasterizeBound (B : Burner) (t : Template) (geoms : List Geom) (b : List (String × Arg)) :
    Except AErr Raster :=
  rasterizeD B t geoms ((b.lookup "values").bind Arg.values?) ((b.lookup "fill").bind Arg.num?)
    ((b.lookup "all_touched").bind Arg.flag?)

/-- `rasterize(geometries, array, *pos, **kw)`; `none` = `TypeError` of the binding -/
def rasterizeCall (B : Burner) (t : Template) (geoms : List Geom) (pos : List Arg)
    (kw : List (String × Arg)) : Option (Except AErr Raster) :=
  (bindCall optionalOrder pos kw).map (rasterizeBound B t geoms)

/-- one request of a session -/
structure Request where
  t : Template
  geoms : List Geom
  values : Option Values
  fill : Option Rat
  allTouched : Option Bool

/-- the answer to a request on its own -/
def answer (B : Burner) (r : Request) : Except AErr Raster :=
  rasterizeD B r.t r.geoms r.values r.fill r.allTouched

/-- what happens in a process that uses `rasterize`: a call, or the caller overwriting the cells of the
    `k`-th raster it was given (a returned raster belongs to the caller) -/
inductive Event
  | call (r : Request)
  | poison (k : Nat) (g : Grid)

/-- the rasters the caller holds after an event: the code keeps no state, so a call appends the answer
    to that request alone and touches nothing else; poisoning changes exactly the raster named -/
def step (B : Burner) (held : List (Except AErr Raster)) : Event → List (Except AErr Raster)
  | .call r => held ++ [answer B r]
  | .poison k g => held.modify k (fun x => x.map (fun r => { r with grid := g }))

def runSession (B : Burner) (evs : List Event) : List (Except AErr Raster) := evs.foldl (step B) []

/-- the straight-line part of `get_coord_index(arr, dim, value, raise_error=False)` over the
    numbers it reads: range `lo hi` (`get_dim_range`), axis size `n`, pandas' right slice bound
    `sb` (tied to the source for all inputs by symbolic trace, Tie 1b) -/
def clampIndexR (lo hi v n sb : Rat) : Rat :=
  if v < lo ∨ v > hi then (if v < lo then 0 else n) else sb - 1

/-- the same with `raise_error=True`: `none` = `KeyError` -/
def clampIndexRaise (lo hi v sb : Rat) : Option Rat :=
  if v < lo ∨ v > hi then none else some (sb - 1)

/-- a mask given as a table (what the correspondence runs observed of rasterio) -/
def maskOfTable (tbl : List (List Bool)) : Mask := fun i j => (tbl.getD i []).getD j false

/-! ## executable statements used by the monitor for general polygons -/

abbrev IPt := Rat × Rat

/-- edges of a closed ring (the last vertex repeats the first) -/
def ringEdges : List IPt → List (IPt × IPt)
  | p :: q :: rest => (p, q) :: ringEdges (q :: rest)
  | _ => []

/-- the horizontal ray from `c` to the right crosses the edge (half-open rule on `y`) -/
def crosses (c : IPt) (e : IPt × IPt) : Bool :=
  let (p, q) := e
  (decide (p.2 ≤ c.2) != decide (q.2 ≤ c.2)) &&
    -- x of the edge at height c.2 is to the right of c.1:  (q.1 - p.1) * (c.2 - p.2) / (q.2 - p.2) + p.1 > c.1
    (if p.2 < q.2 then decide ((q.1 - p.1) * (c.2 - p.2) > (c.1 - p.1) * (q.2 - p.2))
     else decide ((q.1 - p.1) * (c.2 - p.2) < (c.1 - p.1) * (q.2 - p.2)))

/-- even–odd rule over all rings (shell and holes) -/
def insideRings (rings : List (List IPt)) (c : IPt) : Bool :=
  ((rings.map (fun r => ((ringEdges r).filter (crosses c)).length)).foldl (· + ·) 0) % 2 == 1

/-- `c` lies on the closed segment -/
def onSegment (c : IPt) (e : IPt × IPt) : Bool :=
  let (p, q) := e
  decide ((q.1 - p.1) * (c.2 - p.2) = (c.1 - p.1) * (q.2 - p.2)) &&
    decide (min p.1 q.1 ≤ c.1 ∧ c.1 ≤ max p.1 q.1 ∧ min p.2 q.2 ≤ c.2 ∧ c.2 ≤ max p.2 q.2)

def onBoundary (rings : List (List IPt)) (c : IPt) : Bool :=
  rings.any (fun r => (ringEdges r).any (onSegment c))

/-- the ring of an index-space box -/
def boxRing (b : IBox) : List IPt :=
  [((b.ix0 : Rat), (b.iy0 : Rat)), ((b.ix1 : Rat), (b.iy0 : Rat)), ((b.ix1 : Rat), (b.iy1 : Rat)),
   ((b.ix0 : Rat), (b.iy1 : Rat)), ((b.ix0 : Rat), (b.iy0 : Rat))]

/-- cells of an `nx × ny` raster whose burnt state contradicts centre-in-polygon, cells whose
    centre lies on the boundary being left open: the list is empty iff "a cell is burnt exactly
    when its centre lies inside the polygon" -/
def centreRuleViolations (nx ny : Nat) (rings : List (List IPt)) (burnt : List (List Bool)) :
    List (Nat × Nat) :=
  (List.range nx).flatMap (fun (i : Nat) => (List.range ny).filterMap (fun (j : Nat) =>
    let c : IPt := ((i : Rat) + 1 / 2, (j : Rat) + 1 / 2)
    if onBoundary rings c then none
    else if insideRings rings c == ((burnt.getD i []).getD j false) then none
    else some (i, j)))

/-- index-space rings as rational points (for the point-in-polygon statements) -/
def ratRings (rings : List (List ICell)) : List (List IPt) :=
  rings.map (fun r => r.map (fun p => ((p.1 : Rat), (p.2 : Rat))))

end SE.Raster
