/-
  C20: `soundevent.geometry.rasterize` on index space.

  The code maps every vertex of a geometry to bin indices with
  `get_coord_index(..., raise_error=False)` (C16's lookup with clamping), lets rasterio burn the
  index-space shapes into an array and labels the transposed result with the template's time
  and frequency coordinates.  rasterio / GDAL scan conversion is not modelled; for the shapes
  whose vertices are integers and whose edges are axis-parallel (bounding boxes, time
  intervals) its rule is the contract `covered`: a cell is burnt iff its centre lies in the
  index-space box, with or without `all_touched` (monitored on the library on every run).
-/
import SoundeventModel.Axis
namespace SE.Raster
open SE SE.Axis

/-- `get_coord_index(array, dim, v, raise_error=False)`: the bin containing `v`, `0` below the
    axis, the axis size above it (an empty axis does not occur: xarray templates have coordinates) -/
def binOf (coords : List Rat) (v : Rat) : Nat :=
  match coordIndex coords v false with
  | .ok i => i
  | .error _ => 0

/-- a box in index space with the value to burn -/
structure IBox where
  ix0 : Nat
  iy0 : Nat
  ix1 : Nat
  iy1 : Nat
  val : Int
  deriving DecidableEq, Repr

/-- rasterio's rule for an integer-cornered box: the cell `(i, j)` is burnt iff its centre
    `(i + 1/2, j + 1/2)` lies in the box -/
def covered (b : IBox) (i j : Nat) : Bool :=
  decide ((b.ix0 : Rat) ≤ (i : Rat) + 1 / 2 ∧ (i : Rat) + 1 / 2 ≤ (b.ix1 : Rat) ∧
          (b.iy0 : Rat) ≤ (j : Rat) + 1 / 2 ∧ (j : Rat) + 1 / 2 ≤ (b.iy1 : Rat))

/-- the raster as the result presents it: `grid[i][j]`, `i` the time bin, `j` the frequency bin -/
abbrev Grid := List (List Int)

/-- burn one box: covered cells are overwritten -/
def burn (g : Grid) (b : IBox) : Grid :=
  g.mapIdx (fun i row => row.mapIdx (fun j old => if covered b i j then b.val else old))

/-- `features.rasterize(shapes, fill=fill)` for boxes: shapes are burnt in order into a raster
    initialised with `fill` -/
def rasterBoxes (nx ny : Nat) (boxes : List IBox) (fill : Int) : Grid :=
  boxes.foldl burn (List.replicate nx (List.replicate ny fill))

/-- the template array: only its dimension order and its coordinates matter -/
structure Template where
  timeFirst : Bool        -- dims are ("time", "frequency"); otherwise ("frequency", "time")
  time : List Rat
  freq : List Rat
  deriving Repr

/-- the geometries whose index-space image is a box -/
inductive RGeom
  | box (s l e h : Rat)       -- BoundingBox(start_time, low_freq, end_time, high_freq)
  | interval (s e : Rat)      -- TimeInterval: the box from frequency 0 to MAX_FREQUENCY
  deriving Repr

def toIBox (t : Template) (g : RGeom) (v : Int) : IBox :=
  match g with
  | .box s l e h => ⟨binOf t.time s, binOf t.freq l, binOf t.time e, binOf t.freq h, v⟩
  | .interval s e => ⟨binOf t.time s, binOf t.freq 0, binOf t.time e, binOf t.freq MAXF, v⟩

/-- `values`: one value for all geometries, or a list / tuple -/
inductive Values
  | one (v : Int)
  | many (vs : List Int)
  deriving Repr

structure Raster where
  time : List Rat        -- coordinates of the first dimension ("time")
  freq : List Rat        -- coordinates of the second dimension ("frequency")
  grid : Grid            -- `time.length` rows of `freq.length` cells
  deriving DecidableEq, Repr

/-- `if not isinstance(values, (list, tuple)): values = [values] * len(geometries)` -/
def expandValues (values : Values) (n : Nat) : List Int :=
  match values with
  | .one v => List.replicate n v
  | .many vs => vs

/-- `rasterize(geometries, array, values, fill, dtype, all_touched=…)` for box-like geometries.
    The raster has `(size of ydim, size of xdim)` rows and columns whatever the template's
    dimension order (repaired code, fixes/C20-1: the pinned tree passed `array.shape`, so that a
    time-first non-square template failed with "conflicting sizes"); the result is the transposed
    raster labelled `(time, frequency)` with the template's coordinates. -/
def rasterize (t : Template) (geoms : List RGeom) (values : Values) (fill : Int) (_allTouched : Bool) :
    Except AErr Raster :=
  let vs := expandValues values geoms.length
  if vs.length ≠ geoms.length then .error .invalid
  else
    .ok { time := t.time, freq := t.freq,
          grid := rasterBoxes t.time.length t.freq.length (List.zipWith (toIBox t) geoms vs) fill }

/-! ## executable statements used by the monitor for general polygons -/

abbrev IPt := Rat × Rat

/-- edges of a closed ring (the last vertex repeats the first) -/
def ringEdges : List IPt → List (IPt × IPt)
  | p :: q :: rest => (p, q) :: ringEdges (q :: rest)
  | _ => []

/-- the horizontal ray from `c` to the right crosses the edge (half-open rule on `y`) -/
def crosses (c : IPt) (e : IPt × IPt) : Bool :=
  let (p, q) := e
  (decide (p.2 ≤ c.2) != decide (q.2 ≤ c.2)) &&
    -- x of the edge at height c.2 is to the right of c.1:  (q.1 - p.1) * (c.2 - p.2) / (q.2 - p.2) + p.1 > c.1
    (if p.2 < q.2 then decide ((q.1 - p.1) * (c.2 - p.2) > (c.1 - p.1) * (q.2 - p.2))
     else decide ((q.1 - p.1) * (c.2 - p.2) < (c.1 - p.1) * (q.2 - p.2)))

/-- even–odd rule over all rings (shell and holes) -/
def insideRings (rings : List (List IPt)) (c : IPt) : Bool :=
  ((rings.map (fun r => ((ringEdges r).filter (crosses c)).length)).foldl (· + ·) 0) % 2 == 1

/-- `c` lies on the closed segment -/
def onSegment (c : IPt) (e : IPt × IPt) : Bool :=
  let (p, q) := e
  decide ((q.1 - p.1) * (c.2 - p.2) = (c.1 - p.1) * (q.2 - p.2)) &&
    decide (min p.1 q.1 ≤ c.1 ∧ c.1 ≤ max p.1 q.1 ∧ min p.2 q.2 ≤ c.2 ∧ c.2 ≤ max p.2 q.2)

def onBoundary (rings : List (List IPt)) (c : IPt) : Bool :=
  rings.any (fun r => (ringEdges r).any (onSegment c))

/-- the ring of an index-space box -/
def boxRing (b : IBox) : List IPt :=
  [((b.ix0 : Rat), (b.iy0 : Rat)), ((b.ix1 : Rat), (b.iy0 : Rat)), ((b.ix1 : Rat), (b.iy1 : Rat)),
   ((b.ix0 : Rat), (b.iy1 : Rat)), ((b.ix0 : Rat), (b.iy0 : Rat))]

/-- cells of an `nx × ny` raster whose burnt state contradicts centre-in-polygon, cells whose
    centre lies on the boundary being left open: the list is empty iff "a cell is burnt exactly
    when its centre lies inside the polygon" -/
def centreRuleViolations (nx ny : Nat) (rings : List (List IPt)) (burnt : List (List Bool)) :
    List (Nat × Nat) :=
  (List.range nx).flatMap (fun (i : Nat) => (List.range ny).filterMap (fun (j : Nat) =>
    let c : IPt := ((i : Rat) + 1 / 2, (j : Rat) + 1 / 2)
    if onBoundary rings c then none
    else if insideRings rings c == ((burnt.getD i []).getD j false) then none
    else some (i, j)))

end SE.Raster
