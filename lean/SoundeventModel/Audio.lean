/-
  C15: frame arithmetic of `soundevent/audio/io.py` (`load_clip`, `load_recording`),
  the time axis of `soundevent/audio/operations.py:resample` and the time / frequency
  axes of `soundevent/audio/spectrograms.py:compute_spectrogram`, together with the part
  of `soundevent/arrays/dimensions.py` they go through (`create_time_range` →
  `create_range_dim`, `create_time_dim_from_array`).

  Everything is integer / rational arithmetic.  The sample *values* are opaque PCM codes
  (`Int`), only copied.  What soundfile, scipy and numpy do is described by the formulas
  their sources state (seek + read with `fill_value=0`; `scipy.signal.resample`'s
  `t[0] + (t[1]-t[0]) * n/num * arange(num)`; `scipy.signal.stft`'s segment count and
  `arange(nperseg/2, …, nstep)/fs - (nperseg/2)/fs`; `np.fft.rfftfreq`); the harness
  monitors those contracts on what the libraries actually returned.

  The model of `arrays/dimensions.py` proper belongs to C16 (`Axis.lean`); the few lines
  needed here are restated so that this file stands alone.
-/
import SoundeventModel.Basic
namespace SE.Audio

/-- one frame = one PCM code per channel -/
abbrev Frame := List Int

/-- what the modelled calls raise -/
inductive AErr
  | clip      -- the `Clip` / `Recording` cannot be built (`start_time > end_time`, samplerate 0)
  | seek      -- libsndfile cannot seek to the offset (negative, or beyond the end of the file)
  | shape     -- xarray: coordinate and data lengths conflict (`ValueError`)
  | value     -- `ValueError` raised by scipy (nperseg < 1, noverlap ≥ nperseg, empty input)
  | zerodiv   -- `ZeroDivisionError` (resampling to zero samples)
  | index     -- `IndexError`
  deriving DecidableEq, Repr, Inhabited

def AErr.name : AErr → String
  | .clip => "invalid"
  | .seek => "seek"
  | .shape => "invalid"
  | .value => "invalid"
  | .zerodiv => "crash:ZeroDivisionError"
  | .index => "crash:IndexError"

/-- Python's `int(x)` on a float: truncation toward zero -/
def truncZ (q : Rat) : Int := if 0 ≤ q then q.floor else -((-q).floor)

/-! ### the time axis builders of `arrays/dimensions.py` used by the audio module -/

/-- `np.arange`-style lattice: `start + i·step`, `i < n` -/
def lattice (start step : Rat) (n : Nat) : List Rat :=
  (List.range n).map fun (i : Nat) => start + (i : Rat) * step

/-- `create_range_dim(start, stop, step)` (hence `create_time_range` with
    `step = 1/samplerate`): `np.arange` has `⌈(stop − start)/step⌉` points; a trailing point
    `≥ stop − step/2` is removed.  An empty range stays empty (guard of fix C16-1; on the pinned
    tree `coords[-1]` raises `IndexError`, see `rangeDimPinned`). -/
def rangeDim (start stop step : Rat) : List Rat :=
  let cs := lattice start step ((stop - start) / step).ceil.toNat
  match cs.getLast? with
  | some last => if last ≥ stop - step / 2 then cs.dropLast else cs
  | none => cs

/-- the pinned `create_range_dim`: `coords[-1]` on an empty `arange` is an `IndexError` -/
def rangeDimPinned (start stop step : Rat) : Except AErr (List Rat) :=
  let cs := lattice start step ((stop - start) / step).ceil.toNat
  match cs.getLast? with
  | some last => if last ≥ stop - step / 2 then .ok cs.dropLast else .ok cs
  | none => .error .index

/-- an audio array as far as C15 looks at it: data along time, the time coordinate and its
    advertised `step` attribute -/
structure TimeArray where
  frames : List Frame
  times : List Rat
  step : Rat
  deriving DecidableEq, Repr

/-! ### `load_audio`: seek + read with `fill_value = 0` -/

def zeroFrame (ch : Nat) : Frame := List.replicate ch 0

/-- `fp.seek(off); fp.read(frames=cnt, always_2d=True, fill_value=0)`: the file's frames from
    `off` on, zero frames once the file is exhausted, exactly `cnt` of them -/
def readFrames (file : List Frame) (ch off cnt : Nat) : List Frame :=
  (List.range cnt).map fun (i : Nat) => file.getD (off + i) (zeroFrame ch)

/-- offset (in frames) of a clip starting at `s` seconds: `int(np.floor(start_time * samplerate))` -/
def clipOffset (sr : Nat) (s : Rat) : Int := (s * sr).floor

/-- number of frames of a clip: `int(np.floor((end_time - start_time) * samplerate))` -/
def clipCount (sr : Nat) (s e : Rat) : Int := ((e - s) * sr).floor

/-- `load_clip(Clip(recording, s, e))` where `sr = recording.samplerate` (the recording's own,
    i.e. time-expansion adjusted, samplerate: the expansion factor enters nowhere else),
    `file` = the frames of the WAV file, `ch` its channel count. -/
def loadClip (file : List Frame) (ch sr : Nat) (s e : Rat) : Except AErr TimeArray :=
  if e < s then .error .clip
  else if sr = 0 then .error .clip
  else
    let off := clipOffset sr s
    let cnt := clipCount sr s e
    if off < 0 ∨ (file.length : Int) < off then .error .seek
    else
      let data := readFrames file ch off.toNat cnt.toNat
      -- "adjust start and end time to be on sample boundaries"
      let start : Rat := (off : Rat) / sr
      let stop : Rat := start + (cnt : Rat) / sr
      let times := rangeDim start stop (1 / sr)
      if times.length ≠ data.length then .error .shape
      else .ok ⟨data, times, 1 / sr⟩

/-- `load_recording(recording)`: all frames of the file on the axis
    `create_time_range(0, recording.duration, samplerate=recording.samplerate)` -/
def loadRecording (file : List Frame) (sr : Nat) (duration : Rat) : Except AErr TimeArray :=
  if sr = 0 then .error .clip
  else
    let times := rangeDim 0 duration (1 / sr)
    if times.length ≠ file.length then .error .shape
    else .ok ⟨file, times, 1 / sr⟩

/-- `Recording.from_file(path, time_expansion = te)` for a file of `n` frames at `fsr` Hz:
    `(samplerate, duration) = (int(fsr·te), n/fsr/te)` -/
def recordingOf (n fsr : Nat) (te : Rat) : Nat × Rat :=
  ((truncZ (fsr * te)).toNat, (n : Rat) / fsr / te)

/-- what a time-expansion factor does to a loaded array: same frames, times and step divided -/
def scaleTime (te : Rat) (a : TimeArray) : TimeArray :=
  ⟨a.frames, a.times.map (· / te), a.step / te⟩

/-! ### `resample` -/

/-- a coordinate with its advertised `step` attribute -/
structure Axis where
  coords : List Rat
  step : Rat
  deriving DecidableEq, Repr

/-- time axis of `resample(array, target)`: `n` = size of the input axis, `t0 t1` its first two
    coordinates, `step` its advertised step.  `num = int(n * (target * step))`; scipy returns
    `t0 + (t1 − t0)·(n/num)·k`, `k < num`; the new axis advertises `1/target`. -/
def resampleAxis (n : Nat) (t0 t1 step : Rat) (target : Nat) : Except AErr Axis :=
  if n < 2 then .error .index
  else
    let num := truncZ ((n : Rat) * ((target : Rat) * step))
    if num ≤ 0 then .error .zerodiv
    else .ok ⟨(List.range num.toNat).map fun (k : Nat) => t0 + (t1 - t0) * ((n : Rat) / (num : Rat)) * (k : Rat),
              1 / (target : Rat)⟩

/-! ### `compute_spectrogram` -/

structure SpecAxes where
  nperseg : Int
  noverlap : Int
  time : Axis
  freq : Axis
  deriving DecidableEq, Repr

/-- `nperseg = int(window_size * samplerate)` with `samplerate = 1 / step` -/
def stftNperseg (step w : Rat) : Int := truncZ (w * (1 / step))

/-- `noverlap = int((window_size - hop_size) * samplerate)` -/
def stftNoverlap (step w h : Rat) : Int := truncZ ((w - h) * (1 / step))

/-- number of segments scipy's `stft` produces (`boundary="zeros"`, `padded=True`) for an input
    of `len` samples: extend by `nps//2` on both sides, pad to a whole number of hops -/
def stftCount (len : Nat) (nps noverlap : Int) : Nat :=
  let nstep := nps - noverlap
  let ext := (len : Int) + 2 * (nps / 2)
  let nadd := ((-(ext - nps)) % nstep) % nps
  ((ext + nadd - nps) / nstep + 1).toNat

/-- segment times `t0 + k·nstep/fs` (`fs = 1/step`) -/
def stftTimes (t0 step : Rat) (nstep : Int) (cnt : Nat) : List Rat :=
  (List.range cnt).map fun (k : Nat) => t0 + (k : Rat) * (nstep : Rat) / (1 / step)

/-- `rfftfreq(nps, 1/fs)`: `k·fs/nps`, `k ≤ nps//2` -/
def stftFreqs (step : Rat) (nps : Int) : List Rat :=
  (List.range (nps / 2 + 1).toNat).map fun (k : Nat) => (k : Rat) * (1 / step) / (nps : Rat)

/-- the window length `compute_spectrogram` hands to scipy and computes its advertised steps from:
    the repaired code (fix C15-3, `clamp = true`) clamps the requested `nperseg` to the number of
    audio samples, `nperseg = min(nperseg, audio.sizes["time"])`; before that repair
    (`clamp = false`) it used the requested one -/
def stftClamp (clamp : Bool) (req : Int) (len : Nat) : Int := if clamp then min req (len : Int) else req

/-- axes of `compute_spectrogram(audio, w, h)` for an audio array of `len` samples whose time
    axis starts at `t0` and advertises `step`.
    `samplerate = 1/step`, `nperseg = min(int(w·samplerate), len)` (the clamp of fix C15-3),
    `noverlap = int((w−h)·samplerate)`;
    scipy (`boundary="zeros"`, `padded=True`): shrinks `nperseg` to the input length (a no-op once
    the code has clamped it), rejects `noverlap ≥ nperseg`, extends the signal by `nperseg//2` on
    both sides, pads to a whole number of hops, and returns `k·(nperseg − noverlap)/fs` for each
    segment and `k·fs/nperseg`, `k ≤ nperseg//2`.
    `pinned = true`: the code of the pinned tree, which advertises the *requested* hop `h`;
    `pinned = false`: the repaired code (fix C15-1), which advertises the realised hop
    `(nperseg − noverlap)/samplerate` (= `(nperseg − noverlap)·step`).
    `clamp = false`: the code before fix C15-3, whose advertised steps refer to the *requested*
    `nperseg` although scipy uses `min nperseg len`; `clamp = true`: the repaired code. -/
def stftAxesGen (pinned clamp : Bool) (len : Nat) (t0 step w h : Rat) : Except AErr SpecAxes :=
  let nperseg := stftClamp clamp (stftNperseg step w) len
  let noverlap := stftNoverlap step w h
  if len = 0 then .error .value
  else if nperseg < 1 then .error .value
  else
    let nps := min nperseg (len : Int)          -- scipy `_triage_segments`
    if noverlap ≥ nps then .error .value
    else
      .ok ⟨nperseg, noverlap,
           ⟨stftTimes t0 step (nps - noverlap) (stftCount len nps noverlap),
            if pinned then h else ((nperseg - noverlap : Int) : Rat) / (1 / step)⟩,
           ⟨stftFreqs step nps, 1 / step / (nperseg : Rat)⟩⟩

/-- the code that exists (fixes C15-1 and C15-3) -/
def stftAxes := stftAxesGen false true
/-- the pinned tree (before fix C15-1; no clamp either) -/
def stftAxesPinned := stftAxesGen true false
/-- pre-repair behaviour: after fix C15-1, before fix C15-3 (the requested `nperseg` is advertised) -/
def stftAxesUnclamped := stftAxesGen false false

/-! ### what the code itself computes before / after it calls the libraries

The functions below are the *plans* `load_clip`, `load_recording`, `create_time_range` /
`create_range_dim`, `resample` and `compute_spectrogram` hand to soundfile, numpy, scipy and
xarray.  The check traces the real functions symbolically (library calls replaced by recorders)
and proves, on every run and for all rational inputs, that the traced decision tree equals these
definitions (Tie 1b); `Proofs/C15.lean` proves that the model above is the composition of the
plans with the library contracts (`readFrames`, `lattice`, `stftTimes`, …). -/

/-- length of `np.arange(start, stop, step)`: `⌈(stop − start)/step⌉`, none if that is negative -/
def arangeLen (start stop step : Rat) : Nat := ((stop - start) / step).ceil.toNat

/-- number of coordinates `create_range_dim(start, stop, step)` keeps: the `arange`, minus its last
    point when there is one and it is `≥ stop − step/2` -/
def rangeCount (start stop step : Rat) : Nat :=
  let n := arangeLen start stop step
  if 0 < n ∧ start + ((n : Rat) - 1) * step ≥ stop - step / 2 then n - 1 else n

/-- `create_range_dim` as (first coordinate, spacing, number of coordinates, advertised `step`) -/
structure RangePlan where
  start : Rat
  step : Rat
  count : Nat
  adv : Rat
  deriving DecidableEq, Repr

def RangePlan.toTuple (p : RangePlan) : Rat × Rat × Rat × Rat := (p.start, p.step, (p.count : Rat), p.adv)

def rangePlan (start stop step : Rat) : RangePlan := ⟨start, step, rangeCount start stop step, step⟩

/-- `create_time_range(start, stop, samplerate = sr)`: `step = 1/sr` -/
def timeRangePlan (start stop sr : Rat) : RangePlan := rangePlan start stop (1 / sr)

/-- what `load_clip` asks of soundfile (`offset`, `samples`) and the time axis it builds -/
structure ClipPlan where
  offset : Int
  samples : Int
  axis : RangePlan
  deriving DecidableEq, Repr

def ClipPlan.toTuple (p : ClipPlan) : Rat × Rat × Rat × Rat × Rat × Rat :=
  ((p.offset : Rat), (p.samples : Rat), p.axis.start, p.axis.step, (p.axis.count : Rat), p.axis.adv)

/-- `load_clip` for a recording of samplerate `sr` and a clip `[s, e]` -/
def clipPlan (sr s e : Rat) : ClipPlan :=
  let off : Int := (s * sr).floor
  let cnt : Int := ((e - s) * sr).floor
  let start : Rat := (off : Rat) / sr
  ⟨off, cnt, timeRangePlan start (start + (cnt : Rat) / sr) sr⟩

/-- the libraries' part of `load_clip`: soundfile's seek + zero-filled read, numpy's `arange`
    lattice, xarray's length check -/
def loadClipOfPlan (file : List Frame) (ch : Nat) (p : ClipPlan) : Except AErr TimeArray :=
  if p.offset < 0 ∨ (file.length : Int) < p.offset then .error .seek
  else
    let data := readFrames file ch p.offset.toNat p.samples.toNat
    let times := lattice p.axis.start p.axis.step p.axis.count
    if times.length ≠ data.length then .error .shape
    else .ok ⟨data, times, p.axis.adv⟩

/-- `load_recording`: the whole file (`offset = 0`, `samples = None`) on
    `create_time_range(0, duration, samplerate)` -/
def recordingPlan (sr d : Rat) : RangePlan := timeRangePlan 0 d sr

def loadRecordingOfPlan (file : List Frame) (p : RangePlan) : Except AErr TimeArray :=
  let times := lattice p.start p.step p.count
  if times.length ≠ file.length then .error .shape
  else .ok ⟨file, times, p.adv⟩

/-- `resample`: the number of output samples asked of scipy and the advertised step -/
def resamplePlan (n step target : Rat) : Int × Rat := (truncZ (n * (target * step)), 1 / target)

def resamplePlanTuple (n step target : Rat) : Rat × Rat :=
  (((resamplePlan n step target).1 : Rat), (resamplePlan n step target).2)

/-- scipy's part of `resample`: `t[0] + (t[1] − t[0])·(n/num)·k`, `k < num` -/
def resampleOfPlan (n : Nat) (t0 t1 : Rat) (p : Int × Rat) : Except AErr Axis :=
  if n < 2 then .error .index
  else if p.1 ≤ 0 then .error .zerodiv
  else .ok ⟨(List.range p.1.toNat).map fun (k : Nat) => t0 + (t1 - t0) * ((n : Rat) / (p.1 : Rat)) * (k : Rat), p.2⟩

/-- what `compute_spectrogram` asks of scipy (`fs`, `nperseg`, `noverlap`) and what it writes on
    the axes (advertised frequency step, offset added to scipy's times, advertised time step) -/
structure StftPlan where
  fs : Rat
  nperseg : Int
  noverlap : Int
  freqAdv : Rat
  shift : Rat
  timeAdv : Rat
  deriving DecidableEq, Repr

def StftPlan.toTuple (p : StftPlan) : Rat × Rat × Rat × Rat × Rat × Rat :=
  (p.fs, (p.nperseg : Rat), (p.noverlap : Rat), p.freqAdv, p.shift, p.timeAdv)

/-- `compute_spectrogram` of an audio array of `len` samples (`audio.sizes["time"]`): the requested
    `nperseg = int(w·fs)` clamped to `len` (fix C15-3); both advertised steps are computed from the
    clamped one -/
def stftPlan (step w h t0 : Rat) (len : Nat) : StftPlan :=
  let fs : Rat := 1 / step
  let nperseg : Int := min (truncZ (w * fs)) (len : Int)
  let noverlap : Int := truncZ ((w - h) * fs)
  ⟨fs, nperseg, noverlap, fs / (nperseg : Rat), t0, ((nperseg : Rat) - (noverlap : Rat)) / fs⟩

/-- the same plan in the form the symbolic trace produces it: every quantity a rational, the number
    of audio samples `n` an arbitrary rational (the tie is proved for all of them;
    `Proofs/C15.lean: C15_stft_plan_tuple` specialises it to `n = len`) -/
def stftPlanTuple (step w h t0 n : Rat) : Rat × Rat × Rat × Rat × Rat × Rat :=
  let fs : Rat := 1 / step
  let nperseg : Rat := if n < ((truncZ (w * fs) : Int) : Rat) then n else ((truncZ (w * fs) : Int) : Rat)
  let noverlap : Rat := ((truncZ ((w - h) * fs) : Int) : Rat)
  (fs, nperseg, noverlap, fs / nperseg, t0, (nperseg - noverlap) / fs)

/-- pre-repair behaviour (before fix C15-3): the plan without the clamp — scipy is handed the
    requested `nperseg` and both advertised steps refer to it -/
def stftPlanUnclamped (step w h t0 : Rat) : StftPlan :=
  let fs : Rat := 1 / step
  let nperseg : Int := truncZ (w * fs)
  let noverlap : Int := truncZ ((w - h) * fs)
  ⟨fs, nperseg, noverlap, fs / (nperseg : Rat), t0, ((nperseg : Rat) - (noverlap : Rat)) / fs⟩

/-- scipy's part of `compute_spectrogram` (`boundary="zeros"`, `padded=True`, one-sided) -/
def stftOfPlan (len : Nat) (p : StftPlan) : Except AErr SpecAxes :=
  if len = 0 then .error .value
  else if p.nperseg < 1 then .error .value
  else
    let nps := min p.nperseg (len : Int)
    if p.noverlap ≥ nps then .error .value
    else
      .ok ⟨p.nperseg, p.noverlap,
           ⟨(List.range (stftCount len nps p.noverlap)).map fun (k : Nat) =>
              (k : Rat) * ((nps - p.noverlap : Int) : Rat) / p.fs + p.shift, p.timeAdv⟩,
           ⟨(List.range (nps / 2 + 1).toNat).map fun (k : Nat) => (k : Rat) * p.fs / (nps : Rat), p.freqAdv⟩⟩

/-! ### the executable statement of "the axis tells the truth" (monitor) -/

def increasing : List Rat → Bool
  | a :: b :: t => decide (a < b) && increasing (b :: t)
  | _ => true

def withinStepFrom (first step : Rat) : Nat → List Rat → Bool
  | _, [] => true
  | i, c :: t =>
    let d := c - (first + (i : Rat) * step)
    decide (-step < d ∧ d < step) && withinStepFrom first step (i + 1) t

/-- strictly increasing, starts at `first`, every coordinate within one step of `first + i·step` -/
def axisOk (first : Rat) (a : Axis) : Bool :=
  increasing a.coords &&
  (match a.coords.head? with | some c => decide (c = first) | none => true) &&
  withinStepFrom first a.step 0 a.coords

/-! ### options of `compute_spectrogram` (`padded`, `boundary`) — interplay with every input class

`window_type` and `detrend` do not reach the axes at all.  `boundary` (`"zeros"`, `"even"`, `"odd"`,
`"constant"`: the signal is extended by `nperseg//2` on both sides, `ext = true`; `None`: it is not,
`ext = false`) and `padded` only change *how many* segments scipy produces and, for `boundary=None`,
that the first segment is centred `nperseg/2` samples after the start instead of on it. -/

/-- number of segments of scipy's `stft` for every `padded` / `boundary` -/
def stftCountOpt (padded ext : Bool) (len : Nat) (nps noverlap : Int) : Nat :=
  let nstep := nps - noverlap
  let e := (len : Int) + (if ext then 2 * (nps / 2) else 0)
  let nadd := if padded then ((-(e - nps)) % nstep) % nps else 0
  ((e + nadd - nps) / nstep + 1).toNat

/-- first time coordinate: the source's start, or (no boundary extension) the centre of the first
    whole window, `nperseg/2` samples later (`nperseg/2` is scipy's true division) -/
def stftFirst (ext : Bool) (t0 step : Rat) (nps : Int) : Rat :=
  if ext then t0 else t0 + ((nps : Rat) / 2) / (1 / step)

/-- axes of `compute_spectrogram(audio, w, h, padded=…, boundary=…)` (the code that exists: realised
    hop advertised, `nperseg` clamped to the audio) -/
def stftAxesOpt (padded ext : Bool) (len : Nat) (t0 step w h : Rat) : Except AErr SpecAxes :=
  let nperseg := min (stftNperseg step w) (len : Int)
  let noverlap := stftNoverlap step w h
  if len = 0 then .error .value
  else if nperseg < 1 then .error .value
  else if noverlap ≥ nperseg then .error .value
  else
    .ok ⟨nperseg, noverlap,
         ⟨stftTimes (stftFirst ext t0 step nperseg) step (nperseg - noverlap)
            (stftCountOpt padded ext len nperseg noverlap),
          ((nperseg - noverlap : Int) : Rat) / (1 / step)⟩,
         ⟨stftFreqs step nperseg, 1 / step / (nperseg : Rat)⟩⟩

/-! ### positional calls: the documented parameter order of the four public functions

The check calls every function also *positionally* in this order; a Tie-1 obligation regenerated on
every run states that `inspect.signature` of the current source gives exactly this table
(positional-or-keyword parameters in order, with the `repr` of their defaults). -/

/-- (function, [(parameter, repr of its default or "" when it has none)]) -/
def signatures : List (String × List (String × String)) := [
  ("load_recording", [("recording", ""), ("audio_dir", "None")]),
  ("load_clip", [("clip", ""), ("audio_dir", "None")]),
  ("resample", [("array", ""), ("target_samplerate", ""), ("window", "None"), ("dim", "'time'")]),
  ("compute_spectrogram", [("audio", ""), ("window_size", ""), ("hop_size", ""), ("window_type", "'hann'"),
    ("detrend", "False"), ("padded", "True"), ("boundary", "'zeros'")])]

/-- Python's binding of positional arguments: the i-th value goes to the i-th parameter -/
def bindPositional {α : Type} (params : List String) (args : List α) : List (String × α) := params.zip args

/-- the parameter names of a documented function -/
def paramsOf (fn : String) : List String :=
  match signatures.lookup fn with
  | some ps => ps.map (·.1)
  | none => []

/-! ### sessions: several arrays derived from one another in one process

A session is a list of steps; step `k` produces value `k` from the file (loads) or from an *earlier*
value (`src < k`).  The model is pure: a value, once produced, never changes — which is exactly what
the check demands of the code (every array is looked at again after every later call). -/

/-- what a step produces: an audio array (its time axis) or a spectrogram (both axes) -/
inductive SVal
  | audio (a : Axis)
  | spec (s : SpecAxes)
  deriving DecidableEq, Repr

inductive Step
  | loadClip (s e : Rat)
  | loadRecording
  | resample (src target : Nat)
  | spectrogram (src : Nat) (w h : Rat) (padded ext : Bool)
  | slice (src a b : Nat)        -- `array.isel(time=slice(a, b))`
  | look (src : Nat)             -- the earlier array itself, looked at / copied again
  deriving DecidableEq, Repr

/-- the file and recording a session works on -/
structure Source where
  file : List Frame
  ch : Nat
  sr : Nat
  duration : Rat

/-- the audio array a step reads: value `j` of the session so far -/
def srcAudio (env : List (Except AErr SVal)) (j : Nat) : Except AErr Axis :=
  match env[j]? with
  | some (.ok (.audio a)) => .ok a
  | some (.ok (.spec _)) => .error .value       -- a spectrogram is not an audio array
  | some (.error e) => .error e                 -- the source could not be produced
  | none => .error .index

/-- one step = the base operation's model on the value its source had when it was produced -/
def evalStep (S : Source) (env : List (Except AErr SVal)) : Step → Except AErr SVal
  | .loadClip s e => (loadClip S.file S.ch S.sr s e).map fun a => .audio ⟨a.times, a.step⟩
  | .loadRecording => (loadRecording S.file S.sr S.duration).map fun a => .audio ⟨a.times, a.step⟩
  | .resample j target => do
      let a ← srcAudio env j
      let r ← resampleAxis a.coords.length (a.coords.headD 0) (a.coords.getD 1 0) a.step target
      return .audio r
  | .spectrogram j w h padded ext => do
      let a ← srcAudio env j
      let r ← stftAxesOpt padded ext a.coords.length (a.coords.headD 0) a.step w h
      return .spec r
  | .slice j a b => do
      let x ← srcAudio env j
      return .audio ⟨(x.coords.take b).drop a, x.step⟩
  | .look j => do
      let x ← srcAudio env j
      return .audio x

/-- the values of a session, in order -/
def runSession (S : Source) (steps : List Step) : List (Except AErr SVal) :=
  steps.foldl (fun env st => env ++ [evalStep S env st]) []

/-- an audio axis whose spacing is its advertised step (what `resample` needs of its input) -/
def Axis.exact (a : Axis) : Bool :=
  match a.coords with
  | x :: y :: _ => decide (y - x = a.step)
  | _ => true

/-- every axis of a value tells the truth about itself: strictly increasing and within one
    advertised step of `first + i·step`, `first` its own first coordinate -/
def SVal.truthful : SVal → Bool
  | .audio a => axisOk (a.coords.headD 0) a
  | .spec s => axisOk (s.time.coords.headD 0) s.time && axisOk 0 s.freq

/-- a 6-frame stereo file (used by the non-vacuity examples of `Proofs/C15.lean`) -/
def demoFile : List Frame := [[1, -1], [2, -2], [3, -3], [4, -4], [5, -5], [6, -6]]

end SE.Audio
