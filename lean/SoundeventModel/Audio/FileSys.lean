/-
  C15 — the state carried between calls of `load_clip` / `load_recording` / `Recording.from_file` is the
  file system.

  A file system is a map `path → WAV file`; a WAV file is its frames (PCM codes), its channel count and the
  samplerate of its header.  Somebody (a recorder, an export, the user) **rewrites** the file under a path
  between two loads: a longer take, a shorter one, another samplerate, another channel count, other sample
  values of equal length.  `load_clip` / `load_recording` open the file on every call (`with sf.SoundFile(path)`),
  so every load reads the content the path has *now*; what a `Recording` object says (samplerate, duration) is
  the caller's business — `Recording.from_file` reads it off the file of that moment.

  Directories are not modelled (a path is just a key), as in C01's `SoundeventModel/Aoef/FileSys.lean`.
-/
import SoundeventModel.Audio
import SoundeventModel.History
namespace SE.Audio.FS
open SE SE.Audio

/-- what a path holds -/
structure Wav where
  frames : List Frame
  ch : Nat
  fsr : Nat            -- the samplerate written into the header
  deriving DecidableEq, Repr

/-- the one-cell-per-path file system -/
def FileSys := String → Option Wav

def empty : FileSys := fun _ => none

def read (p : String) (fs : FileSys) : Option Wav := fs p

/-- writing **replaces** the content of `p` (whatever it was: longer, shorter, another format) and touches
    nothing else -/
def write (p : String) (w : Wav) (fs : FileSys) : FileSys := fun q => if q = p then some w else fs q

def remove (p : String) (fs : FileSys) : FileSys := fun q => if q = p then none else fs q

/-- a `Recording` object as far as loading looks at it -/
structure Rec where
  path : String
  sr : Nat             -- `recording.samplerate`
  duration : Rat       -- `recording.duration`
  deriving DecidableEq, Repr

/-- the calls of a history -/
inductive Cmd
  | put (p : String) (w : Wav)              -- somebody (re)writes the file under `p`
  | rm (p : String)                         -- somebody removes it
  | fromFile (p : String) (te : Rat)        -- `Recording.from_file(p, time_expansion=te)`
  | loadClip (r : Rec) (s e : Rat)          -- `load_clip(Clip(recording=r, start_time=s, end_time=e))`
  | loadRecording (r : Rec)                 -- `load_recording(r)`

/-- what a call answers -/
inductive Out
  | done                                    -- `put` / `rm` returned
  | notFound                                -- there is no file under the path
  | recording (r : Rec)                     -- `from_file` returned
  | array (a : Except AErr TimeArray)       -- a load returned / raised

/-- the path a command writes to (`none`: it writes nothing) -/
def Cmd.target : Cmd → Option String
  | .put p _ => some p
  | .rm p => some p
  | _ => none

/-- the recording `Recording.from_file` describes for a file -/
def recOf (p : String) (w : Wav) (te : Rat) : Rec :=
  ⟨p, (recordingOf w.frames.length w.fsr te).1, (recordingOf w.frames.length w.fsr te).2⟩

/-- a load of recording `r` from the content `w` its path holds -/
def answer (w : Wav) : Cmd → Out
  | .loadClip r s e => .array (loadClip w.frames w.ch r.sr s e)
  | .loadRecording r => .array (loadRecording w.frames r.sr r.duration)
  | .fromFile p te => .recording (recOf p w te)
  | _ => .done

/-- the path a command reads -/
def Cmd.source : Cmd → Option String
  | .loadClip r _ _ => some r.path
  | .loadRecording r => some r.path
  | .fromFile p _ => some p
  | _ => none

/-- a read of path `p`: answered from the content `p` holds now -/
def load (fs : FileSys) (p : String) (c : Cmd) : Out :=
  match read p fs with
  | some w => answer w c
  | none => .notFound

/-- one call of the real code against the file system: reads open the file *now* -/
def exec (fs : FileSys) : Cmd → FileSys × Out
  | .put p w => (write p w fs, .done)
  | .rm p => (remove p fs, .done)
  | .fromFile p te => (fs, load fs p (.fromFile p te))
  | .loadClip r s e => (fs, load fs r.path (.loadClip r s e))
  | .loadRecording r => (fs, load fs r.path (.loadRecording r))

/-! ### the unit of the property over file histories: a take is written, described, and loaded -/

/-- the file under `path` is (re)written with `wav`, a `Recording` is made from it with time expansion `te`,
    the clip `[s, e]` of it and the whole recording are loaded -/
structure Take where
  path : String
  wav : Wav
  te : Rat
  s : Rat
  e : Rat

/-- what a take answers: the clip and the whole recording -/
abbrev TakeOut := Except AErr TimeArray × Except AErr TimeArray

def outArray : Out → Except AErr TimeArray
  | .array a => a
  | _ => .error .seek        -- no file: libsndfile cannot open it

/-- a take against whatever the file system holds, for a given way `x` of executing a call in state `σ` -/
def takeStepW {σ : Type} (x : σ → Cmd → σ × Out) (st : σ) (t : Take) : σ × TakeOut :=
  let (st1, _) := x st (.put t.path t.wav)
  let (st2, r) := x st1 (.fromFile t.path t.te)
  let rec_ : Rec := match r with | .recording r => r | _ => ⟨t.path, 0, 0⟩
  let (st3, c) := x st2 (.loadClip rec_ t.s t.e)
  let (st4, a) := x st3 (.loadRecording rec_)
  (st4, (outArray c, outArray a))

def takeStep : FileSys → Take → FileSys × TakeOut := takeStepW exec

/-- the pure model of a take: no file system at all -/
def takePure (t : Take) : TakeOut :=
  let r := recOf t.path t.wav t.te
  (loadClip t.wav.frames t.wav.ch r.sr t.s t.e, loadRecording t.wav.frames r.sr r.duration)

/-! ### an implementation that is *not* history-free: sound files kept open per path

`load_audio` keeps the handle of a file it has opened (a cache keyed by the path): a handle knows the header
and the data of the file **as it was when it was opened**.  `from_file` opens the file afresh. -/

/-- state: the file system and the open handles (path ↦ the file as it was when it was opened) -/
abbrev StaleState := FileSys × List (String × Wav)

/-- a read through the handle kept for `p` (opened and kept when there is none yet) -/
def loadStale (st : StaleState) (p : String) (c : Cmd) : StaleState × Out :=
  match st.2.lookup p with
  | some w => (st, answer w c)                                  -- the handle that is still open
  | none =>
    match read p st.1 with
    | some w => ((st.1, (p, w) :: st.2), answer w c)            -- open and keep
    | none => (st, .notFound)

def execStale (st : StaleState) : Cmd → StaleState × Out
  | .put p w => ((write p w st.1, st.2), .done)
  | .rm p => ((remove p st.1, st.2), .done)
  | .fromFile p te => (st, load st.1 p (.fromFile p te))
  | .loadClip r s e => loadStale st r.path (.loadClip r s e)
  | .loadRecording r => loadStale st r.path (.loadRecording r)

end SE.Audio.FS
