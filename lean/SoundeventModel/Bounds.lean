/-
  C05: the four code paths of `soundevent.geometry` that read a geometry's extent

    conversion.py   geometry_to_shapely and the nine `*_to_shapely`
    operations.py   compute_bounds          (already `SE.Geom.bounds` in Geometry.lean)
    features.py     _COMPUTE_FEATURES and the nine `_compute_*_features`
    operations.py   get_geometry_point

  Everything is over `Rat`; shapely's `bounds` is a min/max over the vertices of the
  converted shape (polygons: the shell), its `centroid` / `point_on_surface` are
  parameters (`lib`) whose post-condition is monitored at run time.
-/
import SoundeventModel.Geometry
namespace SE.Bnd
open SE

/-! ### the shapely conversion -/

/-- what `geometry_to_shapely` builds: shapely kind and vertex structure -/
inductive Shape
  | point (p : Pt)
  | lineString (pts : List Pt)
  | polygon (shell : List Pt) (holes : List (List Pt))
  | multiPoint (pts : List Pt)
  | multiLineString (lines : List (List Pt))
  | multiPolygon (polys : List (List Pt × List (List Pt)))
  deriving DecidableEq, Repr, Inhabited

/-- shapely builds a `LinearRing` from every ring: an open ring gets its first vertex
    appended, and so does a closed ring of only three vertices (a ring has at least four) -/
def closeRing (r : List Pt) : List Pt :=
  match r with
  | [] => []
  | p :: _ => if r.getLast? ≠ some p ∨ r.length < 4 then r ++ [p] else r

/-- `shapely.geometry.box(minx, miny, maxx, maxy)` (ccw): the four corners made into a
    `LinearRing` (so a zero-width box, whose first and last corner coincide, has four vertices) -/
def boxRing (x0 y0 x1 y1 : Rat) : List Pt :=
  closeRing [(x1, y0), (x1, y1), (x0, y1), (x0, y0)]

/-- `Polygon(shell = rings[0], holes = rings[1:])` -/
def polyOf (rings : List (List Pt)) : List Pt × List (List Pt) :=
  (closeRing (rings.headD []), rings.tail.map closeRing)

/-- the ring is stored closed (first vertex repeated at the end, at least four vertices) -/
def ringClosed (r : List Pt) : Bool := r.getLast? == r.head? && decide (4 ≤ r.length)

/-- every ring of the geometry is stored closed -/
def RingsClosed : Geom → Bool
  | .polygon rings => rings.all ringClosed
  | .multiPolygon ps => ps.all (fun rings => rings.all ringClosed)
  | _ => true

/-- `geometry_to_shapely`, one case per `*_to_shapely` function -/
def toShape : Geom → Shape
  | .timeStamp t => .lineString [(t, 0), (t, MAXF)]
  | .timeInterval s e => .polygon (boxRing s 0 e MAXF) []
  | .point t f => .point (t, f)
  | .lineString pts => .lineString pts
  | .polygon rings => .polygon (polyOf rings).1 (polyOf rings).2
  | .boundingBox s l e h => .polygon (boxRing s l e h) []
  | .multiPoint pts => .multiPoint pts
  | .multiLineString ls => .multiLineString ls
  | .multiPolygon ps => .multiPolygon (ps.map polyOf)

/-- shapely's `geom_type` -/
def Shape.kind : Shape → String
  | .point _ => "Point"
  | .lineString _ => "LineString"
  | .polygon .. => "Polygon"
  | .multiPoint _ => "MultiPoint"
  | .multiLineString _ => "MultiLineString"
  | .multiPolygon _ => "MultiPolygon"

/-- every vertex of the shape, in order (shell before holes, part after part) -/
def Shape.coords : Shape → List Pt
  | .point p => [p]
  | .lineString pts => pts
  | .polygon shell holes => shell ++ holes.flatten
  | .multiPoint pts => pts
  | .multiLineString ls => ls.flatten
  | .multiPolygon ps => (ps.map (fun p => p.1 ++ p.2.flatten)).flatten

/-- the vertices GEOS's envelope ranges over: all of them, except that a polygon's
    envelope is that of its shell -/
def Shape.envPts : Shape → List Pt
  | .point p => [p]
  | .lineString pts => pts
  | .polygon shell _ => shell
  | .multiPoint pts => pts
  | .multiLineString ls => ls.flatten
  | .multiPolygon ps => (ps.map (·.1)).flatten

/-- shapely `.bounds` of the converted shape -/
def Shape.bounds (s : Shape) : Option Bounds := ptsBounds s.envPts

/-- `len(geom.geoms)` of a multi-part shape (1 otherwise) -/
def Shape.numParts : Shape → Nat
  | .multiPoint pts => pts.length
  | .multiLineString ls => ls.length
  | .multiPolygon ps => ps.length
  | _ => 1

/-- the way back, for the six types whose coordinates are vertices (used to state that the
    conversion loses nothing) -/
def Shape.back : Shape → Geom
  | .point p => .point p.1 p.2
  | .lineString pts => .lineString pts
  | .polygon shell holes => .polygon (shell :: holes)
  | .multiPoint pts => .multiPoint pts
  | .multiLineString ls => .multiLineString ls
  | .multiPolygon ps => .multiPolygon (ps.map (fun p => p.1 :: p.2))

/-- all coordinates a geometry stores, as points (time-only types: none, see `times`) -/
def allPts : Geom → List Pt
  | .timeStamp _ => []
  | .timeInterval .. => []
  | .point t f => [(t, f)]
  | .lineString pts => pts
  | .polygon rings => rings.flatten
  | .boundingBox s l e h => [(s, l), (e, h)]
  | .multiPoint pts => pts
  | .multiLineString ls => ls.flatten
  | .multiPolygon ps => (ps.map List.flatten).flatten

/-- is the geometry one of the two time-only types -/
def timeOnly : Geom → Bool
  | .timeStamp _ => true
  | .timeInterval .. => true
  | _ => false

/-- what the data model guarantees about the order of the stored numbers (the only part of
    C03's validity the theorems of C05 need): an interval's start is not after its end, a box
    is stored as (start, low, end, high) with start ≤ end and low ≤ high -/
def Ordered : Geom → Prop
  | .timeInterval s e => s ≤ e
  | .boundingBox s l e h => s ≤ e ∧ l ≤ h
  | _ => True

instance : DecidablePred Ordered := fun g => by
  cases g <;> unfold Ordered <;> infer_instance

/-- every hole vertex of every polygon lies in the envelope of that polygon's shell
    (true of every OGC-valid polygon; stated on the vertex level so that it is decidable) -/
def holesInShellEnvelope (rings : List (List Pt)) : Bool :=
  match ptsBounds (rings.headD []) with
  | none => rings.tail.flatten.isEmpty
  | some b => rings.tail.flatten.all (fun p =>
      decide (b.st ≤ p.1) && decide (p.1 ≤ b.en) && decide (b.lo ≤ p.2) && decide (p.2 ≤ b.hi))

def HolesInside : Geom → Bool
  | .polygon rings => holesInShellEnvelope rings
  | .multiPolygon ps => ps.all holesInShellEnvelope
  | _ => true

/-! ### features -/

/-- names of the five feature terms (`soundevent.terms.duration` … `num_segments`) -/
def fDuration := "duration"
def fLow := "low_freq"
def fHigh := "high_freq"
def fBandwidth := "bandwidth"
def fSegments := "num_segments"

/-- the four features every frequency-bearing type reports, read from a bounds tuple -/
def boundsFeatures (b : Bounds) : List (String × Rat) :=
  [(fDuration, b.en - b.st), (fLow, b.lo), (fHigh, b.hi), (fBandwidth, b.hi - b.lo)]

/-- the feature functions of the six types that read `geometry_to_shapely(g).bounds`
    (and `len(geom.geoms)` for the multi-geometries), keyed by type tag like
    `_COMPUTE_FEATURES` -/
def shapeFeatures (tag : String) (b : Bounds) (n : Nat) : List (String × Rat) :=
  if tag = "Point" then [(fDuration, 0), (fLow, b.lo), (fHigh, b.hi), (fBandwidth, 0)]
  else if tag = "LineString" ∨ tag = "Polygon" then boundsFeatures b
  else boundsFeatures b ++ [(fSegments, (n : Rat))]

/-- `compute_geometric_features`, one case per entry of `_COMPUTE_FEATURES`;
    `none` only for a geometry without points (never valid) -/
def features (g : Geom) : Option (List (String × Rat)) :=
  match g with
  | .timeStamp _ => some [(fDuration, 0)]
  | .timeInterval s e => some [(fDuration, e - s)]
  | .boundingBox s l e h =>
      some [(fDuration, e - s), (fLow, l), (fHigh, h), (fBandwidth, h - l)]
  | _ => (toShape g).bounds.map fun b => shapeFeatures g.tag b (toShape g).numParts

/-- keys of `_COMPUTE_FEATURES` -/
def featureTypes : List String :=
  ["TimeStamp", "TimeInterval", "BoundingBox", "Point", "LineString", "Polygon",
   "MultiPoint", "MultiLineString", "MultiPolygon"]

/-- what a feature must be, given the bounds and the number of parts -/
def ofBounds (name : String) (b : Bounds) (parts : Nat) : Option Rat :=
  if name = fDuration then some (b.en - b.st)
  else if name = fLow then some b.lo
  else if name = fHigh then some b.hi
  else if name = fBandwidth then some (b.hi - b.lo)
  else if name = fSegments then some (parts : Rat)
  else none

/-- number of parts of the geometry itself (points, lines, polygons of a multi-geometry) -/
def parts : Geom → Nat
  | .multiPoint pts => pts.length
  | .multiLineString ls => ls.length
  | .multiPolygon ps => ps.length
  | _ => 1

/-- the feature names each type must report, in order -/
def expectedNames (g : Geom) : List String :=
  if timeOnly g then [fDuration]
  else match g with
    | .multiPoint _ | .multiLineString _ | .multiPolygon _ =>
        [fDuration, fLow, fHigh, fBandwidth, fSegments]
    | _ => [fDuration, fLow, fHigh, fBandwidth]

/-! ### anchor points -/

/-- the `Positions` literal of operations.py -/
def positionNames : List String :=
  ["bottom-left", "bottom-right", "top-left", "top-right", "center-left", "center-right",
   "top-center", "bottom-center", "center", "centroid", "point_on_surface"]

/-- the nine positions computed from the bounds -/
def boundsPositions : List String :=
  ["bottom-left", "bottom-right", "top-left", "top-right", "center-left", "center-right",
   "top-center", "bottom-center", "center"]

def splitAux (sep : Char) : List Char → List Char → List (List Char)
  | [], acc => [acc.reverse]
  | c :: cs, acc =>
    if c = sep then acc.reverse :: splitAux sep cs [] else splitAux sep cs (c :: acc)

/-- Python's `position.split("-")` -/
def splitDash (s : String) : List String := (splitAux '-' s.toList []).map String.ofList

/-- the dictionary `{"left": start, "center": mid, "right": end}[x]` -/
def timeSel (b : Bounds) (x : String) : Option Rat :=
  if x = "left" then some b.st
  else if x = "center" then some ((b.st + b.en) / 2)
  else if x = "right" then some b.en
  else none

/-- the dictionary `{"bottom": low, "center": mid, "top": high}[y]` -/
def freqSel (b : Bounds) (y : String) : Option Rat :=
  if y = "bottom" then some b.lo
  else if y = "center" then some ((b.lo + b.hi) / 2)
  else if y = "top" then some b.hi
  else none

/-- `get_geometry_point` after `compute_bounds`; `lib` stands for shapely's `centroid` and
    `point_on_surface` of the converted shape (not modelled) -/
def pointAt (lib : String → Pt) (pos : String) (b : Bounds) : Except Err Pt :=
  if ¬ pos ∈ positionNames then .error .invalid
  else if pos = "centroid" then .ok (lib pos)
  else if pos = "point_on_surface" then .ok (lib pos)
  else if pos = "center" then .ok ((b.st + b.en) / 2, (b.lo + b.hi) / 2)
  else match splitDash pos with
    | [y, x] =>
      match timeSel b x, freqSel b y with
      | some t, some f => .ok (t, f)
      | _, _ => .error .key
    | _ => .error .invalid

/-- the point lies in the closed rectangle -/
def inside (b : Bounds) (p : Pt) : Bool :=
  decide (b.st ≤ p.1) && decide (p.1 ≤ b.en) && decide (b.lo ≤ p.2) && decide (p.2 ≤ b.hi)

/-- `inside` with a slack of `tol · max(1, |coordinate|)` per side: the monitor of shapely's
    centroid / point-on-surface, which are computed in binary64 -/
def insideTol (tol : Rat) (b : Bounds) (p : Pt) : Bool :=
  let sl (x : Rat) : Rat := tol * max 1 (if x < 0 then -x else x)
  decide (b.st - sl b.st ≤ p.1) && decide (p.1 ≤ b.en + sl b.en) &&
  decide (b.lo - sl b.lo ≤ p.2) && decide (p.2 ≤ b.hi + sl b.hi)

/-! ### specification vocabulary (used by the theorems of `Proofs/C05.lean`) -/

/-- `b` is the bounding rectangle of `pts`: it contains every point and each of its four
    sides is attained by some point, i.e. `b = (min time, min freq, max time, max freq)` -/
structure IsBoundsOf (b : Bounds) (pts : List Pt) : Prop where
  contains : ∀ p ∈ pts, b.st ≤ p.1 ∧ p.1 ≤ b.en ∧ b.lo ≤ p.2 ∧ p.2 ≤ b.hi
  st_attained : ∃ p ∈ pts, p.1 = b.st
  lo_attained : ∃ p ∈ pts, p.2 = b.lo
  en_attained : ∃ p ∈ pts, p.1 = b.en
  hi_attained : ∃ p ∈ pts, p.2 = b.hi

/-- executable form of `IsBoundsOf` (see `isBoundsOfB_iff`) -/
def isBoundsOfB (b : Bounds) (pts : List Pt) : Bool :=
  pts.all (fun p => decide (b.st ≤ p.1 ∧ p.1 ≤ b.en ∧ b.lo ≤ p.2 ∧ p.2 ≤ b.hi)) &&
  pts.any (fun p => decide (p.1 = b.st)) && pts.any (fun p => decide (p.2 = b.lo)) &&
  pts.any (fun p => decide (p.1 = b.en)) && pts.any (fun p => decide (p.2 = b.hi))

/-- the points the property's "min/max over its coordinates" ranges over: the stored
    coordinates, a time-only geometry spanning the band `[0, MAXF]` -/
def specPts (g : Geom) : List Pt := if timeOnly g then g.boundPts else allPts g

/-- executable statement of the bounds clause on an observed result of `compute_bounds` -/
def boundsHolds (g : Geom) (b : Bounds) : Bool := isBoundsOfB b (specPts g)

/-- executable statement of the features clause on an observed feature list, given the
    observed bounds of the same geometry -/
def featuresHolds (g : Geom) (b : Bounds) (fs : List (String × Rat)) : Bool :=
  decide (fs.map (·.1) = expectedNames g) &&
  fs.all (fun nv => decide (ofBounds nv.1 b (parts g) = some nv.2))


/-! ### second-engineer additions (review of C05)

  1. the shapely constructor calls `conversion.py` makes (`toCall`), separated from what shapely
     builds from them (`ShCall.realize`, trusted and compared differentially): the functions
     `*_to_shapely` are straight-line and are tied to `toCall` symbolically for all inputs;
  2. GEOS's centroid algorithm (`geos::algorithm::Centroid`) over `Rat`, the segment length
     (a square root) being a parameter `len`;
  3. the full `get_geometry_point` with the centroid modelled (`getPoint`);
  4. the dispatch of `compute_geometric_features` / `geometry_to_shapely` on the type tag. -/

/-- a call of a shapely constructor as made by one of the `*_to_shapely` functions -/
inductive ShCall
  | box (x0 y0 x1 y1 : Rat)                 -- shapely.geometry.box(minx, miny, maxx, maxy)
  | point (p : Pt)                          -- Point(coordinates)
  | lineString (pts : List Pt)              -- LineString(coordinates) / shapely.linestrings(coordinates)
  | polygon (shell : List Pt) (holes : List (List Pt))      -- Polygon(shell, holes)
  | multiPoint (pts : List Pt)
  | multiLineString (lines : List (List Pt))
  | multiPolygon (polys : List (List Pt × List (List Pt)))   -- MultiPolygon([Polygon(shell, holes), …])
  deriving DecidableEq, Repr, Inhabited

/-- the constructor call each `*_to_shapely` makes (`coordinates[0]`, `coordinates[1:]` for rings) -/
def toCall : Geom → ShCall
  | .timeStamp t => .lineString [(t, 0), (t, MAXF)]
  | .timeInterval s e => .box s 0 e MAXF
  | .point t f => .point (t, f)
  | .lineString pts => .lineString pts
  | .polygon rings => .polygon (rings.headD []) rings.tail
  | .boundingBox s l e h => .box s l e h
  | .multiPoint pts => .multiPoint pts
  | .multiLineString ls => .multiLineString ls
  | .multiPolygon ps => .multiPolygon (ps.map fun rings => (rings.headD [], rings.tail))

/-- what shapely builds from the call (rings become closed `LinearRing`s, `box` is the ccw ring
    starting at (maxx, miny)) -/
def ShCall.realize : ShCall → Shape
  | .box x0 y0 x1 y1 => .polygon (boxRing x0 y0 x1 y1) []
  | .point p => .point p
  | .lineString pts => .lineString pts
  | .polygon shell holes => .polygon (closeRing shell) (holes.map closeRing)
  | .multiPoint pts => .multiPoint pts
  | .multiLineString ls => .multiLineString ls
  | .multiPolygon ps => .multiPolygon (ps.map fun p => (closeRing p.1, p.2.map closeRing))

/-- `compute_geometric_features` / `geometry_to_shapely` look the type tag up; an unknown tag is
    `NotImplementedError` -/
def dispatch (tag : String) : Except Err Unit :=
  if tag ∈ featureTypes then .ok () else .error .notImpl

/-! #### GEOS centroid -/

/-- consecutive vertex pairs -/
def segs (pts : List Pt) : List (Pt × Pt) := pts.zip pts.tail

/-- `Triangle::area2(a, p, q)`: twice the signed area -/
def tri2 (a p q : Pt) : Rat := (p.1 - a.1) * (q.2 - a.2) - (q.1 - a.1) * (p.2 - a.2)

/-- a weighted point -/
abbrev WPt := Rat × Pt

def wsum (ts : List WPt) : Rat := (ts.map (·.1)).foldr (· + ·) 0
def wsumX (ts : List WPt) : Rat := (ts.map fun t => t.1 * t.2.1).foldr (· + ·) 0
def wsumY (ts : List WPt) : Rat := (ts.map fun t => t.1 * t.2.2).foldr (· + ·) 0

/-- the weighted mean `Σ w·p / Σ w` -/
def wmean (ts : List WPt) : Pt := (wsumX ts / wsum ts, wsumY ts / wsum ts)

/-- the fan of a ring about its first vertex: (twice the signed area, centroid) of every triangle
    (first vertex, pᵢ, pᵢ₊₁) -/
def fanTerms (r : List Pt) : List WPt :=
  match r with
  | [] => []
  | a :: _ => (segs r).map fun s => (tri2 a s.1 s.2, ((a.1 + s.1.1 + s.2.1) / 3, (a.2 + s.1.2 + s.2.2) / 3))

/-- `Centroid::addShell` / `addHole`: the fan terms signed so that a shell counts positive and a
    hole negative whatever the stored orientation (GEOS asks `Orientation::isCCW`; for a simple
    ring that is the sign of the fan sum, which is what the model uses) -/
def ringTerms (hole : Bool) (r : List Pt) : List WPt :=
  let ts := fanTerms r
  let pos := decide (0 ≤ wsum ts)
  if pos = hole then ts.map fun t => (-t.1, t.2) else ts

/-- `Centroid::addLineSegments`: (length, midpoint) of every segment -/
def segTerms (len : Pt → Pt → Rat) (pts : List Pt) : List WPt :=
  (segs pts).map fun s => (len s.1 s.2, ((s.1.1 + s.2.1) / 2, (s.1.2 + s.2.2) / 2))

/-- a line of zero length counts as its first point -/
def linePtTerms (len : Pt → Pt → Rat) (pts : List Pt) : List WPt :=
  match pts with
  | [] => []
  | p :: _ => if wsum (segTerms len pts) = 0 then [(1, p)] else []

def polyRings (p : List Pt × List (List Pt)) : List (Bool × List Pt) :=
  (false, p.1) :: p.2.map fun h => (true, h)

/-- the polygons of an areal shape -/
def Shape.polys : Shape → List (List Pt × List (List Pt))
  | .polygon shell holes => [(shell, holes)]
  | .multiPolygon ps => ps
  | _ => []

/-- the lines of a shape: line strings and the rings of polygons -/
def Shape.lines : Shape → List (List Pt)
  | .lineString pts => [pts]
  | .multiLineString ls => ls
  | .polygon shell holes => shell :: holes
  | .multiPolygon ps => (ps.map fun p => p.1 :: p.2).flatten
  | _ => []

def Shape.areaTerms (s : Shape) : List WPt :=
  (s.polys.map fun p => ((polyRings p).map fun r => ringTerms r.1 r.2).flatten).flatten

def Shape.lineTerms (len : Pt → Pt → Rat) (s : Shape) : List WPt :=
  (s.lines.map (segTerms len)).flatten

def Shape.ptTerms (len : Pt → Pt → Rat) : Shape → List WPt
  | .point p => [(1, p)]
  | .multiPoint pts => pts.map fun p => (1, p)
  | s => (s.lines.map (linePtTerms len)).flatten

/-- `Centroid::getCentroid`: the areal centroid if there is area, else the centroid of the lines
    if there is length, else the mean of the points -/
def Shape.centroid (len : Pt → Pt → Rat) (s : Shape) : Option Pt :=
  if wsum s.areaTerms ≠ 0 then some (wmean s.areaTerms)
  else if 0 < wsum (s.lineTerms len) then some (wmean (s.lineTerms len))
  else if s.ptTerms len ≠ [] then some (wmean (s.ptTerms len))
  else none

/-- all fan triangles of the ring turn the same way (every convex ring, every ring star-shaped
    about its first vertex) -/
def fanSameSign (r : List Pt) : Bool :=
  (fanTerms r).all (fun t => decide (0 ≤ t.1)) || (fanTerms r).all (fun t => decide (t.1 ≤ 0))

/-- the class of shapes for which `centroid inside the bounds` is proved: no holes, every shell
    fan-convex (boxes, intervals, triangles, convex polygons, all points and lines) -/
def Shape.Tame (s : Shape) : Bool :=
  s.polys.all fun p => p.2.isEmpty && fanSameSign p.1

/-- the segment lengths are not negative, and zero on a degenerate segment (contract of the
    parameter `len`, evaluated on every length the harness passes) -/
def LenOK (len : Pt → Pt → Rat) : Prop := ∀ p q, 0 ≤ len p q

/-- `get_geometry_point` in full: the centroid is GEOS's (modelled), `pos` stands for shapely's
    `point_on_surface` (not modelled); a shape without centroid (no vertices) is an error -/
def getPoint (len : Pt → Pt → Rat) (pos_ : Pt) (g : Geom) (name : String) : Except Err Pt :=
  if name = "centroid" then
    match (toShape g).centroid len with
    | some c => .ok c
    | none => .error .invalid
  else match g.bounds with
    | some b => pointAt (fun _ => pos_) name b
    | none => .error .invalid

/-- the point is one of the vertices the envelope ranges over (contract of `point_on_surface`
    for shapes of dimension 0 and 1, where GEOS answers a vertex) -/
def isVertex (g : Geom) (p : Pt) : Bool := g.boundPts.contains p

/-- shapes of dimension 0 or 1 -/
def lowDim : Geom → Bool
  | .timeStamp _ | .point .. | .lineString _ | .multiPoint _ | .multiLineString _ => true
  | _ => false



/-! ### third-engineer additions (follow-up: histories and construction paths)

  1. *Histories.*  The four public functions are pure: what a call answers is a function of the
     content the geometry object carries when the call is made and of the call, nothing else.  A
     history is a list of steps in one process — the object gets (new) content, a function is
     called, the caller mutates a value that an earlier call returned ("poison") — and `runHist`
     is its one right answer.  (`C05_history_pure`, `C05_history_poison` in Proofs/C05.lean.)
  2. *Call forms.*  Python binds positional and keyword arguments to the parameter list;
     `bindCall` is that rule, the parameter lists of the four public functions are re-extracted
     by introspection on every run (`sigOK`).  (`C05_call_forms`, `C05_call_forms_unary`.) -/

/-- one call of a public function on a geometry object -/
inductive Call
  | bounds                  -- compute_bounds(g)
  | features                -- compute_geometric_features(g)
  | shape                   -- geometry_to_shapely(g)
  | point (pos : String)    -- get_geometry_point(g, pos)
  deriving DecidableEq, Repr, Inhabited

/-- what a call returns -/
inductive Ans
  | bounds (b : Bounds)
  | features (fs : List (String × Rat))
  | shape (s : Shape)
  | point (p : Pt)
  deriving DecidableEq, Repr, Inhabited

/-- the answer of a call on a geometry with content `g` (`lib g` stands for shapely's centroid /
    point on surface of the converted shape); a geometry without points (never valid) is an error -/
def answer (lib : Geom → String → Pt) (g : Geom) : Call → Except Err Ans
  | .bounds => match g.bounds with
      | some b => .ok (.bounds b)
      | none => .error .invalid
  | .features => match features g with
      | some fs => .ok (.features fs)
      | none => .error .invalid
  | .shape => .ok (.shape (toShape g))
  | .point pos => match g.bounds with
      | some b => match pointAt (lib g) pos b with
          | .ok p => .ok (.point p)
          | .error e => .error e
      | none => .error .invalid

/-- a step of a history in one process -/
inductive Step
  | set (g : Geom)        -- a fresh object, or the object in use gets new coordinates (assignment,
                          -- model_copy(update=…), copy + assignment, in-place edit of the list)
  | query (c : Call)      -- a call on the object
  | poison (k : Nat)      -- the caller mutates, in place, the value the k-th call returned
  deriving DecidableEq, Repr, Inhabited

/-- the answers of the calls of a history, in order; `cur` is the content of the object in use -/
def runHist (lib : Geom → String → Pt) : Option Geom → List Step → List (Except Err Ans)
  | _, [] => []
  | _, .set g :: rest => runHist lib (some g) rest
  | cur, .poison _ :: rest => runHist lib cur rest
  | none, .query _ :: rest => .error .invalid :: runHist lib none rest
  | some g, .query c :: rest => answer lib g c :: runHist lib (some g) rest

def Step.isPoison : Step → Bool
  | .poison _ => true
  | _ => false

/-- a parameter of a Python function: its name and its default (if it has one); argument values
    are opaque tokens -/
structure Param where
  name : String
  dflt : Option String
  deriving DecidableEq, Repr, Inhabited

/-- Python's binding of positional arguments `pos` and keyword arguments `kw` to the parameters,
    in parameter order (`none`: TypeError — too many positional arguments, two values for one
    parameter, a required parameter without value) -/
def bindArgs : List Param → List String → List (String × String) → Option (List String)
  | [], [], _ => some []
  | [], _ :: _, _ => none
  | p :: ps, v :: vs, kw =>
      if (kw.lookup p.name).isSome then none else (bindArgs ps vs kw).map (v :: ·)
  | p :: ps, [], kw =>
      match kw.lookup p.name with
      | some v => (bindArgs ps [] kw).map (v :: ·)
      | none => match p.dflt with
          | some v => (bindArgs ps [] kw).map (v :: ·)
          | none => none

/-- a call: every keyword must name a parameter, no keyword twice, then `bindArgs` -/
def bindCall (sig : List Param) (pos : List String) (kw : List (String × String)) : Option (List String) :=
  if kw.all (fun k => sig.any (fun p => p.name == k.1)) && decide (kw.map (·.1)).Nodup
  then bindArgs sig pos kw else none

/-- what the check needs of the parameter list of a public function, evaluated on the list
    extracted by introspection: `required` leading parameters without default (the geometry),
    then — for `get_geometry_point` — the position with a default that is one of the names, then
    only parameters with defaults; all names distinct -/
def sigOK (sig : List Param) (withPosition : Bool) : Bool :=
  decide (sig.map (·.name)).Nodup &&
  match sig, withPosition with
  | g :: rest, false => g.dflt.isNone && rest.all (·.dflt.isSome)
  | g :: p :: rest, true =>
      g.dflt.isNone && (match p.dflt with | some d => decide (d ∈ positionNames) | none => false) &&
      rest.all (·.dflt.isSome)
  | _, _ => false

/-! ### wave-5 follow-up: anchor points at the level of binary64 values

  A corner / edge component of a named position is a *selection* of one of the four bounds
  (exact for every float); a midpoint component is `(a + b) / 2`, which a binary64 implementation
  delivers rounded.  `pointAtM` is `pointAt` with the two midpoint values as parameters, so that
  one statement covers the exact model (`mt = (st + en) / 2`) and every rounded evaluation
  (`mt = rnd ((st + en) / 2)`). -/

def timeSelM (b : Bounds) (mt : Rat) (x : String) : Option Rat :=
  if x = "left" then some b.st
  else if x = "center" then some mt
  else if x = "right" then some b.en
  else none

def freqSelM (b : Bounds) (mf : Rat) (y : String) : Option Rat :=
  if y = "bottom" then some b.lo
  else if y = "center" then some mf
  else if y = "top" then some b.hi
  else none

/-- the nine bounds positions with the midpoints of the two axes given as `mt`, `mf` -/
def pointAtM (mt mf : Rat) (pos : String) (b : Bounds) : Except Err Pt :=
  if ¬ pos ∈ boundsPositions then .error .invalid
  else if pos = "center" then .ok (mt, mf)
  else match splitDash pos with
    | [y, x] =>
      match timeSelM b mt x, freqSelM b mf y with
      | some t, some f => .ok (t, f)
      | _, _ => .error .key
    | _ => .error .invalid

/-- `x` is an acceptable binary64 evaluation of the midpoint of `[a, c]`: inside the interval
    and within `tol` (relative to the larger bound) of the exact midpoint -/
def nearMid (tol a c x : Rat) : Bool :=
  let ab (v : Rat) : Rat := if v < 0 then -v else v
  decide (a ≤ x) && decide (x ≤ c) && decide (ab (x - (a + c) / 2) ≤ tol * max (ab a) (ab c))

/-- the time / frequency component of `pos` is a midpoint -/
def timeIsMid (pos : String) : Bool := pos = "center" || pos = "top-center" || pos = "bottom-center"
def freqIsMid (pos : String) : Bool := pos = "center" || pos = "center-left" || pos = "center-right"

/-- executable statement of the anchor-point clause on an observed point `p`, judged on the
    values themselves: `p` lies inside the bounds, every corner / edge component *is* the
    corresponding bound (the table applied with `p`'s own components as midpoints gives `p`
    back), every midpoint component is inside its interval and `tol`-near the exact midpoint -/
def holdsAnchor (tol : Rat) (b : Bounds) (pos : String) (p : Pt) : Bool :=
  decide (pos ∈ boundsPositions) && inside b p &&
  (match pointAtM p.1 p.2 pos b with | .ok q => decide (q = p) | .error _ => false) &&
  (!timeIsMid pos || nearMid tol b.st b.en p.1) &&
  (!freqIsMid pos || nearMid tol b.lo b.hi p.2)

end SE.Bnd
