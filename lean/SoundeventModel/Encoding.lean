/-
  C19: `soundevent/evaluation/encoding.py` (SimpleEncoder, classification_encoding,
  multilabel_encoding, prediction_encoding) and the hash / equality contract of the
  eight data classes with a hand-written `__hash__`.

  The encoder of the code is a Python `dict` keyed by `(tag.term, tag.value)`, filled by a
  comprehension over `enumerate(tags)`.  It is modelled as what it is: an insertion-ordered
  association list in which storing under an existing key overwrites the value
  (`dictSet`), looked up with `dictGet`.  That a hash table behaves like this association
  list is exactly the hash/equality contract of the key type (`a == b → hash a == hash b`),
  the second half of the property, which the check monitors on the real classes.
-/
import SoundeventModel.Basic
namespace SE.Encoding

/-- `soundevent.data.Term`: every declared field, plus the extra fields (`extra="allow"`),
    which pydantic's `__eq__` compares as a dict (sent sorted by key). -/
structure Term where
  label : String
  definition : String
  name : String
  uri : Option String
  typeOfTerm : String
  comment : Option String
  see : Option String
  subpropertyOf : Option String
  subclassOf : Option String
  domain : Option String
  domainIncludes : Option String
  termRange : Option String
  rangeIncludes : Option String
  memberOf : Option String
  instanceOf : Option String
  equivalentProperty : Option String
  description : Option String
  scopeNote : Option String
  extra : List (String × String)
  deriving DecidableEq, Repr, Inhabited

/-- the declared fields of the class, in declaration order (compared with
    `Term.model_fields` of the code by a table obligation on every run) -/
def termFieldNames : List String :=
  ["label", "definition", "name", "uri", "type_of_term", "comment", "see", "subproperty_of",
   "subclass_of", "domain", "domain_includes", "term_range", "range_includes", "member_of",
   "instance_of", "equivalent_property", "description", "scope_note"]

/-- the classes of `soundevent.data` with a hand-written `__hash__` (table obligation) -/
def hashedClasses : List String :=
  ["ClipPrediction", "Feature", "Note", "SoundEvent", "SoundEventAnnotation", "SoundEventPrediction",
   "Tag", "Term"]

/-- `soundevent.data.Tag` -/
structure Tag where
  term : Term
  value : String
  deriving DecidableEq, Repr, Inhabited

/-- `soundevent.data.PredictedTag`; the score is the exact value of the binary64 field -/
structure PredictedTag where
  tag : Tag
  score : Rat
  deriving DecidableEq, Repr, Inhabited

/-! ### Python `dict` as an insertion-ordered association list -/

/-- `d[k] = v` -/
def dictSet {κ ν} [DecidableEq κ] : List (κ × ν) → κ → ν → List (κ × ν)
  | [], k, v => [(k, v)]
  | (k', v') :: d, k, v => if k' = k then (k', v) :: d else (k', v') :: dictSet d k v

/-- `d.get(k)` -/
def dictGet {κ ν} [DecidableEq κ] : List (κ × ν) → κ → Option ν
  | [], _ => none
  | (k', v') :: d, k => if k' = k then some v' else dictGet d k

/-- the key under which the encoder files a tag -/
def key (t : Tag) : Term × String := (t.term, t.value)

/-- `{(tag.term, tag.value): i for i, tag in enumerate(tags)}` continued from index `i` -/
def buildFrom (d : List ((Term × String) × Nat)) (i : Nat) : List Tag → List ((Term × String) × Nat)
  | [] => d
  | t :: ts => buildFrom (dictSet d (key t) i) (i + 1) ts

/-- `SimpleEncoder.__init__`: the `_mapping` dictionary -/
def mapping (vocab : List Tag) : List ((Term × String) × Nat) := buildFrom [] 0 vocab

/-- `SimpleEncoder.encode` -/
def encode (vocab : List Tag) (t : Tag) : Option Nat := dictGet (mapping vocab) (key t)

/-- `SimpleEncoder.decode` for a non-negative index; `none` = `IndexError` -/
def decode (vocab : List Tag) (i : Nat) : Option Tag := vocab[i]?

/-- `SimpleEncoder.num_classes` -/
def numClasses (vocab : List Tag) : Nat := vocab.length

/-- the list-search reading of the encoder: position of the first vocabulary element equal
    to the tag (what the property states; equal to `encode` on duplicate-free vocabularies,
    theorem `C19_encode_eq_search`) -/
def searchIdx (t : Tag) : List Tag → Option Nat
  | [] => none
  | x :: xs => if x = t then some 0 else (searchIdx t xs).map (· + 1)

/-- position of the last vocabulary element equal to the tag (what the dictionary holds) -/
def lastIdx (t : Tag) : List Tag → Option Nat
  | [] => none
  | x :: xs =>
    match lastIdx t xs with
    | some j => some (j + 1)
    | none => if x = t then some 0 else none

/-- the last element of a list satisfying `p` (the store that survives a fill loop) -/
def lastWhere {α} (p : α → Bool) : List α → Option α
  | [] => none
  | x :: xs =>
    match lastWhere p xs with
    | some y => some y
    | none => if p x then some x else none

/-! ### the three encodings -/

/-- `classification_encoding`: the loop with its early return -/
def classificationEncoding (vocab : List Tag) : List Tag → Option Nat
  | [] => none
  | t :: ts =>
    match encode vocab t with
    | some i => some i
    | none => classificationEncoding vocab ts

/-- one iteration of the fill loops: `if index is None: continue; encoded[index] = v` -/
def store {α} (acc : List α) (idx : Option Nat) (v : α) : List α :=
  match idx with
  | none => acc
  | some i => acc.set i v

/-- `multilabel_encoding`: `np.zeros(num_classes, int32)` then one store of `1` per tag -/
def multilabelEncoding (vocab : List Tag) (tags : List Tag) : List Nat :=
  tags.foldl (fun acc t => store acc (encode vocab t) 1) (List.replicate vocab.length 0)

/-- `prediction_encoding`: `np.zeros(num_classes, float32)` then one store of the score per
    predicted tag; `cast` is the binary64 → binary32 conversion of the store (a parameter of
    the model: its values are supplied by the check, exactly). -/
def predictionEncoding (cast : Rat → Rat) (vocab : List Tag) (preds : List PredictedTag) : List Rat :=
  preds.foldl (fun acc p => store acc (encode vocab p.tag) (cast p.score)) (List.replicate vocab.length 0)

/-- executable statement of the prediction-encoding clause, evaluated by the check on the
    real output: the right length, and every entry is 0 when no predicted tag is that
    vocabulary tag and otherwise the (stored) score of one of the predictions of that tag -/
def holdsPrediction (cast : Rat → Rat) (vocab : List Tag) (preds : List PredictedTag) (out : List Rat) : Bool :=
  out.length == vocab.length &&
  (List.range vocab.length).all fun i =>
    match vocab[i]?, out[i]? with
    | some v, some x =>
      let hits := preds.filter (fun p => p.tag = v)
      if hits.isEmpty then x == 0 else hits.any (fun p => cast p.score == x)
    | _, _ => false

/-- executable statement of the indicator clause -/
def holdsMultilabel (vocab : List Tag) (tags : List Tag) (out : List Nat) : Bool :=
  out.length == vocab.length &&
  (List.range vocab.length).all fun i =>
    match vocab[i]?, out[i]? with
    | some v, some x => x == (if v ∈ tags then 1 else 0)
    | _, _ => false

/-- executable statement of the classification clause: the index of the first tag of the
    list that is in the vocabulary -/
def holdsClassification (vocab : List Tag) (tags : List Tag) (out : Option Nat) : Bool :=
  match tags.find? (· ∈ vocab), out with
  | none, none => true
  | some t, some i => vocab[i]? == some t
  | _, _ => false

/-! ### hash keys

  Generic objects (sound events, annotations, predictions, notes …) are handled as trees
  of fields: the harness walks the real object (`__dict__` of every pydantic model, never
  `__eq__`) into such a tree.  `pydantic.BaseModel.__eq__` is equality of class and of all
  field values, i.e. equality of trees; each hand-written `__hash__` is a function of the
  projection `hashKey`.
-/

/-- a Python value as a tree -/
inductive Val
  | none
  | bool (b : Bool)
  | str (s : String)          -- str, UUID, Path, datetime (canonical text)
  | num (q : Rat)             -- int / float by exact value (Python: `1 == 1.0`)
  | list (xs : List Val)
  | tuple (xs : List Val)
  | obj (cls : String) (names : List String) (vals : List Val)   -- a pydantic model: field names and values
  deriving Repr, Inhabited

-- `==` of Python on such values: same kind, same class, same field values
mutual
def Val.beq : Val → Val → Bool
  | .none, .none => true
  | .bool a, .bool b => a == b
  | .str a, .str b => a == b
  | .num a, .num b => a == b
  | .list a, .list b => Val.beqList a b
  | .tuple a, .tuple b => Val.beqList a b
  | .obj c n a, .obj d m b => c == d && n == m && Val.beqList a b
  | _, _ => false
def Val.beqList : List Val → List Val → Bool
  | [], [] => true
  | a :: as, b :: bs => Val.beq a b && Val.beqList as bs
  | _, _ => false
end

/-- field access `o.f` -/
def Val.field (f : String) : Val → Option Val
  | .obj _ names vals => (names.zip vals).lookup f
  | _ => Option.none

/-- the projection each hand-written `__hash__` is computed from, by class:
    `Term`: `hash(self.name)`; `Tag`, `Feature`: `hash((self.term, self.value))`, which Python
    computes from `hash(term)` (again the name) and `hash(value)`; the five identified classes:
    `hash(self.uuid)`.  `none` = the class has no hand-written hash. -/
def hashKey (v : Val) : Option (List Val) :=
  match v with
  | .obj cls _ _ =>
    if cls = "Term" then (v.field "name").map fun n => [n]
    else if cls = "Tag" ∨ cls = "Feature" then
      match v.field "term", v.field "value" with
      | some t, some x => (t.field "name").map fun n => [n, x]
      | _, _ => Option.none
    else if cls = "Note" ∨ cls = "SoundEvent" ∨ cls = "SoundEventAnnotation"
        ∨ cls = "SoundEventPrediction" ∨ cls = "ClipPrediction" then
      (v.field "uuid").map fun u => [u]
    else Option.none
  | _ => Option.none

/-- hash keys of the concrete structures used by the encoder -/
def Term.hashKey (t : Term) : String := t.name
def Tag.hashKey (t : Tag) : String × String := (t.term.hashKey, t.value)

/-! ### field tables (tie 1)

  For every class the check re-extracts, by perturbing one field at a time on the real
  objects, which fields `__eq__` distinguishes and which fields `__hash__` depends on.
  The contract needs: every field the hash reads is a field equality compares.
-/

/-- extracted row: class name, fields `__eq__` reads, fields `__hash__` reads -/
structure HashRow where
  cls : String
  eqReads : List String
  hashReads : List String
  deriving Repr, DecidableEq

def HashRow.wellFormed (r : HashRow) : Bool := r.hashReads.all (· ∈ r.eqReads)

/-- a record as a finite map of field values -/
abbrev Record := String → Option Val

def agreeOn (fs : List String) (a b : Record) : Prop := ∀ f ∈ fs, a f = b f

/-! ### review additions: the encodings over *any* `Encoder` (the Protocol of the code)

  `classification_encoding`, `multilabel_encoding`, `prediction_encoding` take an arbitrary
  object with `encode` / `num_classes`; `SimpleEncoder` is one instance.  `enc` is
  `encoder.encode` (a Python `Optional[int]`, so an `Int`), `n` is `encoder.num_classes`.
  The stores `encoded[index] = v` follow numpy's index rule (`normIdx`): a negative index
  counts from the end, anything outside `[-n, n)` is an `IndexError` (`none`).
-/

/-- `a[i]` for a sequence of length `n` (Python list / tuple / numpy): the position addressed,
    `none` = `IndexError` -/
def normIdx (n : Nat) (i : Int) : Option Nat :=
  if 0 ≤ i then (if i.toNat < n then some i.toNat else none)
  else if -(n : Int) ≤ i then some (i + n).toNat else none

/-- `SimpleEncoder.decode` for any Python integer: `self._tags[index]` -/
def decodeI (vocab : List Tag) (i : Int) : Option Tag := (normIdx vocab.length i).bind (vocab[·]?)

/-- `classification_encoding` over any encoder: the first result that is not `None` -/
def classificationG {α} (enc : α → Option Int) : List α → Option Int
  | [] => none
  | t :: ts =>
    match enc t with
    | some i => some i
    | none => classificationG enc ts

/-- one iteration of the fill loops with numpy's index rule; `none` = `IndexError` -/
def storeI {β} (acc : List β) (idx : Option Int) (v : β) : Option (List β) :=
  match idx with
  | none => some acc
  | some i => (normIdx acc.length i).map fun k => acc.set k v

/-- the fill loop of `multilabel_encoding` / `prediction_encoding` over any encoder:
    `np.zeros(n)` then one store of `val x` per element -/
def fillG {α β} (enc : α → Option Int) (val : α → β) (n : Nat) (zero : β) (xs : List α) : Option (List β) :=
  xs.foldlM (fun acc x => storeI acc (enc x) (val x)) (List.replicate n zero)

def multilabelG {α} (enc : α → Option Int) (n : Nat) (tags : List α) : Option (List Nat) :=
  fillG enc (fun _ => 1) n 0 tags

def predictionG {α} (cast : Rat → Rat) (enc : α → Option Int) (score : α → Rat) (n : Nat) (preds : List α) :
    Option (List Rat) :=
  fillG enc (fun p => cast (score p)) n 0 preds

/-- the position an element is stored at by the fill loops, `none` if the encoder skips it -/
def slot {α} (enc : α → Option Int) (n : Nat) (x : α) : Option Nat := (enc x).bind (normIdx n)

/-- the element's index is an `IndexError` for an array of length `n` -/
def oor {α} (enc : α → Option Int) (n : Nat) (x : α) : Bool :=
  match enc x with
  | none => false
  | some i => (normIdx n i).isNone

/-- `SimpleEncoder.encode` seen through the Protocol (a Python int) -/
def encodeI (vocab : List Tag) (t : Tag) : Option Int := (encode vocab t).map Int.ofNat

/-! ### review additions: `find_tag` / `find_feature` (tags.py, features.py) -/

/-- `find_tag(tags, label, term, default)` and `find_feature(features, label, term, default)`:
    the term takes precedence over the label; the first match, else the default;
    outer `none` = `ValueError` (neither given).  `termOf` is `.term` of a tag / feature. -/
def findBy {α} (termOf : α → Term) (xs : List α) (label : Option String) (term : Option Term)
    (default : Option α) : Option (Option α) :=
  match term with
  | some tm => some ((xs.find? (fun x => termOf x = tm)).or default)
  | none =>
    match label with
    | some l => some ((xs.find? (fun x => (termOf x).label = l)).or default)
    | none => none

def findTag := @findBy Tag (·.term)

/-- `soundevent.data.Feature`; the value is the exact value of the binary64 field -/
structure Feature where
  term : Term
  value : Rat
  deriving DecidableEq, Repr, Inhabited

def findFeature := @findBy Feature (·.term)

/-! ### review additions: the deprecated `key=` / `name=` construction path (data/compat.py) -/

/-- `compat.term_from_key` -/
def termFromKey (k : String) : Term :=
  { label := k, definition := "Unknown", name := "soundevent:" ++ k, uri := none, typeOfTerm := "property",
    comment := none, see := none, subpropertyOf := none, subclassOf := none, domain := none,
    domainIncludes := none, termRange := none, rangeIncludes := none, memberOf := none, instanceOf := none,
    equivalentProperty := none, description := none, scopeNote := none, extra := [] }

/-- `compat.key_from_term` (= the deprecated `Tag.key` / `Feature.name` properties) -/
def keyFromTerm (t : Term) : String := t.label

/-- `Tag.handle_deprecated_key` followed by validation: a given term wins over a given key, the
    key alone is turned into a term, neither = `ValidationError` (`none`) -/
def tagInit (key : Option String) (term : Option Term) (value : String) : Option Tag :=
  match term with
  | some tm => some ⟨tm, value⟩
  | none => key.map fun k => ⟨termFromKey k, value⟩

/-- `Feature.handle_deprecated_name` followed by validation -/
def featureInit (name : Option String) (term : Option Term) (value : Rat) : Option Feature :=
  match term with
  | some tm => some ⟨tm, value⟩
  | none => name.map fun k => ⟨termFromKey k, value⟩

/-! ### review additions: a hash table over keys with a coarser `==`

  CPython's `dict` / `set` compare the stored hash first and call `==` only on entries whose
  hash equals the probe's.  `hd*` model exactly that (entries in insertion order, probing
  order abstracted away); `ad*` is the association list the rest of the model uses.  That the
  two agree is the hash / equality contract (theorem `C19_hashdict_sound`); without it an
  equal key is not found (example in `Proofs/C19.lean`).
-/

def adSet {ρ ν} (eqv : ρ → ρ → Bool) : List (ρ × ν) → ρ → ν → List (ρ × ν)
  | [], k, v => [(k, v)]
  | (k', v') :: d, k, v => if eqv k' k then (k', v) :: d else (k', v') :: adSet eqv d k v

def adGet {ρ ν} (eqv : ρ → ρ → Bool) : List (ρ × ν) → ρ → Option ν
  | [], _ => none
  | (k', v') :: d, k => if eqv k' k then some v' else adGet eqv d k

def hdSet {ρ ν} (eqv : ρ → ρ → Bool) (h : ρ → Int) : List (ρ × ν) → ρ → ν → List (ρ × ν)
  | [], k, v => [(k, v)]
  | (k', v') :: d, k, v => if h k' = h k && eqv k' k then (k', v) :: d else (k', v') :: hdSet eqv h d k v

def hdGet {ρ ν} (eqv : ρ → ρ → Bool) (h : ρ → Int) : List (ρ × ν) → ρ → Option ν
  | [], _ => none
  | (k', v') :: d, k => if h k' = h k && eqv k' k then some v' else hdGet eqv h d k

/-- `{k: i for i, k in enumerate(keys)}` on the hash table, continued from index `i` -/
def hdBuild {ρ} (eqv : ρ → ρ → Bool) (h : ρ → Int) (d : List (ρ × Nat)) (i : Nat) : List ρ → List (ρ × Nat)
  | [] => d
  | k :: ks => hdBuild eqv h (hdSet eqv h d k i) (i + 1) ks

def adBuild {ρ} (eqv : ρ → ρ → Bool) (d : List (ρ × Nat)) (i : Nat) : List ρ → List (ρ × Nat)
  | [] => d
  | k :: ks => adBuild eqv (adSet eqv d k i) (i + 1) ks

/-- `x in {k1, …}` on the hash table -/
def hsMem {ρ} (eqv : ρ → ρ → Bool) (h : ρ → Int) (s : List ρ) (x : ρ) : Bool :=
  s.any fun k => h k = h x && eqv k x

/-! ### review additions: raw Python values (int and float apart, signed zero) and their hashes

  `Val` above is what the harness hands over after making numbers canonical.  `PyVal` keeps
  what Python keeps apart although `==` identifies it (`1 == 1.0`, `0.0 == -0.0`); `PyVal.beq`
  is Python's `==`, `pyHash` the hash computed by the hand-written `__hash__` methods from
  arbitrary primitive hash functions `H`.
-/

inductive PyVal
  | none
  | bool (b : Bool)
  | str (s : String)
  | int (n : Int)
  | float (q : Rat) (negZero : Bool)    -- finite binary64 by exact value; `negZero` marks `-0.0`
  | list (xs : List PyVal)
  | tuple (xs : List PyVal)
  | obj (cls : String) (names : List String) (vals : List PyVal)
  deriving Repr, Inhabited

mutual
def PyVal.beq : PyVal → PyVal → Bool
  | .none, .none => true
  | .bool a, .bool b => a == b
  | .str a, .str b => a == b
  | .int a, .int b => a == b
  | .float a _, .float b _ => a == b
  | .int a, .float b _ => (a : Rat) == b
  | .float a _, .int b => a == (b : Rat)
  | .list a, .list b => PyVal.beqList a b
  | .tuple a, .tuple b => PyVal.beqList a b
  | .obj c n a, .obj d m b => c == d && n == m && PyVal.beqList a b
  | _, _ => false
def PyVal.beqList : List PyVal → List PyVal → Bool
  | [], [] => true
  | a :: as, b :: bs => PyVal.beq a b && PyVal.beqList as bs
  | _, _ => false
end

/-- the fields each hand-written `__hash__` hashes, by class (`none` = no hand-written hash:
    a pydantic model that is not frozen is unhashable) -/
def hashFields (cls : String) : Option (List String) :=
  if cls = "Term" then some ["name"]
  else if cls = "Tag" ∨ cls = "Feature" then some ["term", "value"]
  else if cls = "Note" ∨ cls = "SoundEvent" ∨ cls = "SoundEventAnnotation"
      ∨ cls = "SoundEventPrediction" ∨ cls = "ClipPrediction" then some ["uuid"]
  else none

/-- a table of hashed fields as extracted by the check: rows (class, fields) -/
def tableOf (rows : List (String × List String)) : String → Option (List String) := fun c => rows.lookup c

/-- primitive hash functions of the interpreter (arbitrary) and the way each class combines
    the hashes of the fields it reads (`hash(x)`, `hash((x, y))`, …: arbitrary) -/
structure PyHasher where
  none : Int
  bool : Bool → Int
  str : String → Int
  int : Int → Int
  float : Rat → Int
  tuple : List Int → Int
  combine : String → List Int → Int

def allSome {α} : List (Option α) → Option (List α)
  | [] => some []
  | none :: _ => none
  | some x :: xs => (allSome xs).map (x :: ·)

mutual
/-- `hf` is the table of hashed fields per class (`hashFields` for the pinned code; the check
    instantiates the theorems with the table it extracts from the current source) -/
def pyHash (hf : String → Option (List String)) (H : PyHasher) : PyVal → Option Int
  | .none => some H.none
  | .bool b => some (H.bool b)
  | .str s => some (H.str s)
  | .int n => some (H.int n)
  | .float q _ => some (H.float q)
  | .list _ => Option.none
  | .tuple xs => (allSome (pyHashList hf H xs)).map H.tuple
  | .obj cls names vals =>
    match hf cls with
    | Option.none => Option.none
    | some fs =>
      (allSome (fs.map fun f => ((names.zip (pyHashList hf H vals)).lookup f).join)).map (H.combine cls)
def pyHashList (hf : String → Option (List String)) (H : PyHasher) : List PyVal → List (Option Int)
  | [] => []
  | x :: xs => pyHash hf H x :: pyHashList hf H xs
end

/-- the canonical tree the harness sends for a raw value -/
def PyVal.canon : PyVal → Val
  | .none => .none
  | .bool b => .bool b
  | .str s => .str s
  | .int n => .num n
  | .float q _ => .num q
  | .list xs => .list (canonList xs)
  | .tuple xs => .tuple (canonList xs)
  | .obj c n vs => .obj c n (canonList vs)
where canonList : List PyVal → List Val
  | [] => []
  | x :: xs => PyVal.canon x :: canonList xs

/-! ### follow-up 3: construction paths and histories

  (a) The extra attributes of a `Term` (`extra="allow"`) live in a Python dict: items in
  *insertion* order (keyword order, key order of the dict given to `model_validate`, key order
  of a JSON document, order of a `model_copy(update=…)`).  `dict.__eq__` ignores that order.
  The harness's walk sends the items sorted by key (`canonExtras`); that this is sound —
  Python's `==` on two terms is equality of the canonical trees — is `C19_term_paths`.

  (b) The positional signature of `find_tag` / `find_feature`: Python's binding of a call to a
  parameter list (`bindCall`), the documented order as a table (`findTagSig`, re-extracted with
  `inspect.signature` on every run).

  (c) Histories: a function answered through a memo table keyed by a projection of its input
  (`memoRun`), and a mutable object carrying a memoised hash (`Cell`).  The model itself is pure,
  so every step of a history has one right answer — the base operation on the content the
  objects carry at that step; the theorems say when code with such state agrees with that.
-/

/-- the extras of a term: `(key, value)` items in insertion order (keys distinct) -/
abbrev Extras := List (String × String)

/-- Python's `dict.__eq__`: the same number of items, and every key of `a` is a key of `b`
    with an equal value -/
def dictEqv (a b : Extras) : Bool :=
  a.length == b.length && a.all fun kv => b.lookup kv.1 == some kv.2

def keyLe (a b : String × String) : Bool := decide (a.1 ≤ b.1)

/-- insertion into a key-sorted item list -/
def insertKey (kv : String × String) : Extras → Extras
  | [] => [kv]
  | x :: xs => if keyLe kv x then kv :: x :: xs else x :: insertKey kv xs

/-- `sorted(extra.items())`: what the harness's walk sends -/
def canonExtras (a : Extras) : Extras := a.foldr insertKey []

/-- a `Term` as it was constructed: the declared fields (`core`, whose `extra` is not used) and
    the extras in insertion order -/
structure RawTerm where
  core : Term
  extra : Extras
  deriving Repr, DecidableEq

def Term.noExtra (t : Term) : Term := { t with extra := [] }

/-- pydantic's `__eq__` on two terms: the declared fields, and the extras as dicts -/
def RawTerm.pyEq (a b : RawTerm) : Bool := decide (a.core.noExtra = b.core.noExtra) && dictEqv a.extra b.extra

/-- the term the harness's walk describes -/
def RawTerm.canon (a : RawTerm) : Term := { a.core with extra := canonExtras a.extra }

def RawTerm.wf (a : RawTerm) : Prop := (a.extra.map (·.1)).Nodup

/-- a hash that, unlike the code's `hash(self.name)`, also folds the extras in insertion order
    (the kind of change the property forbids); `hx` is any hash of the item list -/
def orderHash (hs : String → Int) (hx : Extras → Int) (mix : Int → Int → Int) (a : RawTerm) : Int :=
  mix (hs a.core.name) (hx a.extra)

/-- Python's binding of a call `f(*pos, **kw)` to the parameter names `params` (defaults are not
    filled in): `none` = `TypeError` (too many positional arguments, an unknown or repeated keyword,
    a keyword for a parameter already bound positionally) -/
def bindCall {α} (params : List String) (pos : List α) (kw : List (String × α)) : Option (List (String × α)) :=
  if params.length < pos.length then none
  else if kw.all (fun p => (params.drop pos.length).contains p.1) && decide ((kw.map (·.1)).Nodup) then
    some (params.zip pos ++ kw)
  else none

/-- the documented parameter order of `find_tag` and of `find_feature` (first parameter apart) -/
def findTagSig : List String := ["tags", "label", "term", "default"]
def findFeatureSig : List String := ["features", "label", "term", "default"]
def encodingSig : List String := ["tags", "encoder"]

/-- a function answered through a memo table keyed by `p x` (module / class level cache,
    `lru_cache`, a dict kept between calls): one call -/
def memoCall {α β κ} [BEq κ] (f : α → β) (p : α → κ) (c : List (κ × β)) (x : α) : List (κ × β) × β :=
  match c.lookup (p x) with
  | some v => (c, v)
  | none => ((p x, f x) :: c, f x)

/-- the answers of a history of calls in one process -/
def memoRun {α β κ} [BEq κ] (f : α → β) (p : α → κ) : List (κ × β) → List α → List β
  | _, [] => []
  | c, x :: xs => (memoCall f p c x).2 :: memoRun f p (memoCall f p c x).1 xs

/-- a mutable object that memoises a value derived from its content (`cached_property`, a private
    attribute): the content it carries now, and the memo -/
structure Cell (α : Type) where
  content : α
  memo : Option Int
  deriving Repr

/-- what a caller does with such an object between two uses -/
inductive CellStep (α : Type)
  | use                    -- `hash(obj)` (fills the memo)
  | assign (x : α)         -- `obj.field = …`
  | copyUpdate (x : α)     -- `obj = obj.model_copy(update=…)` / `copy.copy(obj)` then assignment: `__dict__` is copied
  | rebuild (x : α)        -- a new object through the constructor

/-- one step; `inval` = the object forgets its memo whenever its content changes.  The observation
    of a `use` step is the value returned. -/
def Cell.step {α} (h : α → Int) (inval : Bool) (c : Cell α) : CellStep α → Cell α × Option Int
  | .use =>
    match c.memo with
    | some v => (c, some v)
    | none => ({ c with memo := some (h c.content) }, some (h c.content))
  | .assign x => ({ content := x, memo := if inval then none else c.memo }, none)
  | .copyUpdate x => ({ content := x, memo := if inval then none else c.memo }, none)
  | .rebuild x => ({ content := x, memo := none }, none)

/-- run a history; the result lists, for every `use`, the value observed and the content the object
    carried at that moment -/
def Cell.run {α} (h : α → Int) (inval : Bool) : Cell α → List (CellStep α) → List (Int × α)
  | _, [] => []
  | c, s :: ss =>
    match Cell.step h inval c s with
    | (c', some v) => (v, c'.content) :: Cell.run h inval c' ss
    | (c', none) => Cell.run h inval c' ss

/-! ### (d) follow-up (wave 5): object identities

  The model above speaks about *content*.  Python code can also see which object carries the content
  (`id(term)`, `is`): `Obj` pairs an address with the content, `encodeById` is an encoder that looks a term
  up by address first.  `C19_identity_lookup_sound` / `_breaks` say when that is the encoder and when not. -/

/-- a Python object: its address (`id`) and the content it carries -/
structure Obj (α : Type) where
  id : Nat
  val : α

/-- a tag as Python holds it: a term *object* and a value -/
structure TagObj where
  term : Obj Term
  value : String

/-- the content of a tag object: what the property (and the model) speaks about -/
def TagObj.content (t : TagObj) : Tag := { term := t.term.val, value := t.value }

/-- position of the last vocabulary tag that sits on the term object `i` with value `v`
    (a dictionary keyed by `id(term)` holding a dictionary keyed by value) -/
def lastIdxById (i : Nat) (v : String) : List TagObj → Option Nat
  | [] => none
  | x :: xs =>
    match lastIdxById i v xs with
    | some j => some (j + 1)
    | none => if x.term.id = i ∧ x.value = v then some 0 else none

/-- an encoder that first recognises the probe's term by object identity and, when some vocabulary tag
    sits on that very object, consults only the values registered under that object; the structural
    dictionary is asked only about unknown term objects (the shape of seeded C19-11) -/
def encodeById (vocab : List TagObj) (t : TagObj) : Option Nat :=
  if vocab.any (fun x => x.term.id == t.term.id) then lastIdxById t.term.id t.value vocab
  else encode (vocab.map TagObj.content) t.content

end SE.Encoding
