/-
  C19: `soundevent/evaluation/encoding.py` (SimpleEncoder, classification_encoding,
  multilabel_encoding, prediction_encoding) and the hash / equality contract of the
  eight data classes with a hand-written `__hash__`.

  The encoder of the code is a Python `dict` keyed by `(tag.term, tag.value)`, filled by a
  comprehension over `enumerate(tags)`.  It is modelled as what it is: an insertion-ordered
  association list in which storing under an existing key overwrites the value
  (`dictSet`), looked up with `dictGet`.  That a hash table behaves like this association
  list is exactly the hash/equality contract of the key type (`a == b → hash a == hash b`),
  the second half of the property, which the check monitors on the real classes.
-/
import SoundeventModel.Basic
namespace SE.Encoding

/-- `soundevent.data.Term`: every declared field, plus the extra fields (`extra="allow"`),
    which pydantic's `__eq__` compares as a dict (sent sorted by key). -/
structure Term where
  label : String
  definition : String
  name : String
  uri : Option String
  typeOfTerm : String
  comment : Option String
  see : Option String
  subpropertyOf : Option String
  subclassOf : Option String
  domain : Option String
  domainIncludes : Option String
  termRange : Option String
  rangeIncludes : Option String
  memberOf : Option String
  instanceOf : Option String
  equivalentProperty : Option String
  description : Option String
  scopeNote : Option String
  extra : List (String × String)
  deriving DecidableEq, Repr, Inhabited

/-- the declared fields of the class, in declaration order (compared with
    `Term.model_fields` of the code by a table obligation on every run) -/
def termFieldNames : List String :=
  ["label", "definition", "name", "uri", "type_of_term", "comment", "see", "subproperty_of",
   "subclass_of", "domain", "domain_includes", "term_range", "range_includes", "member_of",
   "instance_of", "equivalent_property", "description", "scope_note"]

/-- the classes of `soundevent.data` with a hand-written `__hash__` (table obligation) -/
def hashedClasses : List String :=
  ["ClipPrediction", "Feature", "Note", "SoundEvent", "SoundEventAnnotation", "SoundEventPrediction",
   "Tag", "Term"]

/-- `soundevent.data.Tag` -/
structure Tag where
  term : Term
  value : String
  deriving DecidableEq, Repr, Inhabited

/-- `soundevent.data.PredictedTag`; the score is the exact value of the binary64 field -/
structure PredictedTag where
  tag : Tag
  score : Rat
  deriving DecidableEq, Repr, Inhabited

/-! ### Python `dict` as an insertion-ordered association list -/

/-- `d[k] = v` -/
def dictSet {κ ν} [DecidableEq κ] : List (κ × ν) → κ → ν → List (κ × ν)
  | [], k, v => [(k, v)]
  | (k', v') :: d, k, v => if k' = k then (k', v) :: d else (k', v') :: dictSet d k v

/-- `d.get(k)` -/
def dictGet {κ ν} [DecidableEq κ] : List (κ × ν) → κ → Option ν
  | [], _ => none
  | (k', v') :: d, k => if k' = k then some v' else dictGet d k

/-- the key under which the encoder files a tag -/
def key (t : Tag) : Term × String := (t.term, t.value)

/-- `{(tag.term, tag.value): i for i, tag in enumerate(tags)}` continued from index `i` -/
def buildFrom (d : List ((Term × String) × Nat)) (i : Nat) : List Tag → List ((Term × String) × Nat)
  | [] => d
  | t :: ts => buildFrom (dictSet d (key t) i) (i + 1) ts

/-- `SimpleEncoder.__init__`: the `_mapping` dictionary -/
def mapping (vocab : List Tag) : List ((Term × String) × Nat) := buildFrom [] 0 vocab

/-- `SimpleEncoder.encode` -/
def encode (vocab : List Tag) (t : Tag) : Option Nat := dictGet (mapping vocab) (key t)

/-- `SimpleEncoder.decode` for a non-negative index; `none` = `IndexError` -/
def decode (vocab : List Tag) (i : Nat) : Option Tag := vocab[i]?

/-- `SimpleEncoder.num_classes` -/
def numClasses (vocab : List Tag) : Nat := vocab.length

/-- the list-search reading of the encoder: position of the first vocabulary element equal
    to the tag (what the property states; equal to `encode` on duplicate-free vocabularies,
    theorem `C19_encode_eq_search`) -/
def searchIdx (t : Tag) : List Tag → Option Nat
  | [] => none
  | x :: xs => if x = t then some 0 else (searchIdx t xs).map (· + 1)

/-- position of the last vocabulary element equal to the tag (what the dictionary holds) -/
def lastIdx (t : Tag) : List Tag → Option Nat
  | [] => none
  | x :: xs =>
    match lastIdx t xs with
    | some j => some (j + 1)
    | none => if x = t then some 0 else none

/-- the last element of a list satisfying `p` (the store that survives a fill loop) -/
def lastWhere {α} (p : α → Bool) : List α → Option α
  | [] => none
  | x :: xs =>
    match lastWhere p xs with
    | some y => some y
    | none => if p x then some x else none

/-! ### the three encodings -/

/-- `classification_encoding`: the loop with its early return -/
def classificationEncoding (vocab : List Tag) : List Tag → Option Nat
  | [] => none
  | t :: ts =>
    match encode vocab t with
    | some i => some i
    | none => classificationEncoding vocab ts

/-- one iteration of the fill loops: `if index is None: continue; encoded[index] = v` -/
def store {α} (acc : List α) (idx : Option Nat) (v : α) : List α :=
  match idx with
  | none => acc
  | some i => acc.set i v

/-- `multilabel_encoding`: `np.zeros(num_classes, int32)` then one store of `1` per tag -/
def multilabelEncoding (vocab : List Tag) (tags : List Tag) : List Nat :=
  tags.foldl (fun acc t => store acc (encode vocab t) 1) (List.replicate vocab.length 0)

/-- `prediction_encoding`: `np.zeros(num_classes, float32)` then one store of the score per
    predicted tag; `cast` is the binary64 → binary32 conversion of the store (a parameter of
    the model: its values are supplied by the check, exactly). -/
def predictionEncoding (cast : Rat → Rat) (vocab : List Tag) (preds : List PredictedTag) : List Rat :=
  preds.foldl (fun acc p => store acc (encode vocab p.tag) (cast p.score)) (List.replicate vocab.length 0)

/-- executable statement of the prediction-encoding clause, evaluated by the check on the
    real output: the right length, and every entry is 0 when no predicted tag is that
    vocabulary tag and otherwise the (stored) score of one of the predictions of that tag -/
def holdsPrediction (cast : Rat → Rat) (vocab : List Tag) (preds : List PredictedTag) (out : List Rat) : Bool :=
  out.length == vocab.length &&
  (List.range vocab.length).all fun i =>
    match vocab[i]?, out[i]? with
    | some v, some x =>
      let hits := preds.filter (fun p => p.tag = v)
      if hits.isEmpty then x == 0 else hits.any (fun p => cast p.score == x)
    | _, _ => false

/-- executable statement of the indicator clause -/
def holdsMultilabel (vocab : List Tag) (tags : List Tag) (out : List Nat) : Bool :=
  out.length == vocab.length &&
  (List.range vocab.length).all fun i =>
    match vocab[i]?, out[i]? with
    | some v, some x => x == (if v ∈ tags then 1 else 0)
    | _, _ => false

/-- executable statement of the classification clause: the index of the first tag of the
    list that is in the vocabulary -/
def holdsClassification (vocab : List Tag) (tags : List Tag) (out : Option Nat) : Bool :=
  match tags.find? (· ∈ vocab), out with
  | none, none => true
  | some t, some i => vocab[i]? == some t
  | _, _ => false

/-! ### hash keys

  Generic objects (sound events, annotations, predictions, notes …) are handled as trees
  of fields: the harness walks the real object (`__dict__` of every pydantic model, never
  `__eq__`) into such a tree.  `pydantic.BaseModel.__eq__` is equality of class and of all
  field values, i.e. equality of trees; each hand-written `__hash__` is a function of the
  projection `hashKey`.
-/

/-- a Python value as a tree -/
inductive Val
  | none
  | bool (b : Bool)
  | str (s : String)          -- str, UUID, Path, datetime (canonical text)
  | num (q : Rat)             -- int / float by exact value (Python: `1 == 1.0`)
  | list (xs : List Val)
  | tuple (xs : List Val)
  | obj (cls : String) (names : List String) (vals : List Val)   -- a pydantic model: field names and values
  deriving Repr, Inhabited

-- `==` of Python on such values: same kind, same class, same field values
mutual
def Val.beq : Val → Val → Bool
  | .none, .none => true
  | .bool a, .bool b => a == b
  | .str a, .str b => a == b
  | .num a, .num b => a == b
  | .list a, .list b => Val.beqList a b
  | .tuple a, .tuple b => Val.beqList a b
  | .obj c n a, .obj d m b => c == d && n == m && Val.beqList a b
  | _, _ => false
def Val.beqList : List Val → List Val → Bool
  | [], [] => true
  | a :: as, b :: bs => Val.beq a b && Val.beqList as bs
  | _, _ => false
end

/-- field access `o.f` -/
def Val.field (f : String) : Val → Option Val
  | .obj _ names vals => (names.zip vals).lookup f
  | _ => Option.none

/-- the projection each hand-written `__hash__` is computed from, by class:
    `Term`: `hash(self.name)`; `Tag`, `Feature`: `hash((self.term, self.value))`, which Python
    computes from `hash(term)` (again the name) and `hash(value)`; the five identified classes:
    `hash(self.uuid)`.  `none` = the class has no hand-written hash. -/
def hashKey (v : Val) : Option (List Val) :=
  match v with
  | .obj cls _ _ =>
    if cls = "Term" then (v.field "name").map fun n => [n]
    else if cls = "Tag" ∨ cls = "Feature" then
      match v.field "term", v.field "value" with
      | some t, some x => (t.field "name").map fun n => [n, x]
      | _, _ => Option.none
    else if cls = "Note" ∨ cls = "SoundEvent" ∨ cls = "SoundEventAnnotation"
        ∨ cls = "SoundEventPrediction" ∨ cls = "ClipPrediction" then
      (v.field "uuid").map fun u => [u]
    else Option.none
  | _ => Option.none

/-- hash keys of the concrete structures used by the encoder -/
def Term.hashKey (t : Term) : String := t.name
def Tag.hashKey (t : Tag) : String × String := (t.term.hashKey, t.value)

/-! ### field tables (tie 1)

  For every class the check re-extracts, by perturbing one field at a time on the real
  objects, which fields `__eq__` distinguishes and which fields `__hash__` depends on.
  The contract needs: every field the hash reads is a field equality compares.
-/

/-- extracted row: class name, fields `__eq__` reads, fields `__hash__` reads -/
structure HashRow where
  cls : String
  eqReads : List String
  hashReads : List String
  deriving Repr, DecidableEq

def HashRow.wellFormed (r : HashRow) : Bool := r.hashReads.all (· ∈ r.eqReads)

/-- a record as a finite map of field values -/
abbrev Record := String → Option Val

def agreeOn (fs : List String) (a b : Record) : Prop := ∀ f ∈ fs, a f = b f

end SE.Encoding
