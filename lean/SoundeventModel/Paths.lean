/-
  C18 / C01 — POSIX pure paths as `pathlib.PurePosixPath` (Python 3.12) handles them:
  parsing of a path string into anchor and parts, rendering, `relative_to`, `/` (join).

  Only the logic the AOEF recording adapter relies on is modelled:
    * `Path(s)`            -> `parse s`          (split on '/', drop empty and '.' parts, keep '..',
                                                  root "" | "/" | "//" as `posixpath.splitroot` does)
    * `str(p)`             -> `render p`
    * `p.relative_to(d)`   -> `relativeTo p d`   (same anchor and `d.parts` a prefix of `p.parts`,
                                                  otherwise `ValueError`)
    * `d / p`              -> `join d p`         (an anchored right operand replaces the left one)
-/
import SoundeventModel.Basic
namespace SE.Paths

structure PPath where
  root : String          -- "" (relative), "/" or "//"
  parts : List String    -- no part is empty, "." or contains '/'
  deriving DecidableEq, Repr, Inhabited, BEq

/-- number of leading '/' characters -/
def leadingSlashes : List Char → Nat
  | '/' :: cs => leadingSlashes cs + 1
  | _ => 0

/-- `posixpath.splitroot`: exactly two leading slashes are kept as the root "//",
    any other positive number collapses to "/". -/
def rootOf (s : String) : String :=
  match leadingSlashes s.toList with
  | 0 => ""
  | 2 => "//"
  | _ => "/"

def goodPart (p : String) : Bool := p != "" && p != "."

def parse (s : String) : PPath :=
  { root := rootOf s, parts := (s.splitOn "/").filter goodPart }

def render (p : PPath) : String :=
  if p.root == "" && p.parts.isEmpty then "." else p.root ++ "/".intercalate p.parts

/-- `p.relative_to(d)` (walk_up = False): `ValueError` unless the anchors agree and `d`'s parts
    are a prefix of `p`'s. -/
def relativeTo (p d : PPath) : Except Err PPath :=
  if p.root = d.root ∧ d.parts.isPrefixOf p.parts = true then
    .ok { root := "", parts := p.parts.drop d.parts.length }
  else .error .invalid

/-- `d / p` -/
def join (d p : PPath) : PPath :=
  if p.root ≠ "" then p else { root := d.root, parts := d.parts ++ p.parts }

/-- a well-formed part: what `parse` can produce -/
def PartOk (s : String) : Prop := s ≠ "" ∧ s ≠ "." ∧ '/' ∉ s.toList

structure PPath.WF (p : PPath) : Prop where
  root_ok : p.root = "" ∨ p.root = "/" ∨ p.root = "//"
  parts_ok : ∀ s ∈ p.parts, PartOk s

def PPath.isRelative (p : PPath) : Prop := p.root = ""

/-- `A` is an ancestor-or-self of `p` -/
def inside (p d : PPath) : Prop := p.root = d.root ∧ d.parts <+: p.parts

end SE.Paths
