/-
  C16 (review additions): what `create_range_dim` / `create_time_range` / `create_frequency_range`,
  `get_coord_index` and `set_value_at_pos` compute *around* their library calls
  (`np.arange`, `Index.min / max / get_slice_bound`, `array.data[indexer] = value`).

  `rangeKernel`, `timeKernel`, `freqKernel`, `indexKernel`, `setKernel` are the straight-line
  kernels of these functions.  They are tied to the current source for **all** inputs by symbolic
  traces (Tie 1b, regenerated on every run: the real functions are executed on symbolic numbers with
  stand-ins for the array and for `np.arange`) and to `createRangeDim` / `createTimeRange` /
  `createFrequencyRange` / `coordIndex` / `buildIndexer` by the theorems `C16_range_kernel`,
  `C16_index_kernel`, `C16_indexer_kernel` of `Proofs/C16.lean`.

  Also here: the trailing-point rule with an explicit threshold (`dropTrailingAt`) and the
  executable contract `arangeContract` under which `C16_count_robust` proves that the rule yields
  exactly `n` coordinates whatever way binary64 rounding went inside `np.arange`.
-/
import SoundeventModel.Axis
import SoundeventModel.Tactics
namespace SE.Axis

/-! ## `create_range_dim` and its two wrappers -/

/-- last point of `np.arange(a, b, c)` (meaningful when the range is not empty) -/
def arangeLast (a b c : Rat) : Rat := a + ((arangeLen a b c - 1 : Nat) : Rat) * c

/-- what `create_range_dim` does: one call `np.arange(a, b, c)`, possibly `[:-1]`, and the
    `step` attribute -/
structure RangePlan where
  a : Rat
  b : Rat
  c : Rat
  dropLast : Bool
  stepAttr : Rat
  deriving DecidableEq, Repr

def RangePlan.eval (p : RangePlan) : RangeDim :=
  let cs := arange p.a p.b p.c
  { coords := if p.dropLast then cs.dropLast else cs, step := p.stepAttr }

/-- the plan of a request with a known step: `np.arange` raises `ZeroDivisionError` for a zero
    step; the last point goes when the range is not empty and it is `≥ stop - step / 2` -/
def rangePlanOf (start stop s : Rat) : Except AErr RangePlan :=
  if s = 0 then .error .zerodiv
  else if 0 < arangeLen start stop s ∧ arangeLast start stop s ≥ stop - s / 2 then
    .ok { a := start, b := stop, c := s, dropLast := true, stepAttr := s }
  else .ok { a := start, b := stop, c := s, dropLast := false, stepAttr := s }

/-- `create_range_dim(name, start, stop, step, size)`: the step is the given one, else
    `(stop - start) / size`, else `ValueError` -/
def rangeKernel (start stop : Rat) (step size : Option Rat) : Except AErr RangePlan :=
  match step, size with
  | some s, _ => rangePlanOf start stop s
  | none, some n => if n = 0 then .error .zerodiv else rangePlanOf start stop ((stop - start) / n)
  | none, none => .error .invalid

/-- `create_time_range(start_time, end_time, step, samplerate)`: the step wins over the sample rate -/
def timeKernel (start stop : Rat) (step samplerate : Option Rat) : Except AErr RangePlan :=
  match step, samplerate with
  | some s, _ => rangePlanOf start stop s
  | none, some sr => if sr = 0 then .error .zerodiv else rangePlanOf start stop (1 / sr)
  | none, none => .error .invalid

/-- `create_frequency_range(low_freq, high_freq, step)` -/
def freqKernel (lo hi step : Rat) : Except AErr RangePlan := rangePlanOf lo hi step

/-! ## `get_coord_index` -/

/-- `#{c < v}`: pandas `get_slice_bound(v, "left")` on an increasing index -/
def countLT (coords : List Rat) (v : Rat) : Nat := coords.countP (fun c => decide (c < v))

/-- an integer the lookup returns, in terms of what the array is asked for -/
inductive IdxPlan
  | const (n : Int)                              -- a literal
  | size (k : Int)                               -- `arr.sizes[dim] + k`
  | bound (right : Bool) (v : Rat) (k : Int)     -- `arr.indexes[dim].get_slice_bound(v, side) + k`
  deriving DecidableEq, Repr

def IdxPlan.eval (coords : List Rat) : IdxPlan → Int
  | .const n => n
  | .size k => (coords.length : Int) + k
  | .bound true v k => (countLE coords v : Int) + k
  | .bound false v k => (countLT coords v : Int) + k

/-- `get_coord_index(arr, dim, value, raise_error)` with `(lo, hi) = get_dim_range(arr, dim)` -/
def indexKernel (lo hi v : Rat) (raise : Bool) : Except AErr IdxPlan :=
  if v < lo ∨ v > hi then
    if raise then .error .key
    else if v < lo then .ok (.const 0) else .ok (.size 0)
  else .ok (.bound true v (-1))

/-- the range `get_dim_range` reports for an axis -/
def axisRange (coords : List Rat) : Option (Rat × Rat) :=
  match listMin coords, listMax coords with
  | some lo, some hi => some (lo, hi)
  | _, _ => none

/-! ## `set_value_at_pos`: the indexer -/

/-- the indexer before the array is consulted: a full slice, or the lookup on axis `k` -/
abbrev IndexerPlan := List (Option (Nat × IdxPlan))

def indexerKernel (ranges : List (Rat × Rat)) : List (Nat × Rat) → IndexerPlan → Except AErr IndexerPlan
  | [], ix => .ok ix
  | (k, q) :: rest, ix =>
    match ranges[k]? with
    | none => .error .invalid
    | some (lo, hi) =>
      match indexKernel lo hi q true with
      | .error e => .error e
      | .ok p => indexerKernel ranges rest (ix.set k (some (k, p)))

/-- `set_value_at_pos(array, value, **query)` up to `array.data[tuple(indexer)] = value`;
    `ranges[k]` is `get_dim_range` of axis `k` -/
def setKernel (ranges : List (Rat × Rat)) (query : List (Nat × Rat)) : Except AErr IndexerPlan :=
  indexerKernel ranges query (ranges.map (fun _ => none))

def IndexerPlan.eval (axes : List (List Rat)) (ix : IndexerPlan) : Indexer :=
  ix.map (fun e => e.map (fun kp => (kp.2.eval (axes[kp.1]?.getD [])).toNat))

/-! ## the trailing-point rule under binary64 rounding -/

/-- the trailing-point rule with the threshold as computed (`stop - step / 2` in binary64) -/
def dropTrailingAt (thr : Rat) (cs : List Rat) : List Rat :=
  match cs.getLast? with
  | none => cs
  | some c => if c ≥ thr then cs.dropLast else cs

def absR (x : Rat) : Rat := if x < 0 then -x else x

/-- what `C16_count_robust` asks of `np.arange(start, stop, step)` (returned `cs`) and of the
    computed threshold `thr` (binary64 `stop - step / 2`) for a request of `n` whole steps: `n` or
    `n + 1` points (the ceiling inside `arange` may have been pushed either way), every point less
    than a quarter step (`δ`, `4 δ < step`) off the lattice `start + i * step`, the threshold as far
    off `start + n * step - step / 2` (so `stop` itself is only asked to be that close to
    `start + n * step`: it is a binary64 number, the product need not be).  Evaluated on numpy's real
    output at run time. -/
def arangeContract (start step δ thr : Rat) (n : Nat) (cs : List Rat) : Bool :=
  decide (0 < step) && decide (4 * δ < step)
  && (cs.length == n || cs.length == n + 1)
  && (List.range cs.length).all (fun i => decide (absR (cs.getD i 0 - (start + (i : Rat) * step)) ≤ δ))
  && decide (absR (thr - (start + (n : Rat) * step - step / 2)) ≤ δ)

macro "se_c16" : tactic =>
  `(tactic| first
    | se_close
    | (simp only [rangeKernel, timeKernel, freqKernel, rangePlanOf, indexKernel, setKernel, indexerKernel,
        List.getElem?_cons_zero, List.getElem?_cons_succ, List.map, List.set]; repeat' split) <;> simp_all <;> grind)

end SE.Axis
