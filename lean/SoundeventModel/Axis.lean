/-
  C16 / C17 (and the bin lookup of C20): the axis helpers of
  `soundevent/arrays/dimensions.py` and `soundevent/arrays/operations.py`.

  An axis is the list of its coordinates (`List Rat`); every binary64 value is a
  rational, so on inputs where the code's arithmetic is exact the model computes
  the very numbers the code computes.  numpy `arange`, pandas `get_slice_bound`,
  xarray `sel` / `reindex` are modelled by what they compute over the rationals
  (number of points `ceil((stop - start) / step)`, `#{c ≤ v}`, label slice, label
  lookup); binary64 rounding inside them is outside the model.
-/
import SoundeventModel.Basic
namespace SE.Axis

/-- error classes of the axis functions (messages are never compared) -/
inductive AErr
  | invalid   -- ValueError
  | key       -- KeyError
  | index     -- IndexError
  | zerodiv   -- ZeroDivisionError
  deriving DecidableEq, Repr, Inhabited

deriving instance DecidableEq for Except

def AErr.name : AErr → String
  | .invalid => "invalid"
  | .key => "key"
  | .index => "index"
  | .zerodiv => "zerodiv"

/-! ## `np.arange` and `create_range_dim` -/

/-- number of points of `np.arange(start, stop, step)`: `ceil((stop - start) / step)`, none when
    that is not positive -/
def arangeLen (start stop step : Rat) : Nat := ((stop - start) / step).ceil.toNat

/-- the first `n` points of the lattice `start + i * step` -/
def lattice (start step : Rat) (n : Nat) : List Rat :=
  (List.range n).map (fun (i : Nat) => start + (i : Rat) * step)

def arange (start stop step : Rat) : List Rat := lattice start step (arangeLen start stop step)

/-- the trailing-point rule of `create_range_dim`: a last point `≥ stop - step / 2` is removed;
    nothing is removed from an empty range (repaired code, fixes/C16-1: the pinned tree raised
    `IndexError` on `coords[-1]` there) -/
def dropTrailing (stop step : Rat) (cs : List Rat) : List Rat :=
  match cs.getLast? with
  | none => cs
  | some c => if c ≥ stop - step / 2 then cs.dropLast else cs

/-- coordinates of `create_range_dim(name, start, stop, step)` -/
def rangeCoords (start stop step : Rat) : List Rat :=
  dropTrailing stop step (arange start stop step)

/-- what `create_range_dim` returns, as far as the property looks at it -/
structure RangeDim where
  coords : List Rat
  step : Rat          -- the `step` attribute
  deriving DecidableEq, Repr

/-- `create_range_dim(name, start, stop, step=None, size=None)` -/
def createRangeDim (start stop : Rat) (step : Option Rat) (size : Option Int) : Except AErr RangeDim :=
  let stepE : Except AErr Rat :=
    match step, size with
    | some s, _ => .ok s
    | none, some n => if n = 0 then .error .zerodiv else .ok ((stop - start) / (n : Rat))
    | none, none => .error .invalid
  match stepE with
  | .error e => .error e
  | .ok s =>
    if s = 0 then .error .zerodiv
    else .ok { coords := rangeCoords start stop s, step := s }

/-- `create_time_range(start_time, end_time, step=None, samplerate=None)` -/
def createTimeRange (start stop : Rat) (step samplerate : Option Rat) : Except AErr RangeDim :=
  match step, samplerate with
  | some s, _ => createRangeDim start stop (some s) none
  | none, some sr => if sr = 0 then .error .zerodiv else createRangeDim start stop (some (1 / sr)) none
  | none, none => .error .invalid

/-- `create_frequency_range(low_freq, high_freq, step)` -/
def createFrequencyRange (lo hi step : Rat) : Except AErr RangeDim :=
  createRangeDim lo hi (some step) none

/-! ## `get_coord_index` -/

/-- `#{c ≤ v}`: pandas `get_slice_bound(v, "right")` on an increasing index -/
def countLE (coords : List Rat) (v : Rat) : Nat := coords.countP (fun c => decide (c ≤ v))

/-- `get_coord_index(arr, dim, value, raise_error)`: the range test is against the minimum and
    maximum coordinate (`get_dim_range`), outside it raises `KeyError` or clamps to `0` / `size`
    (the size, not the last index), inside it is `#{c ≤ v} - 1`.  An empty axis has no range
    (`ValueError`). -/
def coordIndex (coords : List Rat) (v : Rat) (raise : Bool) : Except AErr Nat :=
  match listMin coords, listMax coords with
  | some lo, some hi =>
    if v < lo ∨ v > hi then
      if raise then .error .key
      else if v < lo then .ok 0 else .ok coords.length
    else .ok (countLE coords v - 1)
  | _, _ => .error .invalid

/-! ## `set_value_at_pos` on a shape-indexed (row-major) array -/

structure NDArr (α : Type) where
  shape : List Nat
  data : List α
  deriving DecidableEq, Repr

/-- number of elements of an array of the given shape -/
def size : List Nat → Nat
  | [] => 1
  | d :: ds => d * size ds

/-- flat (row-major) position of a multi-index -/
def ravel : List Nat → List Nat → Nat
  | _ :: ds, i :: is => i * size ds + ravel ds is
  | _, _ => 0

/-- multi-index of a flat position -/
def unravel : List Nat → Nat → List Nat
  | [], _ => []
  | _ :: ds, p => (p / size ds) :: unravel ds (p % size ds)

/-- a multi-index lies inside the shape -/
def inBounds : List Nat → List Nat → Bool
  | [], [] => true
  | d :: ds, i :: is => decide (i < d) && inBounds ds is
  | _, _ => false

/-- numpy basic indexer: per axis an integer (`some i`) or `slice(None)` (`none`) -/
abbrev Indexer := List (Option Nat)

/-- the multi-index is addressed by the indexer -/
def addressed : Indexer → List Nat → Bool
  | [], [] => true
  | none :: ix, _ :: m => addressed ix m
  | some i :: ix, j :: m => (i == j) && addressed ix m
  | _, _ => false

/-- components of a multi-index (or of the shape) on the sliced axes -/
def freePart : Indexer → List Nat → List Nat
  | none :: ix, j :: m => j :: freePart ix m
  | some _ :: ix, _ :: m => freePart ix m
  | _, _ => []

/-- the value written: a scalar, or an array broadcast against the addressed slice -/
inductive Val (α : Type)
  | scalar (x : α)
  | arr (v : NDArr α)
  deriving Repr

/-- numpy broadcasting of a value of shape `vs` into a slice of shape `ss`
    (right-aligned, every dimension equal or 1; no extra leading dimensions) -/
def broadcastable (vs ss : List Nat) : Bool :=
  decide (vs.length ≤ ss.length) &&
    (List.zip vs (ss.drop (ss.length - vs.length))).all (fun p => p.1 == p.2 || p.1 == 1)

/-- index into the value for the slice position `m` (slice shape `ss`) -/
def bcastIndex (vs ss m : List Nat) : List Nat :=
  (List.zip vs (m.drop (ss.length - vs.length))).map (fun p => if p.1 == 1 then 0 else p.2)

def Val.get {α} [Inhabited α] (v : Val α) (ss m : List Nat) : α :=
  match v with
  | .scalar x => x
  | .arr w => w.data.getD (ravel w.shape (bcastIndex w.shape ss m)) default

def NDArr.get {α} [Inhabited α] (a : NDArr α) (m : List Nat) : α :=
  a.data.getD (ravel a.shape m) default

/-- can the value be assigned to a slice of shape `ss`: a scalar always; a sequence not into a
    single cell (numpy: "setting an array element with a sequence"), otherwise by broadcasting -/
def valueFits {α} (v : Val α) (ss : List Nat) : Bool :=
  match v with
  | .scalar _ => true
  | .arr w => !ss.isEmpty && broadcastable w.shape ss

/-- `array.data[tuple(indexer)] = value` -/
def setAt {α} [Inhabited α] (a : NDArr α) (ix : Indexer) (v : Val α) : Except AErr (NDArr α) :=
  let ss := freePart ix a.shape
  if valueFits v ss then
    .ok { a with data := a.data.mapIdx (fun p old =>
            let m := unravel a.shape p
            if addressed ix m then v.get ss (freePart ix m) else old) }
  else .error .invalid

/-- the indexer `set_value_at_pos` builds: all slices, then for every queried axis the
    coordinate lookup (which raises `KeyError` outside the axis range); an unknown dimension is a
    `ValueError` -/
def buildIndexer (axes : List (List Rat)) : List (Nat × Rat) → Indexer → Except AErr Indexer
  | [], ix => .ok ix
  | (k, q) :: rest, ix =>
    match axes[k]? with
    | none => .error .invalid
    | some coords =>
      match coordIndex coords q true with
      | .error e => .error e
      | .ok i => buildIndexer axes rest (ix.set k (some i))

/-- `set_value_at_pos(array, value, **query)`: `axes[k]` are the coordinates of axis `k`,
    the query addresses axes by number -/
def setValueAtPos {α} [Inhabited α] (a : NDArr α) (axes : List (List Rat)) (query : List (Nat × Rat))
    (v : Val α) : Except AErr (NDArr α) :=
  match buildIndexer axes query (a.shape.map (fun _ => none)) with
  | .error e => .error e
  | .ok ix => setAt a ix v

/-! ## C17: `crop_dim`, `extend_dim`, `crop_dim_width`, `extend_dim_width`, `adjust_dim_width`

  An array seen along one dimension is the list of its samples `(coordinate, datum)`;
  whatever lives on the other dimensions rides along inside the datum. -/

abbrev Samples (α : Type) := List (Rat × α)

def coordsOf {α} (a : Samples α) : List Rat := a.map Prod.fst
def dataOf {α} (a : Samples α) : List α := a.map Prod.snd

/-- default `eps` of `crop_dim` / `extend_dim`: the binary64 value of `10e-6`
    (re-extracted from the signatures on every run, Tie 1) -/
def defaultEps : Rat := 5902958103587057 / 590295810358705651712
/-- defaults of `get_dim_step` / `estimate_dim_step`: binary64 `1e-5`, `1e-8` -/
def defaultRtol : Rat := 5902958103587057 / 590295810358705651712
def defaultAtol : Rat := 3022314549036573 / 302231454903657293676544

/-- `xarray` label slice `arr.sel({dim: slice(lo, hi)})` on an increasing index: both ends inclusive -/
def selectRange {α} (a : Samples α) (lo hi : Rat) : Samples α :=
  a.filter (fun p => decide (lo ≤ p.1) && decide (p.1 ≤ hi))

/-- `crop_dim(arr, dim, start, stop, right_closed, left_closed, eps)` -/
def cropDim {α} (a : Samples α) (start stop : Option Rat) (leftClosed rightClosed : Bool) (eps : Rat) :
    Except AErr (Samples α) :=
  match listMin (coordsOf a), listMax (coordsOf a) with
  | some cs, some ce =>
    let lc := match start with | none => true | some _ => leftClosed
    let s := start.getD cs
    let rc := match stop with | none => true | some _ => rightClosed
    let e := stop.getD ce
    if s > e then .error .invalid
    else if s < cs ∨ e > ce then .error .invalid
    else
      let hi := if rc then e else e - eps
      let lo := if lc then s else s + eps
      .ok (selectRange a lo hi)
  | _, _ => .error .invalid

/-- `np.diff` -/
def diffs : List Rat → List Rat
  | x :: y :: rest => (y - x) :: diffs (y :: rest)
  | _ => []

/-- `get_dim_step`: the `step` attribute when present, else `estimate_dim_step`: the mean of the
    consecutive differences, `ValueError` when one of them is not within `atol + rtol * |mean|` of
    it.  `ok none` stands for the NaN a one-point axis without the attribute yields. -/
def dimStep (attr : Option Rat) (coords : List Rat) : Except AErr (Option Rat) :=
  match attr with
  | some s => .ok (some s)
  | none =>
    let ds := diffs coords
    if ds.isEmpty then .ok none
    else
      let mean := sumRat ds / (ds.length : Rat)
      if ds.all (fun d => decide ((d - mean).abs ≤ defaultAtol + defaultRtol * mean.abs)) then .ok (some mean)
      else .error .invalid

/-- `arr.reindex({dim: coords}, fill_value)`: label lookup, `fill` where the label is new -/
def reindex {α} (a : Samples α) (newCoords : List Rat) (fill : α) : Samples α :=
  newCoords.map (fun c => (c, match a.find? (fun p => p.1 == c) with | some p => p.2 | none => fill))

/-- `extend_dim(arr, dim, start, stop, fill_value, eps, left_closed, right_closed)`.
    New coordinates are generated outward from the current ends:
    `arange(current_start - step, start, -step)[::-1]` and `arange(last, stop, step)[1:]`,
    a closed end being moved outward and an open end inward by `eps` first (repaired code,
    fixes/C17-2: the pinned tree left open ends where they were, so that binary64 rounding
    inside `arange` decided whether an open end on the lattice was included). -/
def extendDim {α} (a : Samples α) (stepAttr : Option Rat) (start stop : Option Rat) (fill : α) (eps : Rat)
    (leftClosed rightClosed : Bool) : Except AErr (Samples α) :=
  let coords := coordsOf a
  match listMin coords, listMax coords, coords.getLast? with
  | some cs, some ce, some last =>
    let s := start.getD cs
    let e := stop.getD ce
    if s > e then .error .invalid
    else
      match dimStep stepAttr coords with
      | .error err => .error err
      | .ok st =>
        let s' := if leftClosed then s - eps else s + eps
        let e' := if rightClosed then e + eps else e - eps
        let left : Except AErr (List Rat) :=
          match st with
          | none => .ok []                               -- NaN: the comparison is false
          | some step =>
            if s' ≤ cs - step then
              (if step = 0 then .error .zerodiv else .ok (arange (cs - step) s' (-step)).reverse)
            else .ok []
        let right : Except AErr (List Rat) :=
          if e' ≥ ce then
            match st with
            | none => .error .invalid                    -- arange with a NaN step
            | some step => if step = 0 then .error .zerodiv else .ok ((arange last e' step).drop 1)
          else .ok []
        match left, right with
        | .error err, _ => .error err
        | _, .error err => .error err
        | .ok l, .ok r => .ok (reindex a (l ++ coords ++ r) fill)
  | _, _, _ => .error .invalid

inductive Pos | start | center | «end»
  deriving DecidableEq, Repr

/-- `crop_dim_width(array, dim, width, position)`; `none` = a position string that is none of the three -/
def cropWidth {α} (a : Samples α) (w : Nat) (pos : Option Pos) : Except AErr (Samples α) :=
  let n := a.length
  if w ≥ n then .error .invalid
  else match pos with
    | some .start => .ok (a.take w)
    | some .end => .ok (if w = 0 then a else a.drop (n - w))      -- `coords[-0:]` is everything
    | some .center => .ok ((a.drop (n / 2 - w / 2)).take w)       -- `max(0, n // 2 - w // 2)`
    | none => .error .invalid

/-- `extend_dim_width(array, dim, width, fill_value, position)`: `extra` new coordinates are
    generated by count, `current_end + step * arange(1, extra + 1)` and
    `current_start - step * arange(extra, 0, -1)` (repaired code, fixes/C17-1; over the rationals the
    pinned tree's `arange(current_end + step, current_end + step + extra * step, step)` is the same
    list, see `arange_by_count`). -/
def extendWidth {α} (a : Samples α) (stepAttr : Option Rat) (w : Nat) (fill : α) (pos : Option Pos) :
    Except AErr (Samples α) :=
  let coords := coordsOf a
  match coords.head?, coords.getLast? with
  | some cs, some ce =>
    match dimStep stepAttr coords with
    | .error err => .error err
    | .ok st =>
      let n := a.length
      if n ≥ w then .error .invalid
      else
        let extra := w - n
        match st with
        | none => .error .invalid       -- NaN step (one-point axis without the attribute): not modelled
        | some step =>
          let before (k : Nat) : List Rat := lattice (cs - (k : Rat) * step) step k
          let after (k : Nat) : List Rat := lattice (ce + step) step k
          match pos with
          | some .start => .ok (reindex a (coords ++ after extra) fill)
          | some .end => .ok (reindex a (before extra ++ coords) fill)
          | some .center => .ok (reindex a (before (extra / 2) ++ coords ++ after (extra - extra / 2)) fill)
          | none => .error .invalid
  | _, _ => .error .index

/-- `adjust_dim_width(array, dim, width, fill_value, position)` -/
def adjustWidth {α} (a : Samples α) (stepAttr : Option Rat) (w : Int) (fill : α) (pos : Option Pos) :
    Except AErr (Samples α) :=
  if w < 1 then .error .invalid
  else if w.toNat = a.length then .ok a
  else if w.toNat < a.length then cropWidth a w.toNat pos
  else extendWidth a stepAttr w.toNat fill pos

/-! ## executable statements of C16, evaluated on the implementation's observed input/output

  Their meaning is fixed by `C16_range_spec` / `C16_index_spec` (the model satisfies them) and
  `C16_index_spec_determines` (the lookup statement leaves no freedom). -/

/-- the range part of C16 for a valid request (`0 < step`, `start ≤ stop`): the step is recorded,
    the coordinates are `start + i * step`, all inside `[start, stop)`, and there are exactly
    `(stop - start) / step` of them when that is a whole number -/
def rangeSpec (start stop step : Rat) (out : Except AErr RangeDim) : Bool :=
  match out with
  | .error _ => false
  | .ok r =>
    r.step == step
    && r.coords == lattice start step r.coords.length
    && r.coords.all (fun c => decide (start ≤ c) && decide (c < stop))
    && (let q := (stop - start) / step
        if q.den == 1 then r.coords.length == q.num.toNat else true)

/-- the lookup part of C16 on a non-empty increasing axis: outside `[first, last]` the call raises
    `KeyError` or clamps to `0` / `size`; inside, the result `i` satisfies
    `coords[i] ≤ v` and `v < coords[i+1]` when there is a next coordinate -/
def indexSpec (coords : List Rat) (v : Rat) (raise : Bool) (out : Except AErr Nat) : Bool :=
  match coords.head?, coords.getLast? with
  | some lo, some hi =>
    if v < lo then (if raise then out == .error .key else out == .ok 0)
    else if v > hi then (if raise then out == .error .key else out == .ok coords.length)
    else match out with
      | .ok i =>
        match coords[i]? with
        | some c => decide (c ≤ v) && (match coords[i + 1]? with | some d => decide (v < d) | none => true)
        | none => false
      | .error _ => false
  | _, _ => true

end SE.Axis
