/-
  Closing tactic of the regenerated symbolic-tie obligations of C03 (tie 1b).

  The obligation proves `extracted decision tree = model validator` by a case analysis that follows
  the extracted tree (`by_cases` on each traced comparison); at every leaf all traced comparisons
  are hypotheses and `se_val` evaluates the model's validator under them.
-/
import SoundeventModel.Validate

macro "se_val_simp" : tactic =>
  `(tactic| simp only [SE.Validate.vTimeStamp, SE.Validate.fvTimeInterval, SE.Validate.vTimeInterval1,
      SE.Validate.vTimeInterval2, SE.Validate.vPoint, SE.Validate.fvLineString, SE.Validate.vLineString1,
      SE.Validate.vLineString2, SE.Validate.vPolygon, SE.Validate.vBoundingBox, SE.Validate.vMultiPoint,
      SE.Validate.fvMultiLineString, SE.Validate.vMultiLineString1, SE.Validate.vMultiLineString2,
      SE.Validate.vMultiPolygon, SE.Validate.chkPoint, SE.Validate.chkRing, SE.Validate.chkLine,
      SE.Validate.chkPoly, SE.Validate.chkForward, SE.Validate.firstTime, SE.Validate.lastTime,
      SE.Validate.forE, SE.Validate.bad, SE.Validate.crash, SE.MAXF, bind, Except.bind,
      List.length_cons, List.length_nil, List.any_cons, List.any_nil, List.head?_cons, List.head?_nil,
      List.getLast?_cons_cons, List.getLast?_singleton, List.getLast?_nil, List.reverse_cons,
      List.reverse_nil, List.nil_append, List.cons_append, if_true, if_false, or_self, or_true, true_or,
      or_false, false_or, not_true_eq_false, not_false_eq_true, Bool.or_true, Bool.true_or,
      Bool.or_false, Bool.false_or, decide_true, decide_false, Bool.false_eq_true, gt_iff_lt, ge_iff_le,
      Nat.reduceLT, Nat.reduceAdd, Nat.lt_irrefl, Nat.not_lt_zero, reduceCtorEq, *])

/-- second attempt: the traced comparisons may be written differently from the model's (`f >= 0`
    where the model tests `f < 0`, `a <= b` for `not a > b`, …): bring every comparison of the goal
    and of the path hypotheses to the one form `_ ≤ _` / `¬ _ ≤ _`, then evaluate again -/
macro "se_val_norm" : tactic =>
  `(tactic| ((try se_val_simp);
             (try simp only [gt_iff_lt, ge_iff_le, ← Rat.not_le, Classical.not_not] at *);
             (try se_val_simp); done))

macro "se_val" : tactic =>
  `(tactic| first
    | (se_val_simp; done)
    | se_val_norm
    | (se_val_simp <;> grind)
    | grind)
