/-
  C04: histories — several constructions in one process on objects that are reused.

  A `ClipAnnotation` / `ClipPrediction` object is a mutable Python object: its `sound_events` list can be
  appended to in place or assigned, its `clip` can be assigned, it can be copied (`model_copy(update=…)`,
  `copy.copy`, `copy.deepcopy`) and the copy changed.  A `ClipEvaluation` is constructed *from the objects as
  they are at that moment*.  The store below is what such a session amounts to: handles of live objects, what
  each carries now, and the verdict of every construction.  Nothing is remembered from one construction to
  the next: the theorems of Proofs/C04.lean (`C04_history_*`) say that the verdict of a construction is the
  decision of `ClipEvalArr.accepted` on the current contents, whatever happened before.
-/
import SoundeventModel.Relational
namespace SE.Relational

/-- what a `ClipAnnotation` / `ClipPrediction` object carries as far as the validators look: the uuid of its
    clip and the uuids of its sound events, in order -/
structure Coll where
  clip : Id
  ids : List Id
  deriving DecidableEq, Repr

/-- live objects by handle; the most recent binding of a handle is the object's present content -/
abbrev Store := List (Nat × Coll)

def Store.get (st : Store) (h : Nat) : Option Coll :=
  match st with
  | [] => none
  | (k, c) :: rest => if k = h then some c else Store.get rest h

def Store.put (st : Store) (h : Nat) (c : Coll) : Store := (h, c) :: st

/-- one step of a session -/
inductive HStep where
  /-- a new object (constructor, `model_validate`, `model_validate_json`) bound to handle `h` -/
  | new (h : Nat) (clip : Id) (ids : List Id)
  /-- the object's `sound_events` becomes `ids`: in-place `append` / `extend` / slice assignment / `pop`,
      or attribute assignment of a new list -/
  | setIds (h : Nat) (ids : List Id)
  /-- attribute assignment of another clip -/
  | setClip (h : Nat) (clip : Id)
  /-- `dst` becomes a copy of `src` (`model_copy`, `copy.copy`, `copy.deepcopy`, a dump that is validated
      again), with `sound_events` replaced when `ids` is given (`update={"sound_events": …}` or assignment
      to the copy); the source keeps what it has -/
  | copy (src dst : Nat) (ids : Option (List Id))
  /-- `ClipEvaluation(annotations=<object ann>, predictions=<object pred>, matches=…, score=…)` -/
  | eval (ann pred : Nat) (ms : List MatchRow) (score : Option Rat)
  deriving Repr

/-- the effect of a step on the store; a construction has none -/
def HStep.exec (st : Store) : HStep → Store
  | .new h clip ids => st.put h ⟨clip, ids⟩
  | .setIds h ids => match st.get h with
    | some c => st.put h { c with ids := ids }
    | none => st
  | .setClip h clip => match st.get h with
    | some c => st.put h { c with clip := clip }
    | none => st
  | .copy src dst ids => match st.get src with
    | some c => st.put dst { c with ids := ids.getD c.ids }
    | none => st
  | .eval _ _ _ _ => st

/-- the arrangement a construction sees: the present contents of the two objects -/
def arrangementOf (st : Store) (ann pred : Nat) (ms : List MatchRow) (score : Option Rat) : Option ClipEvalArr := do
  let a ← st.get ann
  let p ← st.get pred
  pure { annClip := a.clip, predClip := p.clip, annIds := a.ids, predIds := p.ids, ms := ms, score := score }

/-- the verdict of a step: `none` for a step that constructs nothing, `some none` for a construction from a
    handle that was never bound (an ill-formed session, never generated), `some (some b)` otherwise -/
def HStep.verdict (st : Store) : HStep → Option (Option Bool)
  | .eval ann pred ms score => some ((arrangementOf st ann pred ms score).map ClipEvalArr.accepted)
  | _ => none

def execAll (st : Store) : List HStep → Store
  | [] => st
  | s :: rest => execAll (s.exec st) rest

/-- the verdicts of the constructions of a session, in order -/
def runHistory (st : Store) : List HStep → List (Option Bool)
  | [] => []
  | s :: rest =>
    match s.verdict st with
    | some v => v :: runHistory (s.exec st) rest
    | none => runHistory (s.exec st) rest

def HStep.isEval : HStep → Bool
  | .eval _ _ _ _ => true
  | _ => false

end SE.Relational
