/-
  C12: `intervals_overlap`, `have_temporal_overlap`, `have_frequency_overlap`,
  `is_in_clip` of `soundevent/geometry/operations.py`.
-/
import SoundeventModel.Geometry
namespace SE.Intervals

/-- length of the intersection is at least the threshold -/
def thrOverlap (s1 e1 s2 e2 thr : Rat) : Bool := decide (min e1 e2 - max s1 s2 ≥ thr)

/-- the threshold the code derives from its two optional arguments;
    `none` = `ValueError`. -/
def threshold (s1 e1 s2 e2 : Rat) (abs rel : Option Rat) : Option Rat :=
  match abs, rel with
  | some _, some _ => none
  | some a, none => some a
  | none, some r => if r < 0 ∨ r > 1 then none else some (r * min (e1 - s1) (e2 - s2))
  | none, none => some 0

def intervalsOverlap (s1 e1 s2 e2 : Rat) (abs rel : Option Rat) : Option Bool :=
  (threshold s1 e1 s2 e2 abs rel).map (thrOverlap s1 e1 s2 e2)

def temporalOverlap (b1 b2 : Bounds) (abs rel : Option Rat) : Option Bool :=
  intervalsOverlap b1.st b1.en b2.st b2.en abs rel

def frequencyOverlap (b1 b2 : Bounds) (abs rel : Option Rat) : Option Bool :=
  intervalsOverlap b1.lo b1.hi b2.lo b2.hi abs rel

/-- `is_in_clip`; `none` = `ValueError` (negative minimum). -/
def isInClip (b : Bounds) (clipStart clipEnd minOverlap : Rat) : Option Bool :=
  if minOverlap < 0 then none
  else if b.en ≤ clipStart + minOverlap ∨ b.st ≥ clipEnd - minOverlap then some false
  else some true

end SE.Intervals
