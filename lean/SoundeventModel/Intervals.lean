/-
  C12: `intervals_overlap`, `have_temporal_overlap`, `have_frequency_overlap`,
  `is_in_clip` of `soundevent/geometry/operations.py`.
-/
import SoundeventModel.Geometry
namespace SE.Intervals

/-- length of the intersection is at least the threshold -/
def thrOverlap (s1 e1 s2 e2 thr : Rat) : Bool := decide (min e1 e2 - max s1 s2 ≥ thr)

/-- the threshold the code derives from its two optional arguments;
    `none` = `ValueError`. -/
def threshold (s1 e1 s2 e2 : Rat) (abs rel : Option Rat) : Option Rat :=
  match abs, rel with
  | some _, some _ => none
  | some a, none => some a
  | none, some r => if r < 0 ∨ r > 1 then none else some (r * min (e1 - s1) (e2 - s2))
  | none, none => some 0

def intervalsOverlap (s1 e1 s2 e2 : Rat) (abs rel : Option Rat) : Option Bool :=
  (threshold s1 e1 s2 e2 abs rel).map (thrOverlap s1 e1 s2 e2)

def temporalOverlap (b1 b2 : Bounds) (abs rel : Option Rat) : Option Bool :=
  intervalsOverlap b1.st b1.en b2.st b2.en abs rel

def frequencyOverlap (b1 b2 : Bounds) (abs rel : Option Rat) : Option Bool :=
  intervalsOverlap b1.lo b1.hi b2.lo b2.hi abs rel

/-- `is_in_clip`; `none` = `ValueError` (negative minimum). -/
def isInClip (b : Bounds) (clipStart clipEnd minOverlap : Rat) : Option Bool :=
  if minOverlap < 0 then none
  else if b.en ≤ clipStart + minOverlap ∨ b.st ≥ clipEnd - minOverlap then some false
  else some true

/-! ### the geometry-level functions (review R-C12)

  `have_temporal_overlap`, `have_frequency_overlap` and `is_in_clip` take *geometries*; the
  composition "compute_bounds of each argument, then the interval predicate" is part of the
  code and is modelled here (it used to live in the JSON glue).  Outer `none`: a geometry
  without vertices (outside the data model, no validated geometry); inner `none`: `ValueError`. -/

/-- the time / frequency coordinates `compute_bounds` ranges over -/
def times (g : Geom) : List Rat := g.boundPts.map (·.1)
def freqs (g : Geom) : List Rat := g.boundPts.map (·.2)

def haveTemporalOverlap (g1 g2 : Geom) (abs rel : Option Rat) : Option (Option Bool) :=
  match g1.bounds, g2.bounds with
  | some b1, some b2 => some (temporalOverlap b1 b2 abs rel)
  | _, _ => none

def haveFrequencyOverlap (g1 g2 : Geom) (abs rel : Option Rat) : Option (Option Bool) :=
  match g1.bounds, g2.bounds with
  | some b1, some b2 => some (frequencyOverlap b1 b2 abs rel)
  | _, _ => none

/-- `is_in_clip(geometry, clip, minimum_overlap)`: the sign test comes first, then `compute_bounds` -/
def isInClipGeom (g : Geom) (clipStart clipEnd minOverlap : Rat) : Option (Option Bool) :=
  if minOverlap < 0 then some none
  else match g.bounds with
    | some b => some (isInClip b clipStart clipEnd minOverlap)
    | none => none

/-- the measure of `[s1, e1] ∩ [s2, e2]` (0 when they are disjoint) -/
def interLen (s1 e1 s2 e2 : Rat) : Rat := max 0 (min e1 e2 - max s1 s2)

/-! ### the same computations in a rounding arithmetic (binary64)

  Every `+ - *` of the Python code returns `rnd` of the exact result; `min`, `max`, comparisons,
  the literal `0` and the arguments themselves are exact.  `rnd = id` gives the definitions above
  (`C12_float_id`); `rnd = SE.Affinity.rnd64` is binary64 round-to-nearest-even and is compared
  bit for bit with the code on arbitrary (non-dyadic) floats. -/

def thresholdR (rnd : Rat → Rat) (s1 e1 s2 e2 : Rat) (abs rel : Option Rat) : Option Rat :=
  match abs, rel with
  | some _, some _ => none
  | some a, none => some a
  | none, some r =>
    if r < 0 ∨ r > 1 then none else some (rnd (r * min (rnd (e1 - s1)) (rnd (e2 - s2))))
  | none, none => some 0

def intervalsOverlapR (rnd : Rat → Rat) (s1 e1 s2 e2 : Rat) (abs rel : Option Rat) : Option Bool :=
  (thresholdR rnd s1 e1 s2 e2 abs rel).map (fun thr => decide (rnd (min e1 e2 - max s1 s2) ≥ thr))

def isInClipR (rnd : Rat → Rat) (b : Bounds) (clipStart clipEnd minOverlap : Rat) : Option Bool :=
  if minOverlap < 0 then none
  else if b.en ≤ rnd (clipStart + minOverlap) ∨ b.st ≥ rnd (clipEnd - minOverlap) then some false
  else some true

/-- what the property demands of a result computed in floating point: outside a band of
    `u · (|x| + 3 · max |w₁| |w₂|)` around equality (`x` the signed intersection length, `wᵢ` the
    widths, `u` the unit round-off) the answer is the exact one; `out = none`: the call raised. -/
def absR (x : Rat) : Rat := if x < 0 then -x else x

def floatBand (u : Rat) (s1 e1 s2 e2 : Rat) : Rat :=
  u * (absR (min e1 e2 - max s1 s2) + 3 * max (absR (e1 - s1)) (absR (e2 - s2)))

def floatOk (u : Rat) (s1 e1 s2 e2 : Rat) (abs rel : Option Rat) (out : Option Bool) : Bool :=
  match threshold s1 e1 s2 e2 abs rel, out with
  | none, none => true
  | some thr, some v =>
    if min e1 e2 - max s1 s2 - thr > floatBand u s1 e1 s2 e2 then v == true
    else if min e1 e2 - max s1 s2 - thr < -floatBand u s1 e1 s2 e2 then v == false
    else true
  | _, _ => false

/-- the same for `is_in_clip`: the two edges `start + m`, `end − m` are each rounded once -/
def clipFloatOk (u : Rat) (b : Bounds) (cs ce m : Rat) (out : Option Bool) : Bool :=
  match isInClip b cs ce m, out with
  | none, none => true
  | some _, some v =>
    if b.en > cs + m + u * absR (cs + m) ∧ b.st < ce - m - u * absR (ce - m) then v == true
    else if b.en ≤ cs + m - u * absR (cs + m) ∨ b.st ≥ ce - m + u * absR (ce - m) then v == false
    else true
  | _, _ => false

/-- the geometry-level functions in the rounding arithmetic (`compute_bounds` is min / max only: exact) -/
def haveTemporalOverlapR (rnd : Rat → Rat) (g1 g2 : Geom) (abs rel : Option Rat) : Option (Option Bool) :=
  match g1.bounds, g2.bounds with
  | some b1, some b2 => some (intervalsOverlapR rnd b1.st b1.en b2.st b2.en abs rel)
  | _, _ => none

def haveFrequencyOverlapR (rnd : Rat → Rat) (g1 g2 : Geom) (abs rel : Option Rat) : Option (Option Bool) :=
  match g1.bounds, g2.bounds with
  | some b1, some b2 => some (intervalsOverlapR rnd b1.lo b1.hi b2.lo b2.hi abs rel)
  | _, _ => none

def isInClipGeomR (rnd : Rat → Rat) (g : Geom) (clipStart clipEnd minOverlap : Rat) : Option (Option Bool) :=
  if minOverlap < 0 then some none
  else match g.bounds with
    | some b => some (isInClipR rnd b clipStart clipEnd minOverlap)
    | none => none

/-- the default of `is_in_clip`'s `minimum_overlap` argument -/
def defaultMinimumOverlap : Rat := 0

/-! ### how the arguments of a call reach the parameters (follow-up: construction paths)

  The thresholds may be passed by position or by keyword, in any keyword order, explicitly as
  `None` or not at all.  `bindCall` is Python's binding of the *optional* arguments of a call
  (those after the two subjects): positional values fill the parameters in signature order,
  keywords go by name; `none` = `TypeError` (too many positional values, an unknown keyword,
  a parameter given twice).  A parameter that is not given is `none` in the result (the caller
  then sees the default).  The parameter tables are re-read from `inspect.signature` on every
  run (Tie 1). -/

/-- the optional parameters of `intervals_overlap`, `have_temporal_overlap` and
    `have_frequency_overlap` after the two subjects, in signature order -/
def overlapParams : List String := ["min_absolute_overlap", "min_relative_overlap"]

/-- the optional parameter of `is_in_clip` after `geometry` and `clip` -/
def clipParams : List String := ["minimum_overlap"]

/-- the value a keyword list gives to a parameter: `none` = not mentioned,
    `some none` = mentioned more than once (Python: SyntaxError / TypeError) -/
def kwLookup {α} (kw : List (String × α)) (name : String) : Option (Option α) :=
  match kw.filter (fun p => p.1 == name) with
  | [] => none
  | [p] => some (some p.2)
  | _ => some none

/-- bind the parameters `params` from the position `k` on -/
def bindFrom {α} (pos : List α) (kw : List (String × α)) : List String → Nat → Option (List (Option α))
  | [], _ => some []
  | p :: ps, k =>
    match pos[k]?, kwLookup kw p with
    | some _, some _ => none                      -- given by position and by keyword
    | _, some none => none                        -- keyword repeated
    | some v, none => (bindFrom pos kw ps (k + 1)).map (some v :: ·)
    | none, some (some v) => (bindFrom pos kw ps (k + 1)).map (some v :: ·)
    | none, none => (bindFrom pos kw ps (k + 1)).map (none :: ·)

def bindCall {α} (params : List String) (pos : List α) (kw : List (String × α)) : Option (List (Option α)) :=
  if pos.length > params.length then none
  else if kw.any (fun p => !params.contains p.1) then none
  else bindFrom pos kw params 0

/-- `intervals_overlap(i1, i2, *pos, **kw)`: outer `none` = `TypeError` of the call itself.  A threshold
    is a `Option Rat` (`none` = an explicit `None`), so "not given" and "given as `None`" both reach the
    body as `None`. -/
def intervalsOverlapCall (s1 e1 s2 e2 : Rat) (pos : List (Option Rat)) (kw : List (String × Option Rat)) :
    Option (Option Bool) :=
  match bindCall overlapParams pos kw with
  | some [a, r] => some (intervalsOverlap s1 e1 s2 e2 a.join r.join)
  | _ => none

def haveTemporalOverlapCall (g1 g2 : Geom) (pos : List (Option Rat)) (kw : List (String × Option Rat)) :
    Option (Option (Option Bool)) :=
  match bindCall overlapParams pos kw with
  | some [a, r] => some (haveTemporalOverlap g1 g2 a.join r.join)
  | _ => none

def haveFrequencyOverlapCall (g1 g2 : Geom) (pos : List (Option Rat)) (kw : List (String × Option Rat)) :
    Option (Option (Option Bool)) :=
  match bindCall overlapParams pos kw with
  | some [a, r] => some (haveFrequencyOverlap g1 g2 a.join r.join)
  | _ => none

/-- `is_in_clip(geometry, clip, *pos, **kw)`; the minimum is a number (no `None`) -/
def isInClipCall (g : Geom) (cs ce : Rat) (pos : List Rat) (kw : List (String × Rat)) :
    Option (Option (Option Bool)) :=
  match bindCall clipParams pos kw with
  | some [m] => some (isInClipGeom g cs ce (m.getD defaultMinimumOverlap))
  | _ => none

/-! ### histories: consecutive calls in one process on objects that live on (follow-up: histories)

  A process holds geometry objects and clips in numbered slots.  Between calls an object may be
  replaced or *changed* (attribute assignment, `model_copy(update=…)`, `copy.copy` + assignment,
  in-place edit of the coordinate list — the model does not distinguish these: afterwards the slot
  carries the new content), or merely *used* (`compute_bounds`, `repr`, a predicate call).  The
  model is pure: the answer of a call is the base function on the content the slots carry at that
  moment (`C12_session_*` in Proofs/C12.lean). -/

structure Store where
  geoms : Nat → Option Geom
  clips : Nat → Option (Rat × Rat)

def Store.empty : Store := ⟨fun _ => none, fun _ => none⟩

inductive Step
  | setGeom (slot : Nat) (g : Geom)
  | setClip (slot : Nat) (cs ce : Rat)
  | touch (slot : Nat)
  | intervals (s1 e1 s2 e2 : Rat) (abs rel : Option Rat)
  | temporal (i j : Nat) (abs rel : Option Rat)
  | frequency (i j : Nat) (abs rel : Option Rat)
  | inClip (i c : Nat) (m : Option Rat)

/-- the step changes what a slot carries -/
def Step.isWrite : Step → Bool
  | .setGeom .. | .setClip .. => true
  | _ => false

def Store.write (σ : Store) : Step → Store
  | .setGeom k g => { σ with geoms := fun n => if n = k then some g else σ.geoms n }
  | .setClip k cs ce => { σ with clips := fun n => if n = k then some (cs, ce) else σ.clips n }
  | _ => σ

/-- what a call answers in store `σ`: `none` = the step is not a call (or names an empty slot / a
    geometry without vertices: never generated); `some none` = `ValueError` -/
def Store.answer (σ : Store) : Step → Option (Option Bool)
  | .intervals s1 e1 s2 e2 a r => some (intervalsOverlap s1 e1 s2 e2 a r)
  | .temporal i j a r =>
    match σ.geoms i, σ.geoms j with
    | some g1, some g2 => haveTemporalOverlap g1 g2 a r
    | _, _ => none
  | .frequency i j a r =>
    match σ.geoms i, σ.geoms j with
    | some g1, some g2 => haveFrequencyOverlap g1 g2 a r
    | _, _ => none
  | .inClip i c m =>
    match σ.geoms i, σ.clips c with
    | some g, some (cs, ce) => isInClipGeom g cs ce (m.getD defaultMinimumOverlap)
    | _, _ => none
  | _ => none

/-- the store after a history -/
def exec (σ : Store) : List Step → Store
  | [] => σ
  | s :: rest => exec (σ.write s) rest

/-- the answers of a history, one per step (`none` for the steps that are not calls) -/
def runSession (σ : Store) : List Step → List (Option (Option Bool))
  | [] => []
  | s :: rest => σ.answer s :: runSession (σ.write s) rest

/-- the content slot `k` carries after a history: the last geometry written to it -/
def lastGeom (k : Nat) : List Step → Option Geom → Option Geom
  | [], acc => acc
  | .setGeom k' g :: rest, acc => lastGeom k rest (if k' = k then some g else acc)
  | _ :: rest, acc => lastGeom k rest acc

def lastClip (k : Nat) : List Step → Option (Rat × Rat) → Option (Rat × Rat)
  | [], acc => acc
  | .setClip k' cs ce :: rest, acc => lastClip k rest (if k' = k then some (cs, ce) else acc)
  | _ :: rest, acc => lastClip k rest acc

/-- `min` / `max` unfolded the other way round (used by the closing tactic of the regenerated ties when the
    code writes `b if b <= a else a`) -/
theorem min_flip (a b : Rat) : min a b = if b ≤ a then b else a := by
  rw [Rat.min_def]; split <;> split <;> grind

theorem max_flip (a b : Rat) : max a b = if b ≤ a then a else b := by
  rw [Rat.max_def]; split <;> split <;> grind

end SE.Intervals
