/-
  C12: `intervals_overlap`, `have_temporal_overlap`, `have_frequency_overlap`,
  `is_in_clip` of `soundevent/geometry/operations.py`.
-/
import SoundeventModel.Geometry
namespace SE.Intervals

/-- length of the intersection is at least the threshold -/
def thrOverlap (s1 e1 s2 e2 thr : Rat) : Bool := decide (min e1 e2 - max s1 s2 ≥ thr)

/-- the threshold the code derives from its two optional arguments;
    `none` = `ValueError`. -/
def threshold (s1 e1 s2 e2 : Rat) (abs rel : Option Rat) : Option Rat :=
  match abs, rel with
  | some _, some _ => none
  | some a, none => some a
  | none, some r => if r < 0 ∨ r > 1 then none else some (r * min (e1 - s1) (e2 - s2))
  | none, none => some 0

def intervalsOverlap (s1 e1 s2 e2 : Rat) (abs rel : Option Rat) : Option Bool :=
  (threshold s1 e1 s2 e2 abs rel).map (thrOverlap s1 e1 s2 e2)

def temporalOverlap (b1 b2 : Bounds) (abs rel : Option Rat) : Option Bool :=
  intervalsOverlap b1.st b1.en b2.st b2.en abs rel

def frequencyOverlap (b1 b2 : Bounds) (abs rel : Option Rat) : Option Bool :=
  intervalsOverlap b1.lo b1.hi b2.lo b2.hi abs rel

/-- `is_in_clip`; `none` = `ValueError` (negative minimum). -/
def isInClip (b : Bounds) (clipStart clipEnd minOverlap : Rat) : Option Bool :=
  if minOverlap < 0 then none
  else if b.en ≤ clipStart + minOverlap ∨ b.st ≥ clipEnd - minOverlap then some false
  else some true

/-! ### the geometry-level functions (review R-C12)

  `have_temporal_overlap`, `have_frequency_overlap` and `is_in_clip` take *geometries*; the
  composition "compute_bounds of each argument, then the interval predicate" is part of the
  code and is modelled here (it used to live in the JSON glue).  Outer `none`: a geometry
  without vertices (outside the data model, no validated geometry); inner `none`: `ValueError`. -/

/-- the time / frequency coordinates `compute_bounds` ranges over -/
def times (g : Geom) : List Rat := g.boundPts.map (·.1)
def freqs (g : Geom) : List Rat := g.boundPts.map (·.2)

def haveTemporalOverlap (g1 g2 : Geom) (abs rel : Option Rat) : Option (Option Bool) :=
  match g1.bounds, g2.bounds with
  | some b1, some b2 => some (temporalOverlap b1 b2 abs rel)
  | _, _ => none

def haveFrequencyOverlap (g1 g2 : Geom) (abs rel : Option Rat) : Option (Option Bool) :=
  match g1.bounds, g2.bounds with
  | some b1, some b2 => some (frequencyOverlap b1 b2 abs rel)
  | _, _ => none

/-- `is_in_clip(geometry, clip, minimum_overlap)`: the sign test comes first, then `compute_bounds` -/
def isInClipGeom (g : Geom) (clipStart clipEnd minOverlap : Rat) : Option (Option Bool) :=
  if minOverlap < 0 then some none
  else match g.bounds with
    | some b => some (isInClip b clipStart clipEnd minOverlap)
    | none => none

/-- the measure of `[s1, e1] ∩ [s2, e2]` (0 when they are disjoint) -/
def interLen (s1 e1 s2 e2 : Rat) : Rat := max 0 (min e1 e2 - max s1 s2)

/-! ### the same computations in a rounding arithmetic (binary64)

  Every `+ - *` of the Python code returns `rnd` of the exact result; `min`, `max`, comparisons,
  the literal `0` and the arguments themselves are exact.  `rnd = id` gives the definitions above
  (`C12_float_id`); `rnd = SE.Affinity.rnd64` is binary64 round-to-nearest-even and is compared
  bit for bit with the code on arbitrary (non-dyadic) floats. -/

def thresholdR (rnd : Rat → Rat) (s1 e1 s2 e2 : Rat) (abs rel : Option Rat) : Option Rat :=
  match abs, rel with
  | some _, some _ => none
  | some a, none => some a
  | none, some r =>
    if r < 0 ∨ r > 1 then none else some (rnd (r * min (rnd (e1 - s1)) (rnd (e2 - s2))))
  | none, none => some 0

def intervalsOverlapR (rnd : Rat → Rat) (s1 e1 s2 e2 : Rat) (abs rel : Option Rat) : Option Bool :=
  (thresholdR rnd s1 e1 s2 e2 abs rel).map (fun thr => decide (rnd (min e1 e2 - max s1 s2) ≥ thr))

def isInClipR (rnd : Rat → Rat) (b : Bounds) (clipStart clipEnd minOverlap : Rat) : Option Bool :=
  if minOverlap < 0 then none
  else if b.en ≤ rnd (clipStart + minOverlap) ∨ b.st ≥ rnd (clipEnd - minOverlap) then some false
  else some true

/-- what the property demands of a result computed in floating point: outside a band of
    `u · (|x| + 3 · max |w₁| |w₂|)` around equality (`x` the signed intersection length, `wᵢ` the
    widths, `u` the unit round-off) the answer is the exact one; `out = none`: the call raised. -/
def absR (x : Rat) : Rat := if x < 0 then -x else x

def floatBand (u : Rat) (s1 e1 s2 e2 : Rat) : Rat :=
  u * (absR (min e1 e2 - max s1 s2) + 3 * max (absR (e1 - s1)) (absR (e2 - s2)))

def floatOk (u : Rat) (s1 e1 s2 e2 : Rat) (abs rel : Option Rat) (out : Option Bool) : Bool :=
  match threshold s1 e1 s2 e2 abs rel, out with
  | none, none => true
  | some thr, some v =>
    if min e1 e2 - max s1 s2 - thr > floatBand u s1 e1 s2 e2 then v == true
    else if min e1 e2 - max s1 s2 - thr < -floatBand u s1 e1 s2 e2 then v == false
    else true
  | _, _ => false

/-- the same for `is_in_clip`: the two edges `start + m`, `end − m` are each rounded once -/
def clipFloatOk (u : Rat) (b : Bounds) (cs ce m : Rat) (out : Option Bool) : Bool :=
  match isInClip b cs ce m, out with
  | none, none => true
  | some _, some v =>
    if b.en > cs + m + u * absR (cs + m) ∧ b.st < ce - m - u * absR (ce - m) then v == true
    else if b.en ≤ cs + m - u * absR (cs + m) ∨ b.st ≥ ce - m + u * absR (ce - m) then v == false
    else true
  | _, _ => false

/-- the geometry-level functions in the rounding arithmetic (`compute_bounds` is min / max only: exact) -/
def haveTemporalOverlapR (rnd : Rat → Rat) (g1 g2 : Geom) (abs rel : Option Rat) : Option (Option Bool) :=
  match g1.bounds, g2.bounds with
  | some b1, some b2 => some (intervalsOverlapR rnd b1.st b1.en b2.st b2.en abs rel)
  | _, _ => none

def haveFrequencyOverlapR (rnd : Rat → Rat) (g1 g2 : Geom) (abs rel : Option Rat) : Option (Option Bool) :=
  match g1.bounds, g2.bounds with
  | some b1, some b2 => some (intervalsOverlapR rnd b1.lo b1.hi b2.lo b2.hi abs rel)
  | _, _ => none

def isInClipGeomR (rnd : Rat → Rat) (g : Geom) (clipStart clipEnd minOverlap : Rat) : Option (Option Bool) :=
  if minOverlap < 0 then some none
  else match g.bounds with
    | some b => some (isInClipR rnd b clipStart clipEnd minOverlap)
    | none => none

/-- the default of `is_in_clip`'s `minimum_overlap` argument -/
def defaultMinimumOverlap : Rat := 0

end SE.Intervals
