/-
  C09, the tag side of the four evaluation tasks.

  `Metrics.lean` / `Detection.lean` see a tag as the encoder's answer for it (a vocabulary index or
  nothing).  Where that answer comes from is pinned here, exactly as `DetectionTags.lean` does for
  `evaluate_clip` (C08): clips and sound events carry real tags (`Encoding.Tag`: a `Term` with all
  its fields and a value), the vocabulary is a list of such tags, and the answer is
  `Encoding.encode` — the model of `SimpleEncoder` that property C19 ties to
  `evaluation/encoding.py`.  Nothing about an encoder is re-derived here: the task drivers over
  real tags are the drivers of `Metrics.lean` / `Detection.lean` on `encTags` / `encPredTags`
  (`DetectionTags.lean`), i.e. `create_tag_encoder(tags)` followed by what was there before.
-/
import SoundeventModel.Metrics
import SoundeventModel.Detection
import SoundeventModel.DetectionTags
namespace SE.Metrics
open SE SE.Encoding SE.Detection

/-- a clip prediction / annotation of the two clip-level tasks with its real tags; `nEvents`: how many sound
    events the object carries (the clip-level tasks do not look at them, `ClipEvaluation`'s validator does) -/
structure CCPredT where
  tags : List PredictedTag
  nEvents : Nat := 0
  deriving Repr, Inhabited
structure CCAnnT where
  tags : List Tag
  nEvents : Nat := 0
  deriving Repr, Inhabited

def CCPredT.enc (cast : Rat → Rat) (vocab : List Tag) (p : CCPredT) : CCPred := ⟨encPredTags cast vocab p.tags⟩
def CCAnnT.enc (vocab : List Tag) (a : CCAnnT) : CCAnn := ⟨encTags vocab a.tags⟩

def encClips {α β} (f : α → β) (xs : List (Nat × α)) : List (Nat × β) := xs.map (fun x => (x.1, f x.2))

/-- does an evaluated clip carry sound events?  The clip-level tasks build a `ClipEvaluation` without matches and
    its validator ("not all sound events were matched") then rejects it: the task raises `ValueError`
    (known finding C09-K3) -/
def carriesEvents (preds : List (Nat × CCPredT)) (anns : List (Nat × CCAnnT)) : Bool :=
  (pairClips preds anns).any (fun x => decide (0 < x.2.1.nEvents + x.2.2.nEvents))

/-- `clip_classification(clip_predictions, clip_annotations, tags)` -/
def clipClassificationT (cast : Rat → Rat) (vocab : List Tag) (preds : List (Nat × CCPredT))
    (anns : List (Nat × CCAnnT)) : Except Err EvalOut :=
  if carriesEvents preds anns then .error .invalid else
  clipClassification vocab.length (encClips (CCPredT.enc cast vocab) preds) (encClips (CCAnnT.enc vocab) anns)

/-- `clip_multilabel_classification(...)`; the clip scores stay a parameter (see `clipMultilabel`) -/
def clipMultilabelT (cast : Rat → Rat) (vocab : List Tag) (preds : List (Nat × CCPredT))
    (anns : List (Nat × CCAnnT)) (clipScores : List Rat) : Except Err EvalOut :=
  if carriesEvents preds anns then .error .invalid else
  clipMultilabel vocab.length (encClips (CCPredT.enc cast vocab) preds) (encClips (CCAnnT.enc vocab) anns) clipScores

/-- the clip scores of the multilabel task in closed form: `exp(-log_loss)` of one indicator row is the product of
    the clipped probabilities of the true classes (`mlScore`), over the arrays of `evaluation/encoding.py` -/
def mlClipScores (cast : Rat → Rat) (vocab : List Tag) (preds : List (Nat × CCPredT)) (anns : List (Nat × CCAnnT)) :
    List Rat :=
  (pairClips preds anns).map (fun x =>
    mlScore ⟨(multilabelEncoding vocab x.2.1.tags).map (fun n => n != 0), predictionEncoding cast vocab x.2.2.tags⟩)

/-- `clip_multilabel_classification(...)` with the closed-form clip scores -/
def clipMultilabelClosedT (cast : Rat → Rat) (vocab : List Tag) (preds : List (Nat × CCPredT))
    (anns : List (Nat × CCAnnT)) : Except Err EvalOut :=
  clipMultilabelT cast vocab preds anns (mlClipScores cast vocab preds anns)

/-- `sound_event_classification(...)` -/
def soundEventClassificationT (cast : Rat → Rat) (vocab : List Tag) (preds : List (Nat × List TPred))
    (anns : List (Nat × List TAnn)) : Except Err EvalOut :=
  soundEventClassification vocab.length (encClips (List.map (TPred.enc cast vocab)) preds)
    (encClips (List.map (TAnn.enc vocab)) anns)

/-- the predicted side of one clip of `sound_event_detection`: sound events with real tags and the
    matcher's answer on the geometries of the clip -/
structure PredClipT where
  events : List TPred
  matcher : List MEntry
  deriving Repr, Inhabited

def PredClipT.enc (cast : Rat → Rat) (vocab : List Tag) (p : PredClipT) : PredClip :=
  { events := p.events.map (TPred.enc cast vocab), matcher := p.matcher }

/-- `sound_event_detection(...)` -/
def soundEventDetectionT (cast : Rat → Rat) (vocab : List Tag) (preds : List (Nat × PredClipT))
    (anns : List (Nat × List TAnn)) : Except Err EvalOut :=
  soundEventDetection vocab.length (encClips (PredClipT.enc cast vocab) preds)
    (encClips (List.map (TAnn.enc vocab)) anns)

/-! ### the arrays of one evaluated item, as `evaluation/encoding.py` produces them (C19's model) -/

/-- single-label item: `classification_encoding` of the true tags, `prediction_encoding` of the
    predicted ones -/
def itemOfTags (cast : Rat → Rat) (vocab : List Tag) (truth : List Tag) (ps : List PredictedTag) : Item :=
  ⟨classificationEncoding vocab truth, predictionEncoding cast vocab ps⟩

/-- multilabel item: `multilabel_encoding` (an int32 indicator vector) read as booleans -/
def mlItemOfTags (cast : Rat → Rat) (vocab : List Tag) (truth : List Tag) (ps : List PredictedTag) : MLItem :=
  ⟨(multilabelEncoding vocab truth).map (fun n => n != 0), predictionEncoding cast vocab ps⟩

end SE.Metrics
