/-
  Shared helpers of the model: nothing here is specific to one property.
  Model files import no Mathlib module, so that the driver can be compiled.
-/
namespace SE

/-- `MAX_FREQUENCY` of `soundevent.data.geometries` (re-extracted from the code on
    every run and compared by the table obligation of C03). -/
def MAXF : Rat := 5000000

/-- Errors of the modelled functions, as a small enum (messages are never compared). -/
inductive Err
  | invalid   -- ValueError / pydantic ValidationError
  | key       -- KeyError
  | notImpl   -- NotImplementedError
  | type      -- TypeError
  deriving DecidableEq, Repr, Inhabited

def Err.name : Err → String
  | .invalid => "invalid"
  | .key => "key"
  | .notImpl => "notimpl"
  | .type => "type"

def listMin : List Rat → Option Rat
  | [] => none
  | x :: xs => some (xs.foldl min x)

def listMax : List Rat → Option Rat
  | [] => none
  | x :: xs => some (xs.foldl max x)

def sumRat (xs : List Rat) : Rat := xs.foldl (· + ·) 0

end SE
