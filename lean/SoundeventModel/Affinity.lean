/-
  C06: `compute_affinity`, `compute_affinity_in_time`, `_prepare_geometry` of
  `soundevent/evaluation/affinity.py` (with the closed-form time-stamp / interval /
  box buffers of `soundevent/geometry/operations.py` that `_prepare_geometry` reaches).

  What GEOS computes (areas, intersection areas, bounds of polygonal shapes, the
  polygonal buffer of 0/1-dimensional geometries) is a *parameter* `G : Geos σ`;
  the contract the theorems need from it (`Proofs.C06.Sound`) is an explicit
  hypothesis and is evaluated at run time on the values shapely returned.

  The model follows the code after the repair `fixes/C06-1-clamp-affinity.patch`:
  the area ratio is clamped to 1 (`iouC`).
-/
import SoundeventModel.Geometry
namespace SE.Affinity

/-! ### the two formulas -/

/-- intersection over union with the zero-union guard (the pinned formula) -/
def iou (a b i : Rat) : Rat := if a + b - i = 0 then 0 else i / (a + b - i)

/-- … as the repaired `compute_affinity` returns it: `min(intersection / union, 1.0)` -/
def iouC (a b i : Rat) : Rat := if a + b - i = 0 then 0 else min (i / (a + b - i)) 1

/-- `compute_affinity_in_time` on the time extents `[s1, e1]`, `[s2, e2]` -/
def timeIoU (s1 e1 s2 e2 : Rat) : Rat :=
  let i := max 0 (min e1 e2 - max s1 s2)
  let u := (e1 - s1) + (e2 - s2) - i
  if u = 0 then 0 else i / u

/-! ### rectangles in closed form -/

def boxArea (s l e h : Rat) : Rat := (e - s) * (h - l)

def boxInter (s1 l1 e1 h1 s2 l2 e2 h2 : Rat) : Rat :=
  max 0 (min e1 e2 - max s1 s2) * max 0 (min h1 h2 - max l1 l2)

/-! ### the tables -/

/-- `BUFFER_GEOMETRY_TYPES` (sorted; re-extracted from the module on every run) -/
def bufferTypes : List String := ["LineString", "MultiLineString", "MultiPoint", "Point", "TimeStamp"]

/-- `TIME_GEOMETRY_TYPES` (sorted; re-extracted from the module on every run) -/
def timeTypes : List String := ["TimeInterval", "TimeStamp"]

/-! ### what GEOS contributes -/

/-- the shapely side of the computation: `σ` are shapely geometries -/
structure Geos (σ : Type) where
  /-- `geometry_to_shapely g` -/
  ofGeom : Geom → σ
  /-- `geometry_to_shapely (buffer_shapely_geometry (geometry_to_shapely g) tb fb)` -/
  buffered : Geom → Rat → Rat → σ
  /-- `shp.area` -/
  area : σ → Rat
  /-- `shp1.intersection(shp2).area` -/
  inter : σ → σ → Rat
  /-- `shp.bounds[0]`, `shp.bounds[2]` -/
  st : σ → Rat
  en : σ → Rat

/-- a geometry as `_prepare_geometry` hands it on -/
inductive Prep (σ : Type)
  | interval (tag : String) (s e : Rat)     -- time-only: TimeInterval, or an unbuffered TimeStamp (s = e)
  | box (s l e h : Rat)                      -- BoundingBox
  | shape (tag : String) (x : σ)             -- anything shapely handles, with its `type`

def Prep.tag {σ} : Prep σ → String
  | .interval tag _ _ => tag
  | .box .. => "BoundingBox"
  | .shape tag _ => tag

/-- `buffer_geometry g tb fb` on the types `_prepare_geometry` can send there -/
def bufferGeometry {σ} (G : Geos σ) (g : Geom) (tb fb : Rat) : Except Err (Prep σ) :=
  if tb < 0 ∨ fb < 0 then .error .invalid
  else match g with
    | .timeStamp t => .ok (.interval "TimeInterval" (max (t - tb) 0) (t + tb))
    | .timeInterval s e => .ok (.interval "TimeInterval" (max (s - tb) 0) (e + tb))
    | .boundingBox s l e h => .ok (.box (max (s - tb) 0) (max (l - fb) 0) (e + tb) (min (h + fb) MAXF))
    | g => .ok (.shape "Polygon" (G.buffered g tb fb))    -- Polygon or MultiPolygon: neither is a time type

/-- the geometry itself, unbuffered -/
def asPrep {σ} (G : Geos σ) (g : Geom) : Prep σ :=
  match g with
  | .timeStamp t => .interval "TimeStamp" t t
  | .timeInterval s e => .interval "TimeInterval" s e
  | .boundingBox s l e h => .box s l e h
  | g => .shape g.tag (G.ofGeom g)

/-- `_prepare_geometry` -/
def prepare {σ} (G : Geos σ) (g : Geom) (tb fb : Rat) : Except Err (Prep σ) :=
  if bufferTypes.contains g.tag then bufferGeometry G g tb fb else .ok (asPrep G g)

/-- `geometry_to_shapely` of a prepared geometry (area branch) -/
def toShape {σ} (G : Geos σ) : Prep σ → σ
  | .interval _ s e => G.ofGeom (.timeInterval s e)
  | .box s l e h => G.ofGeom (.boundingBox s l e h)
  | .shape _ x => x

/-- start and end time of `compute_bounds` of a prepared geometry -/
def timeBounds {σ} (G : Geos σ) : Prep σ → Rat × Rat
  | .interval _ s e => (s, e)
  | .box s _ e _ => (s, e)
  | .shape _ x => (G.st x, G.en x)

def isTime {σ} (p : Prep σ) : Bool := timeTypes.contains p.tag

/-- `compute_affinity` after both geometries were prepared -/
def affinityP {σ} (G : Geos σ) (p1 p2 : Prep σ) : Rat :=
  if isTime p1 || isTime p2 then
    timeIoU (timeBounds G p1).1 (timeBounds G p1).2 (timeBounds G p2).1 (timeBounds G p2).2
  else
    iouC (G.area (toShape G p1)) (G.area (toShape G p2)) (G.inter (toShape G p1) (toShape G p2))

/-- `compute_affinity g1 g2 time_buffer freq_buffer`; `.error .invalid` = `ValueError`
    (a negative buffer reaching `buffer_geometry`) -/
def affinity {σ} (G : Geos σ) (g1 g2 : Geom) (tb fb : Rat) : Except Err Rat :=
  match prepare G g1 tb fb with
  | .error e => .error e
  | .ok p1 =>
    match prepare G g2 tb fb with
    | .error e => .error e
    | .ok p2 => .ok (affinityP G p1 p2)

/-- the bounds with which `compute_affinity` calls `compute_affinity_in_time`
    (`none`: it raises, or takes the area branch) -/
def timeBranchArgs {σ} (G : Geos σ) (g1 g2 : Geom) (tb fb : Rat) : Option (Rat × Rat × Rat × Rat) :=
  match prepare G g1 tb fb, prepare G g2 tb fb with
  | .ok p1, .ok p2 =>
    if isTime p1 || isTime p2 then
      some ((timeBounds G p1).1, (timeBounds G p1).2, (timeBounds G p2).1, (timeBounds G p2).2)
    else none
  | _, _ => none

/-! ### time shift -/

def shiftPts (d : Rat) (ps : List Pt) : List Pt := ps.map (fun p => (p.1 + d, p.2))

def _root_.SE.Geom.shift (d : Rat) : Geom → Geom
  | .timeStamp t => .timeStamp (t + d)
  | .timeInterval s e => .timeInterval (s + d) (e + d)
  | .point t f => .point (t + d) f
  | .lineString pts => .lineString (shiftPts d pts)
  | .polygon rings => .polygon (rings.map (shiftPts d))
  | .boundingBox s l e h => .boundingBox (s + d) l (e + d) h
  | .multiPoint pts => .multiPoint (shiftPts d pts)
  | .multiLineString ls => .multiLineString (ls.map (shiftPts d))
  | .multiPolygon ps => .multiPolygon (ps.map (fun rings => rings.map (shiftPts d)))

/-- a `Geos` that knows nothing (time-only pairs never consult it) -/
def unitGeos : Geos Unit :=
  { ofGeom := fun _ => (), buffered := fun _ _ _ => (), area := fun _ => 0, inter := fun _ _ => 0,
    st := fun _ => 0, en := fun _ => 0 }

/-! ### the rectangle instance (closed forms): GEOS restricted to boxes -/

/-- rectangles `(s, l, e, h)` with their exact area and intersection area -/
def boxGeos : Geos (Rat × Rat × Rat × Rat) where
  ofGeom g := match g.bounds with
    | some b => (b.st, b.lo, b.en, b.hi)
    | none => (0, 0, 0, 0)
  buffered g tb fb := match g.bounds with
    | some b => (max (b.st - tb) 0, max (b.lo - fb) 0, b.en + tb, min (b.hi + fb) MAXF)
    | none => (0, 0, 0, 0)
  area x := max 0 (x.2.2.1 - x.1) * max 0 (x.2.2.2 - x.2.1)
  inter x y := boxInter x.1 x.2.1 x.2.2.1 x.2.2.2 y.1 y.2.1 y.2.2.1 y.2.2.2
  st x := min x.1 x.2.2.1
  en x := max x.1 x.2.2.1

/-! ### observed GEOS values (the driver's instance) -/

/-- what the harness measured with shapely for one side of a pair -/
structure Obs where
  area : Rat
  st : Rat
  en : Rat
  deriving Repr, Inhabited, DecidableEq

/-- shapely geometries of one case: a rectangle in closed form, or the measured shape of
    side 0 / side 1 -/
inductive Shp
  | rect (s l e h : Rat)
  | side (k : Nat)
  deriving Repr, Inhabited, DecidableEq

structure Observed where
  obs : Nat → Obs                 -- measured shape of side k (0, 1)
  inter : Nat → Nat → Rat         -- measured intersection areas of the sides

/-- The driver's `Geos`: the geometry of side `k` maps to its measured shape.  Bounding
    boxes are rectangles in closed form unless the harness measured them as well
    (`boxesMeasured`: a box that meets a polygonal shape, or free-mode coordinates);
    the two kinds never meet in one case. -/
def observedGeos (O : Observed) (sideOf : Geom → Nat) (boxesMeasured : Bool) : Geos Shp where
  ofGeom g := match g with
    | .boundingBox s l e h => if boxesMeasured then .side (sideOf g) else .rect s l e h
    | g => .side (sideOf g)
  buffered g _ _ := .side (sideOf g)
  area x := match x with
    | .rect s l e h => boxArea s l e h
    | .side k => (O.obs k).area
  inter x y := match x, y with
    | .rect s1 l1 e1 h1, .rect s2 l2 e2 h2 => boxInter s1 l1 e1 h1 s2 l2 e2 h2
    | .side i, .side j => O.inter i j
    | _, _ => 0
  st x := match x with
    | .rect s _ _ _ => s
    | .side k => (O.obs k).st
  en x := match x with
    | .rect _ _ e _ => e
    | .side k => (O.obs k).en

/-- the contract of `Proofs.C06` evaluated on the measured values of the two sides:
    `sane` exactly, the geometric identities up to the relative tolerance `tol`
    (GEOS computes them in binary64) -/
structure ContractVerdict where
  sane : Bool         -- 0 ≤ A, 0 ≤ I, I ≤ A_i + A_j, st ≤ en
  interLeMin : Bool   -- I_ij ≤ min(A_i, A_j) · (1 + tol)
  symm : Bool         -- |I_01 − I_10| ≤ tol · max(A_0, A_1)
  self : Bool         -- |I_ii − A_i| ≤ tol · A_i
  disjoint : Bool     -- en_i ≤ st_j → I_ij = 0
  deriving Repr, Inhabited, DecidableEq

def absR (x : Rat) : Rat := if x < 0 then -x else x

def checkContract (tol : Rat) (O : Observed) : ContractVerdict :=
  let ks := [0, 1]
  let A := fun k => (O.obs k).area
  { sane := ks.all (fun i => decide (0 ≤ A i) && decide ((O.obs i).st ≤ (O.obs i).en) &&
        ks.all (fun j => decide (0 ≤ O.inter i j) && decide (O.inter i j ≤ A i + A j)))
    interLeMin := ks.all (fun i => ks.all (fun j => decide (O.inter i j ≤ min (A i) (A j) * (1 + tol))))
    symm := decide (absR (O.inter 0 1 - O.inter 1 0) ≤ tol * max (A 0) (A 1))
    self := ks.all (fun i => decide (absR (O.inter i i - A i) ≤ tol * A i))
    disjoint := ks.all (fun i => ks.all (fun j =>
        !(decide ((O.obs i).en ≤ (O.obs j).st)) || decide (O.inter i j = 0))) }

/-! ### the property evaluated on observed outputs of `compute_affinity` -/

/-- what the harness observed on the real code for one ordered pair of geometries -/
structure Observation where
  a12 : Rat            -- compute_affinity(g1, g2)
  a21 : Rat            -- compute_affinity(g2, g1)
  same : Bool          -- g1 and g2 are the same geometry
  extentPos : Bool     -- the prepared geometry has non-zero extent (used when `same`)
  disjoint : Bool      -- the prepared geometries do not overlap in time
  deriving Repr, Inhabited, DecidableEq

structure ObsVerdict where
  range : Bool         -- 0 ≤ a ≤ 1, for both argument orders
  symm : Bool          -- a12 = a21
  self : Bool          -- same ∧ extentPos → a12 = 1
  disjoint : Bool      -- disjoint → a12 = 0
  deriving Repr, Inhabited, DecidableEq

def judgeObs (o : Observation) : ObsVerdict :=
  { range := decide (0 ≤ o.a12) && decide (o.a12 ≤ 1) && decide (0 ≤ o.a21) && decide (o.a21 ≤ 1)
    symm := decide (o.a12 = o.a21)
    self := !(o.same && o.extentPos) || decide (o.a12 = 1)
    disjoint := !o.disjoint || decide (o.a12 = 0) }

def ObsVerdict.all (v : ObsVerdict) : Bool := v.range && v.symm && v.self && v.disjoint

/-! ### the route `compute_affinity` takes, as data

  (re-derived from the source by symbolic tracing for all 81 type pairs, every `Geos`, all
  coordinates and buffers: `harness/props/c06.py`, obligations `ext_route_*`) -/

/-- where `compute_affinity` ends: in `compute_affinity_in_time` with these time extents, or in the
    area branch with this value -/
inductive Route
  | time (s1 e1 s2 e2 : Rat)
  | area (v : Rat)
  deriving DecidableEq, Repr, Inhabited

def Route.value : Route → Rat
  | .time s1 e1 s2 e2 => timeIoU s1 e1 s2 e2
  | .area v => v

/-- `none`: `compute_affinity` raises (`ValueError` of `buffer_geometry`) -/
def route {σ} (G : Geos σ) (g1 g2 : Geom) (tb fb : Rat) : Option Route :=
  match prepare G g1 tb fb, prepare G g2 tb fb with
  | .ok p1, .ok p2 =>
    if isTime p1 || isTime p2 then
      some (.time (timeBounds G p1).1 (timeBounds G p1).2 (timeBounds G p2).1 (timeBounds G p2).2)
    else
      some (.area (iouC (G.area (toShape G p1)) (G.area (toShape G p2)) (G.inter (toShape G p1) (toShape G p2))))
  | _, _ => none

/-! ### the same computation in a rounding arithmetic

  Every arithmetic operation of the Python code returns `rnd` of the exact result (binary64
  round-to-nearest is one such `rnd`; `rnd = id` gives the definitions above).  `min`, `max`,
  comparisons and the literal `0` are exact.  The laws a rounding obeys are
  `Proofs.Lemmas.Affinity.IsRounding`. -/

/-- `compute_affinity_in_time` operation by operation -/
def timeIoUR (rnd : Rat → Rat) (s1 e1 s2 e2 : Rat) : Rat :=
  let i := max 0 (rnd (min e1 e2 - max s1 s2))
  let u := rnd (rnd (rnd (e1 - s1) + rnd (e2 - s2)) - i)
  if u = 0 then 0 else rnd (i / u)

/-- the area branch of `compute_affinity` operation by operation (after the repair) -/
def iouCR (rnd : Rat → Rat) (a b i : Rat) : Rat :=
  let u := rnd (rnd (a + b) - i)
  if u = 0 then 0 else min (rnd (i / u)) 1

/-- `buffer_geometry` with rounded arithmetic in `buffer_timestamp` / `buffer_interval` /
    `buffer_bounding_box_geometry` -/
def bufferGeometryR {σ} (rnd : Rat → Rat) (G : Geos σ) (g : Geom) (tb fb : Rat) : Except Err (Prep σ) :=
  if tb < 0 ∨ fb < 0 then .error .invalid
  else match g with
    | .timeStamp t => .ok (.interval "TimeInterval" (max (rnd (t - tb)) 0) (rnd (t + tb)))
    | .timeInterval s e => .ok (.interval "TimeInterval" (max (rnd (s - tb)) 0) (rnd (e + tb)))
    | .boundingBox s l e h =>
      .ok (.box (max (rnd (s - tb)) 0) (max (rnd (l - fb)) 0) (rnd (e + tb)) (min (rnd (h + fb)) MAXF))
    | g => .ok (.shape "Polygon" (G.buffered g tb fb))

def prepareR {σ} (rnd : Rat → Rat) (G : Geos σ) (g : Geom) (tb fb : Rat) : Except Err (Prep σ) :=
  if bufferTypes.contains g.tag then bufferGeometryR rnd G g tb fb else .ok (asPrep G g)

def affinityPR {σ} (rnd : Rat → Rat) (G : Geos σ) (p1 p2 : Prep σ) : Rat :=
  if isTime p1 || isTime p2 then
    timeIoUR rnd (timeBounds G p1).1 (timeBounds G p1).2 (timeBounds G p2).1 (timeBounds G p2).2
  else
    iouCR rnd (G.area (toShape G p1)) (G.area (toShape G p2)) (G.inter (toShape G p1) (toShape G p2))

/-- `compute_affinity` in the rounding arithmetic `rnd` -/
def affinityR {σ} (rnd : Rat → Rat) (G : Geos σ) (g1 g2 : Geom) (tb fb : Rat) : Except Err Rat :=
  match prepareR rnd G g1 tb fb with
  | .error e => .error e
  | .ok p1 =>
    match prepareR rnd G g2 tb fb with
    | .error e => .error e
    | .ok p2 => .ok (affinityPR rnd G p1 p2)

/-- the route in the rounding arithmetic (`Route.time` carries the rounded extents, `Route.area`
    the rounded clamped ratio) -/
def routeR {σ} (rnd : Rat → Rat) (G : Geos σ) (g1 g2 : Geom) (tb fb : Rat) : Option Route :=
  match prepareR rnd G g1 tb fb, prepareR rnd G g2 tb fb with
  | .ok p1, .ok p2 =>
    if isTime p1 || isTime p2 then
      some (.time (timeBounds G p1).1 (timeBounds G p1).2 (timeBounds G p2).1 (timeBounds G p2).2)
    else
      some (.area (iouCR rnd (G.area (toShape G p1)) (G.area (toShape G p2))
        (G.inter (toShape G p1) (toShape G p2))))
  | _, _ => none

def Route.valueR (rnd : Rat → Rat) : Route → Rat
  | .time s1 e1 s2 e2 => timeIoUR rnd s1 e1 s2 e2
  | .area v => v

/-- rounding to integers (downwards): a concrete, non-trivial rounding for examples -/
def floorRnd (x : Rat) : Rat := (x.floor : Rat)

/-! ### binary64 round-to-nearest-even, executable (normal range; no overflow / subnormals) -/

/-- `⌊log₂ (n / d)⌋` for positive `n`, `d` -/
def log2Rat (n d : Nat) : Int :=
  let e0 : Int := (n.log2 : Int) - (d.log2 : Int)
  -- 2^e0 ≤ n/d may fail by one: n/d < 2^e0 ⇔ n < d * 2^e0
  let below : Bool := if e0 ≥ 0 then n < d * 2 ^ e0.toNat else n * 2 ^ (-e0).toNat < d
  if below then e0 - 1 else e0

def pow2 (e : Int) : Rat := if e ≥ 0 then ((2 ^ e.toNat : Nat) : Rat) else 1 / ((2 ^ (-e).toNat : Nat) : Rat)

/-- the binary64 number nearest to `x` (ties to even), as a rational -/
def rnd64 (x : Rat) : Rat :=
  if x = 0 then 0 else
  let a := if x < 0 then -x else x
  let e := log2Rat a.num.toNat a.den
  let q := a * pow2 (52 - e)          -- in [2^52, 2^53)
  let f := q.floor
  let r := q - (f : Rat)
  let m : Int := if r < 1/2 then f else if r > 1/2 then f + 1 else if f % 2 = 0 then f else f + 1
  let y := (m : Rat) * pow2 (e - 52)
  if x < 0 then -y else y

/-- a box that `boxesMeasured = false` keeps in closed form has its area computed by GEOS as well;
    in the bit-exact comparison every shape is a measured side -/
def affinity64 {σ} (G : Geos σ) (g1 g2 : Geom) (tb fb : Rat) : Except Err Rat := affinityR rnd64 G g1 g2 tb fb

/-- the coordinates `buffer_geometry` returns for a TimeStamp / TimeInterval / BoundingBox in the rounding
    arithmetic (`none`: it raises, or the geometry is handed to GEOS) -/
def bufferedCoordsR (rnd : Rat → Rat) (g : Geom) (tb fb : Rat) : Option (List Rat) :=
  match bufferGeometryR rnd unitGeos g tb fb with
  | .ok (.interval _ s e) => some [s, e]
  | .ok (.box s l e h) => some [s, l, e, h]
  | _ => none

/-! ### follow-up 2: the buffered time extent, stated independently of the buffering code

  The property speaks of "the intersection-over-union of the (buffered) time extents".  For a point /
  line type the buffered extent used above is `G.st / G.en` of `G.buffered g tb fb`, i.e. whatever the
  library's own `buffer_geometry` returned.  Here the extent is pinned from the *coordinates*: a
  geometry whose raw time bounds are `[s, e]` buffered by `tb` has the ideal extent
  `[max (s - tb) 0, e + tb]`; a polygonal buffer (round caps are 32-gons, mitre joins can reach
  beyond one buffer) is admitted between a `ρ`-buffer and a `κ`-buffer (`ρ ≤ 1 ≤ κ`). -/

/-- floating-point slack of the run-time monitor: `tol · max(1, |x|)` (`tol = 0` in the exact statements) -/
def slack (tol x : Rat) : Rat := tol * max 1 (absR x)

/-- the ideal buffered time extent of raw time bounds `[s, e]` -/
def idealExtent (s e tb : Rat) : Rat × Rat := (max (s - tb) 0, e + tb)

/-- the four ends between which an admissible buffered extent lies: start not before `stLo`, not after
    `stHi`; end not before `enLo`, not after `enHi` -/
structure ExtentBox where
  stLo : Rat
  stHi : Rat
  enLo : Rat
  enHi : Rat
  deriving Repr, Inhabited, DecidableEq

def extentBox (ρ κ tol s e tb : Rat) : ExtentBox :=
  { stLo := max (s - κ * tb) 0 - slack tol (max (s - κ * tb) 0)
    stHi := max (s - ρ * tb) 0 + slack tol (max (s - ρ * tb) 0)
    enLo := e + ρ * tb - slack tol (e + ρ * tb)
    enHi := e + κ * tb + slack tol (e + κ * tb) }

/-- `[st, en]` is an admissible time extent of the buffer (by `tb`) of a geometry with raw time bounds
    `[s, e]`: each end moved outwards by at least `ρ` buffers (or reached time 0) and by at most `κ`
    buffers.  `ρ = κ = 1`, `tol = 0`: exactly the ideal extent. -/
def extentWithin (ρ κ tol s e tb st en : Rat) : Bool :=
  let B := extentBox ρ κ tol s e tb
  decide (B.stLo ≤ st) && decide (st ≤ B.stHi) && decide (B.enLo ≤ en) && decide (en ≤ B.enHi)

/-- overlap length and union length of two time extents (the numerator and denominator of `timeIoU`) -/
def timeInter (s1 e1 s2 e2 : Rat) : Rat := max 0 (min e1 e2 - max s1 s2)

def timeUnion (s1 e1 s2 e2 : Rat) : Rat := (e1 - s1) + (e2 - s2) - timeInter s1 e1 s2 e2

/-- the interval in which `timeIoU st en s2 e2` lies when `stLo ≤ st ≤ stHi` and `enLo ≤ en ≤ enHi`
    (overlap is largest and union smallest … on the outer resp. inner extent; both are monotone in
    either end): smallest overlap over largest union, largest overlap over smallest union -/
def timeIoUBand (B : ExtentBox) (s2 e2 : Rat) : Rat × Rat :=
  let iIn := timeInter B.stHi B.enLo s2 e2
  let uIn := timeUnion B.stHi B.enLo s2 e2
  let iOut := timeInter B.stLo B.enHi s2 e2
  let uOut := timeUnion B.stLo B.enHi s2 e2
  (if uOut = 0 then 0 else iIn / uOut,
   if uIn ≤ 0 then (if iOut = 0 then 0 else 1) else min 1 (iOut / uIn))

/-- the band of the time-only affinity of a buffered geometry (raw bounds `[s, e]`, buffer `tb`) against
    the time extent `[s2, e2]` -/
def extentBand (ρ κ tol s e tb s2 e2 : Rat) : Rat × Rat := timeIoUBand (extentBox ρ κ tol s e tb) s2 e2

/-- the point and line types whose buffer GEOS computes -/
def geosBuffered : Geom → Bool
  | .point .. => true
  | .lineString _ => true
  | .multiPoint _ => true
  | .multiLineString _ => true
  | _ => false

/-- what the run-time monitor evaluates for a time-branch pair with one GEOS-buffered side `g` and a
    time-only side `h`: the band of admissible affinities read off the *coordinates* of `g`
    (`none`: not such a pair, or an empty geometry) -/
def bufferedTimeBand (ρ κ tol : Rat) (g h : Geom) (tb fb : Rat) : Option (Rat × Rat) :=
  if geosBuffered g && timeTypes.contains h.tag then
    match g.bounds, prepare unitGeos h tb fb with
    | some b, .ok p => some (extentBand ρ κ tol b.st b.en tb (timeBounds unitGeos p).1 (timeBounds unitGeos p).2)
    | _, _ => none
  else none

/-- `v` lies in the band, up to the absolute tolerance `atol` of the binary64 evaluation -/
def inBand (band : Rat × Rat) (atol v : Rat) : Bool := decide (band.1 - atol ≤ v) && decide (v ≤ band.2 + atol)

/-! #### the buffered shape against the pipeline contract, in both branches

  bounds (time and frequency) and area of `buffer_geometry g tb fb` for a GEOS-buffered `g`, judged
  from the coordinates of `g`: the hypotheses `CoversDisc ρ` / `ReachAtMost κ` of the pipeline theorems
  at the level of bounds, and for the area the two discs of radii `ρ` and `κ` (an ellipse with
  semi-axes `ρ·tb`, `ρ·fb` around one vertex is contained, `n` ellipses / the outer rectangle contain) -/

/-- the frequency axis: as `extentWithin`, with the clamp at `MAXF` on the upper side -/
def freqWithin (ρ κ tol l h fb lo hi : Rat) : Bool :=
  decide (max (l - κ * fb) 0 - slack tol (max (l - κ * fb) 0) ≤ lo) &&
  decide (lo ≤ max (l - ρ * fb) 0 + slack tol (max (l - ρ * fb) 0)) &&
  decide (min (h + ρ * fb) MAXF - slack tol (min (h + ρ * fb) MAXF) ≤ hi) &&
  decide (hi ≤ min (h + κ * fb) MAXF + slack tol (min (h + κ * fb) MAXF))

/-- rational enclosure of π used for the area contract -/
def piLo : Rat := 31415 / 10000
def piHi : Rat := 31416 / 10000

/-- some vertex whose `ρ`-ellipse lies inside the domain (so that clipping removes nothing of it) -/
def hasUnclippedVertex (ρ tb fb : Rat) (pts : List Pt) : Bool :=
  pts.any (fun p => decide (0 ≤ p.1 - ρ * tb) && decide (0 ≤ p.2 - ρ * fb) && decide (p.2 + ρ * fb ≤ MAXF))

/-- area of the buffered shape: at least the `ρ`-ellipse around an unclipped vertex, at most the outer
    rectangle, and for a single point at most the `κ`-ellipse -/
def areaWithin (ρ κt κf tol : Rat) (g : Geom) (b : Bounds) (tb fb area : Rat) : Bool :=
  let lower := if hasUnclippedVertex ρ tb fb g.boundPts then piLo * (ρ * tb) * (ρ * fb) else 0
  let rect := (b.en + κt * tb - max (b.st - κt * tb) 0) * (min (b.hi + κf * fb) MAXF - max (b.lo - κf * fb) 0)
  let upper := match g with
    | .point .. => min rect (piHi * (κt * tb) * (κf * fb))
    | _ => rect
  decide (lower - slack tol lower ≤ area) && decide (area ≤ upper + slack tol upper)

/-! #### area of an unbuffered polygonal geometry from its coordinates (contract `AreaExact`)

  `geometry_to_shapely` is code under test as well (`geometry/conversion.py`), and the harness measures the
  shapes of the area branch through it: the shoelace area of the coordinates is the independent value
  (a valid polygon: holes inside the shell, parts of a multi-polygon with disjoint interiors). -/

/-- twice the signed area of a ring (closed implicitly; an explicitly closed ring adds a zero term) -/
def shoelace2 (ring : List Pt) : Rat :=
  match ring with
  | [] => 0
  | p :: _ => ((ring.zip (ring.tail ++ [p])).map (fun (a, b) => a.1 * b.2 - b.1 * a.2)).foldl (· + ·) 0

def ringArea (ring : List Pt) : Rat := absR (shoelace2 ring) / 2

/-- shell minus holes -/
def polyArea (rings : List (List Pt)) : Rat :=
  match rings with
  | [] => 0
  | shell :: holes => ringArea shell - (holes.map ringArea).foldl (· + ·) 0

/-- the area of a Polygon / MultiPolygon / BoundingBox read off the coordinates (`none`: another type) -/
def closedArea : Geom → Option Rat
  | .polygon rings => some (polyArea rings)
  | .multiPolygon ps => some ((ps.map polyArea).foldl (· + ·) 0)
  | .boundingBox s l e h => some (boxArea s l e h)
  | _ => none

end SE.Affinity
