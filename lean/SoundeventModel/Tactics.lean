/- closing tactic of the regenerated obligations (ties 1 and 1b) -/
macro "se_close" : tactic =>
  `(tactic| first
    | rfl
    | (simp only [Option.map]; done)
    | grind
    | (simp only [Option.map]; grind)
    | (simp; done)
    | (simp; grind)
    | decide)
