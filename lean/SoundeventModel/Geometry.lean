/-
  Geometry values of `soundevent.data.geometries` (after validation) and their
  bounds as `soundevent.geometry.compute_bounds` (through the shapely conversion of
  `soundevent/geometry/conversion.py`) computes them.
-/
import SoundeventModel.Basic
namespace SE

abbrev Pt := Rat × Rat                -- (time, frequency)

inductive Geom
  | timeStamp (t : Rat)
  | timeInterval (s e : Rat)
  | point (t f : Rat)
  | lineString (pts : List Pt)
  | polygon (rings : List (List Pt))
  | boundingBox (s l e h : Rat)
  | multiPoint (pts : List Pt)
  | multiLineString (lines : List (List Pt))
  | multiPolygon (polys : List (List (List Pt)))
  deriving DecidableEq, Repr, Inhabited

def Geom.tag : Geom → String
  | .timeStamp _ => "TimeStamp"
  | .timeInterval .. => "TimeInterval"
  | .point .. => "Point"
  | .lineString _ => "LineString"
  | .polygon _ => "Polygon"
  | .boundingBox .. => "BoundingBox"
  | .multiPoint _ => "MultiPoint"
  | .multiLineString _ => "MultiLineString"
  | .multiPolygon _ => "MultiPolygon"

structure Bounds where
  st : Rat   -- start time
  lo : Rat   -- low frequency
  en : Rat   -- end time
  hi : Rat   -- high frequency
  deriving DecidableEq, Repr, Inhabited

/-- bounds of a non-empty point list -/
def ptsBounds : List Pt → Option Bounds
  | [] => none
  | p :: ps => some (ps.foldl (fun b q =>
      { st := min b.st q.1, lo := min b.lo q.2, en := max b.en q.1, hi := max b.hi q.2 })
      { st := p.1, lo := p.2, en := p.1, hi := p.2 })

/-- The points shapely's `bounds` ranges over.  For polygons GEOS takes the
    envelope of the shell (exterior ring) only. -/
def Geom.boundPts : Geom → List Pt
  | .timeStamp t => [(t, 0), (t, MAXF)]
  | .timeInterval s e => [(s, 0), (e, MAXF)]
  | .point t f => [(t, f)]
  | .lineString pts => pts
  | .polygon rings => rings.headD []
  | .boundingBox s l e h => [(s, l), (e, h)]
  | .multiPoint pts => pts
  | .multiLineString ls => ls.flatten
  | .multiPolygon ps => (ps.map (fun rings => rings.headD [])).flatten

/-- `compute_bounds`; `none` only for a geometry without points (never valid). -/
def Geom.bounds (g : Geom) : Option Bounds := ptsBounds g.boundPts

end SE
