/-
  C06, follow-up 3: *calls* of `compute_affinity`.

  * the signature of the function as a table (`Sig`: parameter names in declaration order with their
    defaults), Python's binding of positional and keyword arguments to it (`bindArgs`) and the call the
    bound arguments make (`bindCall`).  The table is a *parameter*: the check re-extracts it from the imported
    function by introspection on every run (Tie 1) and only requires it to be `WellFormedSig` — the four
    documented parameters in the documented order, the two buffers optional with non-negative defaults;
  * one call as a value (`Call`, `callModel`), so that sequences of calls in one process (histories) can be
    stated with `SE.History`;
  * two stateful implementations that the history theorems speak about: a cache keyed by a function of the
    call (`keyedCacheStep`) and a shape memoised on a geometry object that survives a change of the
    object's coordinates (`memoStep`, the seeded change C06-7).
-/
import SoundeventModel.Affinity
import SoundeventModel.History
namespace SE.Affinity

/-! ### the call as a value -/

/-- the content of the four arguments of one call -/
abbrev Call := Geom × Geom × Rat × Rat

/-- `compute_affinity` on the content of a call -/
def callModel {σ} (G : Geos σ) (c : Call) : Except Err Rat := affinity G c.1 c.2.1 c.2.2.1 c.2.2.2

/-! ### signature table and argument binding -/

/-- an argument as it is passed: a geometry or a number -/
inductive Arg
  | geom (g : Geom)
  | num (x : Rat)
  deriving DecidableEq, Repr, Inhabited

/-- a signature: parameter names in declaration order, each with its default (if any); all parameters are
    positional-or-keyword -/
abbrev Sig := List (String × Option Arg)

/-- the value bound to the `i`-th parameter `p`: the `i`-th positional argument, else the keyword argument of
    that name, else the default; `TypeError` if there is none -/
def bindOne (pos : List Arg) (kw : List (String × Arg)) (i : Nat) (p : String × Option Arg) : Except Err Arg :=
  match pos[i]? with
  | some a => .ok a
  | none =>
    match kw.lookup p.1 with
    | some a => .ok a
    | none =>
      match p.2 with
      | some d => .ok d
      | none => .error .type

/-- the parameters from index `i` on, each with the value bound to it -/
def bindFrom (pos : List Arg) (kw : List (String × Arg)) : Nat → Sig → Except Err (List (String × Arg))
  | _, [] => .ok []
  | i, p :: ps =>
    match bindOne pos kw i p with
    | .error e => .error e
    | .ok a =>
      match bindFrom pos kw (i + 1) ps with
      | .error e => .error e
      | .ok as => .ok ((p.1, a) :: as)

/-- Python's binding of a call `f(*pos, **kw)` to the signature (parameter name -> value, in declaration
    order): `TypeError` for too many positional arguments, an unexpected keyword, or a parameter given both
    positionally and by keyword -/
def bindArgs (sig : Sig) (pos : List Arg) (kw : List (String × Arg)) : Except Err (List (String × Arg)) :=
  if sig.length < pos.length then .error .type
  else if kw.any (fun a => !(sig.map (·.1)).contains a.1) then .error .type
  else if (sig.take pos.length).any (fun p => (kw.lookup p.1).isSome) then .error .type
  else bindFrom pos kw 0 sig

/-- the call the body of the function makes of its bound parameters: it refers to them *by name* (further
    parameters, if a signature has any, are not the property's business) -/
def toCall (b : List (String × Arg)) : Except Err Call :=
  match b.lookup "geometry1", b.lookup "geometry2", b.lookup "time_buffer", b.lookup "freq_buffer" with
  | some (.geom g1), some (.geom g2), some (.num tb), some (.num fb) => .ok (g1, g2, tb, fb)
  | _, _, _, _ => .error .type

def bindCall (sig : Sig) (pos : List Arg) (kw : List (String × Arg)) : Except Err Call :=
  match bindArgs sig pos kw with
  | .error e => .error e
  | .ok as => toCall as

/-- is this default a non-negative number -/
def Arg.nonnegNum : Option Arg → Bool
  | some (.num x) => decide (0 ≤ x)
  | _ => false

/-- what the documented interface `compute_affinity(geometry1, geometry2, time_buffer=…, freq_buffer=…)`
    demands of a signature: these four parameters first, in this order, the geometries without default, the
    buffers with non-negative numeric defaults (the *values* of the defaults are not pinned); any further
    parameter must be optional -/
def WellFormedSig (sig : Sig) : Bool :=
  match sig with
  | (n1, none) :: (n2, none) :: (n3, d3) :: (n4, d4) :: rest =>
    n1 == "geometry1" && n2 == "geometry2" && n3 == "time_buffer" && n4 == "freq_buffer" &&
      Arg.nonnegNum d3 && Arg.nonnegNum d4 && rest.all (fun p => p.2.isSome) &&
      rest.all (fun p => !(["geometry1", "geometry2", "time_buffer", "freq_buffer"].contains p.1))
  | _ => false

/-- the declared default of a buffer -/
def sigDefault (sig : Sig) (name : String) : Option Rat :=
  match sig.lookup name with
  | some (some (.num x)) => some x
  | _ => none

/-- the signature of the pinned tree (0.01 as the binary64 number it is) -/
def pinnedSig : Sig :=
  [("geometry1", none), ("geometry2", none),
   ("time_buffer", some (.num (5764607523034235 / 576460752303423488))), ("freq_buffer", some (.num 100))]

/-! ### stateful implementations for the history theorems -/

/-- a cache keyed by `key x`: a hit answers from the cache, a miss computes `f x` and stores it -/
def keyedCacheStep {α β κ : Type} [DecidableEq κ] (key : α → κ) (f : α → β) (cache : List (κ × β)) (x : α) :
    List (κ × β) × β :=
  match cache.lookup (key x) with
  | some v => (cache, v)
  | none => ((key x, f x) :: cache, f x)

/-- a geometry *object*: its coordinates and the shape memoised at its first conversion (`cached_property`) -/
structure Cell where
  content : Geom
  memo : Option Geom
  deriving DecidableEq, Repr, Inhabited

/-- what a conversion of the object sees, and the object afterwards -/
def Cell.convert (c : Cell) : Geom × Cell :=
  match c.memo with
  | some m => (m, c)
  | none => (c.content, { c with memo := some c.content })

/-- `obj.model_copy(update={"coordinates": g})` / `obj.coordinates = g` with a memo that lives in the instance
    `__dict__`: the memo is carried over (`keep = true`, the seeded change) or dropped (`keep = false`) -/
def Cell.update (keep : Bool) (c : Cell) (g : Geom) : Cell :=
  { content := g, memo := if keep then c.memo else none }

/-- a step of a process with two geometry objects: the call's geometries are written into the objects
    (`update`), both are converted, the affinity is computed on what the conversions returned -/
def memoStep {σ} (keep : Bool) (G : Geos σ) (s : Cell × Cell) (c : Call) : (Cell × Cell) × Except Err Rat :=
  let o1 := (s.1.update keep c.1).convert
  let o2 := (s.2.update keep c.2.1).convert
  ((o1.2, o2.2), affinity G o1.1 o2.1 c.2.2.1 c.2.2.2)

end SE.Affinity
