/-
  C08: `soundevent/evaluation/tasks/sound_event_detection.py` (after the repairs
  fixes/C08-1 … C08-4) with the clip pairing of `tasks/common.py`.

  The geometric matcher (`match_geometries`, property C07) is not modelled: its answer on
  the *filtered* geometry lists (only sound events that have a geometry are handed to it) is a
  parameter.  The contract the theorems need from it is `MatcherCover` below; the harness
  evaluates it on what the real matcher returned.

  What the code does with that answer, per clip:
    * the matcher's indices are positions in the filtered lists; they are mapped back to the
      positions in the clip's own lists (`geomIdx`);
    * an entry with both sides is a match: affinity as reported, score = probability the
      prediction gives to the annotation's class (`tcp`), one metric (true-class probability);
      that such an entry has affinity > 0 is the matcher's business (since the repair of
      `match_geometries`, C07, zero-affinity assignments come out as two one-sided entries) and
      part of the monitored contract;
    * a one-sided entry is an unmatched sound event: affinity as reported by the matcher (0),
      score 0;
    * sound events without geometry are appended as unmatched (affinity 0, score 0),
      predictions first;
    * clip score = mean of the match scores (0.0 without matches), overall score = mean of
      the clip scores (0.0 without clips); run-level metrics over all items, none when no
      sound event was evaluated at all.
-/
import SoundeventModel.Metrics
namespace SE.Detection
open SE SE.Metrics

/-- the clip pairing of `iterate_over_valid_clips` (shared by the four tasks) -/
abbrev pairClips {α β} := @Metrics.pairClips α β

/-- one entry of the matcher's answer: indices in the filtered lists and the affinity -/
structure MEntry where
  src : Option Nat
  tgt : Option Nat
  aff : Rat
  deriving DecidableEq, Repr, Inhabited

/-- positions of the `true` entries: the filtered → original index map -/
def geomIdx (has : List Bool) : List Nat :=
  (List.range has.length).filter (fun i => has.getD i false)

/-- positions of the sound events without geometry -/
def noGeomIdx (has : List Bool) : List Nat :=
  (List.range has.length).filter (fun i => !has.getD i false)

/-- one produced match together with the item it contributes to the run-level metrics -/
structure Entry where
  src : Option Nat     -- position in the clip's prediction list
  tgt : Option Nat     -- position in the clip's annotation list
  aff : Rat
  score : Rat
  item : Item
  deriving DecidableEq, Repr, Inhabited

def Entry.paired (e : Entry) : Bool := e.src.isSome && e.tgt.isSome

def predRow (C : Nat) (preds : List SEPred) (i : Nat) : List Rat :=
  predEnc C ((preds.getD i default).tags)

def annClass (anns : List SEAnn) (j : Nat) : Option Nat :=
  classEnc ((anns.getD j default).tags)

/-- an unmatched predicted sound event -/
def unmatchedPred (C : Nat) (preds : List SEPred) (i : Nat) (aff : Rat) : Entry :=
  { src := some i, tgt := none, aff := aff, score := 0, item := ⟨none, predRow C preds i⟩ }

/-- an unmatched annotated sound event (`prediction_encoding(tags=[])` = all zeros) -/
def unmatchedAnn (C : Nat) (anns : List SEAnn) (j : Nat) (aff : Rat) : Entry :=
  { src := none, tgt := some j, aff := aff, score := 0, item := ⟨annClass anns j, predEnc C []⟩ }

/-- a matched pair (`evaluate_sound_event`) -/
def matchedPair (C : Nat) (preds : List SEPred) (anns : List SEAnn) (i j : Nat) (aff : Rat) : Entry :=
  let it : Item := ⟨annClass anns j, predRow C preds i⟩
  { src := some i, tgt := some j, aff := aff, score := tcp it, item := it }

/-- the body of the loop over the matcher's answer, after the indices were mapped back -/
def stepEntries (C : Nat) (preds : List SEPred) (anns : List SEAnn)
    (s t : Option Nat) (aff : Rat) : List Entry :=
  match s, t with
  | some i, some j => [matchedPair C preds anns i j aff]
  | some i, none => [unmatchedPred C preds i aff]
  | none, some j => [unmatchedAnn C anns j aff]
  | none, none => []

/-- index mapping of one side; `none` = `IndexError` (never under the matcher's contract) -/
def mapBack (idx : List Nat) : Option Nat → Option (Option Nat)
  | none => some none
  | some k => (idx[k]?).map some

/-- `evaluate_clip`: the entries in the order the code appends them; `none` = the matcher
    named a position that does not exist (`IndexError`). -/
def evalClip (C : Nat) (preds : List SEPred) (anns : List SEAnn) (ms : List MEntry) :
    Option (List Entry) := do
  let pIdx := geomIdx (preds.map (·.hasGeom))
  let aIdx := geomIdx (anns.map (·.hasGeom))
  let main ← ms.mapM (fun m => do
    let s ← mapBack pIdx m.src
    let t ← mapBack aIdx m.tgt
    pure (stepEntries C preds anns s t m.aff))
  let extraP := (noGeomIdx (preds.map (·.hasGeom))).map (fun i => unmatchedPred C preds i 0)
  let extraA := (noGeomIdx (anns.map (·.hasGeom))).map (fun j => unmatchedAnn C anns j 0)
  pure (main.flatten ++ extraP ++ extraA)

/-- `_mean`: mean of the scores, `0.0` when there is none -/
def meanOrZero (xs : List Rat) : Rat := if xs.isEmpty then 0 else mean xs

def clipScore (es : List Entry) : Rat := meanOrZero (es.map (·.score))

def entryOut (e : Entry) : Except Err MatchOut := do
  let fs ← if e.paired
    then features (taskMetrics .soundEventDetection .soundEvent) (itemMetricSL e.item)
    else pure []
  return { src := e.src, tgt := e.tgt, affinity := e.aff, score := some e.score, metrics := fs }

/-- what the matcher must satisfy on lists of `n` sources and `m` targets (C07's cover and
    positive-pairs properties): every source and every target position occurs exactly once, no
    entry is empty, affinities are in [0, 1], 0 on one-sided entries and positive on pairs. -/
def MatcherCover (n m : Nat) (ms : List MEntry) : Prop :=
  (ms.filterMap (·.src)).Perm (List.range n) ∧
  (ms.filterMap (·.tgt)).Perm (List.range m) ∧
  (∀ e ∈ ms, (e.src.isSome ∨ e.tgt.isSome) ∧ 0 ≤ e.aff ∧ e.aff ≤ 1 ∧
     ((e.src.isNone ∨ e.tgt.isNone) → e.aff = 0) ∧ ((e.src.isSome ∧ e.tgt.isSome) → 0 < e.aff))

/-- executable form of `MatcherCover` (for the run-time monitor) -/
def matcherCoverB (n m : Nat) (ms : List MEntry) : Bool :=
  (List.range n).all (fun i => (ms.filterMap (·.src)).count i == 1) &&
  (ms.filterMap (·.src)).all (fun i => decide (i < n)) &&
  (List.range m).all (fun j => (ms.filterMap (·.tgt)).count j == 1) &&
  (ms.filterMap (·.tgt)).all (fun j => decide (j < m)) &&
  ms.all (fun e => (e.src.isSome || e.tgt.isSome) && decide (0 ≤ e.aff) && decide (e.aff ≤ 1) &&
    (if e.src.isSome && e.tgt.isSome then decide (0 < e.aff) else e.aff == 0))

/-- every position below `n` occurs exactly once in `l`, and nothing else does -/
def exactlyOnceB (n : Nat) (l : List Nat) : Bool :=
  (List.range n).all (fun i => l.count i == 1) && l.all (fun i => decide (i < n))

/-- executable statement of "every annotated and every predicted sound event appears in exactly
    one match" for the matches of one clip, given as (source position, target position) -/
def holdsCoverB (nP nA : Nat) (ms : List (Option Nat × Option Nat)) : Bool :=
  exactlyOnceB nP (ms.filterMap (·.1)) && exactlyOnceB nA (ms.filterMap (·.2)) &&
  ms.all (fun m => m.1.isSome || m.2.isSome)

/-- a prediction clip with the matcher's answer for it -/
structure PredClip where
  events : List SEPred
  matcher : List MEntry
  deriving Repr, Inhabited

def detClip (C : Nat) (x : Nat × List SEAnn × PredClip) : Except Err (ClipOut × List Item) := do
  match evalClip C x.2.2.events x.2.1 x.2.2.matcher with
  | none => throw .key
  | some es =>
    let outs ← es.mapM entryOut
    return ({ clip := x.1, metrics := [], score := some (clipScore es), mts := outs }, es.map (·.item))

/-- `sound_event_detection`.  `ValueError` when sound events were evaluated but none of them
    has a labelled truth (mean average precision has nothing left; known finding). -/
def soundEventDetection (C : Nat) (preds : List (Nat × PredClip)) (anns : List (Nat × List SEAnn)) :
    Except Err EvalOut := do
  let rs ← (pairClips preds anns).mapM (detClip C)
  let items := (rs.map (·.2)).flatten
  let fs ← if items.isEmpty then pure []
    else features (taskMetrics .soundEventDetection .run) (runMetricSL C items)
  let clips := rs.map (·.1)
  return { metrics := fs, score := meanOrZero (clips.filterMap (·.score)), clips := clips }

end SE.Detection
