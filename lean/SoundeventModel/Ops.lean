/- Dispatch table of the driver: one handler per property. -/
import SoundeventModel.Ops.C12
namespace SE.Ops
open Lean

def dispatch (prop op : String) (args : Json) : Except String Json :=
  match prop with
  | "C12" => C12.handle op args
  | _ => .error s!"unknown property {prop}"

end SE.Ops
