/- Dispatch table of the driver: one handler per property. -/
import SoundeventModel.Ops.C01
import SoundeventModel.Ops.C02
import SoundeventModel.Ops.C03
import SoundeventModel.Ops.C04
import SoundeventModel.Ops.C05
import SoundeventModel.Ops.C06
import SoundeventModel.Ops.C07
import SoundeventModel.Ops.C08
import SoundeventModel.Ops.C09
import SoundeventModel.Ops.C10
import SoundeventModel.Ops.C11
import SoundeventModel.Ops.C12
import SoundeventModel.Ops.C13
import SoundeventModel.Ops.C14
import SoundeventModel.Ops.C15
import SoundeventModel.Ops.C16
import SoundeventModel.Ops.C17
import SoundeventModel.Ops.C18
import SoundeventModel.Ops.C19
import SoundeventModel.Ops.C20
namespace SE.Ops
open Lean

def dispatch (prop op : String) (args : Json) : Except String Json :=
  match prop with
  | "C01" => C01.handle op args
  | "C02" => C02.handle op args
  | "C03" => C03.handle op args
  | "C04" => C04.handle op args
  | "C05" => C05.handle op args
  | "C06" => C06.handle op args
  | "C07" => C07.handle op args
  | "C08" => C08.handle op args
  | "C09" => C09.handle op args
  | "C10" => C10.handle op args
  | "C11" => C11.handle op args
  | "C12" => C12.handle op args
  | "C13" => C13.handle op args
  | "C14" => C14.handle op args
  | "C15" => C15.handle op args
  | "C16" => C16.handle op args
  | "C17" => C17.handle op args
  | "C18" => C18.handle op args
  | "C19" => C19.handle op args
  | "C20" => C20.handle op args
  | _ => .error s!"unknown property {prop}"

end SE.Ops
