/-
  C04: the relational validators of `soundevent.data`, over abstract identifiers.

    ClipEvaluation._check_clips_match, _check_matches      (after-validators)
    Match._validate_match                                  (before-validator)
    AnnotationProject._annotations_are_part_of_the_project (after-validator)
    Clip._validate_times
    Field(ge=0, le=1) on every score / affinity / tag probability

  Each definition is written the way the code decides (lengths of lists against lengths
  of sets, set equality, a loop with an early `raise`); the theorems of Proofs/C04.lean
  say what that amounts to.  Identifiers (uuids) are opaque: only equality is used.
-/
import SoundeventModel.Basic
namespace SE.Relational

abbrev Id := String

/- The validators only ever compare identifiers for equality (`==`, membership in a `set`), so
   they are written over any type with decidable equality: the property theorems instantiate it
   with `Id` (uuids as text), the symbolic ties of the check with `Rat` (symbolic identifiers). -/

/-- `set(xs)` as a duplicate-free list (only its length and its members are ever used) -/
def toSet {α : Type} [DecidableEq α] : List α → List α
  | [] => []
  | x :: xs => if x ∈ xs then toSet xs else x :: toSet xs

/-- `set(xs) == set(ys)` -/
def setEq {α : Type} [DecidableEq α] (xs ys : List α) : Bool := xs.all (· ∈ ys) && ys.all (· ∈ xs)

/-! ### field constraints -/

/-- the numeric constraints pydantic attaches to a field (`annotated_types.Ge/Gt/Le/Lt`) -/
structure Constraint where
  ge : Option Rat := none
  gt : Option Rat := none
  le : Option Rat := none
  lt : Option Rat := none
  deriving DecidableEq, Repr

def Constraint.ok (c : Constraint) (x : Rat) : Bool :=
  (match c.ge with | some b => decide (b ≤ x) | none => true) &&
  (match c.gt with | some b => decide (b < x) | none => true) &&
  (match c.le with | some b => decide (x ≤ b) | none => true) &&
  (match c.lt with | some b => decide (x < b) | none => true)

/-- `Field(ge=0, le=1)` -/
def unitOk (x : Rat) : Bool := decide (0 ≤ x) && decide (x ≤ 1)

/-- an `Optional[float]` field with the same constraint: `None` passes -/
def optUnitOk : Option Rat → Bool
  | none => true
  | some x => unitOk x

/-- the table the check re-extracts: (class, field, constraint, optional) -/
structure FieldRow where
  cls : String
  field : String
  c : Constraint
  deriving DecidableEq, Repr

/-- every listed field carries exactly `ge=0`, `le=1` -/
def unitTable (tbl : List FieldRow) : Bool :=
  tbl.all fun r => decide (r.c = { ge := some 0, le := some 1 })

/-- the score-like fields the property speaks about (compared with the extracted table) -/
def unitFields : List (String × String) :=
  [("Match", "affinity"), ("Match", "score"), ("ClipEvaluation", "score"), ("PredictedTag", "score"),
   ("SoundEventPrediction", "score"), ("SequencePrediction", "score")]

/-! ### matches -/

structure MatchRow where
  source : Option Id      -- uuid of the predicted sound event
  target : Option Id      -- uuid of the annotated sound event
  affinity : Rat
  score : Option Rat
  deriving DecidableEq, Repr

/-- `Match._validate_match`: reject when neither side is given -/
def matchSidesOk {α : Type} (source target : Option α) : Bool := !(source.isNone && target.isNone)

/-- a `Match` can be constructed -/
def matchOk (m : MatchRow) : Bool :=
  matchSidesOk m.source m.target && unitOk m.affinity && optUnitOk m.score

/-! ### clip evaluations -/

/-- `_check_clips_match` -/
def clipsMatch {α : Type} [DecidableEq α] (annClip predClip : α) : Bool := !(annClip != predClip)

/-- `_check_matches`, cascade of `raise`s in the order of the code -/
def checkMatches {α : Type} [DecidableEq α] (annIds predIds : List α) (ms : List (Option α × Option α)) : Bool :=
  let annotated := toSet annIds
  let predicted := toSet predIds
  let targets := ms.filterMap (·.2)
  let targetsSet := toSet targets
  let sources := ms.filterMap (·.1)
  let sourcesSet := toSet sources
  if targets.length != targetsSet.length then false
  else if sources.length != sourcesSet.length then false
  else if !(setEq targetsSet annotated) then false
  else if !(setEq sourcesSet predicted) then false
  else true

/-- both after-validators of `ClipEvaluation` -/
def clipEvalOk {α : Type} [DecidableEq α] (annClip predClip : α) (annIds predIds : List α)
    (ms : List (Option α × Option α)) : Bool :=
  clipsMatch annClip predClip && checkMatches annIds predIds ms

/-- a whole arrangement: the clip annotation, the clip prediction, the matches with their
    numbers and the score of the evaluation -/
structure ClipEvalArr where
  annClip : Id
  predClip : Id
  annIds : List Id
  predIds : List Id
  ms : List MatchRow
  score : Option Rat
  deriving Repr

def ClipEvalArr.pairs (a : ClipEvalArr) : List (Option Id × Option Id) := a.ms.map fun m => (m.source, m.target)

/-- construction of the `ClipEvaluation` succeeds: every match can be constructed, the score is
    in range and both validators pass -/
def ClipEvalArr.accepted (a : ClipEvalArr) : Bool :=
  a.ms.all matchOk && optUnitOk a.score && clipEvalOk a.annClip a.predClip a.annIds a.predIds a.pairs

/-! ### annotation projects -/

/-- `_annotations_are_part_of_the_project`: the loop raises at the first annotated clip whose
    clip is not the clip of a task -/
def projectOk {α : Type} [DecidableEq α] (taskClips : List α) : List α → Bool
  | [] => true
  | c :: cs => if c ∈ toSet taskClips then projectOk taskClips cs else false

/-- the same decision with the set of task clips computed once, as the code does (`clip_ids = {…}` before the
    loop); `projectOk` recomputes it per annotated clip, which is cubic on long lists.  The driver evaluates this
    one; `C04_project_fast` proves them equal. -/
def projectOkFast {α : Type} [DecidableEq α] (taskClips annClips : List α) : Bool :=
  let clipIds := toSet taskClips
  annClips.all (fun c => decide (c ∈ clipIds))

/-! ### clips -/

/-- `Clip._validate_times`: raise when `start_time > end_time` -/
def clipOk (startTime endTime : Rat) : Bool := !(decide (startTime > endTime))

/-! ### binary64 values that are not rationals

`float` fields accept `nan` and `±inf` (pydantic's default `allow_inf_nan`), so the constraints
and the clip-time comparison are also stated over the extended values, with the comparisons of
IEEE 754 (every comparison with `nan` is false). -/

inductive F where
  | fin (q : Rat)
  | pinf
  | ninf
  | nan
  deriving DecidableEq, Repr

/-- `a <= b` of two floats -/
def F.le : F → F → Bool
  | .nan, _ => false
  | _, .nan => false
  | .ninf, _ => true
  | _, .pinf => true
  | .fin a, .fin b => decide (a ≤ b)
  | .pinf, _ => false
  | _, .ninf => false

/-- `a > b` of two floats -/
def F.gt : F → F → Bool
  | .nan, _ => false
  | _, .nan => false
  | .pinf, .pinf => false
  | .pinf, _ => true
  | .ninf, _ => false
  | .fin _, .pinf => false
  | .fin _, .ninf => true
  | .fin a, .fin b => decide (a > b)

/-- `Field(ge=0, le=1)` applied to a float: `x >= 0` and `x <= 1` must both be true -/
def unitOkF (x : F) : Bool := F.le (.fin 0) x && F.le x (.fin 1)

def optUnitOkF : Option F → Bool
  | none => true
  | some x => unitOkF x

/-- `Clip._validate_times` on floats: raise when `start_time > end_time` is true -/
def clipOkF (startTime endTime : F) : Bool := !(F.gt startTime endTime)

/-! ### the numbers on the AOEF path

`soundevent.io.load` builds every object with the constructor of its data class
(`XAdapter.assemble_soundevent`); these are the numbers of the AOEF object as the adapter hands
them to the constructor (tied to the adapters by symbolic traces: unchanged, not swapped, not
clamped), and the decision of the constructor on them. -/

/-- `ClipAdapter.assemble_soundevent`: `(start_time, end_time)` handed to `data.Clip` -/
def aoefClipArgs (startTime endTime : Rat) : Rat × Rat := (startTime, endTime)
/-- `MatchAdapter.assemble_soundevent`: `(affinity, score)` handed to `data.Match` -/
def aoefMatchArgs (affinity score : Rat) : Rat × Rat := (affinity, score)
/-- `ClipEvaluationAdapter.assemble_soundevent`: `score` handed to `data.ClipEvaluation` -/
def aoefEvalScoreArg (score : Rat) : Rat := score
/-- `SoundEventPredictionAdapter` / `SequencePredictionAdapter.assemble_soundevent` on an object with
    two tags: the score handed to the prediction and the scores handed to each `data.PredictedTag` -/
def aoefPredictionArgs (score tag0 tag1 : Rat) : Rat × Rat × Rat := (score, tag0, tag1)
/-- `ClipPredictionsAdapter.assemble_soundevent` on an object with two tags -/
def aoefClipTagArgs (tag0 tag1 : Rat) : Rat × Rat := (tag0, tag1)

def aoefClipOk (s e : Rat) : Bool := clipOk (aoefClipArgs s e).1 (aoefClipArgs s e).2
def aoefMatchNumbersOk (a sc : Rat) : Bool := unitOk (aoefMatchArgs a sc).1 && unitOk (aoefMatchArgs a sc).2
def aoefEvalScoreOk (x : Rat) : Bool := unitOk (aoefEvalScoreArg x)
def aoefPredictionOk (x t0 t1 : Rat) : Bool :=
  unitOk (aoefPredictionArgs x t0 t1).1 && unitOk (aoefPredictionArgs x t0 t1).2.1 && unitOk (aoefPredictionArgs x t0 t1).2.2
def aoefClipTagsOk (t0 t1 : Rat) : Bool := unitOk (aoefClipTagArgs t0 t1).1 && unitOk (aoefClipTagArgs t0 t1).2

end SE.Relational
