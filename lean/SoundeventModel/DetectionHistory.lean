/-
  C08, calls and histories.

  The first three layers (`Detection`, `DetectionGeo`, `DetectionTags`) say what *one*
  evaluation returns.  A process makes many calls: `sound_event_detection` several times with
  other vocabularies, on clip / geometry / tag objects that were used before and then revised
  (in place, by `model_copy(update=…)`), interleaved with direct calls of the matcher with
  other buffers.  Here a call is a value (`Call`): everything the library function is handed,
  as *content* — a `ClipPrediction` is its clip id and its sound events (geometry, real tags
  with scores), not a Python object with a past.  `callModel` is what the call has to return,
  whatever happened before (`SE.History`, theorem `C08_history`).

  `evaluateWith` is the evaluation with an arbitrary class assignment `enc`; `evaluateT` is the
  one `sound_event_detection` performs (`create_tag_encoder(tags)` = `Encoding.encode vocab`).
  The generalisation only serves to *state* implementations that keep state between calls (a
  class-level `_mapping` shared by all encoders: `sharedTableStep`; a buffered-geometry memo
  that ignores the buffers: `stickyBufferStep`) and to prove that they are not history free.

  `signatures`: the positional order of the parameters of the four anchored functions (and the
  two defaults of the matcher), re-extracted from the code on every run (Tie 1).
-/
import SoundeventModel.DetectionGeo
import SoundeventModel.DetectionTags
import SoundeventModel.History
namespace SE.Detection
open SE SE.Metrics SE.Encoding

/-- a sound event with its geometry and its real tags -/
abbrev TGPred := TPred × Option Geom
abbrev TGAnn := TAnn × Option Geom

/-- a predicted clip: sound events, the pairs the assignment solver chose on the filtered geometry
    lists, measured affinities for geometry types without closed form -/
structure TGeoClip where
  events : List TGPred
  pairs : List (Nat × Nat)
  measured : List (List Rat)
  deriving Repr, Inhabited

/-- encoded views under an arbitrary class assignment (`hasGeom` = "has a geometry") -/
def encPredWith (enc : Tag → Option Nat) (x : TGPred) : GPred :=
  ({ id := x.1.id, hasGeom := x.2.isSome, tags := x.1.tags.map (fun p => (enc p.tag, p.score)) }, x.2)

def encAnnWith (enc : Tag → Option Nat) (x : TGAnn) : GAnn :=
  ({ id := x.1.id, hasGeom := x.2.isSome, tags := x.1.tags.map enc }, x.2)

def encClipWith (enc : Tag → Option Nat) (c : Nat × TGeoClip) : Nat × GeoClip :=
  (c.1, { events := c.2.events.map (encPredWith enc), pairs := c.2.pairs, measured := c.2.measured })

/-- `sound_event_detection` with class assignment `enc` over `C` classes -/
def evaluateWith (enc : Tag → Option Nat) (C : Nat) (tb fb : Rat) (preds : List (Nat × TGeoClip))
    (anns : List (Nat × List TGAnn)) : Except Err EvalOut :=
  soundEventDetectionGeo C tb fb (preds.map (encClipWith enc))
    (anns.map (fun a => (a.1, a.2.map (encAnnWith enc))))

/-- `sound_event_detection(clip_predictions, clip_annotations, tags)`: the encoder is the one made from
    the vocabulary of *this* call; `tb`, `fb` are the defaults of the matcher's signature -/
def evaluateT (vocab : List Tag) (tb fb : Rat) (preds : List (Nat × TGeoClip)) (anns : List (Nat × List TGAnn)) :
    Except Err EvalOut :=
  evaluateWith (encode vocab) vocab.length tb fb preds anns

/-- one call of the library in a process -/
inductive Call
  /-- `sound_event_detection(clip_predictions, clip_annotations, tags)` -/
  | evaluate (vocab : List Tag) (preds : List (Nat × TGeoClip)) (anns : List (Nat × List TGAnn))
  /-- `match_geometries(source, target, time_buffer, freq_buffer)` with the solver's pairs and the measured
      affinities of the pairs without closed form -/
  | matchG (tb fb : Rat) (src tgt : List Geom) (pairs : List (Nat × Nat)) (measured : List (List Rat))
  deriving Repr, Inhabited

/-- results can be compared (core has no `DecidableEq (Except ε α)`); a named instance in this namespace, so
    that it cannot clash with another module's -/
instance decEqExcept {ε α : Type} [DecidableEq ε] [DecidableEq α] : DecidableEq (Except ε α) := fun a b =>
  match a, b with
  | .ok x, .ok y =>
    if h : x = y then isTrue (by rw [h]) else isFalse (fun h' => by injection h' with h''; exact h h'')
  | .error x, .error y =>
    if h : x = y then isTrue (by rw [h]) else isFalse (fun h' => by injection h' with h''; exact h h'')
  | .ok _, .error _ => isFalse (fun h => by cases h)
  | .error _, .ok _ => isFalse (fun h => by cases h)

inductive Answer
  | evaluation (r : Except Err EvalOut)
  | matches (r : Except Matching.LoopErr (List MEntry))
  deriving DecidableEq, Repr, Inhabited

/-- what a call returns, whatever was called before (`tb0`, `fb0`: the defaults of the matcher's signature,
    with which `evaluate_clip` matches) -/
def callModel (tb0 fb0 : Rat) : Call → Answer
  | .evaluate vocab preds anns => .evaluation (evaluateT vocab tb0 fb0 preds anns)
  | .matchG tb fb src tgt pairs measured => .matches (matchGeo (Matching.matOfRows measured) tb fb src tgt pairs)

/-! ### implementations that keep state between calls -/

/-- the class-level `_mapping` of seeded C19-7 / C09-7: every new encoder writes its vocabulary into the one
    dictionary all encoders share, so a tag of an earlier vocabulary keeps its old class -/
def sharedTableStep (tb0 fb0 : Rat) (d : List ((Term × String) × Nat)) : Call → List ((Term × String) × Nat) × Answer
  | .evaluate vocab preds anns =>
    let d' := buildFrom d 0 vocab
    (d', .evaluation (evaluateWith (fun t => dictGet d' (key t)) vocab.length tb0 fb0 preds anns))
  | c => (d, callModel tb0 fb0 c)

/-- the buffered-geometry memo of seeded C07-7 restricted to one set of geometries: the buffers of the first
    call that prepared them stick -/
def stickyBufferStep (tb0 fb0 : Rat) (memo : Option (Rat × Rat)) : Call → Option (Rat × Rat) × Answer
  | .evaluate vocab preds anns =>
    let b := memo.getD (tb0, fb0)
    (some b, .evaluation (evaluateT vocab b.1 b.2 preds anns))
  | .matchG tb fb src tgt pairs measured =>
    let b := memo.getD (tb, fb)
    (some b, .matches (matchGeo (Matching.matOfRows measured) b.1 b.2 src tgt pairs))

/-! ### signatures -/

/-- the parameters of the anchored functions in positional order (Tie 1: re-extracted with `inspect` on
    every run; further parameters are allowed only behind these and only with defaults) -/
def signatures : List (String × List String) :=
  [("sound_event_detection", ["clip_predictions", "clip_annotations", "tags"]),
   ("evaluate_clip", ["clip_annotations", "clip_predictions", "encoder"]),
   ("match_geometries", ["source", "target", "time_buffer", "freq_buffer"]),
   ("iterate_over_valid_clips", ["clip_predictions", "clip_annotations"])]

/-- a positional call binds the k-th argument to the k-th declared parameter -/
def bindPositional {α} (params : List String) (args : List α) : List (String × α) := params.zip args

/-- the value a call gives to parameter `p` -/
def argOf {α} (binding : List (String × α)) (p : String) : Option α := binding.lookup p

end SE.Detection
