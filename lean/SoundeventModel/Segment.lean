/-
  C14: `segment_clip` of `soundevent/operations.py`.

      if hop is None: hop = duration
      if duration <= 0: raise ValueError
      if hop <= 0: raise ValueError
      num_segments = math.ceil(clip.duration / hop)        -- pinned tree: math.floor
      for i in range(num_segments):
          start_time = clip.start_time + i * hop
          end_time = start_time + duration
          if start_time >= clip.end_time: break
          if end_time > clip.end_time and not include_incomplete: break
          end_time = min(end_time, clip.end_time)
          yield Clip(uuid=uuid5(ns, f"segment_clip:{clip.uuid}:{start_time}:{end_time}"), ...)

  The model is the loop itself, by structural recursion on the number of
  iterations left.  The identifier of a segment is a function of the key
  `(parent, start, end)` (SHA-1 inside `uuid5` is not modelled).
-/
import SoundeventModel.Basic
namespace SE.Segment

/-- the `for` loop: `n` iterations left, current index `i` -/
def loop (s e dur hop : Rat) (incl : Bool) : Nat → Nat → List (Rat × Rat)
  | 0, _ => []
  | n+1, i =>
    let a := s + i * hop
    if a ≥ e then []                                   -- first `break`
    else if a + dur > e ∧ incl = false then []         -- second `break`
    else (a, min (a + dur) e) :: loop s e dur hop incl n (i+1)

/-- `range(math.floor(clip.duration / hop))` of the pinned tree (`range` of a negative
    number is empty) -/
def boundPinned (s e hop : Rat) : Nat := ((e - s) / hop).floor.toNat

/-- `range(math.ceil(clip.duration / hop))` of the repaired tree (fix C14-1) -/
def bound (s e hop : Rat) : Nat := ((e - s) / hop).ceil.toNat

/-- `segment_clip` with the loop bound as a parameter -/
def segmentClipWith (bnd : Rat → Rat → Rat → Nat) (s e dur hop : Rat) (incl : Bool) :
    Except Err (List (Rat × Rat)) :=
  if dur ≤ 0 then .error .invalid
  else if hop ≤ 0 then .error .invalid
  else .ok (loop s e dur hop incl (bnd s e hop) 0)

/-- `segment_clip` as it is after fix C14-1 -/
def segmentClip (s e dur hop : Rat) (incl : Bool) : Except Err (List (Rat × Rat)) :=
  segmentClipWith bound s e dur hop incl

/-- `segment_clip` of the pinned tree (kept for the refutation in `Proofs/C14.lean`) -/
def segmentClipPinned (s e dur hop : Rat) (incl : Bool) : Except Err (List (Rat × Rat)) :=
  segmentClipWith boundPinned s e dur hop incl

/-- `hop=None` means `hop = duration` -/
def segmentClipOpt (s e dur : Rat) (hop : Option Rat) (incl : Bool) :
    Except Err (List (Rat × Rat)) :=
  segmentClip s e dur (hop.getD dur) incl

def segmentClipPinnedOpt (s e dur : Rat) (hop : Option Rat) (incl : Bool) :
    Except Err (List (Rat × Rat)) :=
  segmentClipPinned s e dur (hop.getD dur) incl

/-- what the uuid of a segment is computed from -/
def segKey (parent : String) (p : Rat × Rat) : String × Rat × Rat := (parent, p.1, p.2)

/-! ### identifiers, recording, number of segments (review R-C14) -/

/-- the string `uuid5` is computed over: `f"segment_clip:{clip.uuid}:{start_time}:{end_time}"`;
    `fmt` is Python's formatting of a float inside an f-string (`repr`: shortest round-trip
    digits, hence injective, never containing ':'), a parameter of the model -/
def segName (fmt : Rat → String) (parent : String) (p : Rat × Rat) : String :=
  "segment_clip:" ++ parent ++ ":" ++ fmt p.1 ++ ":" ++ fmt p.2

/-- a yielded clip: the recording it belongs to, its bounds, the name its uuid is computed from -/
structure Seg where
  recording : String
  start : Rat
  stop : Rat
  name : String
deriving DecidableEq, Repr

/-- `segment_clip` with everything it puts into the yielded clips -/
def segmentClipFull (fmt : Rat → String) (recording parent : String) (s e dur : Rat)
    (hop : Option Rat) (incl : Bool) : Except Err (List Seg) :=
  (segmentClipOpt s e dur hop incl).map
    (·.map fun p => ⟨recording, p.1, p.2, segName fmt parent p⟩)

/-- the number of segments in closed form: with `include_incomplete` the lattice points inside
    the clip, without it the windows that fit -/
def count (s e dur hop : Rat) (incl : Bool) : Nat :=
  if incl then ((e - s) / hop).ceil.toNat
  else if e - s < dur then 0
  else ((e - s - dur) / hop).floor.toNat + 1

/-! ### the executable statement of the property, for the monitor -/

/-- the `i`-th lattice window exists: it starts inside the clip and, unless incomplete
    windows are wanted, fits -/
def isWindow (s e dur hop : Rat) (incl : Bool) (i : Nat) : Bool :=
  decide (s + i * hop < e) && (incl || decide (s + i * hop + dur ≤ e))

/-- the `i`-th lattice window, truncated at the clip end -/
def window (s e dur hop : Rat) (i : Nat) : Rat × Rat :=
  (s + i * hop, min (s + i * hop + dur) e)

/-- `out` lists the windows `i, i+1, …` in order and stops only when the next one does
    not exist -/
def holdsFrom (s e dur hop : Rat) (incl : Bool) : Nat → List (Rat × Rat) → Bool
  | i, [] => !isWindow s e dur hop incl i
  | i, p :: ps => isWindow s e dur hop incl i && decide (p = window s e dur hop i)
                    && holdsFrom s e dur hop incl (i+1) ps

/-- the property on an observed result (`none` = the call raised `ValueError`) -/
def holds (s e dur hop : Rat) (incl : Bool) (out : Option (List (Rat × Rat))) : Bool :=
  match out with
  | none => decide (dur ≤ 0 ∨ hop ≤ 0)
  | some l => decide (0 < dur) && decide (0 < hop) && holdsFrom s e dur hop incl 0 l

end SE.Segment
