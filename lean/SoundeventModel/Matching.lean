/-
  C07: `match_geometries` / `_select_matches` of `soundevent/evaluation/match.py`.

  The affinity matrix (computed by `compute_affinity`, property C06) and the answer
  of `scipy.optimize.linear_sum_assignment(cost_matrix, maximize=True)` are
  *parameters*: `selectMatches` is the code's own logic around them.  The solver's
  contract (`ValidAssignment`: rows distinct, columns distinct, indices in range)
  is a hypothesis of the theorems in `Proofs/C07.lean` and is evaluated at run time
  on what scipy returned; its optimality is checked against `bestValue`, a
  brute-force recursion that is *proved* to be the maximum over all partial
  injections.

  The model follows the code after the repair `fixes/C07-1-zero-affinity-pairs.patch`:
  an assigned pair whose affinity is not positive is skipped, so that its row and
  its column stay in the left-over sets and are emitted as two one-sided matches.
-/
import SoundeventModel.Basic
namespace SE.Matching

/-- the dense `cost_matrix`; only entries `i < n`, `j < m` are ever read -/
abbrev Mat := Nat → Nat → Rat

/-- one yielded triple `(source index | None, target index | None, affinity)` -/
structure Entry where
  src : Option Nat
  tgt : Option Nat
  aff : Rat
  deriving DecidableEq, Repr, Inhabited

/-- what can go wrong inside `_select_matches` when the solver's answer is not a
    valid assignment (never observed: scipy's contract) -/
inductive LoopErr
  | index   -- `cost_matrix[row, column]` out of range
  | key     -- `rows.remove(row)` / `cols.remove(column)` of an absent element
  deriving DecidableEq, Repr, Inhabited

/-- The loop `for row, column in zip(assigned_rows, assigned_columns)` with its two
    shrinking sets.  Returns the pairs that were yielded and the left-over rows and
    columns.  `rows`/`cols` are the Python sets, kept as duplicate-free lists. -/
def assignLoop (n m : Nat) (aff : Mat) :
    List (Nat × Nat) → List Nat → List Nat → Except LoopErr (List (Nat × Nat) × List Nat × List Nat)
  | [], rows, cols => .ok ([], rows, cols)
  | (r, c) :: rest, rows, cols =>
    if n ≤ r ∨ m ≤ c then .error .index
    else if aff r c ≤ 0 then assignLoop n m aff rest rows cols        -- the repair: `continue`
    else if !rows.contains r then .error .key
    else if !cols.contains c then .error .key
    else
      match assignLoop n m aff rest (rows.erase r) (cols.erase c) with
      | .ok (ps, rs, cs) => .ok ((r, c) :: ps, rs, cs)
      | .error e => .error e

def pairEntry (aff : Mat) (p : Nat × Nat) : Entry := ⟨some p.1, some p.2, aff p.1 p.2⟩
def srcOnly (i : Nat) : Entry := ⟨some i, none, 0⟩
def tgtOnly (j : Nat) : Entry := ⟨none, some j, 0⟩

/-- what `match_geometries` yields from the pairs and the left-overs: the affinity is
    looked up in the matrix for two-sided matches and is `0.0` otherwise -/
def emit (aff : Mat) (ps : List (Nat × Nat)) (rows cols : List Nat) : List Entry :=
  ps.map (pairEntry aff) ++ rows.map srcOnly ++ cols.map tgtOnly

/-- `list(match_geometries(source, target))` given the `n × m` affinity matrix and the
    solver's answer -/
def selectMatches (n m : Nat) (aff : Mat) (assigned : List (Nat × Nat)) : Except LoopErr (List Entry) :=
  match assignLoop n m aff assigned (List.range n) (List.range m) with
  | .ok (ps, rs, cs) => .ok (emit aff ps rs cs)
  | .error e => .error e

/-- the same result in closed form (equal to `selectMatches` for a valid assignment:
    `Proofs.C07.selectMatches_eq_closed`) -/
def keptPairs (aff : Mat) (assigned : List (Nat × Nat)) : List (Nat × Nat) :=
  assigned.filter (fun p => decide (0 < aff p.1 p.2))

def closedForm (n m : Nat) (aff : Mat) (assigned : List (Nat × Nat)) : List Entry :=
  let ps := keptPairs aff assigned
  emit aff ps ((List.range n).filter (fun i => !(ps.map Prod.fst).contains i))
    ((List.range m).filter (fun j => !(ps.map Prod.snd).contains j))

/-! ### scipy's contract -/

/-- `linear_sum_assignment` returns row indices and column indices that are in range and
    pairwise distinct (decidable; evaluated on scipy's answer on every case) -/
def nodupB : List Nat → Bool
  | [] => true
  | x :: xs => !xs.contains x && nodupB xs

def validAssignment (n m : Nat) (assigned : List (Nat × Nat)) : Bool :=
  assigned.all (fun p => decide (p.1 < n) && decide (p.2 < m))
    && nodupB (assigned.map Prod.fst) && nodupB (assigned.map Prod.snd)

/-! ### value of a pairing and the brute-force optimum -/

def value (aff : Mat) (ps : List (Nat × Nat)) : Rat := (ps.map fun p => aff p.1 p.2).sum

/-- sum of the reported affinities -/
def total (out : List Entry) : Rat := (out.map (·.aff)).sum

/-- max over a list of candidates, at least `base` -/
def maxOver (base : Rat) (xs : List Rat) : Rat := xs.foldl max base

/-- best value using rows `< k` and columns `< m` not in `used`: row `k - 1` stays
    unpaired or takes any free column -/
def best (aff : Mat) (m : Nat) : Nat → List Nat → Rat
  | 0, _ => 0
  | k+1, used =>
    maxOver (best aff m k used)
      (((List.range m).filter (fun j => !used.contains j)).map
        (fun j => aff k j + best aff m k (j :: used)))

/-- the maximum total affinity of a one-to-one pairing of `n` sources with `m` targets -/
def bestValue (n m : Nat) (aff : Mat) : Rat := best aff m n []

/-- executable optimality test against the verified brute force -/
def optimalWithin (tol : Rat) (n m : Nat) (aff : Mat) (out : List Entry) : Bool :=
  decide (bestValue n m aff ≤ total out + tol)

/-! ### executable statement of the property on an observed output -/

def srcs (out : List Entry) : List Nat := out.filterMap (·.src)
def tgts (out : List Entry) : List Nat := out.filterMap (·.tgt)

/-- one entry is well-formed with respect to the matrix -/
def entryOk (aff : Mat) (e : Entry) : Bool :=
  match e.src, e.tgt with
  | some i, some j => decide (0 < aff i j) && decide (e.aff = aff i j)
  | some _, none => decide (e.aff = 0)
  | none, some _ => decide (e.aff = 0)
  | none, none => false

structure Verdict where
  coverSrc : Bool     -- every source index exactly once
  coverTgt : Bool     -- every target index exactly once
  entries : Bool      -- positive pairs, reported affinity = matrix entry, unpaired report 0
  optimal : Bool      -- total within `tol` of the brute-force optimum
  deriving DecidableEq, Repr, Inhabited

def Verdict.all (v : Verdict) : Bool := v.coverSrc && v.coverTgt && v.entries && v.optimal

def judge (tol : Rat) (n m : Nat) (aff : Mat) (out : List Entry) : Verdict :=
  { coverSrc := (srcs out).isPerm (List.range n)
    coverTgt := (tgts out).isPerm (List.range m)
    entries := out.all (entryOk aff)
    optimal := optimalWithin tol n m aff out }

/-- `holds`: the property evaluated on an observed output of `match_geometries` -/
def holds (tol : Rat) (n m : Nat) (aff : Mat) (out : List Entry) : Bool := (judge tol n m aff out).all

/-- matrix from its rows (missing entries read as 0; the driver checks the shape) -/
def matOfRows (rows : List (List Rat)) : Mat := fun i j => (rows.getD i []).getD j 0

/-! ### the first half of `match_geometries`: the dense affinity matrix

`cost_matrix = np.zeros((len(source), len(target)))`, then one write
`cost_matrix[i, j] = compute_affinity(source[i], target[j], …)` per element of
`product(enumerate(source), enumerate(target))`.  `compute_affinity` (property C06) is a
parameter `affinity : G → G → Rat` over an arbitrary type of geometries. -/

abbrev Grid := List (List Rat)

def zeros (n m : Nat) : Grid := List.replicate n (List.replicate m 0)

/-- `cost_matrix[i, j] = x` (no effect out of range: the loop never writes there) -/
def setCell (g : Grid) (i j : Nat) (x : Rat) : Grid := g.modify i (fun r => r.set j x)

/-- `product(enumerate(source), enumerate(target))` with the value written for each pair -/
def fillCells {G : Type} (affinity : G → G → Rat) (src tgt : List G) : List (Nat × Nat × Rat) :=
  src.zipIdx.flatMap fun (a, i) => tgt.zipIdx.map fun (b, j) => (i, j, affinity a b)

/-- the loop that fills the matrix -/
def fillMatrix {G : Type} (affinity : G → G → Rat) (src tgt : List G) : Grid :=
  (fillCells affinity src tgt).foldl (fun g c => setCell g c.1 c.2.1 c.2.2) (zeros src.length tgt.length)

/-- `list(match_geometries(source, target))` with `compute_affinity` and
    `linear_sum_assignment(·, maximize=True)` as parameters (the solver sees the filled matrix) -/
def matchGeometries {G : Type} (affinity : G → G → Rat) (solver : Nat → Nat → Mat → List (Nat × Nat))
    (src tgt : List G) : Except LoopErr (List Entry) :=
  let aff := matOfRows (fillMatrix affinity src tgt)
  selectMatches src.length tgt.length aff (solver src.length tgt.length aff)

/-! ### optimality by certificate (linear-programming duality), for matrices of any size

The brute force `bestValue` is factorial.  For large matrices the check computes (outside Lean,
untrusted) row and column potentials `u`, `v` and a witness pairing `w`; `certOk` is the
executable test that they certify the optimum: `u, v ≥ 0`, `aff i j ≤ u i + v j` everywhere,
`w` a one-to-one pairing whose value is `Σ u + Σ v`.  `Proofs.C07.C07_cert_best` proves that then
`bestValue n m aff = value aff w`. -/

def sumRange (k : Nat) (f : Nat → Rat) : Rat := ((List.range k).map f).sum

def dualFeasible (n m : Nat) (aff : Mat) (u v : Nat → Rat) : Bool :=
  (List.range n).all (fun i => decide (0 ≤ u i)) && (List.range m).all (fun j => decide (0 ≤ v j))
    && (List.range n).all (fun i => (List.range m).all fun j => decide (aff i j ≤ u i + v j))

def dualBound (n m : Nat) (u v : Nat → Rat) : Rat := sumRange n u + sumRange m v

def certOk (n m : Nat) (aff : Mat) (u v : Nat → Rat) (w : List (Nat × Nat)) : Bool :=
  dualFeasible n m aff u v && validAssignment n m w && decide (value aff w = dualBound n m u v)

/-- optimality test against a certified optimum -/
def optimalByCert (tol : Rat) (n m : Nat) (aff : Mat) (u v : Nat → Rat) (w : List (Nat × Nat))
    (out : List Entry) : Bool :=
  certOk n m aff u v w && decide (value aff w ≤ total out + tol)

/-- the clauses of the property other than optimality (used where the solver is replaced by an
    arbitrary valid assignment, and with `optimalByCert` for large matrices) -/
def holdsShape (n m : Nat) (aff : Mat) (out : List Entry) : Bool :=
  (srcs out).isPerm (List.range n) && (tgts out).isPerm (List.range m) && out.all (entryOk aff)

/-- potentials from a list (missing entries read as 0) -/
def vecOf (xs : List Rat) : Nat → Rat := fun i => xs.getD i 0

/-! ### canonical order of an output (the property does not pin the order of the matches)

Used by the symbolic ties: the traced output and the model's are compared after sorting by
(source key, target key); `Proofs.C07.C07_sortEntries_perm` shows that sorting only permutes. -/

def entryKey (e : Entry) : Nat × Nat :=
  ((match e.src with | none => 0 | some i => i + 1), (match e.tgt with | none => 0 | some j => j + 1))

def keyLe (a b : Entry) : Bool :=
  let ka := entryKey a; let kb := entryKey b
  decide (ka.1 < kb.1) || (decide (ka.1 = kb.1) && decide (ka.2 ≤ kb.2))

def insertEntry (e : Entry) : List Entry → List Entry
  | [] => [e]
  | x :: xs => if keyLe e x then e :: x :: xs else x :: insertEntry e xs

def sortEntries : List Entry → List Entry
  | [] => []
  | x :: xs => insertEntry x (sortEntries xs)

end SE.Matching
