/-
  C08, second layer: the geometry side of `evaluate_clip`.

  `Detection.lean` takes the matcher's answer as a parameter.  Here the matcher is *inside*
  the model: `match_geometries` = affinity matrix (`compute_affinity`, the model of C06) +
  `_select_matches` (the model of C07) around the one thing that stays a parameter, the pairs
  chosen by `scipy.optimize.linear_sum_assignment` (contract `ValidAssignment`, monitored).

  "A prediction is paired with an annotation only if their geometries overlap" is decided
  *independently of any area arithmetic*: `overlapCF` compares interval end points only
  (open-interior intersection of the time extents and, for two boxes, of the frequency
  extents).  It exists in closed form for the geometry types whose prepared shape is an
  interval or a rectangle (TimeStamp, TimeInterval, BoundingBox); for the other types
  (Point, LineString, Polygon, Multi*) the affinity is the externally measured value `X i j`
  (monitored contract: recomputed by the harness from shapely areas).

  `judgePairs` is the executable statement "every reported pair names two sound events that
  have a geometry and whose geometries overlap", evaluated on what `sound_event_detection`
  really returned.
-/
import SoundeventModel.Detection
import SoundeventModel.Affinity
import SoundeventModel.Matching
namespace SE.Detection
open SE SE.Metrics SE.Affinity

/-! ### overlap without areas -/

/-- geometry types whose prepared shape `compute_affinity` handles in closed form -/
def closed : Geom → Bool
  | .timeStamp _ => true
  | .timeInterval .. => true
  | .boundingBox .. => true
  | _ => false

/-- time extent and (for a box) frequency extent as `compute_affinity` sees the geometry: a
    TimeStamp is widened by the time buffer (clamped at 0), intervals and boxes are taken as
    they are -/
def extents (tb : Rat) : Geom → Option ((Rat × Rat) × Option (Rat × Rat))
  | .timeStamp t => some ((max (t - tb) 0, t + tb), none)
  | .timeInterval s e => some ((s, e), none)
  | .boundingBox s l e h => some ((s, e), some (l, h))
  | _ => none

/-- two intervals share more than a point -/
def openOverlap (a b : Rat × Rat) : Bool := decide (max a.1 b.1 < min a.2 b.2)

/-- do the two geometries overlap?  Two boxes: in time *and* in frequency; otherwise (one of
    them is time-only) in time.  `none`: no closed form for one of the types. -/
def overlapCF (tb : Rat) (g1 g2 : Geom) : Option Bool :=
  match extents tb g1, extents tb g2 with
  | some (t1, some f1), some (t2, some f2) => some (openOverlap t1 t2 && openOverlap f1 f2)
  | some (t1, _), some (t2, _) => some (openOverlap t1 t2)
  | _, _ => none

/-- `compute_affinity` on two closed-form geometries (GEOS restricted to rectangles is exact:
    `Affinity.boxGeos`) -/
def affinityCF (tb fb : Rat) (g1 g2 : Geom) : Except Err Rat := affinity boxGeos g1 g2 tb fb

/-! ### the matcher inside the model -/

/-- one entry of the `cost_matrix` of `match_geometries`: closed form where it exists, the
    measured value otherwise.  (With non-negative buffers `affinityCF` never fails:
    `Proofs.C08.affinityCF_ok`; positions outside the lists are never read.) -/
def affEntry (X : Matching.Mat) (tb fb : Rat) (src tgt : List Geom) (i j : Nat) : Rat :=
  match src[i]?, tgt[j]? with
  | some g1, some g2 =>
    if closed g1 && closed g2 then
      match affinityCF tb fb g1 g2 with
      | .ok v => v
      | .error _ => 0
    else X i j
  | _, _ => 0

def ofMatching (e : Matching.Entry) : MEntry := ⟨e.src, e.tgt, e.aff⟩

/-- `list(match_geometries(source, target))` given the pairs the assignment solver chose -/
def matchGeo (X : Matching.Mat) (tb fb : Rat) (src tgt : List Geom) (pairs : List (Nat × Nat)) :
    Except Matching.LoopErr (List MEntry) :=
  match Matching.selectMatches src.length tgt.length (affEntry X tb fb src tgt) pairs with
  | .ok out => .ok (out.map ofMatching)
  | .error e => .error e

/-- a sound event of a clip with its geometry -/
abbrev GPred := SEPred × Option Geom
abbrev GAnn := SEAnn × Option Geom

def evPreds (l : List GPred) : List SEPred := l.map (fun x => { x.1 with hasGeom := x.2.isSome })
def evAnns (l : List GAnn) : List SEAnn := l.map (fun x => { x.1 with hasGeom := x.2.isSome })

/-- the filtered geometry lists handed to `match_geometries` -/
def geomsOf {α} (l : List (α × Option Geom)) : List Geom := l.filterMap (·.2)

/-- `evaluate_clip` with the matcher inside; `none` = an exception (never under the solver's
    contract) -/
def evalClipGeo (C : Nat) (X : Matching.Mat) (tb fb : Rat) (preds : List GPred) (anns : List GAnn)
    (pairs : List (Nat × Nat)) : Option (List Entry) :=
  match matchGeo X tb fb (geomsOf preds) (geomsOf anns) pairs with
  | .error _ => none
  | .ok ms => evalClip C (evPreds preds) (evAnns anns) ms

/-- a prediction clip with geometries, the solver's pairs and the measured affinities -/
structure GeoClip where
  events : List GPred
  pairs : List (Nat × Nat)
  measured : List (List Rat)
  deriving Repr, Inhabited

/-- the matcher's answer for one predicted clip (`[]` when the clip is not annotated: it is not
    evaluated and the matcher is never called) -/
def withMatcher (tb fb : Rat) (anns : List (Nat × List GAnn)) (p : Nat × GeoClip) : Except Err (Nat × PredClip) :=
  match Metrics.lookupLast p.1 anns with
  | none => .ok (p.1, { events := evPreds p.2.events, matcher := [] })
  | some as =>
    match matchGeo (Matching.matOfRows p.2.measured) tb fb (geomsOf p.2.events) (geomsOf as) p.2.pairs with
    | .ok ms => .ok (p.1, { events := evPreds p.2.events, matcher := ms })
    | .error _ => .error .key

/-- `sound_event_detection` with the matcher inside: per evaluated clip the matcher's answer is
    computed by the model and handed to the first layer -/
def soundEventDetectionGeo (C : Nat) (tb fb : Rat) (preds : List (Nat × GeoClip)) (anns : List (Nat × List GAnn)) :
    Except Err EvalOut := do
  let ps ← preds.mapM (withMatcher tb fb anns)
  soundEventDetection C ps (anns.map (fun a => (a.1, evAnns a.2)))

/-! ### the judge: "only credits overlaps" on the real output -/

/-- verdict on one reported pair -/
inductive PairVerdict
  | overlap        -- both have a geometry, closed form says they overlap
  | disjoint       -- both have a geometry, closed form says they do not
  | noGeometry     -- a sound event without geometry (or a position that does not exist) is paired
  | unknown        -- no closed form for one of the types: the monitored contract decides
  deriving DecidableEq, Repr, Inhabited

def judgePair (tb : Rat) (pg ag : List (Option Geom)) (i j : Nat) : PairVerdict :=
  match (pg[i]?).join, (ag[j]?).join with
  | some g1, some g2 =>
    match overlapCF tb g1 g2 with
    | some true => .overlap
    | some false => .disjoint
    | none => .unknown
  | _, _ => .noGeometry

/-- every two-sided match of a clip (given as source position, target position) is between
    sound events with geometries that are not known to be disjoint -/
def judgePairs (tb : Rat) (pg ag : List (Option Geom)) (ms : List (Option Nat × Option Nat)) : Bool :=
  ms.all (fun m => match m.1, m.2 with
    | some i, some j => judgePair tb pg ag i j == .overlap || judgePair tb pg ag i j == .unknown
    | _, _ => true)

end SE.Detection
