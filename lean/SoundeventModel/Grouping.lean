/-
  C13: `group_sound_events` / `_compute_similarity_matrix` of
  `soundevent/geometry/operations.py`.

      for (i, se1), (j, se2) in combinations(enumerate(sound_events), 2):
          if not comparison_fn(se1, se2): continue
          col.extend([i, j]); row.extend([j, i]); values.extend([1, 1])
      matrix = coo_array((values, (col, row)), shape=(n, n))
      _, labels = connected_components(matrix)
      sequences = defaultdict(Sequence)
      for sound_event, label in zip(sound_events, labels):
          sequences[label].sound_events.append(sound_event)
      return list(sequences.values())

  Events are their positions `0 … n-1`; the comparison function is
  `adj : Nat → Nat → Bool` on positions.  scipy's `connected_components` is
  replaced by naive label merging over the similar pairs (its *result* – which
  positions share a label – is what the correspondence compares).
-/
import SoundeventModel.Basic
namespace SE.Grouping

/-- `combinations(enumerate(events), 2)`: the position pairs `i < j`, in lexicographic
    order.  These are the calls `comparison_fn(events[i], events[j])`, in this order. -/
def pairs (n : Nat) : List (Nat × Nat) :=
  (List.range n).flatMap fun i => (List.range' (i + 1) (n - (i + 1))).map fun j => (i, j)

/-- the pairs for which the comparison returned true; the matrix receives `(i, j)` and
    `(j, i)` for each of them -/
def edges (n : Nat) (adj : Nat → Nat → Bool) : List (Nat × Nat) :=
  (pairs n).filter fun p => adj p.1 p.2

/-- the relation the code puts into the matrix: `comparison_fn` evaluated on `i < j` -/
def Similar (n : Nat) (adj : Nat → Nat → Bool) (a b : Nat) : Prop := a < b ∧ b < n ∧ adj a b = true

instance (n : Nat) (adj : Nat → Nat → Bool) (a b : Nat) : Decidable (Similar n adj a b) := by
  unfold Similar; exact inferInstance

/-- the label of position `x` in a label list (positions outside the list keep their own
    number; never used for `x < n`) -/
def labelAt (l : List Nat) : Nat → Nat := fun x => l.getD x x

/-- relabel every position carrying label `b` to label `a` -/
def merge (l : List Nat) (a b : Nat) : List Nat := l.map fun v => if v = b then a else v

/-- one similar pair `(i, j)`: the component of `j` takes the label of the component of `i` -/
def step (l : List Nat) (e : Nat × Nat) : List Nat := merge l (labelAt l e.1) (labelAt l e.2)

def run (l : List Nat) (es : List (Nat × Nat)) : List Nat := es.foldl step l

/-- component labels of the positions `0 … n-1`: every position starts with its own label,
    then the similar pairs are merged one by one -/
def labelList (n : Nat) (adj : Nat → Nat → Bool) : List Nat := run (List.range n) (edges n adj)

/-- component labels (two positions are in one component iff their labels are equal) -/
def labels (n : Nat) (adj : Nat → Nat → Bool) : Nat → Nat := labelAt (labelList n adj)

/-- `x` is the first position carrying its label -/
def isFirst (lab : Nat → Nat) (x : Nat) : Bool := (List.range x).all fun y => lab y != lab x

/-- grouping by label in order of first appearance (insertion order of the `defaultdict`):
    one class per first position, in increasing order; members in input order -/
def groupBy (lab : Nat → Nat) (n : Nat) : List (List Nat) :=
  ((List.range n).filter (isFirst lab)).map fun r => (List.range n).filter fun x => lab x == lab r

/-- `group_sound_events` on positions -/
def group (n : Nat) (adj : Nat → Nat → Bool) : List (List Nat) :=
  groupBy (labelAt (labelList n adj)) n      -- = `groupBy (labels n adj) n`; the list is computed once

/-! ### the final loop of the code, literally -/

/-- `sequences[label].append(x)` on an insertion-ordered dictionary -/
def push (l x : Nat) : List (Nat × List Nat) → List (Nat × List Nat)
  | [] => [(l, [x])]
  | (k, v) :: rest => if k = l then (k, v ++ [x]) :: rest else (k, v) :: push l x rest

/-- `for x, label in zip(events, labels): sequences[label].append(x)`; `list(sequences.values())` -/
def groupLoop (lab : Nat → Nat) (n : Nat) : List (List Nat) :=
  ((List.range n).foldl (fun acc x => push (lab x) x acc) []).map (·.2)

/-! ### the executable statement of the property, for the monitor -/

/-- the property on an observed result: the observed groups are the model's groups up to
    the order of the groups (order inside a group matters), and every recorded call is on
    two different valid positions -/
def holds (n : Nat) (adj : Nat → Nat → Bool) (gs : List (List Nat)) (cs : List (Nat × Nat)) : Bool :=
  gs.length == (group n adj).length && (group n adj).all (fun g => gs.contains g)
    && cs.all (fun c => c.1 != c.2 && decide (c.1 < n) && decide (c.2 < n))

/-! ### the stages of the code, one by one (review R-C13)

  `_compute_similarity_matrix` → `coo` / `dense`;  `connected_components` → a *parameter*
  (any label list `labs` that passes `componentsOK`);  the dictionary loop → `groupLoop`. -/

/-- the coordinate list handed to `coo_array((values, (col, row)))`: for every similar pair the two
    entries `(i, j)` and `(j, i)`, in the order the code appends them; all values are `1` -/
def coo (n : Nat) (adj : Nat → Nat → Bool) : List (Nat × Nat) :=
  (edges n adj).flatMap fun e => [(e.1, e.2), (e.2, e.1)]

/-- entry `(a, b)` of the matrix: scipy sums the values of equal coordinates, every value is `1` -/
def dense (n : Nat) (adj : Nat → Nat → Bool) (a b : Nat) : Nat := (coo n adj).count (a, b)

/-- the `n × n` matrix as rows (`matrix.toarray()`) -/
def denseRows (n : Nat) (adj : Nat → Nat → Bool) : List (List Nat) :=
  (List.range n).map fun a => (List.range n).map fun b => dense n adj a b

/-- the run-time contract of `connected_components(M)` (weak connectivity, the default): `labs` has
    one label per position and two positions carry the same label iff they are in the same weak
    component of the matrix whose non-zero pattern is `m` (components computed by the model's own
    label merging over the symmetrised pattern) -/
def componentsOK (n : Nat) (m : Nat → Nat → Bool) (labs : List Nat) : Bool :=
  let l := labelList n (fun a b => m a b || m b a)
  labs.length == n &&
    (List.range n).all fun i => (List.range n).all fun j =>
      (labs.getD i 0 == labs.getD j 0) == (labelAt l i == labelAt l j)

/-! ### the same event at several positions (duplicates in the input list)

  `ev` maps positions to event identities, `A` is the comparison function on identities; the code
  works on positions, so duplicates are separate positions with `adj i j = A (ev i) (ev j)`. -/

def evAt (ev : List Nat) (i : Nat) : Nat := ev.getD i 0

def adjEv (ev : List Nat) (A : Nat → Nat → Bool) : Nat → Nat → Bool := fun i j => A (evAt ev i) (evAt ev j)

/-- the groups as lists of event identities -/
def groupEv (ev : List Nat) (A : Nat → Nat → Bool) : List (List Nat) :=
  (group ev.length (adjEv ev A)).map fun g => g.map (evAt ev)

/-- the calls as pairs of event identities -/
def callsEv (ev : List Nat) : List (Nat × Nat) := (pairs ev.length).map fun p => (evAt ev p.1, evAt ev p.2)

/-- a call on identities `(a, b)` is legitimate iff `a` and `b` stand at two different positions -/
def callOK (ev : List Nat) (c : Nat × Nat) : Bool :=
  (List.range ev.length).any fun i => (List.range ev.length).any fun j =>
    i != j && evAt ev i == c.1 && evAt ev j == c.2

/-- the property on an observed result when events may repeat: the observed groups (lists of
    identities) are the model's groups as a multiset, every call is on two different positions -/
def holdsEv (ev : List Nat) (A : Nat → Nat → Bool) (gs : List (List Nat)) (cs : List (Nat × Nat)) : Bool :=
  gs.isPerm (groupEv ev A) && cs.all (callOK ev)

/-! ### histories: several calls in one process on shared event objects (follow-up R3-C13)

  Between two calls the caller may edit an event in place / replace it by an edited copy under the same
  uuid (`edit`), or change the state of the comparison callable (`setParam`).  The comparison callable
  reads the *content* of the two events: `R p c₁ c₂` with its current parameter `p`.  The function under
  test is pure, so a call leaves no trace: `World.apply w (.call _) = w`. -/

/-- an event as the caller sees it: (uuid number, content key) -/
abbrev Tag := Nat × Nat

def tagAt (tags : List Tag) (i : Nat) : Tag := tags.getD i (0, 0)

/-- the comparison on positions, for a callable that reads the events' content -/
def adjTagged (tags : List Tag) (R : Nat → Nat → Nat → Bool) (p : Nat) : Nat → Nat → Bool :=
  fun i j => R p (tagAt tags i).2 (tagAt tags j).2

/-- the groups as lists of tags -/
def groupTagged (tags : List Tag) (R : Nat → Nat → Nat → Bool) (p : Nat) : List (List Tag) :=
  (group tags.length (adjTagged tags R p)).map fun g => g.map (tagAt tags)

/-- the calls as pairs of tags -/
def callsTagged (tags : List Tag) : List (Tag × Tag) :=
  (pairs tags.length).map fun q => (tagAt tags q.1, tagAt tags q.2)

/-- a call on tags `(a, b)` is legitimate iff `a` and `b` stand at two different positions -/
def callOKT (tags : List Tag) (c : Tag × Tag) : Bool :=
  (List.range tags.length).any fun i => (List.range tags.length).any fun j =>
    i != j && tagAt tags i == c.1 && tagAt tags j == c.2

/-- the property on one observed call of a history -/
def holdsTagged (tags : List Tag) (R : Nat → Nat → Nat → Bool) (p : Nat) (gs : List (List Tag))
    (cs : List (Tag × Tag)) : Bool :=
  gs.isPerm (groupTagged tags R p) && cs.all (callOKT tags)

/-- what the calls of a history can depend on: the content key every object carries now and the
    current parameter of the comparison callable -/
structure World where
  content : List Nat
  param : Nat
deriving Repr, DecidableEq

inductive HStep where
  /-- object `o` now carries content `c` (assignment in place, or a replaced copy under the same uuid) -/
  | edit (o c : Nat)
  /-- the comparison callable's internal parameter becomes `p` (same callable object) -/
  | setParam (p : Nat)
  /-- `group_sound_events([objects…], callable)` -/
  | call (objs : List Nat)
  /-- `group_sound_events([objects…], callable)` in which the comparison callable raised at its call number `at`
      and the caller caught the exception: the call yields no result (follow-up R6-C13) -/
  | abort (objs : List Nat) (at_ : Nat)
deriving Repr, DecidableEq

/-- a call of the function under test, completed or aborted -/
def HStep.isCall : HStep → Bool
  | .call _ => true
  | .abort _ _ => true
  | _ => false

def HStep.isAbort : HStep → Bool
  | .abort _ _ => true
  | _ => false

def World.apply (w : World) : HStep → World
  | .edit o c => { w with content := w.content.set o c }
  | .setParam p => { w with param := p }
  | .call _ => w
  | .abort _ _ => w

def worldAfter (w : World) (steps : List HStep) : World := steps.foldl World.apply w

/-- the tags of the listed objects in world `w`; `uu` is the (fixed) uuid number of every object -/
def tagsOf (uu : List Nat) (w : World) (objs : List Nat) : List Tag :=
  objs.map fun o => (uu.getD o 0, w.content.getD o 0)

/-- one call in world `w` -/
def callOut (R : Nat → Nat → Nat → Bool) (uu : List Nat) (w : World) (objs : List Nat) : List (List Tag) :=
  groupTagged (tagsOf uu w objs) R w.param

/-- the calls of a history, each with the world it is made in -/
def callWorlds : World → List HStep → List (World × List Nat)
  | _, [] => []
  | w, .call objs :: rest => (w, objs) :: callWorlds w rest
  | w, .edit o c :: rest => callWorlds (w.apply (.edit o c)) rest
  | w, .setParam p :: rest => callWorlds (w.apply (.setParam p)) rest
  | w, .abort _ _ :: rest => callWorlds w rest

/-- the results of the calls of a history, in order -/
def runHistory (R : Nat → Nat → Nat → Bool) (uu : List Nat) (w : World) (steps : List HStep) :
    List (List (List Tag)) :=
  (callWorlds w steps).map fun c => callOut R uu c.1 c.2

/-- the monitor of a whole history: one verdict per call (observed groups, observed comparison calls) -/
def checkHist (R : Nat → Nat → Nat → Bool) (uu : List Nat) (w : World) (steps : List HStep)
    (outs : List (List (List Tag) × List (Tag × Tag))) : List Bool :=
  List.zipWith (fun c o => holdsTagged (tagsOf uu c.1 c.2) R c.1.param o.1 o.2) (callWorlds w steps) outs

/-! ### how arguments reach the parameters (follow-up R3-C13)

  A declarative model of Python's argument binding, enough for calls with `k` positional arguments
  followed by keyword arguments named `K`. -/

inductive PKind where
  | posOnly | posOrKw | varPos | kwOnly | varKw
deriving DecidableEq, Repr

structure Param where
  name : String
  kind : PKind
  hasDefault : Bool
deriving DecidableEq, Repr

/-- where a parameter's value comes from -/
inductive Src where
  | pos (i : Nat) | kw (i : Nat)
deriving DecidableEq, Repr

def posNames (sig : List Param) : List String :=
  ((sig.takeWhile fun p => p.kind != .varPos).filter fun p => p.kind == .posOnly || p.kind == .posOrKw).map (·.name)

def kwNames (sig : List Param) : List String :=
  (sig.filter fun p => p.kind == .posOrKw || p.kind == .kwOnly).map (·.name)

def enumFrom {α} : Nat → List α → List (α × Nat)
  | _, [] => []
  | i, x :: xs => (x, i) :: enumFrom (i + 1) xs

/-- `f(v₀, …, v_{k-1}, K₀=…, K₁=…)`: `none` is Python's `TypeError` (too many positional arguments,
    several values for one parameter, an unexpected keyword, a missing required argument) -/
def bindArgs (sig : List Param) (k : Nat) (K : List String) : Option (List (String × Src)) :=
  let byPos := (posNames sig).take k
  if (posNames sig).length < k && !(sig.any fun p => p.kind == .varPos) then none
  else if K.any fun n => byPos.contains n then none
  else if !(sig.any fun p => p.kind == .varKw) && K.any fun n => !(kwNames sig).contains n then none
  else if sig.any fun p => !p.hasDefault && p.kind != .varPos && p.kind != .varKw
      && !byPos.contains p.name && !K.contains p.name then none
  else some (((enumFrom 0 byPos).map fun x => (x.1, Src.pos x.2)) ++ (enumFrom 0 K).map fun x => (x.1, Src.kw x.2))

/-- the signature the property's calls rely on: `sound_events`, then `comparison_fn`, both usable by
    position and by name, without defaults; whatever follows is optional and has another name -/
def sigOK (sig : List Param) : Bool :=
  match sig with
  | a :: b :: rest =>
    a == ⟨"sound_events", .posOrKw, false⟩ && b == ⟨"comparison_fn", .posOrKw, false⟩ &&
      rest.all fun p => (p.hasDefault || p.kind == .varPos || p.kind == .varKw)
        && p.name != "sound_events" && p.name != "comparison_fn"
  | _ => false

end SE.Grouping
