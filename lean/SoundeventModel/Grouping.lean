/-
  C13: `group_sound_events` / `_compute_similarity_matrix` of
  `soundevent/geometry/operations.py`.

      for (i, se1), (j, se2) in combinations(enumerate(sound_events), 2):
          if not comparison_fn(se1, se2): continue
          col.extend([i, j]); row.extend([j, i]); values.extend([1, 1])
      matrix = coo_array((values, (col, row)), shape=(n, n))
      _, labels = connected_components(matrix)
      sequences = defaultdict(Sequence)
      for sound_event, label in zip(sound_events, labels):
          sequences[label].sound_events.append(sound_event)
      return list(sequences.values())

  Events are their positions `0 … n-1`; the comparison function is
  `adj : Nat → Nat → Bool` on positions.  scipy's `connected_components` is
  replaced by naive label merging over the similar pairs (its *result* – which
  positions share a label – is what the correspondence compares).
-/
import SoundeventModel.Basic
namespace SE.Grouping

/-- `combinations(enumerate(events), 2)`: the position pairs `i < j`, in lexicographic
    order.  These are the calls `comparison_fn(events[i], events[j])`, in this order. -/
def pairs (n : Nat) : List (Nat × Nat) :=
  (List.range n).flatMap fun i => (List.range' (i + 1) (n - (i + 1))).map fun j => (i, j)

/-- the pairs for which the comparison returned true; the matrix receives `(i, j)` and
    `(j, i)` for each of them -/
def edges (n : Nat) (adj : Nat → Nat → Bool) : List (Nat × Nat) :=
  (pairs n).filter fun p => adj p.1 p.2

/-- the relation the code puts into the matrix: `comparison_fn` evaluated on `i < j` -/
def Similar (n : Nat) (adj : Nat → Nat → Bool) (a b : Nat) : Prop := a < b ∧ b < n ∧ adj a b = true

instance (n : Nat) (adj : Nat → Nat → Bool) (a b : Nat) : Decidable (Similar n adj a b) := by
  unfold Similar; exact inferInstance

/-- the label of position `x` in a label list (positions outside the list keep their own
    number; never used for `x < n`) -/
def labelAt (l : List Nat) : Nat → Nat := fun x => l.getD x x

/-- relabel every position carrying label `b` to label `a` -/
def merge (l : List Nat) (a b : Nat) : List Nat := l.map fun v => if v = b then a else v

/-- one similar pair `(i, j)`: the component of `j` takes the label of the component of `i` -/
def step (l : List Nat) (e : Nat × Nat) : List Nat := merge l (labelAt l e.1) (labelAt l e.2)

def run (l : List Nat) (es : List (Nat × Nat)) : List Nat := es.foldl step l

/-- component labels of the positions `0 … n-1`: every position starts with its own label,
    then the similar pairs are merged one by one -/
def labelList (n : Nat) (adj : Nat → Nat → Bool) : List Nat := run (List.range n) (edges n adj)

/-- component labels (two positions are in one component iff their labels are equal) -/
def labels (n : Nat) (adj : Nat → Nat → Bool) : Nat → Nat := labelAt (labelList n adj)

/-- `x` is the first position carrying its label -/
def isFirst (lab : Nat → Nat) (x : Nat) : Bool := (List.range x).all fun y => lab y != lab x

/-- grouping by label in order of first appearance (insertion order of the `defaultdict`):
    one class per first position, in increasing order; members in input order -/
def groupBy (lab : Nat → Nat) (n : Nat) : List (List Nat) :=
  ((List.range n).filter (isFirst lab)).map fun r => (List.range n).filter fun x => lab x == lab r

/-- `group_sound_events` on positions -/
def group (n : Nat) (adj : Nat → Nat → Bool) : List (List Nat) :=
  groupBy (labelAt (labelList n adj)) n      -- = `groupBy (labels n adj) n`; the list is computed once

/-! ### the final loop of the code, literally -/

/-- `sequences[label].append(x)` on an insertion-ordered dictionary -/
def push (l x : Nat) : List (Nat × List Nat) → List (Nat × List Nat)
  | [] => [(l, [x])]
  | (k, v) :: rest => if k = l then (k, v ++ [x]) :: rest else (k, v) :: push l x rest

/-- `for x, label in zip(events, labels): sequences[label].append(x)`; `list(sequences.values())` -/
def groupLoop (lab : Nat → Nat) (n : Nat) : List (List Nat) :=
  ((List.range n).foldl (fun acc x => push (lab x) x acc) []).map (·.2)

/-! ### the executable statement of the property, for the monitor -/

/-- the property on an observed result: the observed groups are the model's groups up to
    the order of the groups (order inside a group matters), and every recorded call is on
    two different valid positions -/
def holds (n : Nat) (adj : Nat → Nat → Bool) (gs : List (List Nat)) (cs : List (Nat × Nat)) : Bool :=
  gs.length == (group n adj).length && (group n adj).all (fun g => gs.contains g)
    && cs.all (fun c => c.1 != c.2 && decide (c.1 < n) && decide (c.2 < n))

/-! ### the stages of the code, one by one (review R-C13)

  `_compute_similarity_matrix` → `coo` / `dense`;  `connected_components` → a *parameter*
  (any label list `labs` that passes `componentsOK`);  the dictionary loop → `groupLoop`. -/

/-- the coordinate list handed to `coo_array((values, (col, row)))`: for every similar pair the two
    entries `(i, j)` and `(j, i)`, in the order the code appends them; all values are `1` -/
def coo (n : Nat) (adj : Nat → Nat → Bool) : List (Nat × Nat) :=
  (edges n adj).flatMap fun e => [(e.1, e.2), (e.2, e.1)]

/-- entry `(a, b)` of the matrix: scipy sums the values of equal coordinates, every value is `1` -/
def dense (n : Nat) (adj : Nat → Nat → Bool) (a b : Nat) : Nat := (coo n adj).count (a, b)

/-- the `n × n` matrix as rows (`matrix.toarray()`) -/
def denseRows (n : Nat) (adj : Nat → Nat → Bool) : List (List Nat) :=
  (List.range n).map fun a => (List.range n).map fun b => dense n adj a b

/-- the run-time contract of `connected_components(M)` (weak connectivity, the default): `labs` has
    one label per position and two positions carry the same label iff they are in the same weak
    component of the matrix whose non-zero pattern is `m` (components computed by the model's own
    label merging over the symmetrised pattern) -/
def componentsOK (n : Nat) (m : Nat → Nat → Bool) (labs : List Nat) : Bool :=
  let l := labelList n (fun a b => m a b || m b a)
  labs.length == n &&
    (List.range n).all fun i => (List.range n).all fun j =>
      (labs.getD i 0 == labs.getD j 0) == (labelAt l i == labelAt l j)

/-! ### the same event at several positions (duplicates in the input list)

  `ev` maps positions to event identities, `A` is the comparison function on identities; the code
  works on positions, so duplicates are separate positions with `adj i j = A (ev i) (ev j)`. -/

def evAt (ev : List Nat) (i : Nat) : Nat := ev.getD i 0

def adjEv (ev : List Nat) (A : Nat → Nat → Bool) : Nat → Nat → Bool := fun i j => A (evAt ev i) (evAt ev j)

/-- the groups as lists of event identities -/
def groupEv (ev : List Nat) (A : Nat → Nat → Bool) : List (List Nat) :=
  (group ev.length (adjEv ev A)).map fun g => g.map (evAt ev)

/-- the calls as pairs of event identities -/
def callsEv (ev : List Nat) : List (Nat × Nat) := (pairs ev.length).map fun p => (evAt ev p.1, evAt ev p.2)

/-- a call on identities `(a, b)` is legitimate iff `a` and `b` stand at two different positions -/
def callOK (ev : List Nat) (c : Nat × Nat) : Bool :=
  (List.range ev.length).any fun i => (List.range ev.length).any fun j =>
    i != j && evAt ev i == c.1 && evAt ev j == c.2

/-- the property on an observed result when events may repeat: the observed groups (lists of
    identities) are the model's groups as a multiset, every call is on two different positions -/
def holdsEv (ev : List Nat) (A : Nat → Nat → Bool) (gs : List (List Nat)) (cs : List (Nat × Nat)) : Bool :=
  gs.isPerm (groupEv ev A) && cs.all (callOK ev)

end SE.Grouping
