/-
  C13: `group_sound_events` / `_compute_similarity_matrix` of
  `soundevent/geometry/operations.py`.

      for (i, se1), (j, se2) in combinations(enumerate(sound_events), 2):
          if not comparison_fn(se1, se2): continue
          col.extend([i, j]); row.extend([j, i]); values.extend([1, 1])
      matrix = coo_array((values, (col, row)), shape=(n, n))
      _, labels = connected_components(matrix)
      sequences = defaultdict(Sequence)
      for sound_event, label in zip(sound_events, labels):
          sequences[label].sound_events.append(sound_event)
      return list(sequences.values())

  Events are their positions `0 … n-1`; the comparison function is
  `adj : Nat → Nat → Bool` on positions.  scipy's `connected_components` is
  replaced by naive label merging over the similar pairs (its *result* – which
  positions share a label – is what the correspondence compares).
-/
import SoundeventModel.Basic
namespace SE.Grouping

/-- `combinations(enumerate(events), 2)`: the position pairs `i < j`, in lexicographic
    order.  These are the calls `comparison_fn(events[i], events[j])`, in this order. -/
def pairs (n : Nat) : List (Nat × Nat) :=
  (List.range n).flatMap fun i => (List.range' (i + 1) (n - (i + 1))).map fun j => (i, j)

/-- the pairs for which the comparison returned true; the matrix receives `(i, j)` and
    `(j, i)` for each of them -/
def edges (n : Nat) (adj : Nat → Nat → Bool) : List (Nat × Nat) :=
  (pairs n).filter fun p => adj p.1 p.2

/-- the relation the code puts into the matrix: `comparison_fn` evaluated on `i < j` -/
def Similar (n : Nat) (adj : Nat → Nat → Bool) (a b : Nat) : Prop := a < b ∧ b < n ∧ adj a b = true

/-- the label of position `x` in a label list (positions outside the list keep their own
    number; never used for `x < n`) -/
def labelAt (l : List Nat) : Nat → Nat := fun x => l.getD x x

/-- relabel every position carrying label `b` to label `a` -/
def merge (l : List Nat) (a b : Nat) : List Nat := l.map fun v => if v = b then a else v

/-- one similar pair `(i, j)`: the component of `j` takes the label of the component of `i` -/
def step (l : List Nat) (e : Nat × Nat) : List Nat := merge l (labelAt l e.1) (labelAt l e.2)

def run (l : List Nat) (es : List (Nat × Nat)) : List Nat := es.foldl step l

/-- component labels of the positions `0 … n-1`: every position starts with its own label,
    then the similar pairs are merged one by one -/
def labelList (n : Nat) (adj : Nat → Nat → Bool) : List Nat := run (List.range n) (edges n adj)

/-- component labels (two positions are in one component iff their labels are equal) -/
def labels (n : Nat) (adj : Nat → Nat → Bool) : Nat → Nat := labelAt (labelList n adj)

/-- `x` is the first position carrying its label -/
def isFirst (lab : Nat → Nat) (x : Nat) : Bool := (List.range x).all fun y => lab y != lab x

/-- grouping by label in order of first appearance (insertion order of the `defaultdict`):
    one class per first position, in increasing order; members in input order -/
def groupBy (lab : Nat → Nat) (n : Nat) : List (List Nat) :=
  ((List.range n).filter (isFirst lab)).map fun r => (List.range n).filter fun x => lab x == lab r

/-- `group_sound_events` on positions -/
def group (n : Nat) (adj : Nat → Nat → Bool) : List (List Nat) :=
  groupBy (labelAt (labelList n adj)) n      -- = `groupBy (labels n adj) n`; the list is computed once

/-! ### the final loop of the code, literally -/

/-- `sequences[label].append(x)` on an insertion-ordered dictionary -/
def push (l x : Nat) : List (Nat × List Nat) → List (Nat × List Nat)
  | [] => [(l, [x])]
  | (k, v) :: rest => if k = l then (k, v ++ [x]) :: rest else (k, v) :: push l x rest

/-- `for x, label in zip(events, labels): sequences[label].append(x)`; `list(sequences.values())` -/
def groupLoop (lab : Nat → Nat) (n : Nat) : List (List Nat) :=
  ((List.range n).foldl (fun acc x => push (lab x) x acc) []).map (·.2)

/-! ### the executable statement of the property, for the monitor -/

/-- the property on an observed result: the observed groups are the model's groups up to
    the order of the groups (order inside a group matters), and every recorded call is on
    two different valid positions -/
def holds (n : Nat) (adj : Nat → Nat → Bool) (gs : List (List Nat)) (cs : List (Nat × Nat)) : Bool :=
  gs.length == (group n adj).length && (group n adj).all (fun g => gs.contains g)
    && cs.all (fun c => c.1 != c.2 && decide (c.1 < n) && decide (c.2 < n))

end SE.Grouping
