/-
  C03: geometry validation of `soundevent/data/geometries.py`.

  Three layers, in the order the code runs them:

  1. pydantic's typed parse of the annotated shape of `coordinates`
     (`float`, `List[float]`, `List[List[float]]`, …) on a raw numeric structure `Raw`;
  2. the class's `@field_validator("coordinates")` functions, in definition order, on the
     *typed* value (lists of lists of numbers – exactly what the Python functions see and
     return).  These are the functions the symbolic tie (1b) re-derives from the source;
  3. the resulting object, as a `SE.Geom` (shared with the other geometry properties).

  `Spec` is the property's declarative wording; nothing in `validate` refers to it.
  `geometryValidate` is the dispatch of `geometry_validate` (mode handling, tag table).
-/
import SoundeventModel.Geometry
namespace SE.Validate


/-- what can come out of a construction attempt besides an object -/
inductive VErr
  | invalid   -- pydantic `ValidationError` / the `ValueError` of `geometry_validate`
  | crash     -- an exception that is *not* a validation error escaping from a validator
              -- (`IndexError` of `v[0][0]`); `C03_no_crash` shows it never happens
  deriving DecidableEq, Repr, Inhabited

def VErr.name : VErr → String
  | .invalid => "invalid"
  | .crash => "crash:IndexError"

/-- a numeric coordinate structure: numbers and (arbitrarily nested) lists -/
inductive Raw
  | num (q : Rat)
  | arr (xs : List Raw)
  deriving Repr, Inhabited

/-- the nine geometry classes -/
inductive GType
  | timeStamp | timeInterval | point | lineString | polygon
  | boundingBox | multiPoint | multiLineString | multiPolygon
  deriving DecidableEq, Repr, Inhabited

def GType.all : List GType :=
  [.timeStamp, .timeInterval, .point, .lineString, .polygon,
   .boundingBox, .multiPoint, .multiLineString, .multiPolygon]

/-- class name (= the default of its `type` field = its key in `GEOMETRY_MAPPING`) -/
def GType.tag : GType → String
  | .timeStamp => "TimeStamp"
  | .timeInterval => "TimeInterval"
  | .point => "Point"
  | .lineString => "LineString"
  | .polygon => "Polygon"
  | .boundingBox => "BoundingBox"
  | .multiPoint => "MultiPoint"
  | .multiLineString => "MultiLineString"
  | .multiPolygon => "MultiPolygon"

def GType.ofTag (s : String) : Option GType := GType.all.find? (fun ty => ty.tag == s)

def GType.of : Geom → GType
  | .timeStamp _ => .timeStamp
  | .timeInterval .. => .timeInterval
  | .point .. => .point
  | .lineString _ => .lineString
  | .polygon _ => .polygon
  | .boundingBox .. => .boundingBox
  | .multiPoint _ => .multiPoint
  | .multiLineString _ => .multiLineString
  | .multiPolygon _ => .multiPolygon

abbrev R (α : Type) := Except VErr α

/-- results can be compared (core has no `DecidableEq (Except ε α)`); a named instance in this
    namespace, so that it cannot clash with another module's -/
instance decEqR {α : Type} [DecidableEq α] : DecidableEq (R α) := fun a b =>
  match a, b with
  | .ok x, .ok y =>
    if h : x = y then isTrue (by rw [h]) else isFalse (fun h' => by injection h' with h''; exact h h'')
  | .error x, .error y =>
    if h : x = y then isTrue (by rw [h]) else isFalse (fun h' => by injection h' with h''; exact h h'')
  | .ok _, .error _ => isFalse (fun h => by cases h)
  | .error _, .ok _ => isFalse (fun h => by cases h)
def bad {α} : R α := .error .invalid
def crash {α} : R α := .error .crash

/-! ### Layer 1 — pydantic's typed parse -/

abbrev L1 := List Rat
abbrev L2 := List L1
abbrev L3 := List L2
abbrev L4 := List L3

/-- a loop that stops at the first error and collects the results -/
def mapE {α β} (f : α → R β) : List α → R (List β)
  | [] => .ok []
  | x :: xs =>
    match f x with
    | .error e => .error e
    | .ok y =>
      match mapE f xs with
      | .error e => .error e
      | .ok ys => .ok (y :: ys)

/-- a loop that stops at the first error -/
def forE {α} (f : α → R Unit) : List α → R Unit
  | [] => .ok ()
  | x :: xs =>
    match f x with
    | .error e => .error e
    | .ok () => forE f xs

/-- `float`: a number (ints are numbers); a list is not a number -/
def pNum : Raw → R Rat
  | .num q => .ok q
  | .arr _ => bad

/-- `List[T]`: a list each of whose items parses as `T`; a number is not a list -/
def pList {α} (p : Raw → R α) : Raw → R (List α)
  | .num _ => bad
  | .arr xs => mapE p xs

def pL1 : Raw → R L1 := pList pNum
def pL2 : Raw → R L2 := pList pL1
def pL3 : Raw → R L3 := pList pL2
def pL4 : Raw → R L4 := pList pL3

/-! ### Layer 2 — the field validators, as written -/

/-- body of `for time, frequency in …:` — the tuple unpacking raises `ValueError` unless the
    item has exactly two entries, which is what rejects a wrong inner arity -/
def chkPoint : L1 → R Unit
  | [time, frequency] =>
    if time < 0 then bad
    else if frequency < 0 ∨ frequency > MAXF then bad
    else .ok ()
  | _ => bad

/-- `TimeStamp._positive_times` -/
def vTimeStamp (v : Rat) : R Rat := if v < 0 then bad else .ok v

/-- `TimeInterval._validate_time_interval` -/
def vTimeInterval1 (v : L1) : R L1 :=
  match v with
  | [a, b] => if a > b then bad else .ok v
  | _ => bad                                     -- `len(v) != 2`

/-- `TimeInterval._positive_times` -/
def vTimeInterval2 (v : L1) : R L1 := if v.any (· < 0) then bad else .ok v

/-- `Point._validate_coordinates` -/
def vPoint (v : L1) : R L1 :=
  match v with
  | [time, frequency] =>
    if time < 0 then bad
    else if frequency < 0 ∨ frequency > MAXF then bad
    else .ok v
  | _ => bad                                     -- `len(v) != 2`

/-- `LineString._validate_coordinates` -/
def vLineString1 (v : L2) : R L2 :=
  if v.length < 2 then bad
  else match forE chkPoint v with
    | .error e => .error e
    | .ok () => .ok v

/-- first entry of the first / last item: `v[0][0]`, `v[-1][0]` (`IndexError` if absent) -/
def firstTime (v : L2) : R Rat :=
  match v.head? with
  | some (t :: _) => .ok t
  | _ => crash

def lastTime (v : L2) : R Rat :=
  match v.getLast? with
  | some (t :: _) => .ok t
  | _ => crash

/-- `LineString._is_ordered_by_time` -/
def vLineString2 (v : L2) : R L2 :=
  match firstTime v, lastTime v with
  | .ok startTime, .ok endTime => if startTime > endTime then .ok v.reverse else .ok v
  | _, _ => crash

def chkRing (ring : L2) : R Unit := if ring.length < 3 then bad else forE chkPoint ring

/-- `Polygon._validate_coordinates` -/
def vPolygon (v : L3) : R L3 :=
  if v.length < 1 then bad
  else match forE chkRing v with
    | .error e => .error e
    | .ok () => .ok v

/-- `BoundingBox._validate_coordinates` -/
def vBoundingBox (v : L1) : R L1 :=
  match v with
  | [startTime, lowFreq, endTime, highFreq] =>
    if startTime < 0 then bad
    else if lowFreq < 0 ∨ lowFreq > MAXF then bad
    else if endTime < 0 then bad
    else if highFreq < 0 ∨ highFreq > MAXF then bad
    else
      let (startTime, endTime) := if startTime > endTime then (endTime, startTime) else (startTime, endTime)
      let (lowFreq, highFreq) := if lowFreq > highFreq then (highFreq, lowFreq) else (lowFreq, highFreq)
      .ok [startTime, lowFreq, endTime, highFreq]
  | _ => bad                                     -- `len(v) != 4`

/-- `MultiPoint._validate_coordinates` -/
def vMultiPoint (v : L2) : R L2 :=
  if v.length < 1 then bad
  else match forE chkPoint v with
    | .error e => .error e
    | .ok () => .ok v

def chkLine (line : L2) : R Unit := if line.length < 2 then bad else forE chkPoint line

/-- `MultiLineString._validate_coordinates` -/
def vMultiLineString1 (v : L3) : R L3 :=
  if v.length < 1 then bad
  else match forE chkLine v with
    | .error e => .error e
    | .ok () => .ok v

def chkForward (line : L2) : R Unit :=
  match firstTime line, lastTime line with
  | .ok startTime, .ok endTime => if ¬ (startTime < endTime) then bad else .ok ()
  | _, _ => crash

/-- `MultiLineString._each_line_is_ordered_by_time` -/
def vMultiLineString2 (v : L3) : R L3 :=
  match forE chkForward v with
  | .error e => .error e
  | .ok () => .ok v

def chkPoly (polygon : L3) : R Unit := if polygon.length < 1 then bad else forE chkRing polygon

/-- `MultiPolygon._validate_coordinates` -/
def vMultiPolygon (v : L4) : R L4 :=
  if v.length < 1 then bad
  else match forE chkPoly v with
    | .error e => .error e
    | .ok () => .ok v

/-- the chain of after-validators of a field: the next one sees what the previous returned -/
def fvTimeInterval (v : L1) : R L1 := vTimeInterval1 v >>= vTimeInterval2
def fvLineString (v : L2) : R L2 := vLineString1 v >>= vLineString2
def fvMultiLineString (v : L3) : R L3 := vMultiLineString1 v >>= vMultiLineString2

/-! ### Layer 3 — the object -/

def toPt : L1 → R Pt
  | [t, f] => .ok (t, f)
  | _ => crash            -- a validated point list always has two entries (`C03_no_crash`)

def toPts : L2 → R (List Pt) := mapE toPt
def toRings : L3 → R (List (List Pt)) := mapE toPts
def toPolys : L4 → R (List (List (List Pt))) := mapE toRings

def mkTimeInterval : L1 → R Geom
  | [s, e] => .ok (.timeInterval s e)
  | _ => crash

def mkPoint : L1 → R Geom
  | [t, f] => .ok (.point t f)
  | _ => crash

def mkBoundingBox : L1 → R Geom
  | [s, l, e, h] => .ok (.boundingBox s l e h)
  | _ => crash

/-- validation of the `coordinates` field of class `ty`: typed parse, field validators, object -/
def validate : GType → Raw → R Geom
  | .timeStamp, r => pNum r >>= vTimeStamp >>= fun v => .ok (.timeStamp v)
  | .timeInterval, r => pL1 r >>= fvTimeInterval >>= mkTimeInterval
  | .point, r => pL1 r >>= vPoint >>= mkPoint
  | .lineString, r => pL2 r >>= fvLineString >>= toPts >>= fun ps => .ok (.lineString ps)
  | .polygon, r => pL3 r >>= vPolygon >>= toRings >>= fun rs => .ok (.polygon rs)
  | .boundingBox, r => pL1 r >>= vBoundingBox >>= mkBoundingBox
  | .multiPoint, r => pL2 r >>= vMultiPoint >>= toPts >>= fun ps => .ok (.multiPoint ps)
  | .multiLineString, r => pL3 r >>= fvMultiLineString >>= toRings >>= fun ls => .ok (.multiLineString ls)
  | .multiPolygon, r => pL4 r >>= vMultiPolygon >>= toPolys >>= fun ps => .ok (.multiPolygon ps)

/-! ### `coordinates` of an object, as `model_dump` / `model_dump_json` writes them -/

def encPt (p : Pt) : Raw := .arr [.num p.1, .num p.2]
def encPts (ps : List Pt) : Raw := .arr (ps.map encPt)
def encRings (rs : List (List Pt)) : Raw := .arr (rs.map encPts)
def encPolys (ps : List (List (List Pt))) : Raw := .arr (ps.map encRings)

def dump : Geom → Raw
  | .timeStamp t => .num t
  | .timeInterval s e => .arr [.num s, .num e]
  | .point t f => encPt (t, f)
  | .lineString ps => encPts ps
  | .polygon rs => encRings rs
  | .boundingBox s l e h => .arr [.num s, .num l, .num e, .num h]
  | .multiPoint ps => encPts ps
  | .multiLineString ls => encRings ls
  | .multiPolygon ps => encPolys ps

/-! ### The property's declarative wording -/

def TimeOk (t : Rat) : Prop := 0 ≤ t
def FreqOk (f : Rat) : Prop := 0 ≤ f ∧ f ≤ MAXF
def PtOk (p : Pt) : Prop := TimeOk p.1 ∧ FreqOk p.2

/-- the line's first point is strictly earlier than its last -/
def Forward (line : List Pt) : Prop :=
  ∃ p q, line.head? = some p ∧ line.getLast? = some q ∧ p.1 < q.1

/-- the line's first point is not later than its last -/
def NotBackward (line : List Pt) : Prop :=
  ∀ p q, line.head? = some p → line.getLast? = some q → p.1 ≤ q.1

def RingOk (ring : List Pt) : Prop := 3 ≤ ring.length ∧ ∀ p ∈ ring, PtOk p
def PolyOk (rings : List (List Pt)) : Prop := 1 ≤ rings.length ∧ ∀ ring ∈ rings, RingOk ring
def LineOk (line : List Pt) : Prop := 2 ≤ line.length ∧ (∀ p ∈ line, PtOk p) ∧ Forward line

/-- "every time is ≥ 0, every frequency lies in [0, MAX_FREQUENCY] and the per-type rules hold
    (interval start ≤ end, at least two points per line, three per ring, one member per
    multi-geometry, each line of a multi-line strictly forward in time)", said of coordinates that
    already have the shape of the type -/
def Admissible : Geom → Prop
  | .timeStamp t => TimeOk t
  | .timeInterval s e => TimeOk s ∧ TimeOk e ∧ s ≤ e
  | .point t f => TimeOk t ∧ FreqOk f
  | .lineString ps => 2 ≤ ps.length ∧ ∀ p ∈ ps, PtOk p
  | .polygon rs => PolyOk rs
  | .boundingBox s l e h => TimeOk s ∧ FreqOk l ∧ TimeOk e ∧ FreqOk h
  | .multiPoint ps => 1 ≤ ps.length ∧ ∀ p ∈ ps, PtOk p
  | .multiLineString ls => 1 ≤ ls.length ∧ ∀ l ∈ ls, LineOk l
  | .multiPolygon ps => 1 ≤ ps.length ∧ ∀ poly ∈ ps, PolyOk poly

/-- The input is acceptable for class `ty`: "the coordinates have the shape the type requires"
    (they are the coordinates of some value `c` of that class – a number, a pair, a list of
    pairs, …) and the values are admissible. -/
def Spec (ty : GType) (r : Raw) : Prop :=
  ∃ c : Geom, GType.of c = ty ∧ r = dump c ∧ Admissible c

/-- a line string is turned round when it runs backwards in time -/
def orient (ps : List Pt) : List Pt :=
  match ps.head?, ps.getLast? with
  | some p, some q => if p.1 > q.1 then ps.reverse else ps
  | _, _ => ps

/-- normalisation: a reversed box is swapped, a backwards line string is reversed, everything
    else is kept as given -/
def normalise : Geom → Geom
  | .boundingBox s l e h => .boundingBox (min s e) (min l h) (max s e) (max l h)
  | .lineString ps => .lineString (orient ps)
  | g => g

/-- normal form -/
def Normal : Geom → Prop
  | .boundingBox s l e h => s ≤ e ∧ l ≤ h
  | .lineString ps => NotBackward ps
  | _ => True

/-- everything an existing geometry object satisfies (the "valid domain" the other geometry
    properties quantify over) -/
def Valid (g : Geom) : Prop := Admissible g ∧ Normal g

/-! ### Executable form of the declarative wording (monitor on the real code's I/O).
    Written against `dump`/`Admissible`, not against `validate`; tied to them by theorems. -/

def mapO {α β} (f : α → Option β) : List α → Option (List β)
  | [] => some []
  | x :: xs =>
    match f x, mapO f xs with
    | some y, some ys => some (y :: ys)
    | _, _ => none

def dPt : Raw → Option Pt
  | .arr [.num t, .num f] => some (t, f)
  | _ => none

def dList {α} (d : Raw → Option α) : Raw → Option (List α)
  | .arr xs => mapO d xs
  | .num _ => none

/-- the value of class `ty` whose coordinates are `r` (inverse of `dump`; shape only) -/
def decode : GType → Raw → Option Geom
  | .timeStamp, .num t => some (.timeStamp t)
  | .timeStamp, _ => none
  | .timeInterval, .arr [.num s, .num e] => some (.timeInterval s e)
  | .timeInterval, _ => none
  | .point, .arr [.num t, .num f] => some (.point t f)
  | .point, _ => none
  | .boundingBox, .arr [.num s, .num l, .num e, .num h] => some (.boundingBox s l e h)
  | .boundingBox, _ => none
  | .lineString, r => (dList dPt r).map .lineString
  | .multiPoint, r => (dList dPt r).map .multiPoint
  | .polygon, r => (dList (dList dPt) r).map .polygon
  | .multiLineString, r => (dList (dList dPt) r).map .multiLineString
  | .multiPolygon, r => (dList (dList (dList dPt)) r).map .multiPolygon

def timeOkB (t : Rat) : Bool := decide (0 ≤ t)
def freqOkB (f : Rat) : Bool := decide (0 ≤ f) && decide (f ≤ MAXF)
def ptOkB (p : Pt) : Bool := timeOkB p.1 && freqOkB p.2
def ringOkB (ring : List Pt) : Bool := decide (3 ≤ ring.length) && ring.all ptOkB
def polyOkB (rs : List (List Pt)) : Bool := decide (1 ≤ rs.length) && rs.all ringOkB
def forwardB (line : List Pt) : Bool :=
  match line.head?, line.getLast? with
  | some p, some q => decide (p.1 < q.1)
  | _, _ => false
def lineOkB (line : List Pt) : Bool := decide (2 ≤ line.length) && line.all ptOkB && forwardB line

def admissibleB : Geom → Bool
  | .timeStamp t => timeOkB t
  | .timeInterval s e => timeOkB s && timeOkB e && decide (s ≤ e)
  | .point t f => timeOkB t && freqOkB f
  | .lineString ps => decide (2 ≤ ps.length) && ps.all ptOkB
  | .polygon rs => polyOkB rs
  | .boundingBox s l e h => timeOkB s && freqOkB l && timeOkB e && freqOkB h
  | .multiPoint ps => decide (1 ≤ ps.length) && ps.all ptOkB
  | .multiLineString ls => decide (1 ≤ ls.length) && ls.all lineOkB
  | .multiPolygon ps => decide (1 ≤ ps.length) && ps.all polyOkB

def specB (ty : GType) (r : Raw) : Bool :=
  match decode ty r with
  | some c => admissibleB c
  | none => false

def notBackwardB (ps : List Pt) : Bool :=
  match ps.head?, ps.getLast? with
  | some p, some q => decide (p.1 ≤ q.1)
  | _, _ => true

def normalB : Geom → Bool
  | .boundingBox s l e h => decide (s ≤ e) && decide (l ≤ h)
  | .lineString ps => notBackwardB ps
  | _ => true

/-- The property, as a test of one observed input/output pair of the implementation:
    rejected exactly when the wording rejects, and an accepted object is the normalised input, in
    normal form, of the class asked for. -/
def holdsB (ty : GType) (r : Raw) : R Geom → Bool
  | .error e => e == .invalid && !specB ty r
  | .ok g =>
    specB ty r && normalB g && (GType.of g == ty) &&
      (match decode ty r with
       | some c => g == normalise c
       | none => false)

/-! ### `geometry_validate`: modes and the tag table -/

/-- a Python class of the table: which validators it runs, the `Literal` its `type` field
    accepts and that field's default -/
structure Cls where
  ty : GType
  literal : String
  dflt : String
  deriving DecidableEq, Repr

/-- `GEOMETRY_MAPPING` as (key, class) pairs; re-extracted from the code by the table obligation -/
abbrev Table := List (String × Cls)

def table : Table := GType.all.map fun ty => (ty.tag, ⟨ty, ty.tag, ty.tag⟩)

/-- every key leads to the class of that name, whose `type` field accepts and defaults to the key;
    all nine tags are present -/
def WellFormed (tbl : Table) : Prop :=
  (∀ ty : GType, tbl.lookup ty.tag = some ⟨ty, ty.tag, ty.tag⟩) ∧
  (∀ k c, tbl.lookup k = some c → GType.ofTag k = some c.ty)

def wellFormedB (tbl : Table) : Bool :=
  GType.all.all (fun ty => tbl.lookup ty.tag == some ⟨ty, ty.tag, ty.tag⟩) &&
  tbl.all (fun kc => GType.ofTag kc.1 == some kc.2.ty)

/-- a plain Python value as the caller / `json.loads` produces it -/
inductive Doc
  | dict (type : Option String) (coordinates : Option Raw)   -- a dict (other keys are ignored)
  | other                                                     -- list, number, None, …

/-- the object handed to `geometry_validate` -/
inductive PyObj
  | str (parsed : Option Doc)     -- a string, and what `json.loads` makes of it (`none`: not JSON)
  | val (d : Doc)                 -- a dict or another plain value
  | attrs (type : Option String) (coordinates : Option Raw)   -- an object with these attributes

inductive Mode
  | json | dict | attributes
  | other                          -- any other mode string
  deriving DecidableEq, Repr

/-- what pydantic reads the fields from -/
inductive Source
  | mapping (type : Option String) (coordinates : Option Raw)
  | object (type : Option String) (coordinates : Option Raw)
  | unusable                       -- a str, list, number: not a mapping, no attributes

/-- an accepted object: the value of its `type` field and the geometry (whose constructor is
    its class) -/
abbrev Obj := String × Geom

/-- `cls.model_validate(obj, from_attributes=…)` / `cls(**kwargs)` -/
def classValidate (c : Cls) (fromAttributes : Bool) : Source → R Obj
  | .unusable => bad
  | .object t r => if fromAttributes then fields t r else bad
  | .mapping t r => fields t r
where
  fields (t : Option String) (r : Option Raw) : R Obj :=
    -- `type: Literal[tag] = tag`
    match (match t with | none => .ok c.dflt | some s => if s = c.literal then .ok s else bad : R String) with
    | .error e => .error e
    | .ok tag =>
      -- `coordinates` is required
      match r with
      | none => bad
      | some r => (validate c.ty r).map fun g => (tag, g)

/-- direct construction `Cls(type=…, coordinates=…)` (absent keyword = `none`) -/
def construct (c : Cls) (type : Option String) (coordinates : Option Raw) : R Obj :=
  classValidate c false (.mapping type coordinates)

def PyObj.source : PyObj → Source
  | .str _ => .unusable
  | .val (.dict t r) => .mapping t r
  | .val .other => .unusable
  | .attrs t r => .object t r

def geometryValidate (tbl : Table) (mode : Mode) (obj : PyObj) : R Obj :=
  -- if mode == "json": str check, json.loads, mode = "dict"
  let step1 : R (Mode × PyObj) :=
    if mode = .json then
      match obj with
      | .str (some d) => .ok (.dict, .val d)
      | _ => bad
    else .ok (mode, obj)
  match step1 with
  | .error e => .error e
  | .ok (mode, obj) =>
    let geomType : R String :=
      if mode = .dict then
        match obj with
        | .val (.dict (some t) _) => .ok t
        | _ => bad                               -- not a dict / no "type" key
      else
        match obj with
        | .attrs (some t) _ => .ok t
        | _ => bad                               -- no `type` attribute
    match geomType with
    | .error e => .error e
    | .ok t =>
      match tbl.lookup t with
      | none => bad
      | some c => classValidate c (mode = .attributes) obj.source

/-- `model_dump_json()` of an accepted object, as `json.loads` reads it back -/
def dumpDoc (o : Obj) : Doc := .dict (some o.1) (some (dump o.2))

/-! ### `BaseGeometry.geom_type()` and the way the table is built -/

/-- `cls.geom_type()`: the default of the class's `type` field -/
def Cls.geomType (c : Cls) : String := c.dflt

/-- `GEOMETRY_MAPPING = {geom.geom_type(): geom for geom in ALL_GEOMETRY_TYPES}` (a dict
    comprehension: a later class with the same key replaces an earlier one; `List.lookup` finds the
    first pair, hence the `reverse`) -/
def buildTable (classes : List Cls) : Table := (classes.map fun c => (c.geomType, c)).reverse

/-- the nine classes in the order of `ALL_GEOMETRY_TYPES` / of the `Geometry` union -/
def allClasses : List Cls := GType.all.map fun ty => ⟨ty, ty.tag, ty.tag⟩

/-- every listed class is one of the nine, with its own name as `Literal` and default of `type`, and
    each of the nine is listed -/
def MembersOk (members : List Cls) : Prop :=
  (∀ c ∈ members, c = ⟨c.ty, c.ty.tag, c.ty.tag⟩) ∧ (∀ ty : GType, ⟨ty, ty.tag, ty.tag⟩ ∈ members)

def membersOkB (members : List Cls) : Bool :=
  members.all (fun c => c == ⟨c.ty, c.ty.tag, c.ty.tag⟩) &&
  GType.all.all (fun ty => members.contains ⟨ty, ty.tag, ty.tag⟩)

/-! ### A field annotated `Geometry` (the `Union` of the classes): the construction path of every
    model that holds a geometry (`SoundEvent.geometry`, the AOEF `SoundEventObject.geometry`) -/

/-- pydantic validating one value against `Union[members…]` (smart mode): every member class is
    tried with its own validation (python mode, `from_attributes` off); an exception that is not a
    validation error escapes from whichever member raised it; otherwise the first member that
    accepted wins – for an input that carries a type tag at most one member can accept
    (`C03_union_unique`), so pydantic's exactness ranking among several successes cannot matter
    there; it is *not* modelled for tag-less inputs. -/
def pickUnion : List (R Obj) → R Obj
  | [] => bad
  | r :: rs =>
    match r, pickUnion rs with
    | .error .crash, _ => crash
    | _, .error .crash => crash
    | .ok o, _ => .ok o
    | .error .invalid, rest => rest

def unionValidate (members : List Cls) (src : Source) : R Obj :=
  pickUnion (members.map fun c => classValidate c false src)

/-! ### An existing geometry instance handed to `geometry_validate` -/

/-- `cls.model_validate(inst, …)` for an `inst` that is itself an instance of geometry class
    `inst.1`: pydantic returns an instance of the requested class *as it is*
    (`revalidate_instances = 'never'`, the default) – its fields are not looked at; an instance of
    another class is read like any other attribute object.  (Instances whose `coordinates` still
    have the shape of their class: `Obj` cannot hold anything else.) -/
def classValidateInstance (c : Cls) (fromAttributes : Bool) (inst : Cls × Obj) : R Obj :=
  if inst.1 = c then .ok inst.2
  else classValidate c fromAttributes (.object (some inst.2.1) (some (dump inst.2.2)))

/-- `geometry_validate(inst, mode)`: not a `str`, not a `dict`; it has a `type` attribute -/
def geometryValidateInstance (tbl : Table) (mode : Mode) (inst : Cls × Obj) : R Obj :=
  if mode = .json ∨ mode = .dict then bad
  else
    match tbl.lookup inst.2.1 with
    | none => bad
    | some c => classValidateInstance c (mode = .attributes) inst

/-- an existing geometry instance handed to a field annotated with the union (`SoundEvent(geometry=g)`):
    pydantic returns an instance of a member class as it is; an instance of no member is refused
    (python mode reads no attributes) -/
def unionValidateInstance (members : List Cls) (inst : Cls × Obj) : R Obj :=
  if members.contains inst.1 then .ok inst.2 else bad

/-! ### Attribute objects: where Python finds an attribute

    `geometry_validate(obj, mode="attributes")` reads `obj.type` and – through pydantic's
    `from_attributes` – `obj.coordinates` with `getattr`.  Python's lookup order: a *data descriptor* of
    the class (a `property`, a `__slots__` member, a named-tuple field) first, then the instance
    `__dict__`, then a plain class attribute, then `__getattr__`.  An attribute object is described by
    where each of the two names lives. -/

/-- what the class namespace holds under a name -/
inductive ClsAttr (α : Type)
  | plain (v : α)            -- `type = "Point"` in the class body
  | data (v : Option α)      -- a data descriptor and what its getter returns (`none`: it raises
                             -- `AttributeError` – a slot that was never assigned)
  deriving Repr

/-- the places one attribute name can live in -/
structure Where (α : Type) where
  inst : Option α := none            -- entry of the instance `__dict__` (what `vars(obj)` shows)
  cls : Option (ClsAttr α) := none   -- entry of the class namespace
  dyn : Option α := none             -- answer of `__getattr__`
  deriving Repr

/-- `getattr(obj, name)` (`none`: `AttributeError`) -/
def Where.get {α} (w : Where α) : Option α :=
  match w.cls with
  | some (.data (some v)) => some v
  | some (.data none) => w.dyn
  | some (.plain v) => (match w.inst with | some x => some x | none => some v)
  | none => (match w.inst with | some x => some x | none => w.dyn)

/-- an attribute object, as far as the two names the entry point reads are concerned -/
structure AttrObj where
  type : Where String
  coordinates : Where Raw

/-- what `geometry_validate` is handed: the object seen through `getattr` -/
def PyObj.ofAttrObj (o : AttrObj) : PyObj := .attrs o.type.get o.coordinates.get

/-- the (wrong) reading `dict(vars(obj))`: the instance `__dict__` only -/
def PyObj.ofVars (o : AttrObj) : PyObj := .attrs o.type.inst o.coordinates.inst

/-- ways of carrying a tag and coordinates as attributes -/
inductive Carrier
  | namespace      -- `SimpleNamespace`, a plain class with instance attributes, an ordinary dataclass
  | classType      -- `type` in the class body, `coordinates` on the instance
  | classBoth      -- both in the class body
  | property       -- read-only properties over private fields (an ORM-like row)
  | slots          -- `__slots__`, `dataclass(slots=True)`, named-tuple fields
  | getattr        -- answered by `__getattr__`
  | shadowed (other : String)       -- class body says `other`, the instance attribute overrides it
  | propShadow (other : String)     -- a property; the instance `__dict__` holds `other` (ignored)
  deriving Repr

def Carrier.make (k : Carrier) (t : String) (r : Raw) : AttrObj :=
  match k with
  | .namespace => ⟨{ inst := some t }, { inst := some r }⟩
  | .classType => ⟨{ cls := some (.plain t) }, { inst := some r }⟩
  | .classBoth => ⟨{ cls := some (.plain t) }, { cls := some (.plain r) }⟩
  | .property => ⟨{ cls := some (.data (some t)) }, { cls := some (.data (some r)) }⟩
  | .slots => ⟨{ cls := some (.data (some t)) }, { cls := some (.data (some r)) }⟩
  | .getattr => ⟨{ dyn := some t }, { dyn := some r }⟩
  | .shadowed other => ⟨{ inst := some t, cls := some (.plain other) }, { inst := some r }⟩
  | .propShadow other => ⟨{ inst := some other, cls := some (.data (some t)) }, { cls := some (.data (some r)) }⟩

/-! ### Call signatures: how Python binds positional and keyword arguments -/

inductive PKind
  | posOnly | posOrKw | kwOnly
  deriving DecidableEq, Repr

/-- a parameter: name, kind, default (a string constant; `none`: required) -/
structure Param where
  name : String
  kind : PKind
  dflt : Option String
  deriving DecidableEq, Repr

abbrev Sig := List Param

/-- an argument value: something the caller passed, or a default of the signature -/
inductive Arg (α : Type)
  | given (a : α)
  | dflt (s : String)
  deriving Repr

/-- positional arguments fill the positional parameters in order (`none`: `TypeError`, too many);
    returns the bindings and the parameters still unbound -/
def bindPos {α} : Sig → List α → Option (List (String × Arg α) × Sig)
  | ps, [] => some ([], ps)
  | [], _ :: _ => none
  | p :: ps, a :: as =>
    if p.kind = .kwOnly then none
    else (bindPos ps as).map fun (b, rest) => ((p.name, .given a) :: b, rest)

/-- keyword arguments bind an unbound parameter of that name that is not positional-only (`none`:
    `TypeError` – unknown keyword, or a value for a parameter that is already bound) -/
def bindKw {α} (rest : Sig) : List (String × α) → Option (List (String × Arg α) × Sig)
  | [] => some ([], rest)
  | (k, a) :: kws =>
    match rest.find? (fun p => p.name == k && p.kind != .posOnly) with
    | none => none
    | some _ => (bindKw (rest.filter (fun q => q.name != k)) kws).map fun (b, r) => ((k, .given a) :: b, r)

/-- every parameter left over takes its default (`none`: `TypeError`, a required one is missing) -/
def bindDefaults {α} : Sig → Option (List (String × Arg α))
  | [] => some []
  | p :: ps =>
    match p.dflt, bindDefaults ps with
    | some d, some b => some ((p.name, .dflt d) :: b)
    | _, _ => none

/-- `f(*pos, **kw)`: the value every parameter receives -/
def bindArgs {α} (sig : Sig) (pos : List α) (kw : List (String × α)) : Option (List (String × Arg α)) :=
  match bindPos sig pos with
  | none => none
  | some (b1, rest) =>
    match bindKw rest kw with
    | none => none
    | some (b2, rest) =>
      match bindDefaults rest with
      | none => none
      | some b3 => some (b1 ++ b2 ++ b3)

/-- the signature `geometry_validate(obj, mode="json", …)`: `obj` then `mode`, both passable by
    position or by name, `mode` defaulting to `"json"`; anything after them has a default -/
def gvSigOkB (sig : Sig) : Bool :=
  match sig with
  | p :: q :: extra =>
    p == ⟨"obj", .posOrKw, none⟩ && q == ⟨"mode", .posOrKw, some "json"⟩ && extra.all (·.dflt.isSome)
  | _ => false

/-- the signature of a geometry class's constructor: keyword-only `type` (default: the class's tag)
    and required keyword-only `coordinates`, in either order; anything else has a default -/
def ctorSigOkB (tag : String) (sig : Sig) : Bool :=
  match sig with
  | p :: q :: extra =>
    ((p == ⟨"type", .kwOnly, some tag⟩ && q == ⟨"coordinates", .kwOnly, none⟩) ||
     (p == ⟨"coordinates", .kwOnly, none⟩ && q == ⟨"type", .kwOnly, some tag⟩)) &&
    extra.all (·.dflt.isSome)
  | _ => false

/-- what a call hands over: the object and a mode string -/
inductive GvArg
  | obj (o : PyObj)
  | mode (m : String)

def Mode.ofString : String → Mode
  | "json" => .json
  | "dict" => .dict
  | "attributes" => .attributes
  | _ => .other

/-- `geometry_validate(*pos, **kw)` under signature `sig`: bind, then run the body on what `obj` and
    `mode` received (`none`: `TypeError` from the call itself, or an argument of the wrong sort –
    never generated) -/
def callGeometryValidate (tbl : Table) (sig : Sig) (pos : List GvArg) (kw : List (String × GvArg)) :
    Option (R Obj) :=
  match bindArgs sig pos kw with
  | none => none
  | some b =>
    match b.lookup "obj", b.lookup "mode" with
    | some (.given (.obj o)), some (.given (.mode m)) => some (geometryValidate tbl (Mode.ofString m) o)
    | some (.given (.obj o)), some (.dflt m) => some (geometryValidate tbl (Mode.ofString m) o)
    | _, _ => none

/-- what a constructor call hands over -/
inductive CtorArg
  | type (t : String)
  | coordinates (r : Raw)

/-- `Cls(**kw)` under signature `sig` (pydantic models take keywords only) -/
def callConstruct (c : Cls) (sig : Sig) (kw : List (String × CtorArg)) : Option (R Obj) :=
  match bindArgs sig [] kw with
  | none => none
  | some b =>
    match b.lookup "type", b.lookup "coordinates" with
    | some (.given (.type t)), some (.given (.coordinates r)) => some (construct c (some t) (some r))
    | some (.dflt _), some (.given (.coordinates r)) => some (construct c none (some r))
    | _, _ => none

/-! ### Histories: consecutive calls in one process

    The code keeps no state between calls, so the model of a history is the list of the models of
    its calls.  `runWith` is the general shape of a stateful implementation (a cache, a memo, a
    leaked option): it threads a state; the code's step ignores and preserves it. -/

/-- one call of any entry point, on the content the argument objects carry *at that moment* -/
inductive Call
  | construct (c : Cls) (type : Option String) (coordinates : Option Raw)
  | classValidate (c : Cls) (fromAttributes : Bool) (src : Source)
  | geometryValidate (mode : Mode) (obj : PyObj)
  | union (src : Source)

def Call.eval (tbl : Table) (members : List Cls) : Call → R Obj
  | .construct c t r => SE.Validate.construct c t r
  | .classValidate c fa src => SE.Validate.classValidate c fa src
  | .geometryValidate m o => SE.Validate.geometryValidate tbl m o
  | .union src => unionValidate members src

/-- a process running calls one after the other with some state `σ` carried along -/
def runWith {σ} (step : σ → Call → σ × R Obj) : σ → List Call → List (R Obj)
  | _, [] => []
  | s, c :: cs => let (s', r) := step s c; r :: runWith step s' cs

/-- the code: stateless -/
def history (tbl : Table) (members : List Cls) (calls : List Call) : List (R Obj) :=
  runWith (σ := Unit) (fun s c => (s, c.eval tbl members)) () calls

end SE.Validate
