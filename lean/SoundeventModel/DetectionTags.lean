/-
  C08, the tag side of `evaluate_clip`.

  `Detection.lean` / `DetectionGeo.lean` see a tag as the encoder's answer for it (a vocabulary
  index or nothing).  Where that answer comes from is pinned here: a sound event carries real
  tags (`Encoding.Tag`: a `Term` with all its fields and a value), the vocabulary is a list of
  such tags, and the answer is `Encoding.encode` — the model of `SimpleEncoder` that property C19
  ties to `evaluation/encoding.py` (a dictionary keyed by `(tag.term, tag.value)`, equality =
  field equality of the term and the value).  Nothing about an encoder is re-derived here.

  `pairScoreSpec` is the property's clause "the score of a pair is the probability the prediction
  gives to the annotation's class" said with tag equality only (no index, no encoder):
  the annotation's class is its first tag that is a vocabulary tag; the probability of a
  vocabulary tag is the stored score of the last predicted tag *equal* to it (0 if there is
  none); an annotation without vocabulary tag is scored with what the prediction leaves for
  "none of the classes".
-/
import SoundeventModel.Detection
import SoundeventModel.Encoding
namespace SE.Detection
open SE SE.Metrics SE.Encoding

/-- the annotated tags as the first layer consumes them -/
def encTags (vocab : List Tag) (ts : List Tag) : List (Option Nat) := ts.map (encode vocab)

/-- the predicted tags as the first layer consumes them (`cast`: binary64 → binary32 store) -/
def encPredTags (cast : Rat → Rat) (vocab : List Tag) (ps : List PredictedTag) : List (Option Nat × Rat) :=
  ps.map (fun p => (encode vocab p.tag, cast p.score))

/-- a predicted / annotated sound event with its real tags -/
structure TPred where
  id : Nat
  hasGeom : Bool := true
  tags : List PredictedTag
  deriving Repr, Inhabited

structure TAnn where
  id : Nat
  hasGeom : Bool := true
  tags : List Tag
  deriving Repr, Inhabited

def TPred.enc (cast : Rat → Rat) (vocab : List Tag) (p : TPred) : SEPred :=
  { id := p.id, hasGeom := p.hasGeom, tags := encPredTags cast vocab p.tags }

def TAnn.enc (vocab : List Tag) (a : TAnn) : SEAnn :=
  { id := a.id, hasGeom := a.hasGeom, tags := encTags vocab a.tags }

/-- `evaluate_clip` on sound events with real tags: `create_tag_encoder(tags)` then the first layer -/
def evalClipT (cast : Rat → Rat) (vocab : List Tag) (preds : List TPred) (anns : List TAnn) (ms : List MEntry) :
    Option (List Entry) :=
  evalClip vocab.length (preds.map (TPred.enc cast vocab)) (anns.map (TAnn.enc vocab)) ms

/-! ### the property's reading of the score, by tag equality only -/

/-- the annotation's class: its first tag that is a vocabulary tag -/
def annClassTag (vocab : List Tag) (tags : List Tag) : Option Tag := tags.find? (· ∈ vocab)

/-- the probability a prediction gives to a tag: the stored score of its last predicted tag equal
    to it, 0 when it predicts no such tag -/
def probOf (cast : Rat → Rat) (ps : List PredictedTag) (t : Tag) : Rat :=
  match lastWhere (fun p => decide (p.tag = t)) ps with
  | some p => cast p.score
  | none => 0

/-- score of a paired prediction / annotation -/
def pairScoreSpec (cast : Rat → Rat) (vocab : List Tag) (annTags : List Tag) (ps : List PredictedTag) : Rat :=
  match annClassTag vocab annTags with
  | some t => probOf cast ps t
  | none => 1 - (vocab.map (probOf cast ps)).sum

/-- is any truth labelled? (the run-level metrics need one) -/
def labelled (vocab : List Tag) (annTags : List Tag) : Bool := (annClassTag vocab annTags).isSome

end SE.Detection
