import SoundeventModel.Ops.Common
import SoundeventModel.Affinity
import SoundeventModel.AffinityCall
namespace SE.Ops.C06
open Lean SE SE.Affinity

def getObs (j : Json) : Except String Obs := do
  return ⟨← fldRat j "area", ← fldRat j "st", ← fldRat j "en"⟩

/-- the measured values of a case (absent sides read as zeros and are never consulted) -/
def getObserved (a : Json) : Except String Observed := do
  let os ← match fldOpt a "obs" with
    | none => pure []
    | some v => (← getArr v).mapM (fun j => match j with
        | .null => pure (default : Obs)
        | j => getObs j)
  let it ← match fldOpt a "inter" with
    | none => pure []
    | some v => (← getArr v).mapM getRatList
  return { obs := fun k => os.getD k default, inter := fun i j => (it.getD i []).getD j 0 }

/-- which values of shapely a side needs: "interval" | "box" (closed forms), "plain"
    (`geometry_to_shapely g`), "buffered" (`geometry_to_shapely (buffer_geometry g tb fb)`) -/
def sidePlan (g : Geom) (tb fb : Rat) : Json :=
  match prepare unitGeos g tb fb with
  | .error e => Json.mkObj [("raise", Json.str e.name)]
  | .ok p =>
    let kind := match p with
      | .interval .. => "interval"
      | .box .. => "box"
      | .shape .. => if bufferTypes.contains g.tag then "buffered" else "plain"
    Json.mkObj [("kind", Json.str kind), ("time", boolJ (isTime p))]

def verdictJ (v : ContractVerdict) : Json :=
  Json.mkObj [("sane", boolJ v.sane), ("inter_le_min", boolJ v.interLeMin), ("symm", boolJ v.symm),
    ("self", boolJ v.self), ("disjoint", boolJ v.disjoint)]

/-- an argument of a call: `{"geom": g}` or `{"num": "n/d"}` -/
def getArg (j : Json) : Except String Arg :=
  match fldOpt j "geom", fldOpt j "num" with
  | some g, _ => do return .geom (← getGeom g)
  | none, some x => do return .num (← getRat x)
  | none, none => .error "C06: an argument is {\"geom\": ...} or {\"num\": ...}"

def getNamed (j : Json) : Except String (String × Arg) := do
  match ← getArr j with
  | [n, v] => return (← n.getStr?, ← getArg v)
  | _ => .error "C06: a keyword argument is [name, arg]"

/-- a signature: `[[name, default | null], ...]` -/
def getSig (j : Json) : Except String Sig := do
  (← getArr j).mapM fun p => do
    match ← getArr p with
    | [n, .null] => return (← n.getStr?, none)
    | [n, d] => return (← n.getStr?, some (← getArg d))
    | _ => .error "C06: a parameter is [name, default | null]"

def handle (op : String) (a : Json) : Except String Json := do
  match op with
  | "bind" =>
    -- follow-up 3: Python's argument binding on the signature table the harness extracted by introspection
    let sig ← getSig (← fld a "sig")
    let pos ← (← fldArr a "pos").mapM getArg
    let kw ← (← fldArr a "kw").mapM getNamed
    match bindCall sig pos kw with
    | .ok c => return Json.mkObj [("val", Json.mkObj [("g1", geomJ c.1), ("g2", geomJ c.2.1), ("tb", ratJ c.2.2.1),
        ("fb", ratJ c.2.2.2)]), ("wellformed", boolJ (WellFormedSig sig))]
    | .error e => return Json.mkObj [("raise", Json.str e.name), ("wellformed", boolJ (WellFormedSig sig))]
  | "plan" =>
    let g1 ← getGeom (← fld a "g1")
    let g2 ← getGeom (← fld a "g2")
    let tb ← fldRat a "tb"
    let fb ← fldRat a "fb"
    return Json.mkObj [("s1", sidePlan g1 tb fb), ("s2", sidePlan g2 tb fb)]
  | "affinity" | "affinity_pair" =>
    let g1 ← getGeom (← fld a "g1")
    let g2 ← getGeom (← fld a "g2")
    let tb ← fldRat a "tb"
    let fb ← fldRat a "fb"
    let O ← getObserved a
    let measured := (fldOpt a "boxes_measured").bind (fun j => j.getBool?.toOption) |>.getD false
    -- side 0 is g1, side 1 is g2 (equal geometries share side 0: GEOS is deterministic)
    let G := observedGeos O (fun g => if g == g1 then 0 else 1) measured
    let r12 := affinity G g1 g2 tb fb
    let r21 := affinity G g2 g1 tb fb
    match r12, r21 with
    | .ok x, .ok y => return valJ (if op == "affinity" then ratJ x else ratsJ [x, y])
    | .error e, _ => return raiseJ e
    | _, .error e => return raiseJ e
  | "contract" =>
    let O ← getObserved a
    let tol ← fldRat a "tol"
    return verdictJ (checkContract tol O)
  | "judge" =>
    let o : Observation := ⟨← fldRat a "a12", ← fldRat a "a21", ← fldBool a "same", ← fldBool a "extent_pos",
      ← fldBool a "disjoint"⟩
    let v := judgeObs o
    return Json.mkObj [("all", boolJ v.all), ("range", boolJ v.range), ("symm", boolJ v.symm),
      ("self", boolJ v.self), ("disjoint", boolJ v.disjoint)]
  | "affinity64" =>
    -- the whole computation in binary64 (`affinityR rnd64`) on the measured GEOS values: both argument orders
    let g1 ← getGeom (← fld a "g1")
    let g2 ← getGeom (← fld a "g2")
    let tb ← fldRat a "tb"
    let fb ← fldRat a "fb"
    let O ← getObserved a
    let G := observedGeos O (fun g => if g == g1 then 0 else 1) true
    match affinity64 G g1 g2 tb fb, affinity64 G g2 g1 tb fb with
    | .ok x, .ok y => return valJ (ratsJ [x, y])
    | .error e, _ => return raiseJ e
    | _, .error e => return raiseJ e
  | "rnd64" =>
    return valJ (ratJ (rnd64 (← fldRat a "x")))
  | "bounds" =>
    -- `compute_bounds` / `geometry_to_shapely(g).bounds` in closed form (contract `BoundsExact`)
    let g ← getGeom (← fld a "g")
    match g.bounds with
    | some b => return valJ (boundsJ b)
    | none => return Json.mkObj [("raise", Json.str "empty")]
  | "time_band" =>
    -- follow-up 2: a time-branch pair with one GEOS-buffered side `g` and a time-only side `h`: the band of
    -- admissible affinities from the coordinates of `g` (`bufferedTimeBand`; theorems C06_buffered_time_band,
    -- C06_pipeline_affinity_band), the single value for the ideal buffer, and the verdict on observed values
    let g ← getGeom (← fld a "g")
    let h ← getGeom (← fld a "h")
    let tb ← fldRat a "tb"
    let fb ← fldRat a "fb"
    let rho ← fldRat a "rho"
    let kappa ← fldRat a "kappa"
    let tol ← fldRat a "tol"
    let atol ← fldRat a "atol"
    let vals ← getRatList (← fld a "vals")
    match bufferedTimeBand rho kappa tol g h tb fb, bufferedTimeBand 1 1 0 g h tb fb with
    | some band, some ideal =>
      return Json.mkObj [("band", ratsJ [band.1, band.2]), ("ideal", ratJ ideal.1),
        ("ok", boolJ (vals.all (inBand band atol)))]
    | _, _ => return Json.mkObj [("raise", Json.str "not-a-buffered-time-pair")]
  | "buffer_contract" =>
    -- the buffered shape of a GEOS-buffered geometry against the pipeline contract, from the coordinates:
    -- time extent, frequency extent, area
    let g ← getGeom (← fld a "g")
    let tb ← fldRat a "tb"
    let fb ← fldRat a "fb"
    let rho ← fldRat a "rho"
    let rhoA ← fldRat a "rho_area"     -- radius of the disc inscribed in a polygonal circle (also for a point)
    let kt ← fldRat a "kappa_t"
    let kf ← fldRat a "kappa_f"
    let tol ← fldRat a "tol"
    let st ← fldRat a "st"
    let en ← fldRat a "en"
    let lo ← fldRat a "lo"
    let hi ← fldRat a "hi"
    let area ← fldRat a "area"
    match g.bounds with
    | some b =>
      if geosBuffered g then
        return Json.mkObj [("time", boolJ (extentWithin rho kt tol b.st b.en tb st en)),
          ("freq", boolJ (freqWithin rho kf tol b.lo b.hi fb lo hi)),
          ("area", boolJ (areaWithin rhoA kt kf tol g b tb fb area)),
          ("raw", boundsJ b)]
      else return Json.mkObj [("raise", Json.str "not-geos-buffered")]
    | none => return Json.mkObj [("raise", Json.str "empty")]
  | "area" =>
    -- shoelace area of an unbuffered (multi)polygon / box (contract `AreaExact`)
    let g ← getGeom (← fld a "g")
    match closedArea g with
    | some x => return valJ (ratJ x)
    | none => return Json.mkObj [("raise", Json.str "not-polygonal")]
  | "iou" =>
    return valJ (ratJ (iouC (← fldRat a "a") (← fldRat a "b") (← fldRat a "i")))
  | "time_iou" =>
    return valJ (ratJ (timeIoU (← fldRat a "s1") (← fldRat a "e1") (← fldRat a "s2") (← fldRat a "e2")))
  | _ => .error s!"C06: unknown op {op}"

end SE.Ops.C06
