import SoundeventModel.Ops.Common
import SoundeventModel.Ops.C09
import SoundeventModel.Ops.C19
import SoundeventModel.DetectionGeo
import SoundeventModel.DetectionTags
import SoundeventModel.DetectionHistory
namespace SE.Ops.C08
open Lean SE SE.Metrics SE.Detection SE.Ops.C09

/-! tag side: a request carries the tag pool (real tags: a term with all its fields and a value, as the
    harness reads them from the objects it hands to the code) and the vocabulary as positions in the pool; a
    sound event names its tags by pool position.  The class indices are computed here, by the model of the
    encoder (C19). -/

def getPoolTag (j : Json) : Except String Encoding.Tag := C19.getTag j

structure TagCtx where
  pool : Array Encoding.Tag
  vocab : List Encoding.Tag

def TagCtx.get (c : TagCtx) (j : Json) : Except String Encoding.Tag := do
  let i ← j.getNat?
  match c.pool[i]? with
  | some t => return t
  | none => .error s!"tag {i} is not in the pool"

def getTagCtx (a : Json) : Except String TagCtx := do
  let pool := (← (← fldArr a "pool").mapM getPoolTag).toArray
  let c0 : TagCtx := { pool := pool, vocab := [] }
  let vocab ← (← fldArr a "vocab").mapM c0.get
  return { pool := pool, vocab := vocab }

def TagCtx.tags (c : TagCtx) (j : Json) : Except String (List Encoding.Tag) := do (← getArr j).mapM c.get

/-- predicted tags `[[pool position, score]]`; the score is the binary32 value the array stores (so `cast` is
    the identity in the ops) -/
def TagCtx.predTags (c : TagCtx) (j : Json) : Except String (List Encoding.PredictedTag) := do
  (← getArr j).mapM (fun p => do
    match ← getArr p with
    | [i, s] => return { tag := ← c.get i, score := ← getRat s }
    | _ => .error "predicted tag: expected [pool position, score]")

def TagCtx.pred (c : TagCtx) (j : Json) (hasGeom : Bool) : Except String SEPred := do
  return (TPred.enc id c.vocab { id := ← fldNat j "id", hasGeom := hasGeom, tags := ← c.predTags (← fld j "tags") })

def TagCtx.ann (c : TagCtx) (j : Json) (hasGeom : Bool) : Except String SEAnn := do
  return (TAnn.enc c.vocab { id := ← fldNat j "id", hasGeom := hasGeom, tags := ← c.tags (← fld j "tags") })

def TagCtx.sePred (c : TagCtx) (j : Json) : Except String SEPred := do c.pred j (← fldBool j "geom")
def TagCtx.seAnn (c : TagCtx) (j : Json) : Except String SEAnn := do c.ann j (← fldBool j "geom")

def TagCtx.detPreds (c : TagCtx) (j : Json) : Except String (List (Nat × PredClip)) := do
  (← getArr j).mapM (fun x => do
    return (← fldNat x "clip",
      { events := ← (← getArr (optFld x "events" (arrJ []))).mapM c.sePred,
        matcher := ← getMatcher (optFld x "matcher" (arrJ [])) }))

def TagCtx.seAnns (c : TagCtx) (j : Json) : Except String (List (Nat × List SEAnn)) := do
  (← getArr j).mapM (fun x => do
    return (← fldNat x "clip", ← (← getArr (optFld x "events" (arrJ []))).mapM c.seAnn))

/-! geometry layer: a sound event travels with its geometry (`null` or `{"type", "coordinates"}`) -/

def getOptGeom (j : Json) (k : String) : Except String (Option Geom) :=
  match fldOpt j k with
  | none => .ok none
  | some g => do return some (← getGeom g)

def getGPred (c : TagCtx) (j : Json) : Except String GPred := do
  let g ← getOptGeom j "geom"
  return (← c.pred j g.isSome, g)

def getGAnn (c : TagCtx) (j : Json) : Except String GAnn := do
  let g ← getOptGeom j "geom"
  return (← c.ann j g.isSome, g)

def getPairs (j : Json) : Except String (List (Nat × Nat)) := do
  (← getArr j).mapM (fun p => do
    match ← getNatList p with
    | [a, b] => return (a, b)
    | _ => .error "pair: expected [row, column]")

def getRows (j : Json) : Except String (List (List Rat)) := do (← getArr j).mapM getRatList

/-- a sound event with real tags and its geometry, as `Call.evaluate` carries it -/
def getTGPred (c : TagCtx) (j : Json) : Except String TGPred := do
  let g ← getOptGeom j "geom"
  return ({ id := ← fldNat j "id", hasGeom := g.isSome, tags := ← c.predTags (← fld j "tags") }, g)

def getTGAnn (c : TagCtx) (j : Json) : Except String TGAnn := do
  let g ← getOptGeom j "geom"
  return ({ id := ← fldNat j "id", hasGeom := g.isSome, tags := ← c.tags (← fld j "tags") }, g)

def getTGeoPreds (tc : TagCtx) (j : Json) : Except String (List (Nat × TGeoClip)) := do
  (← getArr j).mapM (fun c => do
    return (← fldNat c "clip",
      { events := ← (← getArr (optFld c "events" (arrJ []))).mapM (getTGPred tc),
        pairs := ← getPairs (optFld c "pairs" (arrJ [])),
        measured := ← getRows (optFld c "measured" (arrJ [])) }))

def getTGeoAnns (tc : TagCtx) (j : Json) : Except String (List (Nat × List TGAnn)) := do
  (← getArr j).mapM (fun c => do
    return (← fldNat c "clip", ← (← getArr (optFld c "events" (arrJ []))).mapM (getTGAnn tc)))

/-- a call of the library as a value (`Detection.Call`) -/
def getCall (a : Json) : Except String Call := do
  match ← fldStr a "call" with
  | "evaluate" =>
    let tc ← getTagCtx a
    return .evaluate tc.vocab (← getTGeoPreds tc (← fld a "predictions")) (← getTGeoAnns tc (← fld a "annotations"))
  | "match" =>
    return .matchG (← fldRat a "tb") (← fldRat a "fb") (← (← fldArr a "src").mapM getGeom)
      (← (← fldArr a "tgt").mapM getGeom) (← getPairs (optFld a "pairs" (arrJ []))) (← getRows (optFld a "measured" (arrJ [])))
  | k => .error s!"C08: unknown call {k}"

def mentryJ (e : MEntry) : Json := arrJ [optJ natJ e.src, optJ natJ e.tgt, ratJ e.aff]

def answerJ : Answer → Json
  | .evaluation r => exceptJ evalJ r
  | .matches (.ok ms) => valJ (arrJ (ms.map mentryJ))
  | .matches (.error _) => raiseJ .key

def getOptGeoms (j : Json) : Except String (List (Option Geom)) := do
  (← getArr j).mapM (fun g => match g with
    | .null => pure none
    | g => do return some (← getGeom g))

def verdictName : PairVerdict → String
  | .overlap => "overlap"
  | .disjoint => "disjoint"
  | .noGeometry => "no-geometry"
  | .unknown => "unknown"

def handle (op : String) (a : Json) : Except String Json := do
  match op with
  | "detection" =>
    -- `sound_event_detection` end to end (the matcher's answer per evaluated clip is part of the request)
    let tc ← getTagCtx a
    return exceptJ evalJ (soundEventDetection tc.vocab.length (← tc.detPreds (← fld a "predictions"))
      (← tc.seAnns (← fld a "annotations")))
  | "eval_clip" =>
    -- `evaluate_clip` on one clip: the matches and the items they contribute, in the code's order
    let tc ← getTagCtx a
    let preds ← (← fldArr a "preds").mapM tc.sePred
    let anns ← (← fldArr a "anns").mapM tc.seAnn
    let ms ← getMatcher (← fld a "matcher")
    match evalClip tc.vocab.length preds anns ms with
    | none => return raiseJ .key
    | some es => return valJ (Json.mkObj [("entries", arrJ (es.map entryJ)), ("score", ratJ (clipScore es))])
  | "matcher_cover" =>
    -- the contract of the matcher the theorems assume (C08_matcher_contract_checked)
    return boolJ (matcherCoverB (← fldNat a "n") (← fldNat a "m") (← getMatcher (← fld a "matcher")))
  | "holds_cover" =>
    -- executable statement of the cover property on the matches the code returned (C08_holds_cover_sound)
    let ms ← (← fldArr a "matches").mapM (fun j => do
      match ← getArr j with
      | [s, t] => return (← getOptNat s, ← getOptNat t)
      | _ => .error "match: expected [src, tgt]")
    return boolJ (holdsCoverB (← fldNat a "n_pred") (← fldNat a "n_ann") ms)
  | "detection_geo" =>
    -- `sound_event_detection` with the matcher inside the model: geometries, the pairs the assignment solver
    -- chose and (for types without closed form) measured affinities are part of the request
    let tc ← getTagCtx a
    return exceptJ evalJ (evaluateT tc.vocab (← fldRat a "tb") (← fldRat a "fb")
      (← getTGeoPreds tc (← fld a "predictions")) (← getTGeoAnns tc (← fld a "annotations")))
  | "call" =>
    -- one call of a history (`Detection.Call`): an evaluation (matched with the default buffers `tb0`, `fb0`
    -- of the matcher's signature) or a direct call of the matcher with its own buffers; C08_history
    return answerJ (callModel (← fldRat a "tb0") (← fldRat a "fb0") (← getCall a))
  | "pair_score" =>
    -- "the score of a pair is the probability the prediction gives to the annotation's class", by tag equality
    -- only (C08_pair_score_is_class_probability): one answer per (annotated tags, predicted tags) of the request
    let tc ← getTagCtx a
    let out ← (← fldArr a "pairs").mapM (fun p => do
      let ann ← tc.tags (← fld p "ann")
      let pred ← tc.predTags (← fld p "pred")
      return Json.mkObj [("score", ratJ (pairScoreSpec id tc.vocab ann pred)), ("labelled", boolJ (labelled tc.vocab ann))])
    return arrJ out
  | "encode_pool" =>
    -- the model's encoder on every tag of the pool; is the vocabulary free of repeated (equal) tags?
    let tc ← getTagCtx a
    return Json.mkObj [("enc", arrJ (tc.pool.toList.map (fun t => optJ natJ (Encoding.encode tc.vocab t)))),
                       ("nodup", boolJ (decide tc.vocab.Nodup))]
  | "judge_pairs" =>
    -- "a prediction is paired with an annotation only if their geometries overlap", decided by end-point
    -- comparisons on the matches the code really returned (C08_judge_sound)
    let tb ← fldRat a "tb"
    let pg ← getOptGeoms (← fld a "pred_geoms")
    let ag ← getOptGeoms (← fld a "ann_geoms")
    let ms ← (← fldArr a "matches").mapM (fun j => do
      match ← getArr j with
      | [s, t] => return (← getOptNat s, ← getOptNat t)
      | _ => .error "match: expected [src, tgt]")
    let vs := ms.filterMap (fun m => match m.1, m.2 with
      | some i, some j => some (arrJ [natJ i, natJ j, Json.str (verdictName (judgePair tb pg ag i j))])
      | _, _ => none)
    return Json.mkObj [("ok", boolJ (judgePairs tb pg ag ms)), ("pairs", arrJ vs)]
  | "affinity_cf" =>
    -- closed-form affinity and overlap of two geometries (`null` when a type has no closed form)
    let g1 ← getGeom (← fld a "g1")
    let g2 ← getGeom (← fld a "g2")
    let tb ← fldRat a "tb"
    let fb ← fldRat a "fb"
    if closed g1 && closed g2 then
      match affinityCF tb fb g1 g2 with
      | .ok v => return Json.mkObj [("affinity", ratJ v), ("overlap", optJ boolJ (overlapCF tb g1 g2))]
      | .error e => return raiseJ e
    else return Json.mkObj [("affinity", Json.null), ("overlap", Json.null)]
  | "valid_assignment" =>
    -- the contract of the assignment solver (C07_contract_decidable)
    return boolJ (Matching.validAssignment (← fldNat a "n") (← fldNat a "m") (← getPairs (← fld a "pairs")))
  | "pair_clips" =>
    let ps ← getNatList (← fld a "predictions")
    let as ← getNatList (← fld a "annotations")
    return natsJ ((Detection.pairClips (ps.map (fun k => (k, ()))) (as.map (fun k => (k, ())))).map (·.1))
  | _ => .error s!"C08: unknown op {op}"

end SE.Ops.C08
