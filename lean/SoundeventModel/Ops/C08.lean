import SoundeventModel.Ops.Common
import SoundeventModel.Ops.C09
import SoundeventModel.DetectionGeo
namespace SE.Ops.C08
open Lean SE SE.Metrics SE.Detection SE.Ops.C09

/-! geometry layer: a sound event travels with its geometry (`null` or `{"type", "coordinates"}`) -/

def getOptGeom (j : Json) (k : String) : Except String (Option Geom) :=
  match fldOpt j k with
  | none => .ok none
  | some g => do return some (← getGeom g)

def getGPred (j : Json) : Except String GPred := do
  let g ← getOptGeom j "geom"
  return ({ id := ← fldNat j "id", hasGeom := g.isSome, tags := ← getPredTags (← fld j "tags") }, g)

def getGAnn (j : Json) : Except String GAnn := do
  let g ← getOptGeom j "geom"
  return ({ id := ← fldNat j "id", hasGeom := g.isSome, tags := ← getTagList (← fld j "tags") }, g)

def getPairs (j : Json) : Except String (List (Nat × Nat)) := do
  (← getArr j).mapM (fun p => do
    match ← getNatList p with
    | [a, b] => return (a, b)
    | _ => .error "pair: expected [row, column]")

def getRows (j : Json) : Except String (List (List Rat)) := do (← getArr j).mapM getRatList

def getGeoPreds (j : Json) : Except String (List (Nat × GeoClip)) := do
  (← getArr j).mapM (fun c => do
    return (← fldNat c "clip",
      { events := ← (← getArr (optFld c "events" (arrJ []))).mapM getGPred,
        pairs := ← getPairs (optFld c "pairs" (arrJ [])),
        measured := ← getRows (optFld c "measured" (arrJ [])) }))

def getGeoAnns (j : Json) : Except String (List (Nat × List GAnn)) := do
  (← getArr j).mapM (fun c => do
    return (← fldNat c "clip", ← (← getArr (optFld c "events" (arrJ []))).mapM getGAnn))

def getOptGeoms (j : Json) : Except String (List (Option Geom)) := do
  (← getArr j).mapM (fun g => match g with
    | .null => pure none
    | g => do return some (← getGeom g))

def verdictName : PairVerdict → String
  | .overlap => "overlap"
  | .disjoint => "disjoint"
  | .noGeometry => "no-geometry"
  | .unknown => "unknown"

def handle (op : String) (a : Json) : Except String Json := do
  match op with
  | "detection" =>
    -- `sound_event_detection` end to end (the matcher's answer per evaluated clip is part of the request)
    let C ← fldNat a "C"
    return exceptJ evalJ (soundEventDetection C (← getDetPreds (← fld a "predictions")) (← getSEAnns (← fld a "annotations")))
  | "eval_clip" =>
    -- `evaluate_clip` on one clip: the matches and the items they contribute, in the code's order
    let C ← fldNat a "C"
    let preds ← (← fldArr a "preds").mapM getSEPred
    let anns ← (← fldArr a "anns").mapM getSEAnn
    let ms ← getMatcher (← fld a "matcher")
    match evalClip C preds anns ms with
    | none => return raiseJ .key
    | some es => return valJ (Json.mkObj [("entries", arrJ (es.map entryJ)), ("score", ratJ (clipScore es))])
  | "matcher_cover" =>
    -- the contract of the matcher the theorems assume (C08_matcher_contract_checked)
    return boolJ (matcherCoverB (← fldNat a "n") (← fldNat a "m") (← getMatcher (← fld a "matcher")))
  | "holds_cover" =>
    -- executable statement of the cover property on the matches the code returned (C08_holds_cover_sound)
    let ms ← (← fldArr a "matches").mapM (fun j => do
      match ← getArr j with
      | [s, t] => return (← getOptNat s, ← getOptNat t)
      | _ => .error "match: expected [src, tgt]")
    return boolJ (holdsCoverB (← fldNat a "n_pred") (← fldNat a "n_ann") ms)
  | "detection_geo" =>
    -- `sound_event_detection` with the matcher inside the model: geometries, the pairs the assignment solver
    -- chose and (for types without closed form) measured affinities are part of the request
    let C ← fldNat a "C"
    return exceptJ evalJ (soundEventDetectionGeo C (← fldRat a "tb") (← fldRat a "fb")
      (← getGeoPreds (← fld a "predictions")) (← getGeoAnns (← fld a "annotations")))
  | "judge_pairs" =>
    -- "a prediction is paired with an annotation only if their geometries overlap", decided by end-point
    -- comparisons on the matches the code really returned (C08_judge_sound)
    let tb ← fldRat a "tb"
    let pg ← getOptGeoms (← fld a "pred_geoms")
    let ag ← getOptGeoms (← fld a "ann_geoms")
    let ms ← (← fldArr a "matches").mapM (fun j => do
      match ← getArr j with
      | [s, t] => return (← getOptNat s, ← getOptNat t)
      | _ => .error "match: expected [src, tgt]")
    let vs := ms.filterMap (fun m => match m.1, m.2 with
      | some i, some j => some (arrJ [natJ i, natJ j, Json.str (verdictName (judgePair tb pg ag i j))])
      | _, _ => none)
    return Json.mkObj [("ok", boolJ (judgePairs tb pg ag ms)), ("pairs", arrJ vs)]
  | "affinity_cf" =>
    -- closed-form affinity and overlap of two geometries (`null` when a type has no closed form)
    let g1 ← getGeom (← fld a "g1")
    let g2 ← getGeom (← fld a "g2")
    let tb ← fldRat a "tb"
    let fb ← fldRat a "fb"
    if closed g1 && closed g2 then
      match affinityCF tb fb g1 g2 with
      | .ok v => return Json.mkObj [("affinity", ratJ v), ("overlap", optJ boolJ (overlapCF tb g1 g2))]
      | .error e => return raiseJ e
    else return Json.mkObj [("affinity", Json.null), ("overlap", Json.null)]
  | "valid_assignment" =>
    -- the contract of the assignment solver (C07_contract_decidable)
    return boolJ (Matching.validAssignment (← fldNat a "n") (← fldNat a "m") (← getPairs (← fld a "pairs")))
  | "pair_clips" =>
    let ps ← getNatList (← fld a "predictions")
    let as ← getNatList (← fld a "annotations")
    return natsJ ((Detection.pairClips (ps.map (fun k => (k, ()))) (as.map (fun k => (k, ())))).map (·.1))
  | _ => .error s!"C08: unknown op {op}"

end SE.Ops.C08
