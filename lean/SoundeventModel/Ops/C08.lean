import SoundeventModel.Ops.Common
import SoundeventModel.Ops.C09
namespace SE.Ops.C08
open Lean SE SE.Metrics SE.Detection SE.Ops.C09

def handle (op : String) (a : Json) : Except String Json := do
  match op with
  | "detection" =>
    -- `sound_event_detection` end to end (the matcher's answer per evaluated clip is part of the request)
    let C ← fldNat a "C"
    return exceptJ evalJ (soundEventDetection C (← getDetPreds (← fld a "predictions")) (← getSEAnns (← fld a "annotations")))
  | "eval_clip" =>
    -- `evaluate_clip` on one clip: the matches and the items they contribute, in the code's order
    let C ← fldNat a "C"
    let preds ← (← fldArr a "preds").mapM getSEPred
    let anns ← (← fldArr a "anns").mapM getSEAnn
    let ms ← getMatcher (← fld a "matcher")
    match evalClip C preds anns ms with
    | none => return raiseJ .key
    | some es => return valJ (Json.mkObj [("entries", arrJ (es.map entryJ)), ("score", ratJ (clipScore es))])
  | "matcher_cover" =>
    -- the contract of the matcher the theorems assume (C08_matcher_contract_checked)
    return boolJ (matcherCoverB (← fldNat a "n") (← fldNat a "m") (← getMatcher (← fld a "matcher")))
  | "holds_cover" =>
    -- executable statement of the cover property on the matches the code returned (C08_holds_cover_sound)
    let ms ← (← fldArr a "matches").mapM (fun j => do
      match ← getArr j with
      | [s, t] => return (← getOptNat s, ← getOptNat t)
      | _ => .error "match: expected [src, tgt]")
    return boolJ (holdsCoverB (← fldNat a "n_pred") (← fldNat a "n_ann") ms)
  | "pair_clips" =>
    let ps ← getNatList (← fld a "predictions")
    let as ← getNatList (← fld a "annotations")
    return natsJ ((Detection.pairClips (ps.map (fun k => (k, ()))) (as.map (fun k => (k, ())))).map (·.1))
  | _ => .error s!"C08: unknown op {op}"

end SE.Ops.C08
