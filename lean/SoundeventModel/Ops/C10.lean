import SoundeventModel.Ops.Common
import SoundeventModel.Crowsetta
import SoundeventModel.CrowsettaHist
namespace SE.Ops.C10
open Lean SE SE.Crowsetta

/-! JSON glue of C10.

  functions travel as finite tables with a default:
    {"table": [[key, res], …], "default": res}
  res (tag functions / tag mapping entries): {"single": tag} | {"many": [tag, …]} | {"raise": "invalid" | "key" | …}
  res (label functions):                     {"ret": "label"} | {"raise": …}
-/

def getErr (s : String) : Except String Err :=
  match s with
  | "invalid" => .ok .invalid
  | "key" => .ok .key
  | "notimpl" => .ok .notImpl
  | "type" => .ok .type
  | _ => .error s!"unknown error class {s}"

def getTerm (j : Json) : Except String Crowsetta.Term := do
  return ⟨← fldStr j "label", ← fldStr j "name", ← fldStr j "definition"⟩

def getTag (j : Json) : Except String Tag := do
  return ⟨← getTerm (← fld j "term"), ← fldStr j "value"⟩

def getTags (j : Json) : Except String (List Tag) := do (← getArr j).mapM getTag

def getTagRes (j : Json) : Except String TagRes :=
  match fldOpt j "single", fldOpt j "many" with
  | some t, _ => do return .single (← getTag t)
  | none, some ts => do return .many (← getTags ts)
  | none, none => .error "expected {single} or {many}"

def getRet (j : Json) : Except String String := fldStr j "ret"

def getFnRes {α} (dec : Json → Except String α) (j : Json) : Except String (Except Err α) :=
  match fldOpt j "raise" with
  | some e => do return .error (← getErr (← e.getStr?))
  | none => do return .ok (← dec j)

def getFn {κ α} [BEq κ] (deck : Json → Except String κ) (decv : Json → Except String α) (j : Json) :
    Except String (κ → Except Err α) := do
  let tbl ← (← fldArr j "table").mapM (fun p => do
    match ← getArr p with
    | [k, v] => return (← deck k, ← getFnRes decv v)
    | _ => throw "table entry must be a pair")
  let d ← getFnRes decv (← fld j "default")
  return fun k => (tbl.lookup k).getD d

def getMap {κ α} (deck : Json → Except String κ) (decv : Json → Except String α) (j : Json) :
    Except String (List (κ × α)) := do
  (← getArr j).mapM (fun p => do
    match ← getArr p with
    | [k, v] => return (← deck k, ← decv v)
    | _ => throw "mapping entry must be a pair")

def optM {α} (j : Json) (k : String) (dec : Json → Except String α) : Except String (Option α) :=
  match fldOpt j k with
  | none => .ok none
  | some v => do return some (← dec v)

def jStr (j : Json) : Except String String := j.getStr?

def getLabelOpts (j : Json) : Except String LabelOpts := do
  let d : LabelOpts := {}
  return {
    tagFn := ← optM j "tag_fn" (getFn jStr getTagRes)
    tagMapping := ← optM j "tag_mapping" (getMap jStr getTagRes)
    termMapping := ← optM j "term_mapping" (getMap jStr getTerm)
    keyMapping := ← optM j "key_mapping" (getMap jStr jStr)
    key := ← optM j "key" jStr
    term := ← optM j "term" getTerm
    fallback := (← optM j "fallback" jStr).getD d.fallback
    emptyLabels := (← optM j "empty_labels" (fun a => do (← getArr a).mapM jStr)).getD d.emptyLabels }

def getTagKw (j : Json) : Except String TagKw := do
  return {
    labelFn := ← optM j "label_fn" (getFn getTag getRet)
    labelMapping := ← optM j "label_mapping" (getMap getTag jStr)
    valueOnly := ← optM j "value_only" (·.getBool?) }

def getTagsOpts (j : Json) : Except String TagsOpts := do
  let d : TagsOpts := {}
  return {
    seqLabelFn := ← optM j "seq_label_fn" (getFn getTags getRet)
    selectByKey := ← optM j "select_by_key" jStr
    index := ← optM j "index" (·.getInt?)
    separator := (← optM j "separator" jStr).getD d.separator
    emptyLabel := (← optM j "empty_label" jStr).getD d.emptyLabel
    kw := ← getTagKw j }

def optsOf {α} (a : Json) (dec : Json → Except String α) : Except String α :=
  dec ((fldOpt a "opts").getD (Json.mkObj []))

def termJ (t : Crowsetta.Term) : Json :=
  Json.mkObj [("label", Json.str t.label), ("name", Json.str t.name), ("definition", Json.str t.defn)]
def tagJ (t : Tag) : Json := Json.mkObj [("term", termJ t.term), ("value", Json.str t.value)]
def tagsJ (ts : List Tag) : Json := arrJ (ts.map tagJ)

def getSegment (j : Json) : Except String Segment := do
  return ⟨← fldStr j "label", ← fldOptRat j "onset_s", ← fldOptRat j "offset_s",
          ← optM j "onset_sample" (·.getInt?), ← optM j "offset_sample" (·.getInt?)⟩

def segmentJ (s : Segment) : Json :=
  Json.mkObj [("label", Json.str s.label), ("onset_s", optJ ratJ s.onsetS), ("offset_s", optJ ratJ s.offsetS),
              ("onset_sample", optJ intJ s.onsetSample), ("offset_sample", optJ intJ s.offsetSample)]

def getBBox (j : Json) : Except String BBox := do
  return ⟨← fldRat j "onset", ← fldRat j "offset", ← fldRat j "low_freq", ← fldRat j "high_freq",
          ← fldStr j "label"⟩

def bboxJ (b : BBox) : Json :=
  Json.mkObj [("onset", ratJ b.onset), ("offset", ratJ b.offset), ("low_freq", ratJ b.lowFreq),
              ("high_freq", ratJ b.highFreq), ("label", Json.str b.label)]

def getRec (j : Json) : Except String Rec := do
  return { samplerate := ← fldRat j "samplerate", te := ← fldRat j "te",
           path := (← optM j "path" jStr).getD "rec.wav" }

def getAnn (j : Json) : Except String Ann := do
  return ⟨← optM j "geometry" getGeom, ← getTags (← fld j "tags")⟩

def annJ (a : Ann) : Json := Json.mkObj [("geometry", optJ geomJ a.geom), ("tags", tagsJ a.tags)]
def annsJ (as : List Ann) : Json := arrJ (as.map annJ)

def getCrowAnn (j : Json) : Except String CrowAnn := do
  return ⟨← optM j "notated_path" jStr, ← (← fldArr j "bboxes").mapM getBBox,
          ← (← fldArr j "seqs").mapM (fun s => do (← getArr s).mapM getSegment)⟩

def crowAnnJ (c : CrowAnn) : Json :=
  Json.mkObj [("notated_path", optJ Json.str c.notatedPath), ("bboxes", arrJ (c.bboxes.map bboxJ)),
              ("seqs", arrJ (c.seqs.map (fun s => arrJ (s.map segmentJ))))]

def clipAnnJ (c : ClipAnn) : Json :=
  Json.mkObj [("sound_events", annsJ c.soundEvents), ("sequences", arrJ (c.sequences.map annsJ))]

def getFmt (s : String) : Fmt :=
  match s with
  | "bbox" => .bbox
  | "seq" => .seq
  | _ => .other

def defaultsJ (d : Defaults) : Json :=
  Json.mkObj [("fallback", Json.str d.fallback), ("empty_label", Json.str d.emptyLabel),
    ("tag_separator", Json.str d.tagSeparator), ("join_separator", Json.str d.joinSeparator),
    ("value_only", boolJ d.valueOnly), ("seg_cast", boolJ d.segCast), ("seq_cast", boolJ d.seqCast),
    ("seq_ignore", boolJ d.seqIgnore), ("box_cast", boolJ d.boxCast), ("box_raise_time", boolJ d.boxRaiseTime),
    ("ann_ignore", boolJ d.annIgnore), ("ann_cast", boolJ d.annCast), ("adjust", boolJ d.adjust)]

/-- one event of a tag history: {"call": {"opts": …, "labels": […]}} | {"edit": [k, a, "value"]} -/
def getEv (j : Json) : Except String Hist.Ev :=
  match fldOpt j "call", fldOpt j "edit" with
  | some c, _ => do
    let o ← optsOf c getLabelOpts
    if !Hist.ownTags o then throw "tag_history: tag_fn / tag_mapping hand back the caller's own objects (outside the store model)"
    return .call o (← (← fldArr c "labels").mapM jStr)
  | none, some e => do
    match ← getArr e with
    | [k, a, v] => return .edit (← k.getNat?) (← a.getNat?) (← v.getStr?)
    | _ => throw "edit must be [k, a, value]"
  | none, none => .error "expected {call} or {edit}"

def sigJ (s : Sig) : Json := Json.mkObj [("fn", Json.str s.fn), ("params", arrJ (s.params.map Json.str))]

def handleBase (op : String) (a : Json) : Except String Json := do
  match op with
  | "signatures" => return arrJ (signatures.map sigJ)
  | "tag_history" =>
    -- the store semantics (fresh tag objects per call, in-place edits): after every event, what the caller
    -- reads from every result so far (`C10_history_value_semantics`: equal to the value semantics)
    let evs ← (← fldArr a "events").mapM getEv
    return Json.mkObj [("trace", arrJ ((Hist.trace evs).map (fun rs => arrJ (rs.map (optJ tagsJ)))))]
  | "term_key" =>
    let t := termFromKey (← fldStr a "key")
    return Json.mkObj [("term", termJ t), ("key", Json.str (keyFromTerm t))]
  | "defaults" => return defaultsJ defaults
  | "label_to_tags" =>
    return exceptJ tagsJ (labelToTags (← optsOf a getLabelOpts) (← fldStr a "label"))
  | "label_to_tags_pinned" =>
    return exceptJ tagsJ (Pinned.labelToTags (← optsOf a getLabelOpts) (← fldStr a "label"))
  | "label_from_tag" =>
    let sep := (← optM a "separator" jStr).getD defaults.tagSeparator
    return exceptJ Json.str (labelFromTag (← optsOf a getTagKw) sep (← getTag (← fld a "tag")))
  | "label_from_tags" =>
    return exceptJ Json.str (labelFromTags (← optsOf a getTagsOpts) (← getTags (← fld a "tags")))
  | "label_from_tags_pinned" =>
    return exceptJ Json.str (Pinned.labelFromTags (← optsOf a getTagsOpts) (← getTags (← fld a "tags")))
  | "import_segment" =>
    return exceptJ annJ (importSegment (← optsOf a getLabelOpts) (← fldBool a "adjust") (← getRec (← fld a "rec"))
      (← getSegment (← fld a "segment")))
  | "import_bbox" =>
    return exceptJ annJ (importBBox (← optsOf a getLabelOpts) (← fldBool a "adjust") (← getRec (← fld a "rec"))
      (← getBBox (← fld a "bbox")))
  | "import_sequence" =>
    return exceptJ annsJ (importSequence (← optsOf a getLabelOpts) (← fldBool a "adjust") (← getRec (← fld a "rec"))
      (← (← fldArr a "segments").mapM getSegment))
  | "import_annotation" =>
    return exceptJ clipAnnJ (importAnnotation (← optsOf a getLabelOpts) (← fldBool a "adjust")
      (← getRec (← fld a "rec")) (← getCrowAnn (← fld a "crow")))
  | "import_annotation_load" =>
    -- `recording=None`: "loaded" is what `Recording.from_file` returned for the notated path (observed
    -- by the harness; the contract `loaded.path = notated path` is evaluated there)
    let loaded ← getRec (← fld a "loaded")
    return exceptJ clipAnnJ (importAnnotationLoad (← optsOf a getLabelOpts) (← fldBool a "adjust")
      (fun _ => loaded) (← getCrowAnn (← fld a "crow")))
  | "export_segment" =>
    return exceptJ segmentJ (exportSegment (← optsOf a getTagsOpts) (← fldBool a "cast") (← fldRat a "sr")
      (← getAnn (← fld a "ann")))
  | "export_bbox" =>
    return exceptJ bboxJ (exportBBox (← optsOf a getTagsOpts) (← fldBool a "cast") (← fldBool a "raise_time")
      (← fldRat a "sr") (← getAnn (← fld a "ann")))
  | "export_sequence" =>
    return exceptJ (fun ss => arrJ (ss.map segmentJ)) (exportSequence (← optsOf a getTagsOpts) (← fldBool a "cast")
      (← fldBool a "ignore") (← fldRat a "sr") (← (← fldArr a "anns").mapM getAnn))
  | "export_annotation" =>
    return exceptJ crowAnnJ (exportAnnotation (← optsOf a getTagsOpts) (getFmt (← fldStr a "fmt"))
      (← fldBool a "ignore") (← fldBool a "cast") (← fldBool a "raise_time") (← getRec (← fld a "rec"))
      (← (← fldArr a "anns").mapM getAnn))
  -- round trips: export after import, the label options of both directions given
  | "roundtrip_segment" =>
    return exceptJ segmentJ (roundtripSegment (← optsOf a getLabelOpts) (← exOpts a) (← fldBool a "adjust")
      (← fldBool a "cast") (← getRec (← fld a "rec")) (← getSegment (← fld a "segment")))
  | "roundtrip_bbox" =>
    return exceptJ bboxJ (roundtripBBox (← optsOf a getLabelOpts) (← exOpts a) (← fldBool a "adjust")
      (← fldBool a "cast") (← fldBool a "raise_time") (← getRec (← fld a "rec")) (← getBBox (← fld a "bbox")))
  | "roundtrip_sequence" =>
    return exceptJ (fun ss => arrJ (ss.map segmentJ)) (roundtripSequence (← optsOf a getLabelOpts) (← exOpts a)
      (← fldBool a "adjust") (← fldBool a "cast") (← fldBool a "ignore") (← getRec (← fld a "rec"))
      (← (← fldArr a "segments").mapM getSegment))
  | "roundtrip_annotation" =>
    return exceptJ crowAnnJ (roundtripAnnotation (← optsOf a getLabelOpts) (← exOpts a) (getFmt (← fldStr a "fmt"))
      (← fldBool a "adjust") (← fldBool a "ignore") (← fldBool a "cast") (← fldBool a "raise_time")
      (← getRec (← fld a "rec")) (← getCrowAnn (← fld a "crow")))
  -- executable statements of the round trip on the implementation's own I/O
  | "rt_segment_ok" =>
    return boolJ (rtSegmentOk (← fldRat a "sr") (← getSegment (← fld a "x")) (← getSegment (← fld a "y")))
  | "rt_bbox_ok" =>
    return boolJ (decide ((← getBBox (← fld a "x")) = (← getBBox (← fld a "y"))))
  | "rt_sequence_ok" =>
    return boolJ (rtSeqOk (← fldRat a "sr") (← (← fldArr a "x").mapM getSegment) (← (← fldArr a "y").mapM getSegment))
  | "rt_annotation_ok" =>
    return boolJ (rtAnnOk (← fldRat a "sr") (← getCrowAnn (← fld a "x")) (← getCrowAnn (← fld a "y")))
  | _ => .error s!"C10: unknown op {op}"
where
  exOpts (a : Json) : Except String TagsOpts :=
    getTagsOpts ((fldOpt a "export_opts").getD (Json.mkObj []))

/-- `step`: one step of a history, `{"op": <base operation>, "inp": <its input>}` - the model is pure, so a step
    of a history is judged by the base operation on the content the objects carry at that step -/
def handle (op : String) (a : Json) : Except String Json :=
  if op = "step" then do handleBase (← fldStr a "op") (← fld a "inp") else handleBase op a

end SE.Ops.C10
