import SoundeventModel.Ops.Common
namespace SE.Ops.C10
open Lean SE

def handle (op : String) (_a : Json) : Except String Json := do
  match op with
  | _ => .error s!"C10: unknown op {op}"

end SE.Ops.C10
