import SoundeventModel.Ops.Common
import SoundeventModel.Ops.C16
import SoundeventModel.Raster
namespace SE.Ops.C20
open Lean SE SE.Axis SE.Raster SE.Ops.C16

def toRGeom (g : Geom) : Except String RGeom :=
  match g with
  | .boundingBox s l e h => .ok (.box s l e h)
  | .timeInterval s e => .ok (.interval s e)
  | _ => .error s!"C20 model covers box-like geometries only, got {g.tag}"

def getValues (j : Json) : Except String Values :=
  match j with
  | .arr xs => do return .many (← xs.toList.mapM getRat)
  | _ => do return .one (← getRat j)

def gridJ (g : Grid) : Json := arrJ (g.map (fun row => arrJ (row.map ratJ)))

def rasterJ (r : Raster) : Json :=
  Json.mkObj [("dims", arrJ [Json.str "time", Json.str "frequency"]), ("time", ratsJ r.time),
              ("freq", ratsJ r.freq), ("grid", gridJ r.grid)]

def cellJ (p : ICell) : Json := natsJ [p.1, p.2]
def cellsJ (ps : List ICell) : Json := arrJ (ps.map cellJ)

/-- the image as the GeoJSON-like mapping rasterio accepts -/
def shapeJ (s : IShape) : Json :=
  let (ty, c) : String × Json := match s with
    | .point p => ("Point", cellJ p)
    | .multiPoint ps => ("MultiPoint", cellsJ ps)
    | .line l => ("LineString", cellsJ l)
    | .multiLine ls => ("MultiLineString", arrJ (ls.map cellsJ))
    | .poly rs => ("Polygon", arrJ (rs.map cellsJ))
    | .multiPoly ps => ("MultiPolygon", arrJ (ps.map (fun rs => arrJ (rs.map cellsJ))))
  Json.mkObj [("type", Json.str ty), ("coordinates", c)]

def getTemplate (a : Json) : Except String Template := do
  return { timeFirst := ← fldBool a "time_first", time := ← getRatList (← fld a "time"),
           freq := ← getRatList (← fld a "freq") }

def fldOptBool (j : Json) (k : String) : Except String (Option Bool) :=
  match fldOpt j k with
  | none => .ok none
  | some v => do return some (← v.getBool?)

def handle (op : String) (a : Json) : Except String Json := do
  match op with
  | "rasterize" =>
    let t : Template := { timeFirst := ← fldBool a "time_first", time := ← getRatList (← fld a "time"),
                          freq := ← getRatList (← fld a "freq") }
    let geoms ← (← fldArr a "geoms").mapM (fun j => do toRGeom (← getGeom j))
    return aexceptJ rasterJ (rasterize t geoms (← getValues (← fld a "values")) (← fldRat a "fill")
      (← fldBool a "all_touched"))
  | "index_image" =>
    -- what the model says rasterize hands to rasterio, and the effective all_touched flag
    let t ← getTemplate a
    let geoms ← (← fldArr a "geoms").mapM getGeom
    let at' ← fldOptBool a "all_touched"
    return Json.mkObj [("shapes", arrJ (geoms.map (fun g => shapeJ (image t g)))),
                       ("all_touched", Json.bool (at'.getD defaultAllTouched))]
  | "rasterize_masks" =>
    -- `rasterizeD` with the rasteriser's answers for the model's images supplied as tables
    let t ← getTemplate a
    let tbls ← (← fldArr a "masks").mapM (fun m => do (← getArr m).mapM (fun row => do (← getArr row).mapM (·.getBool?)))
    let values ← match fldOpt a "values" with
      | none => pure none
      | some v => do pure (some (← getValues v))
    let fill ← fldOptRat a "fill"
    return aexceptJ rasterJ (rasterizeM t (tbls.map maskOfTable) (← fldNat a "n")
      (values.getD (.one defaultValue)) (fill.getD defaultFill))
  | "param_order" =>
    -- the signature order of the model (the harness passes positional arguments in this order)
    return arrJ (paramOrder.map Json.str)
  | "bin_of" =>
    return natJ (binOf (← getRatList (← fld a "coords")) (← fldRat a "v"))
  | "box_rule" =>
    -- the contract assumed of rasterio: cells burnt for one integer-cornered box on an nx × ny raster
    match ← getNatList (← fld a "box") with
    | [x0, y0, x1, y1] =>
      return gridJ (rasterBoxes (← fldNat a "nx") (← fldNat a "ny") [⟨x0, y0, x1, y1, 1⟩] 0)
    | _ => .error "box arity"
  | "centre_rule" =>
    let rings ← getRings (← fld a "rings")
    let burnt ← (← fldArr a "burnt").mapM (fun row => do (← getArr row).mapM (·.getBool?))
    let bad := centreRuleViolations (← fldNat a "nx") (← fldNat a "ny") rings burnt
    return arrJ (bad.map (fun p => natsJ [p.1, p.2]))
  | "noop" => return Json.null
  | _ => .error s!"C20: unknown op {op}"

end SE.Ops.C20
