import SoundeventModel.Ops.Common
import SoundeventModel.Ops.C16
import SoundeventModel.Raster
namespace SE.Ops.C20
open Lean SE SE.Axis SE.Raster SE.Ops.C16

def toRGeom (g : Geom) : Except String RGeom :=
  match g with
  | .boundingBox s l e h => .ok (.box s l e h)
  | .timeInterval s e => .ok (.interval s e)
  | _ => .error s!"C20 model covers box-like geometries only, got {g.tag}"

def getValues (j : Json) : Except String Values :=
  match j with
  | .arr xs => do return .many (← xs.toList.mapM (·.getInt?))
  | _ => do return .one (← j.getInt?)

def gridJ (g : Grid) : Json := arrJ (g.map (fun row => arrJ (row.map intJ)))

def rasterJ (r : Raster) : Json :=
  Json.mkObj [("dims", arrJ [Json.str "time", Json.str "frequency"]), ("time", ratsJ r.time),
              ("freq", ratsJ r.freq), ("grid", gridJ r.grid)]

def handle (op : String) (a : Json) : Except String Json := do
  match op with
  | "rasterize" =>
    let t : Template := { timeFirst := ← fldBool a "time_first", time := ← getRatList (← fld a "time"),
                          freq := ← getRatList (← fld a "freq") }
    let geoms ← (← fldArr a "geoms").mapM (fun j => do toRGeom (← getGeom j))
    return aexceptJ rasterJ (rasterize t geoms (← getValues (← fld a "values")) (← fldInt a "fill")
      (← fldBool a "all_touched"))
  | "bin_of" =>
    return natJ (binOf (← getRatList (← fld a "coords")) (← fldRat a "v"))
  | "box_rule" =>
    -- the contract assumed of rasterio: cells burnt for one integer-cornered box on an nx × ny raster
    match ← getNatList (← fld a "box") with
    | [x0, y0, x1, y1] =>
      return gridJ (rasterBoxes (← fldNat a "nx") (← fldNat a "ny") [⟨x0, y0, x1, y1, 1⟩] 0)
    | _ => .error "box arity"
  | "centre_rule" =>
    let rings ← getRings (← fld a "rings")
    let burnt ← (← fldArr a "burnt").mapM (fun row => do (← getArr row).mapM (·.getBool?))
    let bad := centreRuleViolations (← fldNat a "nx") (← fldNat a "ny") rings burnt
    return arrJ (bad.map (fun p => natsJ [p.1, p.2]))
  | "noop" => return Json.null
  | _ => .error s!"C20: unknown op {op}"

end SE.Ops.C20
