import SoundeventModel.Ops.Common
import SoundeventModel.Aoef.Fields
import SoundeventModel.Aoef.Valid
import SoundeventModel.Aoef.File
import SoundeventModel.Aoef.FileSys
namespace SE.Ops.C01
open Lean SE SE.Aoef SE.Paths

def keysOf (j : Json) : Json :=
  match j with
  | .obj kvs => arrJ (kvs.toList.map (fun kv => Json.str kv.1))
  | _ => Json.arr #[]

/-- field names of every model structure (from its `ToJson` instance), for `FieldsAgree` -/
def fieldTable : Json :=
  Json.mkObj [
    ("User", keysOf (toJson (default : User))), ("Tag", keysOf (toJson (default : Tag))),
    ("Feature", keysOf (toJson (default : Feature))), ("Note", keysOf (toJson (default : Note))),
    ("Recording", keysOf (toJson (default : Recording))), ("Clip", keysOf (toJson (default : Clip))),
    ("SoundEvent", keysOf (toJson (default : SoundEvent))),
    ("Sequence", keysOf (toJson (default : Sequence))),
    ("SoundEventAnnotation", keysOf (toJson (default : SoundEventAnnotation))),
    ("SequenceAnnotation", keysOf (toJson (default : SequenceAnnotation))),
    ("ClipAnnotation", keysOf (toJson (default : ClipAnnotation))),
    ("StatusBadge", keysOf (toJson (default : StatusBadge))),
    ("AnnotationTask", keysOf (toJson (default : AnnotationTask))),
    ("PredictedTag", keysOf (toJson (default : PredictedTag))),
    ("SoundEventPrediction", keysOf (toJson (default : SoundEventPrediction))),
    ("SequencePrediction", keysOf (toJson (default : SequencePrediction))),
    ("ClipPrediction", keysOf (toJson (default : ClipPrediction))),
    ("Match", keysOf (toJson (default : Match))),
    ("ClipEvaluation", keysOf (toJson (default : ClipEvaluation))),
    ("RecordingSet", keysOf (toJson (default : RecordingSet))),
    ("Dataset", keysOf (toJson (default : Dataset))),
    ("AnnotationSet", keysOf (toJson (default : AnnotationSet))),
    ("AnnotationProject", keysOf (toJson (default : AnnotationProject))),
    ("EvaluationSet", keysOf (toJson (default : EvaluationSet))),
    ("PredictionSet", keysOf (toJson (default : PredictionSet))),
    ("ModelRun", keysOf (toJson (default : ModelRun))),
    ("Evaluation", keysOf (toJson (default : Evaluation))),
    ("UserObject", keysOf (toJson (default : UserObj))), ("TagObject", keysOf (toJson (default : TagObj))),
    ("NoteObject", keysOf (toJson (default : NoteObj))),
    ("RecordingObject", keysOf (toJson (default : RecordingObj))),
    ("ClipObject", keysOf (toJson (default : ClipObj))),
    ("SoundEventObject", keysOf (toJson (default : SoundEventObj))),
    ("SequenceObject", keysOf (toJson (default : SequenceObj))),
    ("SoundEventAnnotationObject", keysOf (toJson (default : SoundEventAnnotationObj))),
    ("SequenceAnnotationObject", keysOf (toJson (default : SequenceAnnotationObj))),
    ("ClipAnnotationsObject", keysOf (toJson (default : ClipAnnotationsObj))),
    ("StatusBadgeObject", keysOf (toJson (default : StatusBadgeObj))),
    ("AnnotationTaskObject", keysOf (toJson (default : AnnotationTaskObj))),
    ("SoundEventPredictionObject", keysOf (toJson (default : SoundEventPredictionObj))),
    ("SequencePredictionObject", keysOf (toJson (default : SequencePredictionObj))),
    ("ClipPredictionsObject", keysOf (toJson (default : ClipPredictionsObj))),
    ("MatchObject", keysOf (toJson (default : MatchObj))),
    ("ClipEvaluationObject", keysOf (toJson (default : ClipEvaluationObj))),
    ("RecordingSetObject", toJson (Doc.keys "recording_set")),
    ("DatasetObject", toJson (Doc.keys "dataset")),
    ("AnnotationSetObject", toJson (Doc.keys "annotation_set")),
    ("AnnotationProjectObject", toJson (Doc.keys "annotation_project")),
    ("EvaluationSetObject", toJson (Doc.keys "evaluation_set")),
    ("PredictionSetObject", toJson (Doc.keys "prediction_set")),
    ("ModelRunObject", toJson (Doc.keys "model_run")),
    ("EvaluationObject", toJson (Doc.keys "evaluation"))]

def optDir (a : Json) (k : String) : Except String (Option PPath) :=
  match fldOpt a k with
  | none => .ok none
  | some v => do return some (parse (← v.getStr?))

def getCollection (a : Json) : Except String Collection := do fromJson? (← fld a "collection")

/-- a command of a file-system history -/
def getCmd (st : Json) : Except String FS.Cmd := do
  let p ← fldStr st "path"
  match ← fldStr st "cmd" with
  | "save" => return .save p (← getCollection st) (← optDir st "save_dir")
  | "load" => return .load p (← optDir st "load_dir")
  | "rm" => return .rm p
  | "put" =>
    match fldOpt st "doc" with
    | some dj => let d : Doc ← fromJson? dj; return .put p (.doc d)
    | none => return .put p (.junk "")
  | c => .error s!"C01: unknown command {c}"

def outJ : FS.Out → Json
  | .done => Json.mkObj [("ok", Json.bool true)]
  | .failed e => raiseJ e
  | .loaded r => exceptJ toJson r
  | .notFound => Json.mkObj [("raise", Json.str FileErr.notFound.name)]

def handle (op : String) (a : Json) : Except String Json := do
  match op with
  | "fields" => return fieldTable
  | "save" =>
    let c ← getCollection a
    return exceptJ toJson (save c (← optDir a "audio_dir"))
  | "load" =>
    let d : Doc ← fromJson? (← fld a "doc")
    return exceptJ toJson (load d (← optDir a "audio_dir"))
  | "load_checked" =>
    -- the loader followed by the relational validators pydantic runs on the constructed objects (C04)
    let d : Doc ← fromJson? (← fld a "doc")
    return exceptJ toJson (loadChecked d (← optDir a "audio_dir"))
  | "load_gate" =>
    let r : LoadRequest := {
      fileExists := ← fldBool a "exists", suffixJson := ← fldBool a "suffix_json",
      format := (fldOpt a "format").bind (·.getStr?.toOption),
      reqType := (fldOpt a "type").bind (·.getStr?.toOption),
      version := ← fldStr a "version", docType := ← fldStr a "doc_type" }
    return match loadGate r with
      | .ok _ => Json.mkObj [("ok", Json.bool true)]
      | .error e => Json.mkObj [("raise", Json.str e.name)]
  | "save_gate" =>
    let r : SaveRequest := { suffixJson := ← fldBool a "suffix_json",
                             format := (fldOpt a "format").bind (·.getStr?.toOption) }
    return match saveGate r with
      | .ok _ => Json.mkObj [("ok", Json.bool true)]
      | .error e => Json.mkObj [("raise", Json.str e.name)]
  | "roundtrip" =>
    let c ← getCollection a
    let n ← fldNat a "n"
    return exceptJ toJson (cycles (← optDir a "save_dir") (← optDir a "load_dir") n c)
  | "wf" =>
    -- is the collection inside the quantifier of C01 / C02 (coherent sharing, distinct feature labels, distinct members)?
    let c ← getCollection a
    return boolJ (wfB c)
  | "history" =>
    -- consecutive save/load round trips in one process: every step is judged on its own
    let steps ← fldArr a "steps"
    let outs ← steps.mapM fun st => do
      let c ← getCollection st
      let n ← fldNat st "n"
      pure (exceptJ toJson (cycles (← optDir st "save_dir") (← optDir st "load_dir") n c))
    return arrJ outs
  | "fs_history" =>
    -- a history of saves / loads / foreign writes / removals against the file-system model, from the empty file system
    let cmds ← (← fldArr a "steps").mapM getCmd
    return arrJ ((History.runS FS.exec FS.empty cmds).map outJ)
  | "echo" =>
    -- parse a collection and write it back (validates the harness' encoding of objects)
    let c ← getCollection a
    return toJson c
  | _ => .error s!"C01: unknown op {op}"

end SE.Ops.C01
