import SoundeventModel.Ops.Common
namespace SE.Ops.C01
open Lean SE

def handle (op : String) (_a : Json) : Except String Json := do
  match op with
  | _ => .error s!"C01: unknown op {op}"

end SE.Ops.C01
