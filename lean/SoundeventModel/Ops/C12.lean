import SoundeventModel.Ops.Common
import SoundeventModel.Intervals
namespace SE.Ops.C12
open Lean SE SE.Intervals

def handle (op : String) (a : Json) : Except String Json := do
  match op with
  | "intervals_overlap" =>
    let (s1, e1) ← getPair (← fld a "i1")
    let (s2, e2) ← getPair (← fld a "i2")
    return optRaiseJ boolJ (intervalsOverlap s1 e1 s2 e2 (← fldOptRat a "abs") (← fldOptRat a "rel"))
  | "temporal" | "frequency" =>
    let b1 ← geomBounds (← getGeom (← fld a "g1"))
    let b2 ← geomBounds (← getGeom (← fld a "g2"))
    let f := if op == "temporal" then temporalOverlap else frequencyOverlap
    return optRaiseJ boolJ (f b1 b2 (← fldOptRat a "abs") (← fldOptRat a "rel"))
  | "is_in_clip" =>
    let b ← geomBounds (← getGeom (← fld a "g"))
    return optRaiseJ boolJ (isInClip b (← fldRat a "start") (← fldRat a "end") (← fldRat a "min"))
  | _ => .error s!"C12: unknown op {op}"

end SE.Ops.C12
