import SoundeventModel.Ops.Common
import SoundeventModel.Intervals
import SoundeventModel.Affinity
namespace SE.Ops.C12
open Lean SE SE.Intervals

/-- outer `none` (a geometry without vertices) is a protocol error, inner `none` a `ValueError` -/
def geoJ : Option (Option Bool) → Except String Json
  | some r => .ok (optRaiseJ boolJ r)
  | none => .error "geometry without points"

/-- a threshold as a call passes it: JSON `null` = Python `None` -/
def getOptRat (j : Json) : Except String (Option Rat) :=
  match j with
  | .null => .ok none
  | v => do return some (← getRat v)

def getKw {α} (f : Json → Except String α) (j : Json) : Except String (String × α) := do
  match ← getArr j with
  | [k, v] => return (← k.getStr?, ← f v)
  | _ => .error "keyword: expected [name, value]"

/-- the optional arguments of a call, as written: `{"pos": [v, …], "kw": [[name, v], …]}` -/
def getCall {α} (f : Json → Except String α) (c : Json) : Except String (List α × List (String × α)) := do
  let pos ← (← fldArr c "pos").mapM f
  let kw ← (← fldArr c "kw").mapM (getKw f)
  return (pos, kw)

/-- outermost `none`: the call itself is a `TypeError` -/
def callJ : Option (Option (Option Bool)) → Except String Json
  | some r => geoJ r
  | none => .ok (raiseJ .type)

def getStep (j : Json) : Except String Step := do
  match ← fldStr j "do" with
  | "set" | "derive" => return .setGeom (← fldNat j "slot") (← getGeom (← fld j "g"))
  | "clip" => return .setClip (← fldNat j "slot") (← fldRat j "start") (← fldRat j "end")
  | "touch" => return .touch (← fldNat j "slot")
  | "intervals" =>
    let (s1, e1) ← getPair (← fld j "i1")
    let (s2, e2) ← getPair (← fld j "i2")
    return .intervals s1 e1 s2 e2 (← fldOptRat j "abs") (← fldOptRat j "rel")
  | "temporal" => return .temporal (← fldNat j "a") (← fldNat j "b") (← fldOptRat j "abs") (← fldOptRat j "rel")
  | "frequency" => return .frequency (← fldNat j "a") (← fldNat j "b") (← fldOptRat j "abs") (← fldOptRat j "rel")
  | "in_clip" => return .inClip (← fldNat j "a") (← fldNat j "clip") (← fldOptRat j "min")
  | d => .error s!"C12 session: unknown step {d}"

/-- the answers of a history: `null` for the steps that are not calls -/
def answerJ : Option (Option Bool) → Json
  | some r => optRaiseJ boolJ r
  | none => Json.null

/-- the implementation's observed outcome: `{"val": bool}` | `{"raise": …}` -/
def getOut (a : Json) : Except String (Option Bool) := do
  let o ← fld a "out"
  match o.getObjVal? "val" with
  | .ok v => return some (← v.getBool?)
  | .error _ => return none

/-- the two intervals of a request: given directly (`i1`, `i2`) or as the extents of two
    geometries along `axis` (`"time"` | `"freq"`) -/
def getIntervals (a : Json) : Except String (Rat × Rat × Rat × Rat) := do
  match fldOpt a "g1" with
  | none =>
    let (s1, e1) ← getPair (← fld a "i1")
    let (s2, e2) ← getPair (← fld a "i2")
    return (s1, e1, s2, e2)
  | some j1 =>
    let b1 ← geomBounds (← getGeom j1)
    let b2 ← geomBounds (← getGeom (← fld a "g2"))
    if (← fldStr a "axis") == "time" then return (b1.st, b1.en, b2.st, b2.en)
    else return (b1.lo, b1.hi, b2.lo, b2.hi)

def handle (op : String) (a : Json) : Except String Json := do
  -- binary64 variants: the same model function in the rounding arithmetic `rnd64`
  let rnd : Rat → Rat := if op.endsWith "64" then SE.Affinity.rnd64 else id
  match op with
  | "intervals_overlap" | "intervals_overlap64" =>
    let (s1, e1) ← getPair (← fld a "i1")
    let (s2, e2) ← getPair (← fld a "i2")
    if let some c := fldOpt a "call" then
      -- the arguments as the call writes them (positional / keyword / explicit None), exact model only
      let (pos, kw) ← getCall getOptRat c
      return ← callJ ((intervalsOverlapCall s1 e1 s2 e2 pos kw).map some)
    let abs ← fldOptRat a "abs"
    let rel ← fldOptRat a "rel"
    if op == "intervals_overlap" then return optRaiseJ boolJ (intervalsOverlap s1 e1 s2 e2 abs rel)
    return optRaiseJ boolJ (intervalsOverlapR rnd s1 e1 s2 e2 abs rel)
  | "temporal" | "frequency" | "temporal64" | "frequency64" =>
    let g1 ← getGeom (← fld a "g1")
    let g2 ← getGeom (← fld a "g2")
    if let some c := fldOpt a "call" then
      let (pos, kw) ← getCall getOptRat c
      return ← callJ (if op == "temporal" then haveTemporalOverlapCall g1 g2 pos kw
                      else haveFrequencyOverlapCall g1 g2 pos kw)
    let abs ← fldOptRat a "abs"
    let rel ← fldOptRat a "rel"
    match op with
    | "temporal" => geoJ (haveTemporalOverlap g1 g2 abs rel)
    | "frequency" => geoJ (haveFrequencyOverlap g1 g2 abs rel)
    | "temporal64" => geoJ (haveTemporalOverlapR rnd g1 g2 abs rel)
    | _ => geoJ (haveFrequencyOverlapR rnd g1 g2 abs rel)
  | "is_in_clip" | "is_in_clip64" =>
    let g ← getGeom (← fld a "g")
    if let some c := fldOpt a "call" then
      let (pos, kw) ← getCall getRat c
      return ← callJ (isInClipCall g (← fldRat a "start") (← fldRat a "end") pos kw)
    let m := (← fldOptRat a "min").getD defaultMinimumOverlap
    if op == "is_in_clip" then geoJ (isInClipGeom g (← fldRat a "start") (← fldRat a "end") m)
    else geoJ (isInClipGeomR rnd g (← fldRat a "start") (← fldRat a "end") m)
  -- the property's demand on a result computed in floating point (see `C12_float_band`)
  | "float_ok" =>
    let (s1, e1, s2, e2) ← getIntervals a
    return boolJ (floatOk (← fldRat a "u") s1 e1 s2 e2 (← fldOptRat a "abs") (← fldOptRat a "rel") (← getOut a))
  | "clip_float_ok" =>
    let b ← geomBounds (← getGeom (← fld a "g"))
    let m := (← fldOptRat a "min").getD defaultMinimumOverlap
    return boolJ (clipFloatOk (← fldRat a "u") b (← fldRat a "start") (← fldRat a "end") m (← getOut a))
  -- a history in one process: the answers of all steps (see `C12_session_*`)
  | "session" =>
    let steps ← (← fldArr a "steps").mapM getStep
    return valJ (arrJ ((runSession Store.empty steps).map answerJ))
  | "bounds" =>
    return boundsJ (← geomBounds (← getGeom (← fld a "g")))
  | "rnd64" =>
    return valJ (ratJ (SE.Affinity.rnd64 (← fldRat a "x")))
  | _ => .error s!"C12: unknown op {op}"

end SE.Ops.C12
