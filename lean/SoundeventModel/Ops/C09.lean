import SoundeventModel.Ops.Common
import SoundeventModel.Metrics
import SoundeventModel.Detection
import SoundeventModel.MetricsTags
import SoundeventModel.Ops.C19
namespace SE.Ops.C09
open Lean SE SE.Metrics SE.Detection

/-! JSON glue shared by C08 and C09.

  A tag travels as the encoder's answer for it: a vocabulary index or `null`.
  A predicted tag is `[index | null, "score"]` (the score is the float32 value, exactly). -/

def getOptNat (j : Json) : Except String (Option Nat) :=
  match j with
  | .null => .ok none
  | _ => do return some (← j.getNat?)

def getTagList (j : Json) : Except String (List (Option Nat)) := do (← getArr j).mapM getOptNat

def getPredTag (j : Json) : Except String (Option Nat × Rat) := do
  match ← getArr j with
  | [i, s] => return (← getOptNat i, ← getRat s)
  | _ => .error "predicted tag: expected [index, score]"

def getPredTags (j : Json) : Except String (List (Option Nat × Rat)) := do (← getArr j).mapM getPredTag

def optFld (j : Json) (k : String) (d : Json) : Json := (fldOpt j k).getD d

def getSEPred (j : Json) : Except String SEPred := do
  return { id := ← fldNat j "id", hasGeom := ← fldBool j "geom", tags := ← getPredTags (← fld j "tags") }

def getSEAnn (j : Json) : Except String SEAnn := do
  return { id := ← fldNat j "id", hasGeom := ← fldBool j "geom", tags := ← getTagList (← fld j "tags") }

def getMEntry (j : Json) : Except String MEntry := do
  match ← getArr j with
  | [s, t, a] => return { src := ← getOptNat s, tgt := ← getOptNat t, aff := ← getRat a }
  | _ => .error "matcher entry: expected [src, tgt, affinity]"

def getMatcher (j : Json) : Except String (List MEntry) := do (← getArr j).mapM getMEntry

def getItem (j : Json) : Except String Item := do
  return { y := ← getOptNat (optFld j "y" .null), row := ← getRatList (← fld j "row") }

def getBoolList (j : Json) : Except String (List Bool) := do (← getArr j).mapM (fun b => do
  match b with
  | .bool v => return v
  | _ => return (← b.getNat?) != 0)

def getMLItem (j : Json) : Except String MLItem := do
  return { truth := ← getBoolList (← fld j "truth"), row := ← getRatList (← fld j "row") }

def featuresJ (fs : Features) : Json := arrJ (fs.map (fun p => arrJ [Json.str p.1, ratJ p.2]))

def getFeatures (j : Json) : Except String Features := do
  (← getArr j).mapM (fun p => do
    match ← getArr p with
    | [k, v] => return (← k.getStr?, ← getRat v)
    | _ => .error "feature: expected [label, value]")

def optNatJ : Option Nat → Json := optJ natJ

def matchJ (m : MatchOut) : Json :=
  Json.mkObj [("src", optNatJ m.src), ("tgt", optNatJ m.tgt), ("affinity", ratJ m.affinity),
              ("score", optJ ratJ m.score), ("metrics", featuresJ m.metrics)]

def clipJ (c : ClipOut) : Json :=
  Json.mkObj [("clip", natJ c.clip), ("metrics", featuresJ c.metrics), ("score", optJ ratJ c.score),
              ("matches", arrJ (c.mts.map matchJ))]

def evalJ (e : EvalOut) : Json :=
  Json.mkObj [("metrics", featuresJ e.metrics), ("score", ratJ e.score), ("clips", arrJ (e.clips.map clipJ))]

def entryJ (e : Entry) : Json :=
  Json.mkObj [("src", optNatJ e.src), ("tgt", optNatJ e.tgt), ("affinity", ratJ e.aff),
              ("score", ratJ e.score), ("y", optNatJ e.item.y), ("row", ratsJ e.item.row)]

def getCCPreds (j : Json) : Except String (List (Nat × CCPred)) := do
  (← getArr j).mapM (fun c => do return (← fldNat c "clip", ⟨← getPredTags (optFld c "tags" (arrJ []))⟩))

def getCCAnns (j : Json) : Except String (List (Nat × CCAnn)) := do
  (← getArr j).mapM (fun c => do return (← fldNat c "clip", ⟨← getTagList (optFld c "tags" (arrJ []))⟩))

def getSEPreds (j : Json) : Except String (List (Nat × List SEPred)) := do
  (← getArr j).mapM (fun c => do
    return (← fldNat c "clip", ← (← getArr (optFld c "events" (arrJ []))).mapM getSEPred))

def getSEAnns (j : Json) : Except String (List (Nat × List SEAnn)) := do
  (← getArr j).mapM (fun c => do
    return (← fldNat c "clip", ← (← getArr (optFld c "events" (arrJ []))).mapM getSEAnn))

def getDetPreds (j : Json) : Except String (List (Nat × PredClip)) := do
  (← getArr j).mapM (fun c => do
    return (← fldNat c "clip",
      { events := ← (← getArr (optFld c "events" (arrJ []))).mapM getSEPred,
        matcher := ← getMatcher (optFld c "matcher" (arrJ [])) }))

/-- run one of the four task drivers on a request -/
def runTask (a : Json) : Except String (Except Err EvalOut) := do
  let C ← fldNat a "C"
  let ps ← fld a "predictions"
  let as ← fld a "annotations"
  match ← fldStr a "task" with
  | "clip_classification" => return clipClassification C (← getCCPreds ps) (← getCCAnns as)
  | "clip_multilabel_classification" =>
    return clipMultilabel C (← getCCPreds ps) (← getCCAnns as) (← getRatList (optFld a "clip_scores" (arrJ [])))
  | "sound_event_classification" => return soundEventClassification C (← getSEPreds ps) (← getSEAnns as)
  | "sound_event_detection" => return soundEventDetection C (← getDetPreds ps) (← getSEAnns as)
  | t => .error s!"unknown task {t}"

/-! ### tags as content (follow-up "pools, histories")

  A request carries the tag pool — real tags: a term with all its fields and a value, as the harness reads them
  from the objects it hands to the code, parsed by C19's `getTag` — and the vocabulary as positions in the pool;
  clips and sound events name their tags by pool position.  The class indices are computed here, by the model of
  the encoder (C19's `Encoding.encode`), never by the harness and never by the library. -/

structure TagReq where
  pool : Array Encoding.Tag
  vocab : List Encoding.Tag

def TagReq.tag (c : TagReq) (j : Json) : Except String Encoding.Tag := do
  let i ← j.getNat?
  match c.pool[i]? with
  | some t => return t
  | none => .error s!"tag {i} is not in the pool"

def getTagReq (a : Json) : Except String TagReq := do
  let pool := (← (← fldArr a "pool").mapM C19.getTag).toArray
  let c0 : TagReq := { pool := pool, vocab := [] }
  let vocab ← (← fldArr a "vocab").mapM c0.tag
  return { pool := pool, vocab := vocab }

def TagReq.tags (c : TagReq) (j : Json) : Except String (List Encoding.Tag) := do (← getArr j).mapM c.tag

/-- predicted tags `[[pool position, score]]`; the score is the binary32 value the array stores (so `cast` is
    the identity in the ops) -/
def TagReq.predTags (c : TagReq) (j : Json) : Except String (List Encoding.PredictedTag) := do
  (← getArr j).mapM (fun p => do
    match ← getArr p with
    | [i, s] => return { tag := ← c.tag i, score := ← getRat s }
    | _ => .error "predicted tag: expected [pool position, score]")

def TagReq.tPred (c : TagReq) (j : Json) : Except String TPred := do
  return { id := ← fldNat j "id", hasGeom := ← fldBool j "geom", tags := ← c.predTags (← fld j "tags") }

def TagReq.tAnn (c : TagReq) (j : Json) : Except String TAnn := do
  return { id := ← fldNat j "id", hasGeom := ← fldBool j "geom", tags := ← c.tags (← fld j "tags") }

def TagReq.ccPreds (c : TagReq) (j : Json) : Except String (List (Nat × CCPredT)) := do
  (← getArr j).mapM (fun x => do
    return (← fldNat x "clip", ⟨← c.predTags (optFld x "tags" (arrJ [])), (← getArr (optFld x "events" (arrJ []))).length⟩))

def TagReq.ccAnns (c : TagReq) (j : Json) : Except String (List (Nat × CCAnnT)) := do
  (← getArr j).mapM (fun x => do
    return (← fldNat x "clip", ⟨← c.tags (optFld x "tags" (arrJ [])), (← getArr (optFld x "events" (arrJ []))).length⟩))

def TagReq.sePreds (c : TagReq) (j : Json) : Except String (List (Nat × List TPred)) := do
  (← getArr j).mapM (fun x => do
    return (← fldNat x "clip", ← (← getArr (optFld x "events" (arrJ []))).mapM c.tPred))

def TagReq.seAnns (c : TagReq) (j : Json) : Except String (List (Nat × List TAnn)) := do
  (← getArr j).mapM (fun x => do
    return (← fldNat x "clip", ← (← getArr (optFld x "events" (arrJ []))).mapM c.tAnn))

def TagReq.detPreds (c : TagReq) (j : Json) : Except String (List (Nat × PredClipT)) := do
  (← getArr j).mapM (fun x => do
    return (← fldNat x "clip",
      { events := ← (← getArr (optFld x "events" (arrJ []))).mapM c.tPred,
        matcher := ← getMatcher (optFld x "matcher" (arrJ [])) }))

/-- one of the four task drivers over real tags -/
def runTaskT (a : Json) : Except String (Except Err EvalOut) := do
  let c ← getTagReq a
  let ps ← fld a "predictions"
  let as ← fld a "annotations"
  match ← fldStr a "task" with
  | "clip_classification" => return clipClassificationT id c.vocab (← c.ccPreds ps) (← c.ccAnns as)
  | "clip_multilabel_classification" =>
    -- clip scores: a parameter when the request carries them, otherwise the closed form over the model's encodings
    match fldOpt a "clip_scores" with
    | some j => return clipMultilabelT id c.vocab (← c.ccPreds ps) (← c.ccAnns as) (← getRatList j)
    | none => return clipMultilabelClosedT id c.vocab (← c.ccPreds ps) (← c.ccAnns as)
  | "sound_event_classification" => return soundEventClassificationT id c.vocab (← c.sePreds ps) (← c.seAnns as)
  | "sound_event_detection" => return soundEventDetectionT id c.vocab (← c.detPreds ps) (← c.seAnns as)
  | t => .error s!"unknown task {t}"

def itemJ (it : Item) (ml : MLItem) : Json :=
  Json.mkObj [("y", optNatJ it.y), ("row", ratsJ it.row), ("truth", arrJ (ml.truth.map boolJ))]

def optRatJ : Option Rat → Json := optJ ratJ

def taskOfName : String → Option Task
  | "clip_classification" => some .clipClassification
  | "clip_multilabel_classification" => some .clipMultilabel
  | "sound_event_classification" => some .soundEventClassification
  | "sound_event_detection" => some .soundEventDetection
  | _ => none

def handle (op : String) (a : Json) : Except String Json := do
  match op with
  | "task" => return exceptJ evalJ (← runTask a)
  | "task_tags" => return exceptJ evalJ (← runTaskT a)
  | "encode_items" =>
    -- the arrays `evaluation/encoding.py` produces for (true tags, predicted tags) pairs: C19's
    -- `classificationEncoding` / `multilabelEncoding` / `predictionEncoding` themselves (theorem C09_tags_bridge:
    -- these are the arrays the task drivers compute with)
    let c ← getTagReq a
    let out ← (← fldArr a "items").mapM (fun p => do
      let truth ← c.tags (← fld p "ann")
      let ps ← c.predTags (← fld p "pred")
      return itemJ (itemOfTags id c.vocab truth ps) (mlItemOfTags id c.vocab truth ps))
    return arrJ out
  | "encode_pool" =>
    -- the model's encoder on every tag of the pool; is the vocabulary free of repeated (equal) tags?
    let c ← getTagReq a
    return Json.mkObj [("enc", arrJ (c.pool.toList.map (fun t => optJ natJ (Encoding.encode c.vocab t)))),
                       ("nodup", boolJ (decide c.vocab.Nodup))]
  | "overall_score" =>
    -- "scores aggregate as means": the evaluation score over clip scores (`null` = a clip without score)
    let scores ← (← fldArr a "scores").mapM (fun j => match j with
      | .null => pure (none : Option Rat)
      | j => do pure (some (← getRat j)))
    return ratJ (overallScore (scores.map (fun s => ({ clip := 0, metrics := [], score := s, mts := [] } : ClipOut))))
  | "metric" =>
    -- one function of evaluation/metrics.py on encoded arrays
    let fn ← fldStr a "fn"
    let C ← fldNat a "C"
    match fn with
    | "accuracy" | "balanced_accuracy" | "top_3_accuracy" | "mean_average_precision" =>
      let items ← (← fldArr a "items").mapM getItem
      let r : Option Rat := match fn with
        | "accuracy" => some (accuracy C items)
        | "balanced_accuracy" => some (balancedAccuracy C items)
        | "top_3_accuracy" => some (topK 3 C items)
        | _ => meanAveragePrecision C items
      return optRaiseJ ratJ r
    | "true_class_probability" | "classification_score" =>
      return valJ (ratJ (tcp (← getItem (← fld a "item"))))
    | "mean_average_precision_2d" =>
      let rows ← (← fldArr a "items").mapM getMLItem
      return valJ (ratJ (meanAveragePrecisionML C rows))
    | "jaccard_2d" =>
      return valJ (ratJ (jaccardSamples (← (← fldArr a "items").mapM getMLItem)))
    | "average_precision_2d" =>
      return valJ (ratJ (microAP (← (← fldArr a "items").mapM getMLItem)))
    | "multilabel_example_score_2d" =>
      -- a single example handed over as a 1 x C matrix
      match ← (← fldArr a "items").mapM getMLItem with
      | [it] => return valJ (ratJ (mlScore it))
      | _ => .error "multilabel_example_score_2d: one row expected"
    | "average_precision" => return valJ (ratJ (exampleAP (← getMLItem (← fld a "item"))))
    | "jaccard" => return valJ (ratJ (jaccard (← getMLItem (← fld a "item"))))
    | "multilabel_example_score" => return valJ (ratJ (mlScore (← getMLItem (← fld a "item"))))
    | _ => .error s!"C09: unknown metric function {fn}"
  | "aoef_metrics" =>
    -- the label-keyed mapping an AOEF document stores, read back as a feature list
    return featuresJ (fromDict (toDict (← getFeatures (← fld a "features"))))
  | "labels" =>
    -- the labels the model's driver attaches at a level of a task
    let some t := taskOfName (← fldStr a "task") | .error "unknown task"
    let lvl ← match ← fldStr a "level" with
      | "run" => pure Level.run
      | "example" => pure Level.example
      | "sound_event" => pure Level.soundEvent
      | l => .error s!"unknown level {l}"
    return arrJ ((taskMetrics t lvl).map (fun m => Json.str m.label))
  | _ => .error s!"C09: unknown op {op}"

end SE.Ops.C09
