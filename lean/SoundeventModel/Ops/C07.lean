import SoundeventModel.Ops.Common
import SoundeventModel.Matching
namespace SE.Ops.C07
open Lean SE SE.Matching

def getOptNat (j : Json) : Except String (Option Nat) :=
  match j with
  | .null => .ok none
  | v => do return some (← v.getNat?)

def optNatJ : Option Nat → Json
  | none => Json.null
  | some n => natJ n

def entryJ (e : Entry) : Json := arrJ [optNatJ e.src, optNatJ e.tgt, ratJ e.aff]

def getEntry (j : Json) : Except String Entry := do
  match ← getArr j with
  | [s, t, a] => return ⟨← getOptNat s, ← getOptNat t, ← getRat a⟩
  | _ => .error "entry arity"

def getPairNat (j : Json) : Except String (Nat × Nat) := do
  match ← getNatList j with
  | [r, c] => return (r, c)
  | _ => .error "pair arity"

/-- `n`, `m` and the matrix (shape checked: a wrong shape is a protocol error, not a verdict) -/
def getMatrix (a : Json) : Except String (Nat × Nat × Mat) := do
  let n ← fldNat a "n"
  let m ← fldNat a "m"
  let rows ← (← fldArr a "matrix").mapM getRatList
  if rows.length ≠ n then .error "matrix: wrong number of rows"
  else if rows.any (fun r => r.length != m) then .error "matrix: wrong row length"
  else return (n, m, matOfRows rows)

def errName : LoopErr → String
  | .index => "crash:IndexError"
  | .key => "key"

def handle (op : String) (a : Json) : Except String Json := do
  match op with
  | "match" =>
    let (n, m, aff) ← getMatrix a
    let assigned ← (← fldArr a "assigned").mapM getPairNat
    match selectMatches n m aff assigned with
    | .ok out => return valJ (arrJ (out.map entryJ))
    | .error e => return Json.mkObj [("raise", Json.str (errName e))]
  | "holds" =>
    let (n, m, aff) ← getMatrix a
    let out ← (← fldArr a "out").mapM getEntry
    let tol ← fldRat a "tol"
    let v := judge tol n m aff out
    return Json.mkObj [("all", boolJ v.all), ("cover_src", boolJ v.coverSrc), ("cover_tgt", boolJ v.coverTgt),
      ("entries", boolJ v.entries), ("optimal", boolJ v.optimal),
      ("best", ratJ (bestValue n m aff)), ("total", ratJ (total out))]
  | "contract" =>
    -- scipy's contract on its answer: a valid assignment whose value is within `tol` of the optimum
    let (n, m, aff) ← getMatrix a
    let assigned ← (← fldArr a "assigned").mapM getPairNat
    let tol ← fldRat a "tol"
    let best := bestValue n m aff
    let v := value aff assigned
    return Json.mkObj [("valid", boolJ (validAssignment n m assigned)),
      ("optimal", boolJ (decide (best ≤ v + tol))), ("best", ratJ best), ("value", ratJ v)]
  | _ => .error s!"C07: unknown op {op}"

end SE.Ops.C07
