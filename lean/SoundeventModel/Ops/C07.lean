import SoundeventModel.Ops.Common
import SoundeventModel.Matching
import SoundeventModel.MatchCall
namespace SE.Ops.C07
open Lean SE SE.Matching SE.MatchCall

def getOptNat (j : Json) : Except String (Option Nat) :=
  match j with
  | .null => .ok none
  | v => do return some (← v.getNat?)

def optNatJ : Option Nat → Json
  | none => Json.null
  | some n => natJ n

def entryJ (e : Entry) : Json := arrJ [optNatJ e.src, optNatJ e.tgt, ratJ e.aff]

def getEntry (j : Json) : Except String Entry := do
  match ← getArr j with
  | [s, t, a] => return ⟨← getOptNat s, ← getOptNat t, ← getRat a⟩
  | _ => .error "entry arity"

def getPairNat (j : Json) : Except String (Nat × Nat) := do
  match ← getNatList j with
  | [r, c] => return (r, c)
  | _ => .error "pair arity"

/-- `n`, `m` and the matrix (shape checked: a wrong shape is a protocol error, not a verdict) -/
def getMatrix (a : Json) : Except String (Nat × Nat × Mat) := do
  let n ← fldNat a "n"
  let m ← fldNat a "m"
  let rows ← (← fldArr a "matrix").mapM getRatList
  if rows.length ≠ n then .error "matrix: wrong number of rows"
  else if rows.any (fun r => r.length != m) then .error "matrix: wrong row length"
  else return (n, m, matOfRows rows)

def errName : LoopErr → String
  | .index => "crash:IndexError"
  | .key => "key"

/-- an argument of a call: `{"geoms": [geometry, …]}` or `{"num": "p/q"}` -/
def getArg (j : Json) : Except String Arg := do
  match fldOpt j "geoms" with
  | some gs => return .geoms (← (← getArr gs).mapM getGeom)
  | none => return .num (← fldRat j "num")

def argJ : Arg → Json
  | .geoms gs => Json.mkObj [("geoms", arrJ (gs.map geomJ))]
  | .geom g => Json.mkObj [("geom", geomJ g)]
  | .num x => Json.mkObj [("num", ratJ x)]

def getKw (j : Json) : Except String (String × Arg) := do
  match ← getArr j with
  | [k, v] => return (← k.getStr?, ← getArg v)
  | _ => .error "keyword arity"

def getCall (a : Json) : Except String Call := do
  return ⟨← (← fldArr a "source").mapM getGeom, ← (← fldArr a "target").mapM getGeom, ← fldRat a "tb", ← fldRat a "fb"⟩

def handle (op : String) (a : Json) : Except String Json := do
  match op with
  | "closed_matrix" =>
    -- the affinity matrix of a call from the coordinates alone (`MatchCall.closedAffinity`; `null` where the pair
    -- needs GEOS); `raise` when the call raises (`MatchCall.callError`: a negative buffer reaching a buffered type)
    let c ← getCall a
    let closedOnly : Call := c
    match callError closedOnly with
    | some e => return Json.mkObj [("raise", Json.str e.name)]
    | none =>
      return Json.mkObj [("matrix", arrJ (c.src.map fun g => arrJ (c.tgt.map fun h =>
        if closedPair g h then ratJ (affinityOf c.tb c.fb g h) else Json.null)))]
  | "bind_call" =>
    -- `match_geometries(*pos, **kw)`: the bound call, or the TypeError
    let pos ← (← fldArr a "pos").mapM getArg
    let kw ← (← fldArr a "kw").mapM getKw
    match callOf pos kw with
    | .error _ => return Json.mkObj [("raise", Json.str "type")]
    | .ok none => return Json.mkObj [("raise", Json.str "type")]
    | .ok (some c) =>
      return Json.mkObj [("source", arrJ (c.src.map geomJ)), ("target", arrJ (c.tgt.map geomJ)),
        ("tb", ratJ c.tb), ("fb", ratJ c.fb)]
  | "holds_ind" =>
    -- the property on an observed output judged against the independent matrix up to `tau` per entry
    -- (`Proofs.C07.C07_holds_ind`); with `u`, `v`, `witness` the optimum of the snapped matrix is certified
    -- (`C07_holds_ind_cert`), otherwise brute-forced
    let (n, m, aff) ← getMatrix a
    let out ← (← fldArr a "out").mapM getEntry
    let tau ← fldRat a "tau"
    let tol ← fldRat a "tol"
    let b := snap tau aff out
    let within := out.all fun e => match e.src, e.tgt with
      | some i, some j => decide (aff i j - e.aff ≤ tau) && decide (e.aff - aff i j ≤ tau)
      | _, _ => true
    let shape := [("cover_src", boolJ ((srcs out).isPerm (List.range n))),
      ("cover_tgt", boolJ ((tgts out).isPerm (List.range m))), ("entries", boolJ (out.all (entryOk b))),
      ("within", boolJ within), ("total", ratJ (total out))]
    match fldOpt a "witness" with
    | some wj =>
      let u := vecOf (← getRatList (← fld a "u"))
      let v := vecOf (← getRatList (← fld a "v"))
      let w ← (← getArr wj).mapM getPairNat
      return Json.mkObj (shape ++ [("cert", boolJ (certOk n m b u v w)),
        ("all", boolJ (holdsIndCert tau tol n m aff u v w out)),
        ("optimal", boolJ (optimalByCert tol n m b u v w out)), ("best", ratJ (value b w))])
    | none =>
      return Json.mkObj (shape ++ [("cert", boolJ true), ("all", boolJ (holdsInd tau tol n m aff out)),
        ("optimal", boolJ (optimalWithin tol n m b out)), ("best", ratJ (bestValue n m b))])
  | "close" =>
    -- `closeWithin τ n m a b` (hypothesis of `Proofs.C07.C07_optimal_perturb`) with `b` given as a second matrix
    let (n, m, aff) ← getMatrix a
    let rows2 ← (← fldArr a "matrix2").mapM getRatList
    let tau ← fldRat a "tau"
    return Json.mkObj [("close", boolJ (closeWithin tau n m aff (matOfRows rows2)))]
  | "match" =>
    let (n, m, aff) ← getMatrix a
    let assigned ← (← fldArr a "assigned").mapM getPairNat
    match selectMatches n m aff assigned with
    | .ok out => return valJ (arrJ (out.map entryJ))
    | .error e => return Json.mkObj [("raise", Json.str (errName e))]
  | "holds" =>
    let (n, m, aff) ← getMatrix a
    let out ← (← fldArr a "out").mapM getEntry
    let tol ← fldRat a "tol"
    let v := judge tol n m aff out
    return Json.mkObj [("all", boolJ v.all), ("cover_src", boolJ v.coverSrc), ("cover_tgt", boolJ v.coverTgt),
      ("entries", boolJ v.entries), ("optimal", boolJ v.optimal),
      ("best", ratJ (bestValue n m aff)), ("total", ratJ (total out))]
  | "contract" =>
    -- scipy's contract on its answer: a valid assignment whose value is within `tol` of the optimum
    let (n, m, aff) ← getMatrix a
    let assigned ← (← fldArr a "assigned").mapM getPairNat
    let tol ← fldRat a "tol"
    let best := bestValue n m aff
    let v := value aff assigned
    return Json.mkObj [("valid", boolJ (validAssignment n m assigned)),
      ("optimal", boolJ (decide (best ≤ v + tol))), ("best", ratJ best), ("value", ratJ v)]
  | "holds_contract" =>
    -- `holds` on the output and the solver's contract on its answer in one request (one brute force)
    let (n, m, aff) ← getMatrix a
    let out ← (← fldArr a "out").mapM getEntry
    let assigned ← (← fldArr a "assigned").mapM getPairNat
    let tol ← fldRat a "tol"
    let v := judge tol n m aff out
    let best := bestValue n m aff
    let val := value aff assigned
    return Json.mkObj [("all", boolJ v.all), ("cover_src", boolJ v.coverSrc), ("cover_tgt", boolJ v.coverTgt),
      ("entries", boolJ v.entries), ("optimal", boolJ v.optimal), ("best", ratJ best), ("total", ratJ (total out)),
      ("solver_valid", boolJ (validAssignment n m assigned)), ("solver_optimal", boolJ (decide (best ≤ val + tol))),
      ("solver_value", ratJ val)]
  | "holds_cert" =>
    -- the property on an observed output with optimality judged against a certified optimum
    -- (`Proofs.C07.C07_holds_by_cert`: equal to `holds` whenever the certificate is accepted)
    let (n, m, aff) ← getMatrix a
    let out ← (← fldArr a "out").mapM getEntry
    let tol ← fldRat a "tol"
    let u := vecOf (← getRatList (← fld a "u"))
    let v := vecOf (← getRatList (← fld a "v"))
    let w ← (← fldArr a "witness").mapM getPairNat
    let cert := certOk n m aff u v w
    return Json.mkObj [("cert", boolJ cert),
      ("all", boolJ (holdsShape n m aff out && optimalByCert tol n m aff u v w out)),
      ("cover_src", boolJ ((srcs out).isPerm (List.range n))), ("cover_tgt", boolJ ((tgts out).isPerm (List.range m))),
      ("entries", boolJ (out.all (entryOk aff))), ("optimal", boolJ (optimalByCert tol n m aff u v w out)),
      ("best", ratJ (value aff w)), ("total", ratJ (total out))]
  | "contract_cert" =>
    let (n, m, aff) ← getMatrix a
    let assigned ← (← fldArr a "assigned").mapM getPairNat
    let tol ← fldRat a "tol"
    let u := vecOf (← getRatList (← fld a "u"))
    let v := vecOf (← getRatList (← fld a "v"))
    let w ← (← fldArr a "witness").mapM getPairNat
    let cert := certOk n m aff u v w
    let val := value aff assigned
    return Json.mkObj [("cert", boolJ cert), ("valid", boolJ (validAssignment n m assigned)),
      ("optimal", boolJ (cert && decide (value aff w ≤ val + tol))), ("best", ratJ (value aff w)), ("value", ratJ val)]
  | "shape" =>
    -- the clauses other than optimality (`Proofs.C07.C07_shape_any_valid`), and scipy-free validity of `assigned`
    let (n, m, aff) ← getMatrix a
    let out ← (← fldArr a "out").mapM getEntry
    let assigned ← (← fldArr a "assigned").mapM getPairNat
    return Json.mkObj [("all", boolJ (holdsShape n m aff out)), ("valid", boolJ (validAssignment n m assigned)),
      ("cover_src", boolJ ((srcs out).isPerm (List.range n))), ("cover_tgt", boolJ ((tgts out).isPerm (List.range m))),
      ("entries", boolJ (out.all (entryOk aff)))]
  | "match_geoms" =>
    -- `matchGeometries`: the model fills the matrix itself (`fillMatrix`) from the geometries (indices into a
    -- pool of distinct geometries) and the table of `compute_affinity` on pairs of the pool
    let src ← getNatList (← fld a "source")
    let tgt ← getNatList (← fld a "target")
    let table ← (← fldArr a "table").mapM getRatList
    let assigned ← (← fldArr a "assigned").mapM getPairNat
    match matchGeometries (fun p q => matOfRows table p q) (fun _ _ _ => assigned) src tgt with
    | .ok out => return valJ (arrJ (out.map entryJ))
    | .error e => return Json.mkObj [("raise", Json.str (errName e))]
  | _ => .error s!"C07: unknown op {op}"

end SE.Ops.C07
