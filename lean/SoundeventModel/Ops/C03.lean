import SoundeventModel.Ops.Common
namespace SE.Ops.C03
open Lean SE

def handle (op : String) (_a : Json) : Except String Json := do
  match op with
  | _ => .error s!"C03: unknown op {op}"

end SE.Ops.C03
