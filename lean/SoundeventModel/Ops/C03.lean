/-
  C03 — JSON glue.

  raw coordinates : nested JSON arrays whose leaves are rationals ("n/d" strings or integers)
  construct        {"cls": name, "type": str | null, "coordinates": raw | null}
  geometry_validate{"mode": str, "obj": {"kind": "str", "parsed": doc | null}
                                      | {"kind": "val", "doc": doc}
                                      | {"kind": "attrs", "type": str | null, "coordinates": raw | null}}
                   doc = {"type": str | null, "coordinates": raw | null} | "other"
  holds            {"cls": name, "coordinates": raw, "out": {"val": {"cls", "coordinates"}} | {"raise": e}}
  union_validate   {"src": {"kind": "mapping"|"object"|"unusable", "type": str | null, "coordinates": raw | null}}
  instance_validate{"mode": str, "cls": name, "type": str, "coordinates": raw} -> {"asis": reply, "demand": reply}
  replies          {"val": {"type": t, "cls": class name, "coordinates": raw}} | {"raise": "invalid"}
  follow-up (construction paths, histories):
  obj kind "attrobj" {"kind": "attrobj", "type": where, "coordinates": where}
                   where = {"inst": v | null, "cls": {"how": "plain" | "data", "value": v | null} | null, "dyn": v | null}
                   (the model reads the object through `Where.get` = Python's `getattr`)
  "call" (optional, geometry_validate / construct): how the arguments are passed –
                   "pos" f(o, m) | "kw" f(o, mode=m) | "allkw" f(obj=o, mode=m) | "kwrev" f(mode=m, obj=o)
                   | "default" f(o) | "objkw" f(obj=o); constructor: "kw" | "kwrev"; bound by `bindArgs` under the
                   model's signature; a call that does not bind is {"raise": "type"}
  class_validate   {"cls": name, "fa": bool, "src": {"kind": "mapping"|"object"|"unusable", "type", "coordinates"}}
  history          {"calls": [{"op": "construct"|"class_validate"|"geometry_validate"|"union_validate", "args": …}]}
                   -> list of replies (`SE.Validate.history`)
-/
import SoundeventModel.Ops.Common
import SoundeventModel.Validate
import SoundeventModel.ValidateTactics
namespace SE.Ops.C03
open Lean SE SE.Validate

partial def getRaw (j : Json) : Except String Raw :=
  match j with
  | .arr xs => do return .arr (← xs.toList.mapM getRaw)
  | j => do return .num (← getRat j)

partial def rawJ : Raw → Json
  | .num q => ratJ q
  | .arr xs => arrJ (xs.map rawJ)

def optStr (j : Json) (k : String) : Except String (Option String) :=
  match fldOpt j k with
  | none => .ok none
  | some v => do return some (← v.getStr?)

def optRaw (j : Json) (k : String) : Except String (Option Raw) :=
  match fldOpt j k with
  | none => .ok none
  | some v => do return some (← getRaw v)

def getDoc (j : Json) : Except String Doc :=
  match j with
  | .str "other" => .ok .other
  | j => do return .dict (← optStr j "type") (← optRaw j "coordinates")

def getWhere {α} (rd : Json → Except String α) (j : Json) : Except String (Where α) := do
  let opt (k : String) : Except String (Option α) :=
    match fldOpt j k with
    | none => .ok none
    | some v => do return some (← rd v)
  let cls : Option (ClsAttr α) ← match fldOpt j "cls" with
    | none => pure none
    | some c => do
      let v : Option α ← (match fldOpt c "value" with
        | none => pure none
        | some v => do return some (← rd v))
      match ← fldStr c "how", v with
      | "plain", some v => pure (some (ClsAttr.plain v))
      | "data", v => pure (some (ClsAttr.data v))
      | h, _ => throw s!"bad class attribute {h}"
  return { inst := ← opt "inst", cls := cls, dyn := ← opt "dyn" }

def getObj (j : Json) : Except String PyObj := do
  match ← fldStr j "kind" with
  | "str" =>
    match fldOpt j "parsed" with
    | none => return .str none
    | some d => return .str (some (← getDoc d))
  | "val" => return .val (← getDoc (← fld j "doc"))
  | "attrs" => return .attrs (← optStr j "type") (← optRaw j "coordinates")
  | "attrobj" =>
    let ty ← getWhere (fun v => v.getStr?) (← fld j "type")
    let co ← getWhere getRaw (← fld j "coordinates")
    return .ofAttrObj ⟨ty, co⟩
  | k => .error s!"unknown object kind {k}"

def getMode : String → Mode
  | "json" => .json
  | "dict" => .dict
  | "attributes" => .attributes
  | _ => .other

def getCls (name : String) : Except String Cls :=
  match table.lookup name with
  | some c => .ok c
  | none => .error s!"unknown class {name}"

def raiseV (e : VErr) : Json := Json.mkObj [("raise", Json.str e.name)]

def objJ (o : Obj) : Json :=
  valJ (Json.mkObj [("type", Json.str o.1), ("cls", Json.str (GType.of o.2).tag),
                    ("coordinates", rawJ (dump o.2))])

def resJ : R Obj → Json
  | .ok o => objJ o
  | .error e => raiseV e

/-- the implementation's output, read back as a value of the model (`none`: not the coordinates of
    an object of that class, which `holdsB` then rejects through a class mismatch) -/
def getOut (j : Json) : Except String (Option (R Geom)) := do
  match fldOpt j "raise" with
  | some e =>
    match ← e.getStr? with
    | "invalid" => return some (.error .invalid)
    | _ => return some (.error .crash)
  | none =>
    let v ← fld j "val"
    let cls ← getCls (← fldStr v "cls")
    match decode cls.ty (← getRaw (← fld v "coordinates")) with
    | some g => return some (.ok g)
    | none => return none

/-- the signatures of the model (the table obligations `geometry_validate-signature` /
    `constructor-signatures` show on every run that the code's satisfy `gvSigOkB` / `ctorSigOkB`) -/
def gvSig : Sig := [⟨"obj", .posOrKw, none⟩, ⟨"mode", .posOrKw, some "json"⟩]
def ctorSig (tag : String) : Sig := [⟨"type", .kwOnly, some tag⟩, ⟨"coordinates", .kwOnly, none⟩]

def optResJ : Option (R Obj) → Json
  | some r => resJ r
  | none => Json.mkObj [("raise", Json.str "type")]

def getSource (src : Json) : Except String Source := do
  match ← fldStr src "kind" with
  | "mapping" => pure (Source.mapping (← optStr src "type") (← optRaw src "coordinates"))
  | "object" => pure (Source.object (← optStr src "type") (← optRaw src "coordinates"))
  | _ => pure Source.unusable

def doConstruct (a : Json) : Except String Json := do
  let c ← getCls (← fldStr a "cls")
  let t ← optStr a "type"
  let r ← optRaw a "coordinates"
  match fldOpt a "call" with
  | none => return resJ (construct c t r)
  | some st =>
    let kwT : List (String × CtorArg) := match t with | some t => [("type", .type t)] | none => []
    let kwR : List (String × CtorArg) := match r with | some r => [("coordinates", .coordinates r)] | none => []
    match ← st.getStr? with
    | "kw" => return optResJ (callConstruct c (ctorSig c.dflt) (kwT ++ kwR))
    | "kwrev" => return optResJ (callConstruct c (ctorSig c.dflt) (kwR ++ kwT))
    | s => .error s!"construct: unknown call style {s}"

def doGeometryValidate (a : Json) : Except String Json := do
  let m ← fldStr a "mode"
  let o ← getObj (← fld a "obj")
  match fldOpt a "call" with
  | none => return resJ (geometryValidate table (getMode m) o)
  | some st =>
    match ← st.getStr? with
    | "pos" => return optResJ (callGeometryValidate table gvSig [.obj o, .mode m] [])
    | "kw" => return optResJ (callGeometryValidate table gvSig [.obj o] [("mode", .mode m)])
    | "allkw" => return optResJ (callGeometryValidate table gvSig [] [("obj", .obj o), ("mode", .mode m)])
    | "kwrev" => return optResJ (callGeometryValidate table gvSig [] [("mode", .mode m), ("obj", .obj o)])
    | "default" => return optResJ (callGeometryValidate table gvSig [.obj o] [])
    | "objkw" => return optResJ (callGeometryValidate table gvSig [] [("obj", .obj o)])
    | s => .error s!"geometry_validate: unknown call style {s}"

def getCall (j : Json) : Except String Call := do
  let a ← fld j "args"
  match ← fldStr j "op" with
  | "construct" => return .construct (← getCls (← fldStr a "cls")) (← optStr a "type") (← optRaw a "coordinates")
  | "class_validate" =>
    return .classValidate (← getCls (← fldStr a "cls")) (← (← fld a "fa").getBool?) (← getSource (← fld a "src"))
  | "geometry_validate" => return .geometryValidate (getMode (← fldStr a "mode")) (← getObj (← fld a "obj"))
  | "union_validate" => return .union (← getSource (← fld a "src"))
  | o => .error s!"history: unknown call {o}"

def handle (op : String) (a : Json) : Except String Json := do
  match op with
  | "construct" => doConstruct a
  | "geometry_validate" => doGeometryValidate a
  | "class_validate" =>
    let c ← getCls (← fldStr a "cls")
    return resJ (classValidate c (← (← fld a "fa").getBool?) (← getSource (← fld a "src")))
  | "history" =>
    let calls ← (← (← fld a "calls").getArr?).toList.mapM getCall
    return arrJ ((history table allClasses calls).map resJ)
  | "holds" =>
    let c ← getCls (← fldStr a "cls")
    let r ← getRaw (← fld a "coordinates")
    match ← getOut (← fld a "out") with
    | some out => return boolJ (holdsB c.ty r out)
    | none => return boolJ false
  | "union_validate" =>
    -- {"src": {"kind": "mapping" | "object" | "unusable", "type": str | null, "coordinates": raw | null}}
    return resJ (unionValidate allClasses (← getSource (← fld a "src")))
  | "instance_validate" =>
    -- an existing instance of class `cls` whose fields are now `type`, `coordinates` (of the shape
    -- of the class): `asis` = the code as it is (pass-through), `demand` = read as attribute object
    let c ← getCls (← fldStr a "cls")
    let t ← fldStr a "type"
    let r ← getRaw (← fld a "coordinates")
    let mode := getMode (← fldStr a "mode")
    match decode c.ty r with
    | none => .error "instance_validate: coordinates do not have the shape of the class"
    | some g =>
      return Json.mkObj [
        ("asis", resJ (geometryValidateInstance table mode (c, (t, g)))),
        ("demand", resJ (geometryValidate table mode (.attrs (some t) (some r))))]
  | "spec" =>
    let c ← getCls (← fldStr a "cls")
    return boolJ (specB c.ty (← getRaw (← fld a "coordinates")))
  | _ => .error s!"C03: unknown op {op}"

end SE.Ops.C03
