/-
  C03 — JSON glue.

  raw coordinates : nested JSON arrays whose leaves are rationals ("n/d" strings or integers)
  construct        {"cls": name, "type": str | null, "coordinates": raw | null}
  geometry_validate{"mode": str, "obj": {"kind": "str", "parsed": doc | null}
                                      | {"kind": "val", "doc": doc}
                                      | {"kind": "attrs", "type": str | null, "coordinates": raw | null}}
                   doc = {"type": str | null, "coordinates": raw | null} | "other"
  holds            {"cls": name, "coordinates": raw, "out": {"val": {"cls", "coordinates"}} | {"raise": e}}
  union_validate   {"src": {"kind": "mapping"|"object"|"unusable", "type": str | null, "coordinates": raw | null}}
  instance_validate{"mode": str, "cls": name, "type": str, "coordinates": raw} -> {"asis": reply, "demand": reply}
  replies          {"val": {"type": t, "cls": class name, "coordinates": raw}} | {"raise": "invalid"}
-/
import SoundeventModel.Ops.Common
import SoundeventModel.Validate
import SoundeventModel.ValidateTactics
namespace SE.Ops.C03
open Lean SE SE.Validate

partial def getRaw (j : Json) : Except String Raw :=
  match j with
  | .arr xs => do return .arr (← xs.toList.mapM getRaw)
  | j => do return .num (← getRat j)

partial def rawJ : Raw → Json
  | .num q => ratJ q
  | .arr xs => arrJ (xs.map rawJ)

def optStr (j : Json) (k : String) : Except String (Option String) :=
  match fldOpt j k with
  | none => .ok none
  | some v => do return some (← v.getStr?)

def optRaw (j : Json) (k : String) : Except String (Option Raw) :=
  match fldOpt j k with
  | none => .ok none
  | some v => do return some (← getRaw v)

def getDoc (j : Json) : Except String Doc :=
  match j with
  | .str "other" => .ok .other
  | j => do return .dict (← optStr j "type") (← optRaw j "coordinates")

def getObj (j : Json) : Except String PyObj := do
  match ← fldStr j "kind" with
  | "str" =>
    match fldOpt j "parsed" with
    | none => return .str none
    | some d => return .str (some (← getDoc d))
  | "val" => return .val (← getDoc (← fld j "doc"))
  | "attrs" => return .attrs (← optStr j "type") (← optRaw j "coordinates")
  | k => .error s!"unknown object kind {k}"

def getMode : String → Mode
  | "json" => .json
  | "dict" => .dict
  | "attributes" => .attributes
  | _ => .other

def getCls (name : String) : Except String Cls :=
  match table.lookup name with
  | some c => .ok c
  | none => .error s!"unknown class {name}"

def raiseV (e : VErr) : Json := Json.mkObj [("raise", Json.str e.name)]

def objJ (o : Obj) : Json :=
  valJ (Json.mkObj [("type", Json.str o.1), ("cls", Json.str (GType.of o.2).tag),
                    ("coordinates", rawJ (dump o.2))])

def resJ : R Obj → Json
  | .ok o => objJ o
  | .error e => raiseV e

/-- the implementation's output, read back as a value of the model (`none`: not the coordinates of
    an object of that class, which `holdsB` then rejects through a class mismatch) -/
def getOut (j : Json) : Except String (Option (R Geom)) := do
  match fldOpt j "raise" with
  | some e =>
    match ← e.getStr? with
    | "invalid" => return some (.error .invalid)
    | _ => return some (.error .crash)
  | none =>
    let v ← fld j "val"
    let cls ← getCls (← fldStr v "cls")
    match decode cls.ty (← getRaw (← fld v "coordinates")) with
    | some g => return some (.ok g)
    | none => return none

def handle (op : String) (a : Json) : Except String Json := do
  match op with
  | "construct" =>
    let c ← getCls (← fldStr a "cls")
    return resJ (construct c (← optStr a "type") (← optRaw a "coordinates"))
  | "geometry_validate" =>
    return resJ (geometryValidate table (getMode (← fldStr a "mode")) (← getObj (← fld a "obj")))
  | "holds" =>
    let c ← getCls (← fldStr a "cls")
    let r ← getRaw (← fld a "coordinates")
    match ← getOut (← fld a "out") with
    | some out => return boolJ (holdsB c.ty r out)
    | none => return boolJ false
  | "union_validate" =>
    -- {"src": {"kind": "mapping" | "object" | "unusable", "type": str | null, "coordinates": raw | null}}
    let src ← fld a "src"
    let source : Source ← match ← fldStr src "kind" with
      | "mapping" => pure (Source.mapping (← optStr src "type") (← optRaw src "coordinates"))
      | "object" => pure (Source.object (← optStr src "type") (← optRaw src "coordinates"))
      | _ => pure Source.unusable
    return resJ (unionValidate allClasses source)
  | "instance_validate" =>
    -- an existing instance of class `cls` whose fields are now `type`, `coordinates` (of the shape
    -- of the class): `asis` = the code as it is (pass-through), `demand` = read as attribute object
    let c ← getCls (← fldStr a "cls")
    let t ← fldStr a "type"
    let r ← getRaw (← fld a "coordinates")
    let mode := getMode (← fldStr a "mode")
    match decode c.ty r with
    | none => .error "instance_validate: coordinates do not have the shape of the class"
    | some g =>
      return Json.mkObj [
        ("asis", resJ (geometryValidateInstance table mode (c, (t, g)))),
        ("demand", resJ (geometryValidate table mode (.attrs (some t) (some r))))]
  | "spec" =>
    let c ← getCls (← fldStr a "cls")
    return boolJ (specB c.ty (← getRaw (← fld a "coordinates")))
  | _ => .error s!"C03: unknown op {op}"

end SE.Ops.C03
