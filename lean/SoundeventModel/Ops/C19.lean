import SoundeventModel.Ops.Common
import SoundeventModel.Encoding
namespace SE.Ops.C19
open Lean SE SE.Encoding

def fldOptStr (j : Json) (k : String) : Except String (Option String) :=
  match fldOpt j k with
  | none => .ok none
  | some v => do return some (← v.getStr?)

def getTerm (j : Json) : Except String Encoding.Term := do
  let extra ← (← fldArr j "extra").mapM fun p => do
    match ← getArr p with
    | [k, v] => return (← k.getStr?, ← v.getStr?)
    | _ => .error "extra: expected pair"
  return {
    label := ← fldStr j "label", definition := ← fldStr j "definition", name := ← fldStr j "name",
    uri := ← fldOptStr j "uri", typeOfTerm := ← fldStr j "type_of_term",
    comment := ← fldOptStr j "comment", see := ← fldOptStr j "see",
    subpropertyOf := ← fldOptStr j "subproperty_of", subclassOf := ← fldOptStr j "subclass_of",
    domain := ← fldOptStr j "domain", domainIncludes := ← fldOptStr j "domain_includes",
    termRange := ← fldOptStr j "term_range", rangeIncludes := ← fldOptStr j "range_includes",
    memberOf := ← fldOptStr j "member_of", instanceOf := ← fldOptStr j "instance_of",
    equivalentProperty := ← fldOptStr j "equivalent_property", description := ← fldOptStr j "description",
    scopeNote := ← fldOptStr j "scope_note", extra := extra }

def getTag (j : Json) : Except String Tag := do
  return { term := ← getTerm (← fld j "term"), value := ← fldStr j "value" }

def getTags (j : Json) (k : String) : Except String (List Tag) := do (← fldArr j k).mapM getTag

/-- predicted tags with the binary32 value of each score as computed by the harness -/
def getPreds (j : Json) (k : String) : Except String (List PredictedTag × List (Rat × Rat)) := do
  let ps ← (← fldArr j k).mapM fun p => do
    let t ← getTag (← fld p "tag")
    let s ← fldRat p "score"
    let s32 ← fldRat p "score32"
    return (({ tag := t, score := s } : PredictedTag), (s, s32))
  return (ps.map (·.1), ps.map (·.2))

def castOf (tbl : List (Rat × Rat)) (q : Rat) : Rat :=
  match tbl.find? (fun p => p.1 == q) with
  | some p => p.2
  | none => q

def optStrJ : Option String → Json
  | none => Json.null
  | some s => Json.str s

def termJ (t : Encoding.Term) : Json := Json.mkObj [
  ("label", t.label), ("definition", t.definition), ("name", t.name), ("uri", optStrJ t.uri),
  ("type_of_term", t.typeOfTerm), ("comment", optStrJ t.comment), ("see", optStrJ t.see),
  ("subproperty_of", optStrJ t.subpropertyOf), ("subclass_of", optStrJ t.subclassOf),
  ("domain", optStrJ t.domain), ("domain_includes", optStrJ t.domainIncludes),
  ("term_range", optStrJ t.termRange), ("range_includes", optStrJ t.rangeIncludes),
  ("member_of", optStrJ t.memberOf), ("instance_of", optStrJ t.instanceOf),
  ("equivalent_property", optStrJ t.equivalentProperty), ("description", optStrJ t.description),
  ("scope_note", optStrJ t.scopeNote),
  ("extra", arrJ (t.extra.map fun (k, v) => arrJ [Json.str k, Json.str v]))]

def tagJ (t : Tag) : Json := Json.mkObj [("term", termJ t.term), ("value", t.value)]

/-- value trees: null | bool | {"s": str} | {"q": rat} | {"l": [..]} | {"t": [..]} | {"o": cls, "n": [..], "v": [..]} -/
partial def getVal (j : Json) : Except String Val := do
  match j with
  | .null => return .none
  | .bool b => return .bool b
  | _ =>
    if let some s := fldOpt j "s" then return .str (← s.getStr?)
    if let some q := fldOpt j "q" then return .num (← getRat q)
    if let some l := fldOpt j "l" then return .list (← (← getArr l).mapM getVal)
    if let some l := fldOpt j "t" then return .tuple (← (← getArr l).mapM getVal)
    if let some c := fldOpt j "o" then
      let names ← (← fldArr j "n").mapM (·.getStr?)
      let vals ← (← fldArr j "v").mapM getVal
      if names.length ≠ vals.length then .error "object: names/values length"
      return .obj (← c.getStr?) names vals
    .error s!"bad value {j.compress}"

def keyEq : Option (List Val) → Option (List Val) → Bool
  | some a, some b => Val.beqList a b
  | _, _ => false

/-- review additions: an encoder given as a table over pool positions (`null` = skipped) -/
def getEncTable (j : Json) : Except String (Nat → Option Int) := do
  let tbl ← (← fldArr j "enc").mapM fun v => match v with
    | .null => pure (none : Option Int)
    | v => do pure (some (← v.getInt?))
  return fun i => (tbl[i]?).join

def raiseIdx : Json := Json.mkObj [("raise", Json.str "index")]

def fillJ {β} (f : β → Json) : Option (List β) → Json
  | none => raiseIdx
  | some xs => arrJ (xs.map f)

def getFeature (j : Json) : Except String Feature := do
  return { term := ← getTerm (← fld j "term"), value := ← fldRat j "value" }

def featureJ (f : Feature) : Json := Json.mkObj [("term", termJ f.term), ("value", ratJ f.value)]

def optOf {α} (get : Json → Except String α) (j : Json) (k : String) : Except String (Option α) :=
  match fldOpt j k with
  | none => pure none
  | some v => do pure (some (← get v))

/-- raw value trees: as `getVal`, with `{"i": int}` and `{"f": rat, "neg0": bool}` for numbers -/
partial def getPyVal (j : Json) : Except String PyVal := do
  match j with
  | .null => return .none
  | .bool b => return .bool b
  | _ =>
    if let some s := fldOpt j "s" then return .str (← s.getStr?)
    if let some n := fldOpt j "i" then return .int (← n.getInt?)
    if let some q := fldOpt j "f" then
      let nz := match fldOpt j "neg0" with
        | some (.bool true) => true
        | _ => false
      return .float (← getRat q) nz
    if let some l := fldOpt j "l" then return .list (← (← getArr l).mapM getPyVal)
    if let some l := fldOpt j "t" then return .tuple (← (← getArr l).mapM getPyVal)
    if let some c := fldOpt j "o" then
      let names ← (← fldArr j "n").mapM (·.getStr?)
      let vals ← (← fldArr j "v").mapM getPyVal
      if names.length ≠ vals.length then .error "object: names/values length"
      return .obj (← c.getStr?) names vals
    .error s!"bad raw value {j.compress}"

def pyCls : PyVal → Option String
  | .obj c _ _ => some c
  | _ => none


/-! the driver builds the dictionary of a vocabulary once per request (the model functions rebuild it for every
    tag, which is quadratic in the size classes of follow-up 3); the fast forms are the model functions -/

def classificationWith (m : List ((Encoding.Term × String) × Nat)) : List Tag → Option Nat
  | [] => none
  | t :: ts =>
    match dictGet m (key t) with
    | some i => some i
    | none => classificationWith m ts

theorem classificationWith_eq (vocab tags : List Tag) :
    classificationWith (mapping vocab) tags = classificationEncoding vocab tags := by
  induction tags with
  | nil => rfl
  | cons t ts ih =>
    simp only [classificationWith, classificationEncoding, encode]
    cases dictGet (mapping vocab) (key t) with
    | some i => rfl
    | none => exact ih

def multilabelFast (vocab tags : List Tag) : List Nat :=
  let m := mapping vocab
  tags.foldl (fun acc t => store acc (dictGet m (key t)) 1) (List.replicate vocab.length 0)

theorem multilabelFast_eq (vocab tags : List Tag) : multilabelFast vocab tags = multilabelEncoding vocab tags := rfl

def predictionFast (cast : Rat → Rat) (vocab : List Tag) (preds : List PredictedTag) : List Rat :=
  let m := mapping vocab
  preds.foldl (fun acc p => store acc (dictGet m (key p.tag)) (cast p.score)) (List.replicate vocab.length 0)

theorem predictionFast_eq (cast : Rat → Rat) (vocab : List Tag) (preds : List PredictedTag) :
    predictionFast cast vocab preds = predictionEncoding cast vocab preds := rfl

def encodeAll (vocab tags : List Tag) : List (Option Nat) :=
  let m := mapping vocab
  tags.map fun t => dictGet m (key t)

theorem encodeAll_eq (vocab tags : List Tag) : encodeAll vocab tags = tags.map (encode vocab) := rfl

def handle (op : String) (a : Json) : Except String Json := do
  match op with
  | "encoder" =>
    let vocab ← getTags a "vocab"
    let tags ← getTags a "tags"
    return Json.mkObj [
      ("num_classes", natJ (numClasses vocab)),
      ("encode", arrJ ((encodeAll vocab tags).map (optJ natJ))),
      ("decode", arrJ ((List.range vocab.length).map fun i => optJ tagJ (decode vocab i)))]
  | "classification" =>
    return optJ natJ (classificationWith (mapping (← getTags a "vocab")) (← getTags a "tags"))
  | "multilabel" =>
    return natsJ (multilabelFast (← getTags a "vocab") (← getTags a "tags"))
  | "prediction" =>
    let (preds, tbl) ← getPreds a "preds"
    return ratsJ (predictionFast (castOf tbl) (← getTags a "vocab") preds)
  | "holds_classification" =>
    let out ← match fldOpt a "out" with
      | none => pure none
      | some v => do pure (some (← v.getNat?))
    return boolJ (holdsClassification (← getTags a "vocab") (← getTags a "tags") out)
  | "holds_multilabel" =>
    return boolJ (holdsMultilabel (← getTags a "vocab") (← getTags a "tags") (← getNatList (← fld a "out")))
  | "holds_prediction" =>
    let (preds, tbl) ← getPreds a "preds"
    return boolJ (holdsPrediction (castOf tbl) (← getTags a "vocab") preds (← getRatList (← fld a "out")))
  | "tag_eq" =>
    return boolJ (decide ((← getTag (← fld a "a")) = (← getTag (← fld a "b"))))
  | "eq_hash" =>
    let x ← getVal (← fld a "a")
    let y ← getVal (← fld a "b")
    return Json.mkObj [("eq", boolJ (Val.beq x y)), ("same_key", boolJ (keyEq (hashKey x) (hashKey y))),
                       ("has_key", boolJ ((hashKey x).isSome && (hashKey y).isSome))]
  | "classification_g" =>
    let enc ← getEncTable a
    return optJ intJ (classificationG enc (← getNatList (← fld a "tags")))
  | "multilabel_g" =>
    let enc ← getEncTable a
    return fillJ natJ (multilabelG enc (← fldNat a "n") (← getNatList (← fld a "tags")))
  | "prediction_g" =>
    let enc ← getEncTable a
    let ps ← (← fldArr a "preds").mapM fun p => do
      return ((← fldNat p "i"), (← fldRat p "score"), (← fldRat p "score32"))
    let tbl := ps.map fun p => (p.2.1, p.2.2)
    return fillJ ratJ (predictionG (castOf tbl) (fun p : Nat × Rat × Rat => enc p.1) (·.2.1) (← fldNat a "n") ps)
  | "decode_i" =>
    let vocab ← getTags a "vocab"
    let idx ← (← fldArr a "idx").mapM (·.getInt?)
    return arrJ (idx.map fun i => match decodeI vocab i with
      | none => raiseIdx
      | some t => valJ (tagJ t))
  | "norm_idx" =>
    let n ← fldNat a "n"
    let idx ← (← fldArr a "idx").mapM (·.getInt?)
    return arrJ (idx.map fun i => optJ natJ (normIdx n i))
  | "find_tag" =>
    let r := findTag (← getTags a "tags") (← optOf (·.getStr?) a "label") (← optOf getTerm a "term")
      (← optOf getTag a "default")
    return optRaiseJ (optJ tagJ) r
  | "find_feature" =>
    let fs ← (← fldArr a "features").mapM getFeature
    let r := findFeature fs (← optOf (·.getStr?) a "label") (← optOf getTerm a "term") (← optOf getFeature a "default")
    return optRaiseJ (optJ featureJ) r
  | "tag_init" =>
    let r := tagInit (← optOf (·.getStr?) a "key") (← optOf getTerm a "term") (← fldStr a "value")
    return optRaiseJ (fun t => Json.mkObj [("tag", tagJ t), ("key", Json.str (keyFromTerm t.term))]) r
  | "feature_init" =>
    let r := featureInit (← optOf (·.getStr?) a "name") (← optOf getTerm a "term") (← fldRat a "value")
    return optRaiseJ (fun f => Json.mkObj [("feature", featureJ f), ("name", Json.str (keyFromTerm f.term))]) r
  | "py_eq_hash" =>
    let x ← getPyVal (← fld a "a")
    let y ← getPyVal (← fld a "b")
    let hk (v : PyVal) : Bool := ((pyCls v).bind hashFields).isSome
    return Json.mkObj [("eq", boolJ (PyVal.beq x y)), ("canon_eq", boolJ (Val.beq x.canon y.canon)),
                       ("has_key", boolJ (hk x && hk y))]
  | "extras_eq" =>
    -- two terms as constructed: the canonical descriptor the walk produced and the extras in insertion order
    let rd (j : Json) : Except String (RawTerm × Encoding.Term) := do
      let t ← getTerm (← fld j "term")
      let items ← (← fldArr j "items").mapM fun p => do
        match ← getArr p with
        | [k, v] => return (← k.getStr?, ← v.getStr?)
        | _ => .error "items: expected pair"
      return (({ core := t, extra := items } : RawTerm), t)
    let (x, tx) ← rd (← fld a "a")
    let (y, ty) ← rd (← fld a "b")
    return Json.mkObj [("py_eq", boolJ (x.pyEq y)), ("canon_eq", boolJ (decide (x.canon = y.canon))),
                       ("sent_eq", boolJ (decide (tx = ty))),
                       ("canon_is_sent", boolJ (decide (x.canon = tx) && decide (y.canon = ty))),
                       ("wf", boolJ (decide ((x.extra.map (·.1)).Nodup) && decide ((y.extra.map (·.1)).Nodup)))]
  | "bind_call" =>
    -- Python's binding of a call with `npos` positional arguments (ids 0..npos-1) and the keywords `kw`
    -- (ids npos..) to the parameter names extracted from the code; `sig` names the documented table
    let params ← (← fldArr a "params").mapM (·.getStr?)
    let npos ← fldNat a "npos"
    let kw ← (← fldArr a "kw").mapM (·.getStr?)
    let doc := match fldOpt a "sig" with
      | some (.str "find_tag") => some findTagSig
      | some (.str "find_feature") => some findFeatureSig
      | some (.str "encoding") => some encodingSig
      | _ => none
    let b := bindCall params (List.range npos) (kw.zipIdx.map fun (k, j) => (k, npos + j))
    return Json.mkObj [
      ("documented", boolJ (doc == some params)),
      ("binding", match b with
        | none => Json.null
        | some xs => arrJ (xs.map fun (k, i) => arrJ [Json.str k, natJ i]))]
  | _ => .error s!"C19: unknown op {op}"

end SE.Ops.C19
