import SoundeventModel.Ops.Common
namespace SE.Ops.C16
open Lean SE

def handle (op : String) (_a : Json) : Except String Json := do
  match op with
  | _ => .error s!"C16: unknown op {op}"

end SE.Ops.C16
