import SoundeventModel.Ops.Common
import SoundeventModel.Axis
import SoundeventModel.AxisKernel
namespace SE.Ops.C16
open Lean SE SE.Axis

def araiseJ (e : AErr) : Json := Json.mkObj [("raise", Json.str e.name)]
def aexceptJ {α} (f : α → Json) : Except AErr α → Json
  | .ok a => valJ (f a)
  | .error e => araiseJ e

def fldOptInt (j : Json) (k : String) : Except String (Option Int) :=
  match fldOpt j k with
  | none => .ok none
  | some v => do return some (← v.getInt?)

def rangeDimJ (r : RangeDim) : Json :=
  Json.mkObj [("coords", ratsJ r.coords), ("step", ratJ r.step)]

def getNDArr (j : Json) : Except String (NDArr Rat) := do
  return { shape := ← getNatList (← fld j "shape"), data := ← getRatList (← fld j "data") }

def getVal (j : Json) : Except String (Val Rat) :=
  match fldOpt j "scalar" with
  | some s => do return .scalar (← getRat s)
  | none => do return .arr (← getNDArr j)

def getQuery (j : Json) : Except String (List (Nat × Rat)) := do
  (← getArr j).mapM fun p => do
    match ← getArr p with
    | [k, q] => return (← k.getNat?, ← getRat q)
    | _ => .error "query entry"

def getAErr (s : String) : Except String AErr :=
  match s with
  | "invalid" => .ok .invalid
  | "key" => .ok .key
  | "index" => .ok .index
  | "zerodiv" => .ok .zerodiv
  | _ => .error s!"unknown error class {s}"

/-- an observed output `{"val": …}` / `{"raise": …}`; an error class the model does not know
    (a crash) is mapped to `index`, which no statement accepts -/
def getOut {α} (f : Json → Except String α) (j : Json) : Except String (Except AErr α) :=
  match fldOpt j "raise" with
  | some r => do
    let s ← r.getStr?
    match getAErr s with
    | .ok e => return .error e
    | .error _ => return .error .index
  | none => do return .ok (← f (← fld j "val"))

def getRangeDim (j : Json) : Except String RangeDim := do
  return { coords := ← getRatList (← fld j "coords"), step := ← fldRat j "step" }

def handle (op : String) (a : Json) : Except String Json := do
  match op with
  | "range_dim" =>
    let kind ← fldStr a "kind"
    let start ← fldRat a "start"
    let stop ← fldRat a "stop"
    let step ← fldOptRat a "step"
    match kind with
    | "range" => return aexceptJ rangeDimJ (createRangeDim start stop step (← fldOptInt a "size"))
    | "time" => return aexceptJ rangeDimJ (createTimeRange start stop step (← fldOptRat a "samplerate"))
    | "frequency" =>
      match step with
      | some s => return aexceptJ rangeDimJ (createFrequencyRange start stop s)
      | none => .error "frequency range needs a step"
    | _ => .error s!"unknown kind {kind}"
  | "coord_index" =>
    return aexceptJ natJ (coordIndex (← getRatList (← fld a "coords")) (← fldRat a "v") (← fldBool a "raise"))
  | "set_value" =>
    let arr ← getNDArr a
    let axes ← (← fldArr a "axes").mapM getRatList
    let q ← getQuery (← fld a "query")
    let v ← getVal (← fld a "value")
    return aexceptJ (fun (r : NDArr Rat) => ratsJ r.data) (setValueAtPos arr axes q v)
  | "holds_range" =>
    let out ← getOut getRangeDim (← fld a "out")
    return boolJ (rangeSpec (← fldRat a "start") (← fldRat a "stop") (← fldRat a "step") out)
  | "holds_index" =>
    let out ← getOut (fun j => j.getNat?) (← fld a "out")
    return boolJ (indexSpec (← getRatList (← fld a "coords")) (← fldRat a "v") (← fldBool a "raise") out)
  | "holds_index_many" =>
    -- the lookup statement on one axis for many lookups `[v, raise, out]` (the axis is parsed once)
    let coords ← getRatList (← fld a "coords")
    let ls ← fldArr a "lookups"
    let rs ← ls.mapM fun l => do
      match ← getArr l with
      | [v, r, o] =>
        let out ← getOut (fun j => j.getNat?) o
        return boolJ (indexSpec coords (← getRat v) (← r.getBool?) out)
      | _ => .error "lookup entry"
    return Json.arr rs.toArray
  | "range_robust" =>
    -- the hypothesis of `C16_count_robust` on what numpy's arange returned, and the rule's result
    let cs ← getRatList (← fld a "cs")
    let thr ← fldRat a "thr"
    let ok := arangeContract (← fldRat a "start") (← fldRat a "step") (← fldRat a "delta") thr
      (← (← fld a "n").getNat?) cs
    return Json.mkObj [("contract", boolJ ok), ("coords", ratsJ (dropTrailingAt thr cs))]
  | "noop" => return Json.null
  | _ => .error s!"C16: unknown op {op}"

end SE.Ops.C16
