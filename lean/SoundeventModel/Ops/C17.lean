import SoundeventModel.Ops.Common
import SoundeventModel.Ops.C16
import SoundeventModel.Axis
import SoundeventModel.AxisOps
namespace SE.Ops.C17
open Lean SE SE.Axis SE.Ops.C16

/-- a cell: a JSON integer, a rational string, or one of "nan", "inf", "-inf" -/
def getCell (j : Json) : Except String Cell :=
  match j with
  | .str "nan" => .ok .nan
  | .str "inf" => .ok .posInf
  | .str "-inf" => .ok .negInf
  | _ => do return .num (← getRat j)

def cellJ : Cell → Json
  | .num q => if q.den = 1 then Json.num q.num else ratJ q
  | .nan => Json.str "nan"
  | .posInf => Json.str "inf"
  | .negInf => Json.str "-inf"

/-- a datum: one cell (1-D array) or the list of the cells over the other dimensions -/
def getDatum (j : Json) : Except String Datum :=
  match j with
  | .arr xs => xs.toList.mapM getCell
  | _ => do return [← getCell j]

def datumJ (d : Datum) : Json :=
  match d with
  | [c] => cellJ c
  | cs => arrJ (cs.map cellJ)

def getSamples (a : Json) : Except String (Samples Datum) := do
  let cs ← getRatList (← fld a "coords")
  let ds ← (← fldArr a "data").mapM getDatum
  if cs.length != ds.length then .error "coords/data length"
  return cs.zip ds

def samplesJ (s : Samples Datum) : Json :=
  Json.mkObj [("coords", ratsJ (coordsOf s)), ("data", arrJ ((dataOf s).map datumJ))]

/-- the scalar `fill_value` (default 0) broadcast over the other dimensions -/
def getFill (a : Json) (s : Samples Datum) : Except String Datum := do
  let c ← match fldOpt a "fill" with
    | none => pure (Cell.num 0)
    | some j => getCell j
  let k := match s.head? with | some p => p.2.length | none => 1
  return List.replicate k c

/-- position string; a missing position is the default `"start"` -/
def getPosOf (a : Json) : Except String (Option Pos) :=
  match fldOpt a "pos" with
  | none => .ok (some .start)
  | some j => do
    match ← j.getStr? with
    | "start" => return some .start
    | "center" => return some .center
    | "end" => return some .end
    | _ => return none

def optRatJ : Option Rat → Json
  | none => Json.null
  | some q => ratJ q

def getFlag (a : Json) (k : String) (dflt : Bool) : Except String Bool :=
  match fldOpt a k with | none => pure dflt | some j => j.getBool?

/-- one call of a history: `{"fn": "crop_dim" | "extend_dim" | "width", …}` with the arguments of the
    single-call operations -/
def getStep (s : Samples Datum) (j : Json) : Except String (Step Datum) := do
  match ← fldStr j "fn" with
  | "crop_dim" =>
    return .crop (← fldOptRat j "start") (← fldOptRat j "stop") (← getFlag j "lc" true) (← getFlag j "rc" false)
      ((← fldOptRat j "eps").getD defaultEps)
  | "extend_dim" =>
    return .extend (← fldOptRat j "start") (← fldOptRat j "stop") (← getFill j s) ((← fldOptRat j "eps").getD defaultEps)
      (← getFlag j "lc" true) (← getFlag j "rc" false)
  | "width" => return .width (← fldInt j "w") (← getFill j s) (← getPosOf j)
  | f => .error s!"unknown history call {f}"

/-- protocol key of a Python parameter name -/
def protoKey : String → String
  | "left_closed" => "lc"
  | "right_closed" => "rc"
  | "fill_value" => "fill"
  | "width" => "w"
  | "position" => "pos"
  | s => s

/-- a request may carry `"posargs"`: the arguments the caller passed positionally after the first `skip`
    parameters (the array, the dimension name), in the order they were passed.  They are bound to parameter
    names by `bindArgs` with the model's signature table; the other parameters present in the request are the
    keyword arguments.  `none` = Python's `TypeError` (too many positional arguments / a parameter given twice). -/
def bindRequest (sig : List String) (skip : Nat) (a : Json) : Except String (Option Json) := do
  match fldOpt a "posargs" with
  | none => return some a
  | some pj =>
    let pos := (← pj.getArr?).toList
    let params := sig.drop skip
    let kw := params.filterMap (fun n =>
      match a.getObjVal? (protoKey n) with | .ok v => some (n, v) | .error _ => none)
    match bindArgs params pos kw with
    | none => return none
    | some b => return some (b.foldl (fun j (p : String × Json) => j.setObjVal! (protoKey p.1) p.2) a)

def typeErrorJ : Json := Json.mkObj [("raise", Json.str "type")]

/-- the signature table of the function a request calls -/
def sigOf (op : String) (a : Json) : Except String (List String × Nat) := do
  match op with
  | "crop_dim" => return (sigCropDim, 2)
  | "extend_dim" => return (sigExtendDim, 2)
  | "width" =>
    match ← fldStr a "fn" with
    | "adjust" => return (sigAdjustDimWidth, 2)
    | "crop" => return (sigCropDimWidth, 2)
    | "extend" => return (sigExtendDimWidth, 2)
    | f => .error s!"unknown width function {f}"
  | "dim_step" =>
    match fldOpt a "via" with
    | some (.str "estimate") => return (sigEstimateDimStep, 1)
    | _ => return (sigGetDimStep, 2)
  | _ => return ([], 0)

def handleBound (op : String) (a : Json) : Except String Json := do
  match op with
  | "crop_dim" =>
    let s ← getSamples a
    let eps := (← fldOptRat a "eps").getD defaultEps
    let lc := match fldOpt a "lc" with | none => pure true | some j => j.getBool?
    let rc := match fldOpt a "rc" with | none => pure false | some j => j.getBool?
    return aexceptJ samplesJ (cropDim s (← fldOptRat a "start") (← fldOptRat a "stop") (← lc) (← rc) eps)
  | "extend_dim" =>
    let s ← getSamples a
    let eps := (← fldOptRat a "eps").getD defaultEps
    let lc := match fldOpt a "lc" with | none => pure true | some j => j.getBool?
    let rc := match fldOpt a "rc" with | none => pure false | some j => j.getBool?
    return aexceptJ samplesJ (extendDim s (← fldOptRat a "step_attr") (← fldOptRat a "start")
      (← fldOptRat a "stop") (← getFill a s) eps (← lc) (← rc))
  | "width" =>
    let s ← getSamples a
    let attr ← fldOptRat a "step_attr"
    let w ← fldInt a "w"
    let fill ← getFill a s
    let pos ← getPosOf a
    match ← fldStr a "fn" with
    | "adjust" => return aexceptJ samplesJ (adjustWidth s attr w fill pos)
    | "crop" => return aexceptJ samplesJ (cropWidth s w.toNat pos)
    | "extend" => return aexceptJ samplesJ (extendWidth s attr w.toNat fill pos)
    | f => .error s!"unknown width function {f}"
  | "dim_step" =>
    let cs ← getRatList (← fld a "coords")
    let rtol := (← fldOptRat a "rtol").getD defaultRtol
    let atol := (← fldOptRat a "atol").getD defaultAtol
    let chk := match fldOpt a "check_tolerance" with | none => pure true | some j => j.getBool?
    let est := match fldOpt a "estimate_step" with | none => pure true | some j => j.getBool?
    return aexceptJ optRatJ (dimStepFull (← fldOptRat a "step_attr") cs rtol atol (← chk) (← est))
  | "dim_range" =>
    let cs ← getRatList (← fld a "coords")
    match dimRange cs, dimWidth cs with
    | .ok (lo, hi), .ok w => return valJ (ratsJ [lo, hi, w])
    | .error e, _ => return araiseJ e
    | _, .error e => return araiseJ e
  | "history" =>
    let s ← getSamples a
    let steps ← (← fldArr a "steps").mapM (fun j => do
      let sig := match j.getObjValAs? String "fn" with
        | .ok "crop_dim" => sigCropDim
        | .ok "extend_dim" => sigExtendDim
        | _ => sigAdjustDimWidth
      match ← bindRequest sig 2 j with
      | none => .error "history: a call that Python rejects with TypeError"
      | some b => getStep s b)
    return valJ (arrJ ((runChain (← fldOptRat a "step_attr") s steps).map (aexceptJ samplesJ)))
  | "noop" => return Json.null
  | _ => .error s!"C17: unknown op {op}"

/-- one call of a session: `{"fn": "crop_dim" | "extend_dim" | "width", array, arguments (keywords and / or
    "posargs")}` -/
def getCall (j : Json) : Except String (Option (Call Datum)) := do
  let fn ← fldStr j "fn"
  let sig := match fn with
    | "crop_dim" => sigCropDim
    | "extend_dim" => sigExtendDim
    | _ => sigAdjustDimWidth
  match ← bindRequest sig 2 j with
  | none => return none
  | some b =>
    let s ← getSamples b
    return some { attr := ← fldOptRat b "step_attr", arr := s, step := ← getStep s b }

def handle (op : String) (a : Json) : Except String Json := do
  match op with
  | "session" =>
    let calls ← (← fldArr a "calls").mapM getCall
    if calls.any Option.isNone then return typeErrorJ
    return valJ (arrJ ((runSession (calls.filterMap id)).map (aexceptJ samplesJ)))
  | "sig_table" =>
    -- the model's argument order (so that the harness can show it next to the extracted one)
    let (sig, _) ← sigOf (← fldStr a "of") a
    return valJ (arrJ (sig.map Json.str))
  | _ =>
    let (sig, skip) ← sigOf op a
    match ← bindRequest sig skip a with
    | none => return typeErrorJ
    | some b => handleBound op b

end SE.Ops.C17
