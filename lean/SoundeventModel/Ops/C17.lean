import SoundeventModel.Ops.Common
import SoundeventModel.Ops.C16
import SoundeventModel.Axis
import SoundeventModel.AxisOps
namespace SE.Ops.C17
open Lean SE SE.Axis SE.Ops.C16

/-- a cell: a JSON integer, a rational string, or one of "nan", "inf", "-inf" -/
def getCell (j : Json) : Except String Cell :=
  match j with
  | .str "nan" => .ok .nan
  | .str "inf" => .ok .posInf
  | .str "-inf" => .ok .negInf
  | _ => do return .num (← getRat j)

def cellJ : Cell → Json
  | .num q => if q.den = 1 then Json.num q.num else ratJ q
  | .nan => Json.str "nan"
  | .posInf => Json.str "inf"
  | .negInf => Json.str "-inf"

/-- a datum: one cell (1-D array) or the list of the cells over the other dimensions -/
def getDatum (j : Json) : Except String Datum :=
  match j with
  | .arr xs => xs.toList.mapM getCell
  | _ => do return [← getCell j]

def datumJ (d : Datum) : Json :=
  match d with
  | [c] => cellJ c
  | cs => arrJ (cs.map cellJ)

def getSamples (a : Json) : Except String (Samples Datum) := do
  let cs ← getRatList (← fld a "coords")
  let ds ← (← fldArr a "data").mapM getDatum
  if cs.length != ds.length then .error "coords/data length"
  return cs.zip ds

def samplesJ (s : Samples Datum) : Json :=
  Json.mkObj [("coords", ratsJ (coordsOf s)), ("data", arrJ ((dataOf s).map datumJ))]

/-- the scalar `fill_value` (default 0) broadcast over the other dimensions -/
def getFill (a : Json) (s : Samples Datum) : Except String Datum := do
  let c ← match fldOpt a "fill" with
    | none => pure (Cell.num 0)
    | some j => getCell j
  let k := match s.head? with | some p => p.2.length | none => 1
  return List.replicate k c

/-- position string; a missing position is the default `"start"` -/
def getPosOf (a : Json) : Except String (Option Pos) :=
  match fldOpt a "pos" with
  | none => .ok (some .start)
  | some j => do
    match ← j.getStr? with
    | "start" => return some .start
    | "center" => return some .center
    | "end" => return some .end
    | _ => return none

def optRatJ : Option Rat → Json
  | none => Json.null
  | some q => ratJ q

def getFlag (a : Json) (k : String) (dflt : Bool) : Except String Bool :=
  match fldOpt a k with | none => pure dflt | some j => j.getBool?

/-- one call of a history: `{"fn": "crop_dim" | "extend_dim" | "width", …}` with the arguments of the
    single-call operations -/
def getStep (s : Samples Datum) (j : Json) : Except String (Step Datum) := do
  match ← fldStr j "fn" with
  | "crop_dim" =>
    return .crop (← fldOptRat j "start") (← fldOptRat j "stop") (← getFlag j "lc" true) (← getFlag j "rc" false)
      ((← fldOptRat j "eps").getD defaultEps)
  | "extend_dim" =>
    return .extend (← fldOptRat j "start") (← fldOptRat j "stop") (← getFill j s) ((← fldOptRat j "eps").getD defaultEps)
      (← getFlag j "lc" true) (← getFlag j "rc" false)
  | "width" => return .width (← fldInt j "w") (← getFill j s) (← getPosOf j)
  | f => .error s!"unknown history call {f}"

def handle (op : String) (a : Json) : Except String Json := do
  match op with
  | "crop_dim" =>
    let s ← getSamples a
    let eps := (← fldOptRat a "eps").getD defaultEps
    let lc := match fldOpt a "lc" with | none => pure true | some j => j.getBool?
    let rc := match fldOpt a "rc" with | none => pure false | some j => j.getBool?
    return aexceptJ samplesJ (cropDim s (← fldOptRat a "start") (← fldOptRat a "stop") (← lc) (← rc) eps)
  | "extend_dim" =>
    let s ← getSamples a
    let eps := (← fldOptRat a "eps").getD defaultEps
    let lc := match fldOpt a "lc" with | none => pure true | some j => j.getBool?
    let rc := match fldOpt a "rc" with | none => pure false | some j => j.getBool?
    return aexceptJ samplesJ (extendDim s (← fldOptRat a "step_attr") (← fldOptRat a "start")
      (← fldOptRat a "stop") (← getFill a s) eps (← lc) (← rc))
  | "width" =>
    let s ← getSamples a
    let attr ← fldOptRat a "step_attr"
    let w ← fldInt a "w"
    let fill ← getFill a s
    let pos ← getPosOf a
    match ← fldStr a "fn" with
    | "adjust" => return aexceptJ samplesJ (adjustWidth s attr w fill pos)
    | "crop" => return aexceptJ samplesJ (cropWidth s w.toNat pos)
    | "extend" => return aexceptJ samplesJ (extendWidth s attr w.toNat fill pos)
    | f => .error s!"unknown width function {f}"
  | "dim_step" =>
    let cs ← getRatList (← fld a "coords")
    let rtol := (← fldOptRat a "rtol").getD defaultRtol
    let atol := (← fldOptRat a "atol").getD defaultAtol
    let chk := match fldOpt a "check_tolerance" with | none => pure true | some j => j.getBool?
    let est := match fldOpt a "estimate_step" with | none => pure true | some j => j.getBool?
    return aexceptJ optRatJ (dimStepFull (← fldOptRat a "step_attr") cs rtol atol (← chk) (← est))
  | "dim_range" =>
    let cs ← getRatList (← fld a "coords")
    match dimRange cs, dimWidth cs with
    | .ok (lo, hi), .ok w => return valJ (ratsJ [lo, hi, w])
    | .error e, _ => return araiseJ e
    | _, .error e => return araiseJ e
  | "history" =>
    let s ← getSamples a
    let steps ← (← fldArr a "steps").mapM (getStep s)
    return valJ (arrJ ((runChain (← fldOptRat a "step_attr") s steps).map (aexceptJ samplesJ)))
  | "noop" => return Json.null
  | _ => .error s!"C17: unknown op {op}"

end SE.Ops.C17
