import SoundeventModel.Ops.Common
import SoundeventModel.Ops.C16
import SoundeventModel.Axis
namespace SE.Ops.C17
open Lean SE SE.Axis SE.Ops.C16

def getSamples (a : Json) : Except String (Samples Int) := do
  let cs ← getRatList (← fld a "coords")
  let ds ← (← fldArr a "data").mapM (·.getInt?)
  if cs.length != ds.length then .error "coords/data length"
  return cs.zip ds

def samplesJ (s : Samples Int) : Json :=
  Json.mkObj [("coords", ratsJ (coordsOf s)), ("data", arrJ ((dataOf s).map intJ))]

def getPos (s : String) : Option Pos :=
  match s with
  | "start" => some .start
  | "center" => some .center
  | "end" => some .end
  | _ => none

def handle (op : String) (a : Json) : Except String Json := do
  match op with
  | "crop_dim" =>
    let s ← getSamples a
    let eps := (← fldOptRat a "eps").getD defaultEps
    return aexceptJ samplesJ (cropDim s (← fldOptRat a "start") (← fldOptRat a "stop")
      (← fldBool a "lc") (← fldBool a "rc") eps)
  | "extend_dim" =>
    let s ← getSamples a
    let eps := (← fldOptRat a "eps").getD defaultEps
    return aexceptJ samplesJ (extendDim s (← fldOptRat a "step_attr") (← fldOptRat a "start")
      (← fldOptRat a "stop") (← fldInt a "fill") eps (← fldBool a "lc") (← fldBool a "rc"))
  | "width" =>
    let s ← getSamples a
    let attr ← fldOptRat a "step_attr"
    let w ← fldInt a "w"
    let fill ← fldInt a "fill"
    let pos := getPos (← fldStr a "pos")
    match ← fldStr a "fn" with
    | "adjust" => return aexceptJ samplesJ (adjustWidth s attr w fill pos)
    | "crop" => return aexceptJ samplesJ (cropWidth s w.toNat pos)
    | "extend" => return aexceptJ samplesJ (extendWidth s attr w.toNat fill pos)
    | f => .error s!"unknown width function {f}"
  | "noop" => return Json.null
  | _ => .error s!"C17: unknown op {op}"

end SE.Ops.C17
