import SoundeventModel.Ops.Common
import SoundeventModel.Aoef.Closure
import SoundeventModel.Aoef.Session
namespace SE.Ops.C18
open Lean SE SE.Aoef SE.Paths

def pathJ (p : PPath) : Json :=
  Json.mkObj [("root", Json.str p.root), ("parts", toJson p.parts), ("str", Json.str (render p))]

/-- every recording reachable from a collection: `(uuid, path)` -/
def recPaths (c : Collection) : List (String × PPath) :=
  (dedupBy (·.uuid) (recsOf c.trav)).map fun r => (r.uuid, r.path)

def pairsJ (xs : List (String × PPath)) : Json :=
  arrJ (xs.map fun (u, p) => arrJ [Json.str u, Json.str (render p)])

def optDir (a : Json) (k : String) : Except String (Option PPath) :=
  match fldOpt a k with
  | none => .ok none
  | some v => do return some (parse (← v.getStr?))

/-- one step of a session: `{"do": "put" | "move" | "save" | "load" | "copy" | anything else, …}`
    (the harness names the cells: files as they are, in-memory documents with a prefix) -/
def sessionStep (st : Json) : Except String Session.Step := do
  match ← fldStr st "do" with
  | "put" => return .put (← fldStr st "obj") (← fromJson? (← fld st "collection"))
  | "move" => return .move (← fldStr st "obj") (parse (← fldStr st "src")) (parse (← fldStr st "dst"))
  | "save" => return .save (← fldStr st "obj") (← fldStr st "file") (← optDir st "audio_dir")
  | "load" => return .load (← fldStr st "file") (← optDir st "audio_dir") (← fldStr st "into")
  | "copy" => return .copy (← fldStr st "from") (← fldStr st "to")
  | _ => return .skip

def sessionOutJ : Session.Out → Json
  | .recs xs => valJ (pairsJ xs)
  | .stored xs => valJ (pairsJ xs)
  | .fail e => raiseJ e
  | .missing => Json.mkObj [("raise", Json.str "missing")]
  | .nothing => Json.null

def handle (op : String) (a : Json) : Except String Json := do
  match op with
  | "parse" => return pathJ (parse (← fldStr a "p"))
  | "relative_to" =>
    return exceptJ pathJ (relativeTo (parse (← fldStr a "p")) (parse (← fldStr a "d")))
  | "join" => return pathJ (join (parse (← fldStr a "d")) (parse (← fldStr a "p")))
  | "stored" =>
    -- recording paths in the document `save c audio_dir` writes (or the failure)
    let c : Collection ← fromJson? (← fld a "collection")
    let r := do
      let d ← save c (← (optDir a "audio_dir").mapError fun _ => Err.type)
      pure ((lst d.recordings).map fun r => (r.uuid, r.path))
    return exceptJ pairsJ r
  | "stored_history" =>
    -- consecutive saves in one process, each with its own audio directory: every step is judged on its own
    let steps ← fldArr a "steps"
    let outs ← steps.mapM fun st => do
      let c : Collection ← fromJson? (← fld st "collection")
      let r := do
        let d ← save c (← (optDir st "audio_dir").mapError fun _ => Err.type)
        pure ((lst d.recordings).map fun r => (r.uuid, r.path))
      pure (exceptJ pairsJ r)
    return arrJ outs
  | "relocate" =>
    -- recording paths of `load (save c A) B`
    let c : Collection ← fromJson? (← fld a "collection")
    let sd ← optDir a "save_dir"
    let ld ← optDir a "load_dir"
    let r := do
      let d ← save c sd
      let c' ← load d ld
      pure (recPaths c')
    return exceptJ pairsJ r
  | "relocate_many" =>
    -- one save under `save_dir`, then independent loads of that document under each of `load_dirs`
    let c : Collection ← fromJson? (← fld a "collection")
    let sd ← optDir a "save_dir"
    let lds ← fldArr a "load_dirs"
    let outs ← lds.mapM fun l => do
      let ld : Option PPath ← match l with
        | .null => pure none
        | v => do pure (some (parse (← v.getStr?)))
      let r := do
        let d ← save c sd
        let c' ← load d ld
        pure (recPaths c')
      pure (exceptJ pairsJ r)
    return arrJ outs
  | "relocate_chain" =>
    -- save under s₁, load under l₁, save *the loaded collection* under s₂, load under l₂, …:
    -- the recording paths after every cycle; the first failure ends the chain
    let c : Collection ← fromJson? (← fld a "collection")
    let steps ← fldArr a "steps"
    let rec go (c : Except Err Collection) : List Json → Except String (List Json)
      | [] => pure []
      | st :: rest => do
        let sd ← optDir st "save_dir"
        let ld ← optDir st "load_dir"
        let c' : Except Err Collection := do
          let c0 ← c
          let d ← save c0 sd
          load d ld
        let tail ← go c' rest
        pure (exceptJ pairsJ (c'.map recPaths) :: tail)
    return arrJ (← go (.ok c) steps)
  | "session" =>
    -- several saves / loads in one process over named live objects and named files
    -- (`SoundeventModel/Aoef/Session.lean`): the output of every step
    let steps ← (← fldArr a "steps").mapM sessionStep
    return arrJ ((Session.run Session.State.empty steps).map sessionOutJ)
  | _ => .error s!"C18: unknown op {op}"

end SE.Ops.C18
