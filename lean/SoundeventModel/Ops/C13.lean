import SoundeventModel.Ops.Common
import SoundeventModel.Grouping
namespace SE.Ops.C13
open Lean SE SE.Grouping

/-- adjacency matrix as rows of 0/1; entries outside the matrix are false -/
def getAdj (j : Json) : Except String (Nat → Nat → Bool) := do
  let rows ← (← getArr j).mapM getNatList
  let m : Array (Array Nat) := (rows.map List.toArray).toArray
  return fun a b => ((m.getD a #[]).getD b 0) != 0

def pairsJ (ps : List (Nat × Nat)) : Json := arrJ (ps.map fun p => natsJ [p.1, p.2])
def groupsJ (gs : List (List Nat)) : Json := arrJ (gs.map natsJ)

def getPairs (j : Json) : Except String (List (Nat × Nat)) := do
  (← getArr j).mapM fun p => do
    match ← getNatList p with
    | [a, b] => return (a, b)
    | _ => .error "expected index pair"

def handle (op : String) (a : Json) : Except String Json := do
  let n ← fldNat a "n"
  let adj ← getAdj (← fld a "adj")
  match op with
  | "group" =>
    return valJ (Json.mkObj [("groups", groupsJ (group n adj)), ("calls", pairsJ (pairs n))])
  | "group_loop" =>
    -- the final loop of the code, literally (equal to `group` by theorem C13_loop)
    return valJ (groupsJ (groupLoop (labelAt (labelList n adj)) n))
  | "holds" =>
    let out ← fld a "out"
    let gs ← (← fldArr out "groups").mapM getNatList
    return boolJ (holds n adj gs (← getPairs (← fld out "calls")))
  | _ => .error s!"C13: unknown op {op}"

end SE.Ops.C13
