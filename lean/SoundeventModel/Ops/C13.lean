import SoundeventModel.Ops.Common
import SoundeventModel.Grouping
namespace SE.Ops.C13
open Lean SE SE.Grouping

/-- adjacency matrix as rows of 0/1; entries outside the matrix are false -/
def getAdj (j : Json) : Except String (Nat → Nat → Bool) := do
  let rows ← (← getArr j).mapM getNatList
  let m : Array (Array Nat) := (rows.map List.toArray).toArray
  return fun a b => ((m.getD a #[]).getD b 0) != 0

def pairsJ (ps : List (Nat × Nat)) : Json := arrJ (ps.map fun p => natsJ [p.1, p.2])
def groupsJ (gs : List (List Nat)) : Json := arrJ (gs.map natsJ)

def getPairs (j : Json) : Except String (List (Nat × Nat)) := do
  (← getArr j).mapM fun p => do
    match ← getNatList p with
    | [a, b] => return (a, b)
    | _ => .error "expected index pair"

def getIntList (j : Json) : Except String (List Int) := do (← getArr j).mapM (·.getInt?)

/-- inputs with repeated events: `ev` (position → identity) and the comparison on identities -/
def handleEv (op : String) (a : Json) : Except String Json := do
  let ev ← getNatList (← fld a "ev")
  let A ← getAdj (← fld a "adj")
  match op with
  | "group_ev" =>
    return valJ (Json.mkObj [("groups", groupsJ (groupEv ev A)), ("calls", pairsJ (callsEv ev))])
  | _ =>
    let out ← fld a "out"
    let gs ← (← fldArr out "groups").mapM getNatList
    return boolJ (holdsEv ev A gs (← getPairs (← fld out "calls")))

def getTag (j : Json) : Except String Tag := do
  match ← getNatList j with
  | [u, c] => return (u, c)
  | _ => .error "expected [uuid number, content key]"

def tagJ (t : Tag) : Json := natsJ [t.1, t.2]

def getStep (j : Json) : Except String HStep := do
  if let some e := fldOpt j "edit" then
    match ← getNatList e with
    | [o, c] => return .edit o c
    | _ => .error "edit: expected [object, content]"
  else if let some p := fldOpt j "param" then return .setParam (← p.getNat?)
  else if let some o := fldOpt j "abort" then return .abort (← getNatList o) (← fldNat j "at")
  else return .call (← getNatList (← fld j "call"))

/-- histories: `R` is one 0/1 matrix on content keys per parameter value of the callable -/
def handleHist (op : String) (a : Json) : Except String Json := do
  let tabs ← (← fldArr a "R").mapM fun m => do (← getArr m).mapM getNatList
  let t : Array (Array (Array Nat)) := (tabs.map fun m => (m.map List.toArray).toArray).toArray
  let R : Nat → Nat → Nat → Bool := fun p x y => (((t.getD p #[]).getD x #[]).getD y 0) != 0
  let uu ← getNatList (← fld a "uuid")
  let w : World := ⟨← getNatList (← fld a "content0"), ← fldNat a "param0"⟩
  let steps ← (← fldArr a "steps").mapM getStep
  match op with
  | "history" =>
    return arrJ ((callWorlds w steps).map fun c =>
      Json.mkObj [("groups", arrJ ((callOut R uu c.1 c.2).map fun g => arrJ (g.map tagJ))),
                  ("calls", arrJ ((callsTagged (tagsOf uu c.1 c.2)).map fun q => arrJ [tagJ q.1, tagJ q.2]))])
  | _ =>
    let outs ← (← fldArr a "outs").mapM fun o => do
      let gs ← (← fldArr o "groups").mapM fun g => do (← getArr g).mapM getTag
      let cs ← (← fldArr o "calls").mapM fun q => do
        match ← getArr q with
        | [x, y] => return (← getTag x, ← getTag y)
        | _ => .error "expected a pair of tags"
      return (gs, cs)
    return Json.mkObj [("calls", natJ (callWorlds w steps).length),
                       ("verdicts", arrJ ((checkHist R uu w steps outs).map boolJ))]

def handle (op : String) (a : Json) : Except String Json := do
  if op == "group_ev" || op == "holds_ev" then return ← handleEv op a
  if op == "history" || op == "check_history" then return ← handleHist op a
  let n ← fldNat a "n"
  let adj ← getAdj (← fld a "adj")
  match op with
  | "group" =>
    return valJ (Json.mkObj [("groups", groupsJ (group n adj)), ("calls", pairsJ (pairs n))])
  | "group_only" =>
    -- large inputs: the groups alone (the calls are `pairs n`, not sent back)
    return valJ (Json.mkObj [("groups", groupsJ (group n adj))])
  | "group_loop" =>
    -- the final loop of the code, literally (equal to `group` by theorem C13_loop)
    return valJ (groupsJ (groupLoop (labelAt (labelList n adj)) n))
  | "holds" =>
    let out ← fld a "out"
    let gs ← (← fldArr out "groups").mapM getNatList
    return boolJ (holds n adj gs (← getPairs (← fld out "calls")))
  | "stages" =>
    -- what was observed at the call of `connected_components` (matrix passed, labels returned) and
    -- the groups finally returned, against the model's stages
    let rows ← (← fldArr a "matrix").mapM getIntList
    let labs ← getNatList (← fld a "labels")
    let gs ← (← fldArr a "groups").mapM getNatList
    let marr : Array (Array Int) := (rows.map List.toArray).toArray
    let m : Nat → Nat → Bool := fun x y => ((marr.getD x #[]).getD y 0) != 0
    let loop := groupLoop (fun x => labs.getD x 0) n
    -- `dense n adj x y = (coo n adj).count (x, y)` by definition; the coordinate list is computed once and
    -- split by row first (`GroupingLemmas.dense_row`: counting in the row's sub-list gives the same number)
    let c := coo n adj
    let byRow : Array (List (Nat × Nat)) := (Array.range n).map fun x => c.filter fun e => e.1 == x
    let dm : Array (Array Nat) := (Array.range n).map fun x =>
      let r := byRow.getD x []
      (Array.range n).map fun y => r.count (x, y)
    let d : Nat → Nat → Nat := fun x y => (dm.getD x #[]).getD y 0
    let drows := (List.range n).map fun x => (List.range n).map fun y => Int.ofNat (d x y)
    return Json.mkObj [
      ("matrix", boolJ (rows == drows)),
      ("contract", boolJ (componentsOK n m labs)),
      ("pipeline", boolJ (componentsOK n (fun x y => d x y != 0) labs)),
      ("loop", boolJ (loop == gs)),
      ("loop_perm", boolJ (gs.isPerm loop))]
  | _ => .error s!"C13: unknown op {op}"

end SE.Ops.C13
