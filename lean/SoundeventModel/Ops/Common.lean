/- JSON <-> model values shared by several properties. -/
import SoundeventModel.Json
import SoundeventModel.Geometry
namespace SE
open Lean

def getPts (j : Json) : Except String (List Pt) := do (← getArr j).mapM getPair
def getRings (j : Json) : Except String (List (List Pt)) := do (← getArr j).mapM getPts

/-- `{"type": tag, "coordinates": …}` with rationals as strings; the structure must be
    the validated one (this is a value, not an input of the validator: see C03). -/
def getGeom (j : Json) : Except String Geom := do
  let ty ← fldStr j "type"
  let c ← fld j "coordinates"
  match ty with
  | "TimeStamp" => return .timeStamp (← getRat c)
  | "TimeInterval" => let (s, e) ← getPair c; return .timeInterval s e
  | "Point" => let (t, f) ← getPair c; return .point t f
  | "LineString" => return .lineString (← getPts c)
  | "Polygon" => return .polygon (← getRings c)
  | "BoundingBox" =>
    match ← getRatList c with
    | [s, l, e, h] => return .boundingBox s l e h
    | _ => .error "bbox arity"
  | "MultiPoint" => return .multiPoint (← getPts c)
  | "MultiLineString" => return .multiLineString (← getRings c)
  | "MultiPolygon" => return .multiPolygon (← (← getArr c).mapM getRings)
  | _ => .error s!"unknown geometry type {ty}"

def ptsJ (ps : List Pt) : Json := arrJ (ps.map pairJ)
def ringsJ (rs : List (List Pt)) : Json := arrJ (rs.map ptsJ)

def geomJ (g : Geom) : Json :=
  let c : Json := match g with
    | .timeStamp t => ratJ t
    | .timeInterval s e => ratsJ [s, e]
    | .point t f => ratsJ [t, f]
    | .lineString ps => ptsJ ps
    | .polygon rs => ringsJ rs
    | .boundingBox s l e h => ratsJ [s, l, e, h]
    | .multiPoint ps => ptsJ ps
    | .multiLineString ls => ringsJ ls
    | .multiPolygon ps => arrJ (ps.map ringsJ)
  Json.mkObj [("type", Json.str g.tag), ("coordinates", c)]

def boundsJ (b : Bounds) : Json := ratsJ [b.st, b.lo, b.en, b.hi]

def getBounds (j : Json) : Except String Bounds := do
  match ← getRatList j with
  | [a, b, c, d] => return ⟨a, b, c, d⟩
  | _ => .error "bounds arity"

/-- bounds of a geometry value, protocol error when it has no points -/
def geomBounds (g : Geom) : Except String Bounds :=
  match g.bounds with
  | some b => .ok b
  | none => .error "geometry without points"

end SE
