import SoundeventModel.Ops.Common
import SoundeventModel.Segment
namespace SE.Ops.C14
open Lean SE SE.Segment

def segsJ (l : List (Rat × Rat)) : Json := arrJ (l.map pairJ)

/-- `{"raise": …}` or `{"val": [[start, end], …]}` -/
def getOut (j : Json) : Except String (Option (List (Rat × Rat))) :=
  match j.getObjVal? "val" with
  | .ok v => do return some (← (← getArr v).mapM getPair)
  | .error _ => .ok none

structure Call where
  s : Rat
  e : Rat
  dur : Rat
  hop : Option Rat
  incl : Bool

def getCall (a : Json) : Except String Call := do
  return ⟨← fldRat a "start", ← fldRat a "end", ← fldRat a "duration", ← fldOptRat a "hop", ← fldBool a "incl"⟩

abbrev Key := String × Rat × Rat

/-- identifiers are modelled by their keys: the class of a segment is the position of its key
    among the distinct keys in order of first occurrence -/
def idClasses (calls : List (String × Call)) : List (Except Err (List Nat)) :=
  let keyed : List (Except Err (List Key)) := calls.map fun (parent, c) =>
    (segmentClipOpt c.s c.e c.dur c.hop c.incl).map (·.map (segKey parent))
  let all : List Key := (keyed.map fun r => match r with | .ok ks => ks | .error _ => []).flatten.eraseDups
  keyed.map fun r => r.map (·.map fun k => all.idxOf k)

def handle (op : String) (a : Json) : Except String Json := do
  match op with
  | "segment" =>
    let c ← getCall a
    return exceptJ segsJ (segmentClipOpt c.s c.e c.dur c.hop c.incl)
  | "segment_pinned" =>
    let c ← getCall a
    return exceptJ segsJ (segmentClipPinnedOpt c.s c.e c.dur c.hop c.incl)
  | "holds" =>
    -- the property evaluated on an observed result of the implementation
    let c ← getCall a
    return boolJ (holds c.s c.e c.dur (c.hop.getD c.dur) c.incl (← getOut (← fld a "out")))
  | "id_classes" =>
    let calls ← (← fldArr a "calls").mapM fun j => do return (← fldStr j "parent", ← getCall j)
    return valJ (arrJ ((idClasses calls).map fun r => match r with
      | .ok l => natsJ l
      | .error e => raiseJ e))
  | _ => .error s!"C14: unknown op {op}"

end SE.Ops.C14
