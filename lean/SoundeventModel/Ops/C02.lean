import SoundeventModel.Ops.Common
import SoundeventModel.Aoef.Closure
namespace SE.Ops.C02
open Lean SE SE.Aoef SE.Paths

def kindTable (f : Kind → List String) : Json :=
  Json.mkObj (Kind.all.map fun k => (k.name, toJson (f k)))

def handle (op : String) (a : Json) : Except String Json := do
  match op with
  | "closure" =>
    -- the reference structure of a document (the one the real code wrote)
    let d : Doc ← fromJson? (← fld a "doc")
    return Json.mkObj [
      ("problems", toJson (problems d)),
      ("closed", boolJ (closed d)), ("unique", boolJ (unique d)),
      ("parent_first", boolJ (parentFirst d)),
      ("defs", kindTable (fun k => if k = .tag then tagDefKeys d else defs d k))]
  | "reach" =>
    -- keys of the distinct objects reachable from a collection, per kind
    let c : Collection ← fromJson? (← fld a "collection")
    return kindTable (fun k => (reachKeys c.trav k).eraseDups)
  | _ => .error s!"C02: unknown op {op}"

end SE.Ops.C02
