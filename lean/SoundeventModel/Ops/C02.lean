import SoundeventModel.Ops.Common
import SoundeventModel.Aoef.Closure
import SoundeventModel.Aoef.Adapter
import SoundeventModel.Aoef.OpSave
import SoundeventModel.Aoef.RefTable
namespace SE.Ops.C02
open Lean SE SE.Aoef SE.Paths

def kindTable (f : Kind → List String) : Json :=
  Json.mkObj (Kind.all.map fun k => (k.name, toJson (f k)))

/-- keys of the distinct reachable objects per kind, plus the reachable tag contents as (label, value) *pairs*
    (`tag_pairs`: the tag entry of the kind table is a joined text, which is not injective in the pair) -/
def reachTable (c : Collection) : Json :=
  Json.mkObj ((Kind.all.map fun k => (k.name, toJson ((reachKeys c.trav k).eraseDups)))
    ++ [("tag_pairs", toJson (((tagsOf c.trav).map fun t => (t.key, t.value)).eraseDups.map fun kv => [kv.1, kv.2]))])

/-- one operation of the adapter protocol: `["to_aoef", x] | ["to_se", o] | ["from_id", i] | ["values"] | ["get_id", x]` -/
def adapterStep {κ ι σ ω} [BEq κ] [BEq ι] [ToJson σ] [FromJson σ] [ToJson ω] [FromJson ω] [ToJson ι] [FromJson ι]
    (sp : Adapter.Spec κ ι σ ω) (a : Adapter κ ι σ ω) (j : Json) : Except String (Json × Adapter κ ι σ ω) := do
  match ← getArr j with
  | [Json.str "to_aoef", x] =>
    let (o, a') := Adapter.toAoef sp a (← fromJson? x)
    return (toJson o, a')
  | [Json.str "to_se", o] =>
    let (s, a') := Adapter.toSoundevent sp a (← fromJson? o)
    return (toJson s, a')
  | [Json.str "from_id", i] => return (toJson (Adapter.fromId a (← fromJson? i)), a)
  | [Json.str "values"] => return (toJson (Adapter.values a), a)
  | [Json.str "get_id", x] =>
    let (i, a') := Adapter.getId sp a (← fromJson? x)
    return (toJson i, a')
  | _ => .error "bad adapter op"

def adapterRun {κ ι σ ω} [BEq κ] [BEq ι] [ToJson σ] [FromJson σ] [ToJson ω] [FromJson ω] [ToJson ι] [FromJson ι]
    (sp : Adapter.Spec κ ι σ ω) (ops : List Json) : Except String Json := do
  let mut a : Adapter κ ι σ ω := {}
  let mut out : Array Json := #[]
  for j in ops do
    let (r, a') ← adapterStep sp a j
    a := a'
    out := out.push r
  return Json.arr out

def handle (op : String) (a : Json) : Except String Json := do
  match op with
  | "closure" =>
    -- the reference structure of a document (the one the real code wrote)
    let d : Doc ← fromJson? (← fld a "doc")
    return Json.mkObj [
      ("problems", toJson (problems d)),
      ("closed", boolJ (closed d)), ("unique", boolJ (unique d)),
      ("parent_first", boolJ (parentFirst d)),
      ("defs", kindTable (fun k => if k = .tag then tagDefKeys d else defs d k)),
      -- what every row of the reference table finds in this document, and the raw identifiers per list
      ("rows", Json.mkObj (refRows.map fun r => (s!"{r.owner}/{r.path}", toJson (r.get d)))),
      ("ids", kindTable (defs d)),
      ("tag_contents", toJson ((lst d.tags).map fun t => [t.key, t.value]))]
  | "ref_table" =>
    -- the reference table itself (owner, path, id type, kind of the target list), the definition lists and the
    -- keys of the eight schemas, in the model's own order (the harness permutes what it extracted accordingly)
    return Json.mkObj [
      ("rows", arrJ (refRows.map fun r => Json.mkObj [
        ("owner", Json.str r.owner), ("path", Json.str r.path), ("idty", Json.str r.idty),
        ("kind", Json.str r.kind.name)])),
      ("kinds", arrJ (Kind.all.map fun k => Json.mkObj [("name", Json.str k.name), ("idty", Json.str k.idty)])),
      ("keys", Json.mkObj (["recording_set", "dataset", "annotation_set", "annotation_project", "evaluation_set",
                            "prediction_set", "model_run", "evaluation"].map fun t => (t, toJson (Doc.keys t))))]
  | "reach" =>
    -- keys of the distinct objects reachable from a collection, per kind
    let c : Collection ← fromJson? (← fld a "collection")
    return reachTable c
  | "op_save" =>
    -- the operational model of the save path (adapters as mutable tables, conversions in the code's call order)
    let c : Collection ← fromJson? (← fld a "collection")
    let dir := match fldOpt a "audio_dir" with
      | some (Json.str s) => some (parse s)
      | _ => none
    return exceptJ toJson (opSave c dir)
  | "reach_history" =>
    let steps ← fldArr a "steps"
    let outs ← steps.mapM fun st => do
      let c : Collection ← fromJson? (← fld st "collection")
      pure (reachTable c)
    return arrJ outs
  | "adapter_ops" =>
    -- an operation sequence on a fresh `UserAdapter` / `TagAdapter` (operational model of adapters.py)
    let ops ← fldArr a "ops"
    match ← fldStr a "kind" with
    | "user" => adapterRun userSpec ops
    | "tag" => adapterRun tagSpec ops
    | k => .error s!"unknown adapter kind {k}"
  | _ => .error s!"C02: unknown op {op}"

end SE.Ops.C02
