import SoundeventModel.Ops.Common
import SoundeventModel.Relational
import SoundeventModel.RelationalHistory
namespace SE.Ops.C04
open Lean SE SE.Relational

def fldOptStr (j : Json) (k : String) : Except String (Option String) :=
  match fldOpt j k with
  | none => .ok none
  | some v => do return some (← v.getStr?)

def fldStrs (j : Json) (k : String) : Except String (List String) := do
  (← fldArr j k).mapM (·.getStr?)

def getMatch (j : Json) : Except String MatchRow := do
  return { source := ← fldOptStr j "source", target := ← fldOptStr j "target",
           affinity := ← fldRat j "affinity", score := ← fldOptRat j "score" }

/-- a binary64 value: "nan" | "inf" | "-inf" | an exact rational -/
def getF (j : Json) : Except String F := do
  match j with
  | .str "nan" => return .nan
  | .str "inf" => return .pinf
  | .str "-inf" => return .ninf
  | _ => return .fin (← getRat j)

def fldOptF (j : Json) (k : String) : Except String (Option F) :=
  match fldOpt j k with
  | none => .ok none
  | some v => do return some (← getF v)

/-- one step of a session (keys that only say *how* the Python side realises the step are ignored) -/
def getStep (j : Json) : Except String HStep := do
  match ← fldStr j "do" with
  | "new" => return .new (← fldNat j "h") (← fldStr j "clip") (← fldStrs j "ids")
  | "set_ids" => return .setIds (← fldNat j "h") (← fldStrs j "ids")
  | "set_clip" => return .setClip (← fldNat j "h") (← fldStr j "clip")
  | "copy" =>
    let ids ← match fldOpt j "ids" with
      | none => pure none
      | some v => do pure (some (← (← getArr v).mapM (·.getStr?)))
    return .copy (← fldNat j "src") (← fldNat j "dst") ids
  | "eval" =>
    return .eval (← fldNat j "ann") (← fldNat j "pred") (← (← fldArr j "matches").mapM getMatch) (← fldOptRat j "score")
  | d => .error s!"C04: unknown history step {d}"

def handle (op : String) (a : Json) : Except String Json := do
  match op with
  | "clip_eval" =>
    let arr : ClipEvalArr := {
      annClip := ← fldStr a "ann_clip", predClip := ← fldStr a "pred_clip",
      annIds := ← fldStrs a "ann_ids", predIds := ← fldStrs a "pred_ids",
      ms := ← (← fldArr a "matches").mapM getMatch, score := ← fldOptRat a "score" }
    return boolJ arr.accepted
  | "clip_eval_history" =>
    let steps ← (← fldArr a "steps").mapM getStep
    return arrJ ((runHistory [] steps).map (optJ boolJ))
  | "match" => return boolJ (matchOk (← getMatch a))
  | "project" => return boolJ (projectOkFast (← fldStrs a "task_clips") (← fldStrs a "ann_clips"))
  | "clip" => return boolJ (clipOk (← fldRat a "start") (← fldRat a "end"))
  | "unit" => return boolJ (optUnitOk (← fldOptRat a "x"))
  | "unit_f" => return boolJ (optUnitOkF (← fldOptF a "x"))
  | "clip_f" => return boolJ (clipOkF (← getF (← fld a "start")) (← getF (← fld a "end")))
  -- inputs with no rational reading (missing / null / non-numeric): never a valid object
  | "malformed" => return boolJ false
  | _ => .error s!"C04: unknown op {op}"

end SE.Ops.C04
