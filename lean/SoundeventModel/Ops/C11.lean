import SoundeventModel.Ops.Common
import SoundeventModel.Buffer
namespace SE.Ops.C11
open Lean SE SE.Buf

def handle (op : String) (a : Json) : Except String Json := do
  match op with
  | "buffer" =>
    -- `lib`: what the shapely pipeline returned in this run (absent: it is not consulted / raised)
    let g ← getGeom (← fld a "g")
    let lib : Option Geom ← match fldOpt a "lib" with
      | some j => do pure (some (← getGeom j))
      | none => pure none
    -- the buffers either as the values the call ends up with (`tb`, `fb`) or as the caller wrote
    -- them: positional values `pos` and keyword values `kw`, bound by `boundBuffers bufferSig`
    match fldOpt a "pos" with
    | none =>
      return optRaiseJ geomJ (bufferGeometry (fun _ _ _ => lib) g (← fldRat a "tb") (← fldRat a "fb"))
    | some pj =>
      let pos ← getRatList pj
      let kw ← (← fldArr a "kw").mapM (fun j => do
        match ← getArr j with
        | [n, v] => pure (← n.getStr?, ← getRat v)
        | _ => throw "expected [name, value]")
      match boundBuffers bufferSig pos kw with
      | none => return raiseJ .type
      | some (tb, fb) => return optRaiseJ geomJ (bufferGeometry (fun _ _ _ => lib) g tb fb)
  | "bind" =>
    let pos ← getRatList (← fld a "pos")
    let kw ← (← fldArr a "kw").mapM (fun j => do
      match ← getArr j with
      | [n, v] => pure (← n.getStr?, ← getRat v)
      | _ => throw "expected [name, value]")
    match boundBuffers bufferSig pos kw with
    | none => return raiseJ .type
    | some (tb, fb) => return valJ (ratsJ [tb, fb])
  | "valid" =>
    return valJ (boolJ (valid (← getGeom (← fld a "g"))))
  | "shapely_post" =>
    -- the validator and the bounds-level post-condition on an observed result of the pipeline
    let g ← getGeom (← fld a "g")
    let r ← getGeom (← fld a "r")
    let tb ← fldRat a "tb"
    let fb ← fldRat a "fb"
    let tol ← fldRat a "tol"
    let b ← geomBounds g
    let isPoly := match r with
      | .polygon _ => true
      | .multiPolygon _ => true
      | _ => false
    match r.bounds with
    | none => return valJ (Json.mkObj [("valid", boolJ (valid r)), ("poly", boolJ isPoly), ("bounds", Json.null)])
    | some rb =>
      return valJ (Json.mkObj [
        ("valid", boolJ (valid r)), ("poly", boolJ isPoly), ("bounds", boundsJ rb),
        ("post", boolJ (bufferPostTol tol b tb fb rb)), ("post_strict", boolJ (bufferPost b tb fb rb)),
        ("shortfall", ratsJ (shortfall b tb fb rb)),
        ("shortfall_net", ratsJ (shortfallTol tol b tb fb rb)),
        ("offcap", arrJ ((offCap g b tb fb (← fldRat a "mu")).map boolJ))])
  | "offcap" =>
    -- per side of the bounds: is the extreme attained away from the ends of open lines
    let g ← getGeom (← fld a "g")
    let b ← geomBounds g
    return valJ (Json.mkObj [("offcap", arrJ ((offCap g b (← fldRat a "tb") (← fldRat a "fb") (← fldRat a "mu")).map boolJ)),
      ("bounds", boundsJ b)])
  | "pipeline_args" =>
    -- the straight-line skeleton of `buffer_shapely_geometry` on a probe point `(px, py)` of the
    -- input, a probe point `(qx, qy)` of GEOS's buffer, its largest x `qm` and the observed upper
    -- time `xmax` of the clip rectangle (judged only against the largest time of the unscaled buffer)
    let (sc, d, un, r0, r1, ok, r3) := pipelineSkeleton (← fldRat a "px") (← fldRat a "py")
      (← fldRat a "qx") (← fldRat a "qy") (← fldRat a "qm") (← fldRat a "xmax") (← fldRat a "tb") (← fldRat a "fb")
    return valJ (Json.mkObj [("scaled", ratsJ [sc.1, sc.2]), ("dist", ratJ d),
      ("unscaled", ratsJ [un.1, un.2]), ("rect", ratsJ [r0, r1, r3]), ("clip_keeps_max_time", boolJ ok)])
  | _ => .error s!"C11: unknown op {op}"

end SE.Ops.C11
