import SoundeventModel.Ops.Common
import SoundeventModel.Audio
import SoundeventModel.Audio.FileSys
import SoundeventModel.History
namespace SE.Ops.C15
open Lean SE SE.Audio

/-- the WAV file the harness wrote, either explicitly (`"frames"`) or as the ramp
    `frame i, channel c = ((i·ch + c)·a + b) mod m − m/2` (PCM_16 codes) -/
def getFile (j : Json) : Except String (List Frame × Nat) := do
  let ch ← fldNat j "ch"
  match fldOpt j "frames" with
  | some fr =>
    let rows ← (← getArr fr).mapM fun r => do (← getArr r).mapM (·.getInt?)
    return (rows, ch)
  | none =>
    let n ← fldNat j "n"
    let a ← fldInt j "a"
    let b ← fldInt j "b"
    let m ← fldInt j "m"
    if m ≤ 0 then throw "file: modulus must be positive"
    let rows := (List.range n).map fun i =>
      (List.range ch).map fun c => (((i * ch + c : Nat) : Int) * a + b) % m - m / 2
    return (rows, ch)

def errJ (e : AErr) : Json := Json.mkObj [("raise", Json.str e.name)]

def framesJ (fs : List Frame) : Json := arrJ (fs.map fun f => arrJ (f.map intJ))

def timeArrayJ (a : TimeArray) : Json :=
  valJ (Json.mkObj [("frames", framesJ a.frames), ("times", ratsJ a.times), ("step", ratJ a.step)])

def axisJ (a : Axis) : Json := Json.mkObj [("coords", ratsJ a.coords), ("step", ratJ a.step)]

def specJ (r : SpecAxes) (len : Nat) : Json :=
  Json.mkObj [("nperseg", intJ r.nperseg), ("noverlap", intJ r.noverlap), ("len", natJ len),
    ("time", axisJ r.time), ("freq", axisJ r.freq)]

/-- one step of a session (see `SE.Audio.Step`) -/
def getStep (j : Json) : Except String Step := do
  match ← fldStr j "k" with
  | "load_clip" => return .loadClip (← fldRat j "s") (← fldRat j "e")
  | "load_recording" => return .loadRecording
  | "resample" => return .resample (← fldNat j "src") (← fldNat j "target")
  | "spectrogram" =>
    let padded := match fldOpt j "padded" with | some (Json.bool b) => b | _ => true
    let ext := match fldOpt j "ext" with | some (Json.bool b) => b | _ => true
    return .spectrogram (← fldNat j "src") (← fldRat j "w") (← fldRat j "h") padded ext
  | "slice" => return .slice (← fldNat j "src") (← fldNat j "a") (← fldNat j "b")
  | "look" | "copy" => return .look (← fldNat j "src")
  | k => .error s!"session: unknown step {k}"

def svalJ : Except AErr SVal → Json
  | .error e => errJ e
  | .ok (.audio a) => valJ (Json.mkObj [("kind", Json.str "audio"), ("coords", ratsJ a.coords), ("step", ratJ a.step),
      ("exact", boolJ a.exact), ("truthful", boolJ (SVal.truthful (.audio a)))])
  | .ok (.spec r) => valJ (Json.mkObj [("kind", Json.str "spec"), ("nperseg", intJ r.nperseg), ("noverlap", intJ r.noverlap),
      ("time", axisJ r.time), ("freq", axisJ r.freq), ("truthful", boolJ (SVal.truthful (.spec r)))])

/-- one call of a file history (see `SE.Audio.FS.Cmd`) -/
def getCmd (j : Json) : Except String FS.Cmd := do
  let p ← fldStr j "p"
  match ← fldStr j "k" with
  | "put" =>
    let (file, ch) ← getFile (← fld j "file")
    return .put p ⟨file, ch, ← fldNat j "fsr"⟩
  | "rm" => return .rm p
  | "from_file" => return .fromFile p (← fldRat j "te")
  | "load_clip" => return .loadClip ⟨p, ← fldNat j "sr", ← fldRat j "duration"⟩ (← fldRat j "s") (← fldRat j "e")
  | "load_recording" => return .loadRecording ⟨p, ← fldNat j "sr", ← fldRat j "duration"⟩
  | k => .error s!"fs_history: unknown call {k}"

def fsOutJ : FS.Out → Json
  | .done => valJ (Json.str "done")
  | .notFound => Json.mkObj [("raise", Json.str "notfound")]
  | .recording r => valJ (Json.mkObj [("sr", natJ r.sr), ("duration", ratJ r.duration)])
  | .array (.ok r) => timeArrayJ r
  | .array (.error e) => errJ e

def handle (op : String) (a : Json) : Except String Json := do
  match op with
  | "load_clip" =>
    let (file, ch) ← getFile (← fld a "file")
    let sr ← fldNat a "sr"
    match loadClip file ch sr (← fldRat a "s") (← fldRat a "e") with
    | .ok r => return timeArrayJ r
    | .error e => return errJ e
  | "load_recording" =>
    let (file, _) ← getFile (← fld a "file")
    match loadRecording file (← fldNat a "sr") (← fldRat a "duration") with
    | .ok r => return timeArrayJ r
    | .error e => return errJ e
  | "recording_of" =>
    let (sr, d) := recordingOf (← fldNat a "n") (← fldNat a "fsr") (← fldRat a "te")
    return valJ (Json.mkObj [("sr", natJ sr), ("duration", ratJ d)])
  | "resample" =>
    match resampleAxis (← fldNat a "n") (← fldRat a "t0") (← fldRat a "t1") (← fldRat a "step")
        (← fldNat a "target") with
    | .ok r => return valJ (axisJ r)
    | .error e => return errJ e
  | "spectrogram" =>
    match stftAxes (← fldNat a "len") (← fldRat a "t0") (← fldRat a "step") (← fldRat a "w")
        (← fldRat a "h") with
    | .ok r => return valJ (specJ r (← fldNat a "len"))
    | .error e => return errJ e
  | "clip_spectrogram" =>
    -- the pipeline `compute_spectrogram(load_clip(clip), w, h)`
    let (file, ch) ← getFile (← fld a "file")
    let sr ← fldNat a "sr"
    match loadClip file ch sr (← fldRat a "s") (← fldRat a "e") with
    | .error e => return errJ e
    | .ok c =>
      match stftAxes c.frames.length (c.times.headD 0) c.step (← fldRat a "w") (← fldRat a "h") with
      | .ok r => return valJ (specJ r c.frames.length)
      | .error e => return errJ e
  | "clip_resample" =>
    -- the pipeline `resample(load_clip(clip), target)`
    let (file, ch) ← getFile (← fld a "file")
    let sr ← fldNat a "sr"
    match loadClip file ch sr (← fldRat a "s") (← fldRat a "e") with
    | .error e => return errJ e
    | .ok c =>
      match resampleAxis c.times.length (c.times.headD 0) (c.times.getD 1 0) c.step (← fldNat a "target") with
      | .ok r => return valJ (axisJ r)
      | .error e => return errJ e
  | "resample_chain" =>
    -- `resample(resample(array, target1), target2)`: the second call sees the first one's output,
    -- whose own spacing is not its advertised step
    match resampleAxis (← fldNat a "n") (← fldRat a "t0") (← fldRat a "t1") (← fldRat a "step")
        (← fldNat a "target1") with
    | .error e => return errJ e
    | .ok r1 =>
      match resampleAxis r1.coords.length (r1.coords.headD 0) (r1.coords.getD 1 0) r1.step (← fldNat a "target2") with
      | .error e => return errJ e
      | .ok r2 => return valJ (Json.mkObj [("first", axisJ r1), ("second", axisJ r2)])
  | "plans" =>
    -- the traced plans (Tie 1b) evaluated on concrete numbers: used to cross-check the tracer itself
    let sr ← fldRat a "sr"; let s ← fldRat a "s"; let e ← fldRat a "e"
    let (c1, c2, c3, c4, c5, c6) := (clipPlan sr s e).toTuple
    let (r1, r2, r3, r4) := (recordingPlan sr e).toTuple
    let (p1, p2, p3, p4, p5, p6) := (stftPlan (1 / sr) s e 0 (← fldNat a "len")).toTuple
    let (q1, q2) := resamplePlanTuple s (1 / sr) e
    return valJ (Json.mkObj [("clip", ratsJ [c1, c2, c3, c4, c5, c6]), ("recording", ratsJ [r1, r2, r3, r4]),
      ("stft", ratsJ [p1, p2, p3, p4, p5, p6]), ("resample", ratsJ [q1, q2])])
  | "spectrogram_opt" =>
    -- `compute_spectrogram(..., padded=…, boundary=…)`: `ext` = the boundary is one of the extensions (not None)
    match stftAxesOpt (← fldBool a "padded") (← fldBool a "ext") (← fldNat a "len") (← fldRat a "t0")
        (← fldRat a "step") (← fldRat a "w") (← fldRat a "h") with
    | .ok r => return valJ (specJ r (← fldNat a "len"))
    | .error e => return errJ e
  | "session" =>
    -- several arrays derived from one another in one process (`runSession`)
    let (file, ch) ← getFile (← fld a "file")
    let S : Source := ⟨file, ch, ← fldNat a "sr", ← fldRat a "duration"⟩
    let steps ← (← fldArr a "steps").mapM getStep
    return valJ (arrJ ((runSession S steps).map svalJ))
  | "fs_history" =>
    -- calls against the one-cell-per-path file system: files rewritten between loads (`FS.exec`)
    let cmds ← (← fldArr a "steps").mapM getCmd
    return valJ (arrJ ((History.runS FS.exec FS.empty cmds).map fsOutJ))
  | "signatures" =>
    return valJ (arrJ (signatures.map fun (fn, ps) =>
      Json.mkObj [("fn", Json.str fn), ("params", arrJ (ps.map fun (n, d) => arrJ [Json.str n, Json.str d]))]))
  | "holds_axis" =>
    let ax : Axis := ⟨← getRatList (← fld a "coords"), ← fldRat a "step"⟩
    return boolJ (axisOk (← fldRat a "first") ax)
  | _ => .error s!"C15: unknown op {op}"

end SE.Ops.C15
