import SoundeventModel.Ops.Common
import SoundeventModel.Bounds
namespace SE.Ops.C05
open Lean SE SE.Bnd

def polyJ (p : List Pt × List (List Pt)) : Json :=
  Json.mkObj [("shell", ptsJ p.1), ("holes", ringsJ p.2)]

def shapeJ (s : Shape) : Json :=
  let k : (String × Json) := ("kind", Json.str s.kind)
  match s with
  | .point p => Json.mkObj [k, ("coords", pairJ p)]
  | .lineString pts => Json.mkObj [k, ("coords", ptsJ pts)]
  | .polygon shell holes => Json.mkObj [k, ("shell", ptsJ shell), ("holes", ringsJ holes)]
  | .multiPoint pts => Json.mkObj [k, ("parts", ptsJ pts)]
  | .multiLineString ls => Json.mkObj [k, ("parts", ringsJ ls)]
  | .multiPolygon ps => Json.mkObj [k, ("parts", arrJ (ps.map polyJ))]

def featuresJ (fs : List (String × Rat)) : Json :=
  arrJ (fs.map fun nv => arrJ [Json.str nv.1, ratJ nv.2])

/-- the length table the harness computed as GEOS does (`sqrt(dx² + dy²)` in binary64), as a
    function; a segment that is not in the table has length 0 (degenerate) -/
def lenOf (tbl : List ((Pt × Pt) × Rat)) (p q : Pt) : Rat :=
  match tbl.find? (fun e => e.1 == (p, q)) with
  | some e => e.2
  | none => 0

def getLens (a : Json) : Except String (List ((Pt × Pt) × Rat)) := do
  match fldOpt a "lens" with
  | none => pure []
  | some j => (← getArr j).mapM fun e => do
      match ← getArr e with
      | [p, q, l] => pure (((← getPair p), (← getPair q)), (← getRat l))
      | _ => throw "lens entry arity"

def getLib (a : Json) : Except String Pt :=
  match fldOpt a "lib" with
  | some j => getPair j
  | none => pure (0, 0)

def handle1 (op : String) (a : Json) : Except String Json := do
  match op with
  | "bounds" =>
    return valJ (boundsJ (← geomBounds (← getGeom (← fld a "g"))))
  | "features" =>
    match features (← getGeom (← fld a "g")) with
    | some fs => return valJ (featuresJ fs)
    | none => .error "geometry without points"
  | "point" =>
    let b ← geomBounds (← getGeom (← fld a "g"))
    -- `lib`: shapely's centroid / point_on_surface when the harness passes it (else unused)
    let lib ← getLib a
    return exceptJ pairJ (pointAt (fun _ => lib) (← fldStr a "pos") b)
  | "point_full" =>
    -- get_geometry_point with the centroid modelled; `lib` = point_on_surface, `lens` = segment lengths
    let g ← getGeom (← fld a "g")
    return exceptJ pairJ (getPoint (lenOf (← getLens a)) (← getLib a) g (← fldStr a "pos"))
  | "centroid" =>
    let g ← getGeom (← fld a "g")
    let lens ← getLens a
    if lens.any (fun e => e.2 < 0) then throw "negative segment length"
    return optRaiseJ pairJ ((toShape g).centroid (lenOf lens))
  | "tame" =>
    return valJ (boolJ (toShape (← getGeom (← fld a "g"))).Tame)
  | "is_vertex" =>
    let g ← getGeom (← fld a "g")
    return valJ (boolJ (!(lowDim g) || isVertex g (← getPair (← fld a "p"))))
  | "dispatch" =>
    return exceptJ (fun _ => Json.null) (dispatch (← fldStr a "tag"))
  | "shape" =>
    return valJ (shapeJ (toShape (← getGeom (← fld a "g"))))
  | "call_shape" =>
    -- the same through the constructor calls (`toShape_eq_realize`)
    return valJ (shapeJ (toCall (← getGeom (← fld a "g"))).realize)
  | "inside" =>
    let b ← geomBounds (← getGeom (← fld a "g"))
    let p ← getPair (← fld a "p")
    match ← fldOptRat a "tol" with
    | some tol => return valJ (boolJ (insideTol tol b p))
    | none => return valJ (boolJ (inside b p))
  | "holds_anchor" =>
    -- wave 5: the anchor-point clause on the observed point, judged on the values (bounds from the coordinates)
    let b ← geomBounds (← getGeom (← fld a "g"))
    let p ← getPair (← fld a "p")
    let tol ← getRat (← fld a "tol")
    return valJ (boolJ (holdsAnchor tol b (← fldStr a "pos") p))
  | "holds_bounds" =>
    -- executable statement of the bounds clause on the implementation's observed output
    let g ← getGeom (← fld a "g")
    return valJ (boolJ (!(HolesInside g) || boundsHolds g (← getBounds (← fld a "b"))))
  | "holds_features" =>
    let g ← getGeom (← fld a "g")
    let fs ← (← fldArr a "fs").mapM fun j => do
      match ← getArr j with
      | [n, v] => pure ((← n.getStr?), (← getRat v))
      | _ => throw "feature arity"
    return valJ (boolJ (featuresHolds g (← getBounds (← fld a "b")) fs))
  | "holes_inside" =>
    return valJ (boolJ (HolesInside (← getGeom (← fld a "g"))))
  | _ => .error s!"C05: unknown op {op}"

/-- a call of a session / history: `{"op": "bounds" | "features" | "shape" | "point", "pos": …}` -/
def getCall (c : Json) : Except String Call := do
  match ← fldStr c "op" with
  | "bounds" => pure .bounds
  | "features" => pure .features
  | "shape" => pure .shape
  | "point" => pure (.point (← fldStr c "pos"))
  | o => throw s!"C05: unknown call {o}"

def ansJ : Except Err Ans → Json
  | .ok (.bounds b) => valJ (boundsJ b)
  | .ok (.features fs) => valJ (featuresJ fs)
  | .ok (.shape s) => valJ (shapeJ s)
  | .ok (.point p) => valJ (pairJ p)
  | .error e => raiseJ e

/-- split `xs` into consecutive groups of the given sizes -/
def regroup {α} : List Nat → List α → List (List α)
  | [], _ => []
  | n :: ns, xs => xs.take n :: regroup ns (xs.drop n)

/-- `session`: several operations on one geometry value, in order (the implementation runs them on
    one and the same object); the last entry is the geometry itself (it must not have been mutated).
    `history`: a sequence of steps on one object, evaluated by the model's `runHist` (every query
    answers for the content the object has at that step: `C05_history_pure`). -/
def handle (op : String) (a : Json) : Except String Json := do
  match op with
  | "session" =>
    let gj ← fld a "g"
    let g ← getGeom gj
    let lib ← getLib a
    let calls ← (← fldArr a "calls").mapM getCall
    let outs := runHist (fun _ _ => lib) none (.set g :: calls.map .query)
    return valJ (arrJ (outs.map ansJ ++ [geomJ g]))
  | "history" =>
    let mut cur : Option Geom := none
    let mut steps : List Step := []
    let mut groups : List (Nat × Geom) := []
    for st in (← fldArr a "steps") do
      if (← fldStr st "do") == "query" then
        match cur with
        | none => throw "history: query before the first geometry"
        | some g =>
          let calls ← (← fldArr st "calls").mapM getCall
          steps := steps ++ calls.map .query
          groups := groups ++ [(calls.length, g)]
      else
        let g ← getGeom (← fld st "g")
        cur := some g
        steps := steps ++ [.set g]
    let outs := runHist (fun _ _ => (0, 0)) none steps
    let parts := regroup (groups.map (·.1)) outs
    return valJ (arrJ ((parts.zip groups).map fun (rs, grp) => arrJ (rs.map ansJ ++ [geomJ grp.2])))
  | _ => handle1 op a

end SE.Ops.C05
