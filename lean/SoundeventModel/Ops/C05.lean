import SoundeventModel.Ops.Common
import SoundeventModel.Bounds
namespace SE.Ops.C05
open Lean SE SE.Bnd

def polyJ (p : List Pt × List (List Pt)) : Json :=
  Json.mkObj [("shell", ptsJ p.1), ("holes", ringsJ p.2)]

def shapeJ (s : Shape) : Json :=
  let k : (String × Json) := ("kind", Json.str s.kind)
  match s with
  | .point p => Json.mkObj [k, ("coords", pairJ p)]
  | .lineString pts => Json.mkObj [k, ("coords", ptsJ pts)]
  | .polygon shell holes => Json.mkObj [k, ("shell", ptsJ shell), ("holes", ringsJ holes)]
  | .multiPoint pts => Json.mkObj [k, ("parts", ptsJ pts)]
  | .multiLineString ls => Json.mkObj [k, ("parts", ringsJ ls)]
  | .multiPolygon ps => Json.mkObj [k, ("parts", arrJ (ps.map polyJ))]

def featuresJ (fs : List (String × Rat)) : Json :=
  arrJ (fs.map fun nv => arrJ [Json.str nv.1, ratJ nv.2])

def handle (op : String) (a : Json) : Except String Json := do
  match op with
  | "bounds" =>
    return valJ (boundsJ (← geomBounds (← getGeom (← fld a "g"))))
  | "features" =>
    match features (← getGeom (← fld a "g")) with
    | some fs => return valJ (featuresJ fs)
    | none => .error "geometry without points"
  | "point" =>
    let b ← geomBounds (← getGeom (← fld a "g"))
    -- `lib`: shapely's centroid / point_on_surface when the harness passes it (else unused)
    let lib : Pt ← match fldOpt a "lib" with
      | some j => getPair j
      | none => pure (0, 0)
    return exceptJ pairJ (pointAt (fun _ => lib) (← fldStr a "pos") b)
  | "shape" =>
    return valJ (shapeJ (toShape (← getGeom (← fld a "g"))))
  | "inside" =>
    let b ← geomBounds (← getGeom (← fld a "g"))
    let p ← getPair (← fld a "p")
    match ← fldOptRat a "tol" with
    | some tol => return valJ (boolJ (insideTol tol b p))
    | none => return valJ (boolJ (inside b p))
  | "holds_bounds" =>
    -- executable statement of the bounds clause on the implementation's observed output
    let g ← getGeom (← fld a "g")
    return valJ (boolJ (!(HolesInside g) || boundsHolds g (← getBounds (← fld a "b"))))
  | "holds_features" =>
    let g ← getGeom (← fld a "g")
    let fs ← (← fldArr a "fs").mapM fun j => do
      match ← getArr j with
      | [n, v] => pure ((← n.getStr?), (← getRat v))
      | _ => throw "feature arity"
    return valJ (boolJ (featuresHolds g (← getBounds (← fld a "b")) fs))
  | "holes_inside" =>
    return valJ (boolJ (HolesInside (← getGeom (← fld a "g"))))
  | _ => .error s!"C05: unknown op {op}"

end SE.Ops.C05
