import Proofs.C12
