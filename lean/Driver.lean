/-
  Line protocol: one JSON request per line
     {"p": "C12", "op": "intervals_overlap", "a": {...}}
  one JSON reply per line: {"ok": <value>} or {"err": "<protocol error>"}.
  A modelled function that raises replies {"ok": {"raise": "<enum>"}}.
-/
import SoundeventModel.Ops
open Lean SE

def handleLine (line : String) : String :=
  let r : Except String Json := do
    let j ← Json.parse line
    let p ← fldStr j "p"
    let op ← fldStr j "op"
    let a ← fld j "a"
    Ops.dispatch p op a
  match r with
  | .ok v => (Json.mkObj [("ok", v)]).compress
  | .error e => (Json.mkObj [("err", Json.str e)]).compress

partial def loop (hin hout : IO.FS.Stream) : IO Unit := do
  let line ← hin.getLine
  if line.isEmpty then return ()
  let t := line.trimAscii.toString
  if t.isEmpty then
    hout.putStrLn ""
  else if t == "#flush" then
    hout.putStrLn "#flushed"
  else
    hout.putStrLn (handleLine t)
  hout.flush
  loop hin hout

def main : IO Unit := do
  loop (← IO.getStdin) (← IO.getStdout)
