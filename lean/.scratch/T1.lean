import SoundeventModel.Raster
import Proofs.Lemmas.Axis
import Proofs.Lemmas.Raster
import Proofs.Lemmas.Extend
import Proofs.C20
namespace SE.Proofs.C20
open SE SE.Axis SE.Raster

theorem lattice_ne_nil (a s : Rat) (n : Nat) (h : 0 < n) : lattice a s n ≠ [] := by
  intro h0
  have := congrArg List.length h0
  simp at this; omega

theorem C20_lattice_bin (start step : Rat) (n k : Nat) (v : Rat) (hs : 0 < step) (hk : k < n)
    (h1 : start + (k : Rat) * step ≤ v) (h2 : v < start + ((k : Rat) + 1) * step)
    (h3 : v ≤ start + ((n - 1 : Nat) : Rat) * step) :
    binOf (lattice start step n) v = k := by
  have hne := lattice_ne_nil start step n (by omega)
  have hsorted := lattice_sorted start step n (Rat.le_of_lt hs)
  have hhead : (lattice start step n).head hne = start := by
    rw [List.head_eq_getElem, lattice_getElem]; simp; grind
  have hlast : (lattice start step n).getLast hne = start + ((n - 1 : Nat) : Rat) * step := by
    rw [List.getLast_eq_getElem, lattice_getElem]; simp
  have hk0 : (0 : Rat) ≤ (k : Rat) * step := Rat.mul_nonneg (natCast_nonneg k) (Rat.le_of_lt hs)
  obtain ⟨hb, hle, hlt⟩ := (C20_bin_of_start (lattice start step n) v hsorted hne).2.2
    (by rw [hhead]; grind) (by rw [hlast]; exact h3)
  rw [lattice_getElem] at hle
  have hbn : binOf (lattice start step n) v < n := by simpa using hb
  rcases Nat.lt_trichotomy (binOf (lattice start step n) v) k with hlt' | heq | hgt
  · exfalso
    have hb1 : binOf (lattice start step n) v + 1 < (lattice start step n).length := by simp; omega
    have := hlt hb1
    rw [lattice_getElem] at this
    have hc : ((binOf (lattice start step n) v + 1 : Nat) : Rat) ≤ (k : Rat) := Rat.natCast_le_natCast.mpr (by omega)
    have := Rat.mul_le_mul_of_nonneg_right hc (Rat.le_of_lt hs)
    grind
  · exact heq
  · exfalso
    have hc : ((k + 1 : Nat) : Rat) ≤ ((binOf (lattice start step n) v : Nat) : Rat) := Rat.natCast_le_natCast.mpr (by omega)
    have := Rat.mul_le_mul_of_nonneg_right hc (Rat.le_of_lt hs)
    simp at this
    grind


theorem C20_lattice_point_bin (start step : Rat) (n k : Nat) (hs : 0 < step) (hk : k < n) :
    binOf (lattice start step n) (start + (k : Rat) * step) = k ∧
    (k + 1 < n → binOf (lattice start step n) (start + (k : Rat) * step + step / 2) = k) := by
  have hkn : (k : Rat) ≤ ((n - 1 : Nat) : Rat) := Rat.natCast_le_natCast.mpr (by omega)
  have hmul := Rat.mul_le_mul_of_nonneg_right hkn (Rat.le_of_lt hs)
  refine ⟨C20_lattice_bin start step n k _ hs hk (Rat.le_refl) (by grind) (by grind), ?_⟩
  intro hk1
  have hkn1 : ((k + 1 : Nat) : Rat) ≤ ((n - 1 : Nat) : Rat) := Rat.natCast_le_natCast.mpr (by omega)
  have hmul1 := Rat.mul_le_mul_of_nonneg_right hkn1 (Rat.le_of_lt hs)
  simp at hmul1
  exact C20_lattice_bin start step n k _ hs hk (by grind) (by grind) (by grind)

theorem C20_lattice_floor (start step : Rat) (n : Nat) (v : Rat) (hs : 0 < step) (hn : 0 < n)
    (hlo : start ≤ v) (hhi : v ≤ start + ((n - 1 : Nat) : Rat) * step) :
    binOf (lattice start step n) v = ((v - start) / step).floor.toNat := by
  have hne : step ≠ 0 := by grind
  have hq : (v - start) / step * step = v - start := Rat.div_mul_cancel hne
  have hq0 : 0 ≤ (v - start) / step := by
    rw [Rat.div_def]
    exact Rat.mul_nonneg (by grind) (Rat.le_of_lt (Rat.inv_pos.mpr hs))
  have hf0 : 0 ≤ ((v - start) / step).floor := Rat.le_floor_iff.mpr (by simpa using hq0)
  obtain ⟨k, hk⟩ : ∃ k : Nat, ((v - start) / step).floor = (k : Int) := ⟨_, (Int.toNat_of_nonneg hf0).symm⟩
  have hfl : (k : Rat) ≤ (v - start) / step := by
    have := Rat.floor_le ((v - start) / step)
    rw [hk] at this; simpa [Rat.intCast_natCast] using this
  have hfu : (v - start) / step < (k : Rat) + 1 := by
    have := Rat.lt_floor_add_one ((v - start) / step)
    rw [hk] at this; simpa [Rat.intCast_natCast] using this
  have h1 : start + (k : Rat) * step ≤ v := by
    have := Rat.mul_le_mul_of_nonneg_right hfl (Rat.le_of_lt hs)
    grind
  have h2 : v < start + ((k : Rat) + 1) * step := by
    have := Rat.mul_lt_mul_of_pos_right hfu hs
    grind
  have hkn : k < n := by
    rcases Nat.lt_or_ge k n with h | h
    · exact h
    · exfalso
      have hc : (((n - 1 : Nat) + 1 : Nat) : Rat) ≤ (k : Rat) := Rat.natCast_le_natCast.mpr (by omega)
      have := Rat.mul_le_mul_of_nonneg_right hc (Rat.le_of_lt hs)
      simp at this
      grind
  rw [C20_lattice_bin start step n k v hs hkn h1 h2 hhi, hk]
  simp

#print axioms C20_lattice_bin
#print axioms C20_lattice_point_bin
#print axioms C20_lattice_floor
end SE.Proofs.C20
