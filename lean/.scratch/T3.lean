import SoundeventModel.Raster
import Proofs.Lemmas.Raster
namespace SE.Raster
open SE SE.Axis

theorem runSession_append (B : Burner) (evs evs' : List Event) :
    runSession B (evs ++ evs') = evs'.foldl (step B) (runSession B evs) := by
  simp [runSession, List.foldl_append]

theorem foldl_step_calls (B : Burner) (calls : List Request) (held : List (Except AErr Raster)) :
    (calls.map Event.call).foldl (step B) held = held ++ calls.map (answer B) := by
  induction calls generalizing held with
  | nil => simp
  | cons r rs ih => simp [step, ih]

theorem C20_history_independent (B : Burner) (evs : List Event) (calls : List Request) :
    runSession B (evs ++ calls.map Event.call) = runSession B evs ++ calls.map (answer B) := by
  rw [runSession_append, foldl_step_calls]

theorem C20_poison_local (B : Burner) (evs : List Event) (k : Nat) (g : Grid) (i : Nat) (h : i ≠ k) :
    (runSession B (evs ++ [.poison k g]))[i]? = (runSession B evs)[i]? := by
  rw [runSession_append]
  simp only [List.foldl_cons, List.foldl_nil, step]
  rw [List.getElem?_modify]
  simp [Ne.symm h]
  
end SE.Raster
