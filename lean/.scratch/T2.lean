import SoundeventModel.Raster
import Proofs.Lemmas.Raster
namespace SE.Raster
open SE SE.Axis

/-- every split of an argument list into a positional head and a keyword tail binds the same way -/
theorem bindCall_split {α : Type} (order : List String) (hnd : order.Nodup) (vals : List α)
    (hlen : vals.length ≤ order.length) (k : Nat) (hk : k ≤ vals.length) :
    bindCall order (vals.take k) ((order.zip vals).drop k) = some (order.zip vals) := by
  have hpl : (vals.take k).length = k := by simp; omega
  unfold bindCall
  rw [hpl]
  have h1 : ¬ order.length < k := by omega
  simp only [h1, if_false]
  have hall : ((order.zip vals).drop k).all
      (fun p => order.contains p.1 && !((order.take k).contains p.1)) = true := by
    rw [List.all_eq_true]
    intro p hp
    rw [List.zip, List.drop_zipWith] at hp
    have hmem := (List.of_mem_zip (by simpa [List.zip] using hp)).1
    have hin : p.1 ∈ order := List.mem_of_mem_drop hmem
    have hnot : p.1 ∉ order.take k := by
      intro hc
      have hdis := List.take_append_drop k order ▸ hnd
      rw [List.nodup_append] at hdis
      exact hdis.2.2 _ hc _ hmem rfl
    simp [hin, hnot]
  rw [if_pos hall]; simp only [List.zip, ← List.take_zipWith, List.take_append_drop]

theorem paramOrder_nodup : optionalOrder.Nodup := by decide

end SE.Raster
