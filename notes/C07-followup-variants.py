"""Follow-up "histories and construction paths": mutants (h* state, c* construction, o* option interplay / siblings,
b* boundaries, i* oracle independence) and behaviour-preserving rewrites (r*) of match.py / affinity.py as text
transformations.  Driver: the DRIVER string at the end (copy to /work/c07-mut3/driver.py)."""

SEL = '''        if cost_matrix[row, column] <= 0:'''
FILL = '''    cost_matrix = np.zeros(shape=(len(source), len(target)))
    for (index1, geometry1), (index2, geometry2) in product(
        enumerate(source), enumerate(target)
    ):
        cost_matrix[index1, index2] = compute_affinity(
            geometry1,
            geometry2,
            time_buffer=time_buffer,
            freq_buffer=freq_buffer,
        )
'''
PREP = '''    if geometry.type in BUFFER_GEOMETRY_TYPES:
        return buffer_geometry(
            geometry,
            time_buffer=time_buffer,
            freq_buffer=freq_buffer,
        )

    return geometry'''


# ------------------------------------------------------------------ category 1: state between calls
def h1_memo_on_object(o, rep, M, A):
    """buffered form memoised in the geometry object's __dict__ under the buffers: survives assignment to
    .coordinates and model_copy(update=...)"""
    o[A] = rep(o[A], PREP, '''    if geometry.type in BUFFER_GEOMETRY_TYPES:
        memo = geometry.__dict__.setdefault("_prepared", {})
        key = (time_buffer, freq_buffer)
        if key not in memo:
            memo[key] = buffer_geometry(
                geometry,
                time_buffer=time_buffer,
                freq_buffer=freq_buffer,
            )
        return memo[key]

    return geometry''')
    return o


def h2_cache_by_id(o, rep, M, A):
    """module-level cache of affinities keyed by the identities of the two objects and the buffers"""
    o[M] = rep(o[M], FILL, '''    cost_matrix = np.zeros(shape=(len(source), len(target)))
    for (index1, geometry1), (index2, geometry2) in product(
        enumerate(source), enumerate(target)
    ):
        key = (id(geometry1), id(geometry2), time_buffer, freq_buffer)
        if key not in _AFFINITIES:
            if len(_AFFINITIES) > 100000:
                _AFFINITIES.clear()
            _AFFINITIES[key] = compute_affinity(
                geometry1,
                geometry2,
                time_buffer=time_buffer,
                freq_buffer=freq_buffer,
            )
        cost_matrix[index1, index2] = _AFFINITIES[key]
''')
    o[M] = rep(o[M], '__all__ = [', '_AFFINITIES = {}\n\n__all__ = [')
    return o


def h3_options_leak(o, rep, M, A):
    """non-default buffers are written into a module-level options dict that later plain calls read"""
    o[M] = rep(o[M], '__all__ = [', '_OPTIONS = {"time_buffer": 0.01}\n\n__all__ = [')
    o[M] = rep(o[M], "    # Compute the affinity between all pairs of geometries.\n", '''    options = _OPTIONS
    if time_buffer != 0.01:
        options["time_buffer"] = time_buffer
    time_buffer = options["time_buffer"]
    # Compute the affinity between all pairs of geometries.
''')
    return o


def h4_argument_reversed_afterwards(o, rep, M, A):
    """the caller's source list is reversed in place once the matches were produced"""
    o[M] = rep(o[M], '''        yield match1, match2, affinity
''', '''        yield match1, match2, affinity

    if isinstance(source, list) and len(source) > 1 and source is not target:
        source.reverse()
''')
    return o


def h5_scratch_matrix(o, rep, M, A):
    """one module-level scratch matrix shared by all calls (a view of it is the cost matrix)"""
    o[M] = rep(o[M], '__all__ = [', '_SCRATCH = np.zeros((64, 64))\n\n__all__ = [')
    o[M] = rep(o[M], "    cost_matrix = np.zeros(shape=(len(source), len(target)))\n", '''    if len(source) <= 64 and len(target) <= 64:
        cost_matrix = _SCRATCH[: len(source), : len(target)]
    else:
        cost_matrix = np.zeros(shape=(len(source), len(target)))
''')
    return o


def h6_cache_by_json_ignoring_freq(o, rep, M, A):
    """prepared geometries cached by (JSON, time_buffer): the frequency buffer is not part of the key"""
    o[A] = rep(o[A], PREP, '''    if geometry.type in BUFFER_GEOMETRY_TYPES:
        key = (geometry.model_dump_json(), time_buffer)
        if key not in _PREPARED:
            if len(_PREPARED) > 10000:
                _PREPARED.clear()
            _PREPARED[key] = buffer_geometry(
                geometry,
                time_buffer=time_buffer,
                freq_buffer=freq_buffer,
            )
        return _PREPARED[key]

    return geometry''')
    o[A] = rep(o[A], '__all__ = [', '_PREPARED = {}\n\n__all__ = [')
    return o


# ------------------------------------------------------------------ category 3: construction / passing
def c1_positional_order_swapped(o, rep, M, A):
    o[M] = rep(o[M], "    time_buffer: float = 0.01,\n    freq_buffer: float = 100,\n) -> Iterable", "    freq_buffer: float = 100,\n    time_buffer: float = 0.01,\n) -> Iterable")
    return o


def c2_numpy_scalars_fall_back_to_default(o, rep, M, A):
    o[M] = rep(o[M], "    # Compute the affinity between all pairs of geometries.\n", '''    if not isinstance(time_buffer, (int, float)):
        time_buffer = 0.01
    if not isinstance(freq_buffer, (int, float)):
        freq_buffer = 100
    # Compute the affinity between all pairs of geometries.
''')
    return o


def c3_non_list_sequences_truncated(o, rep, M, A):
    o[M] = rep(o[M], "    # Compute the affinity between all pairs of geometries.\n", '''    if not isinstance(target, (list, tuple)):
        target = [target[i] for i in range(len(target) - 1)] or list(target)
    # Compute the affinity between all pairs of geometries.
''')
    return o


def c4_int_time_buffer_is_milliseconds(o, rep, M, A):
    """an integer time buffer is taken to be in milliseconds"""
    o[A] = rep(o[A], "    geometry1 = _prepare_geometry(geometry1, time_buffer, freq_buffer)\n", '''    if type(time_buffer) is int and time_buffer != 0:
        time_buffer = time_buffer / 1000
    geometry1 = _prepare_geometry(geometry1, time_buffer, freq_buffer)
''')
    return o


# ------------------------------------------------------------------ category 4 / 6: option interplay, siblings
def o1_freq_buffer_ignored_for_multipoint(o, rep, M, A):
    o[A] = rep(o[A], PREP, '''    if geometry.type == "MultiPoint":
        freq_buffer = 100
''' + PREP)
    return o


def o2_time_buffer_dropped_when_freq_buffer_given(o, rep, M, A):
    o[A] = rep(o[A], PREP, '''    if geometry.type == "TimeStamp" and freq_buffer != 100:
        time_buffer = 0.01
''' + PREP)
    return o


def o3_multipolygon_vs_interval_sibling(o, rep, M, A):
    o[A] = rep(o[A], '''        return compute_affinity_in_time(geometry1, geometry2)
''', '''        if geometry1.type == "MultiPolygon" and geometry2.type == "TimeInterval":
            return compute_affinity_in_time(geometry1, geometry1) * 0.5
        return compute_affinity_in_time(geometry1, geometry2)
''')
    return o


# ------------------------------------------------------------------ category 5: boundaries
def b1_threshold_1e11(o, rep, M, A):
    o[M] = rep(o[M], SEL, "        if cost_matrix[row, column] <= 1e-11:")
    return o


def b2_greedy_from_1024_pairs(o, rep, M, A):
    o[M] = rep(o[M], '''    assiged_rows, assigned_columns = linear_sum_assignment(
        cost_matrix,
        maximize=True,
    )
''', '''    if cost_matrix.size >= 1024:
        order = np.dstack(np.unravel_index(np.argsort(-cost_matrix, axis=None), cost_matrix.shape))[0]
        taken_r, taken_c, pairs = set(), set(), []
        for r, c in order:
            if r not in taken_r and c not in taken_c:
                pairs.append((int(r), int(c)))
                taken_r.add(r)
                taken_c.add(c)
        pairs.sort()
        assiged_rows = [p[0] for p in pairs]
        assigned_columns = [p[1] for p in pairs]
    else:
        assiged_rows, assigned_columns = linear_sum_assignment(
            cost_matrix,
            maximize=True,
        )
''')
    return o


def b3_rows_capped_256(o, rep, M, A):
    o[M] = rep(o[M], "    rows = set(range(cost_matrix.shape[0]))", "    rows = set(range(min(cost_matrix.shape[0], 256)))")
    o[M] = rep(o[M], "        rows.remove(row)", "        rows.discard(row)")
    return o


def b4_relative_tolerance_on_overlap(o, rep, M, A):
    o[A] = rep(o[A], '''    union = (
        (end_time1 - start_time1) + (end_time2 - start_time2) - intersection
    )
''', '''    if intersection <= 1e-9 * max(end_time1, end_time2):
        intersection = 0
    union = (
        (end_time1 - start_time1) + (end_time2 - start_time2) - intersection
    )
''')
    return o


def b5_relative_threshold(o, rep, M, A):
    o[M] = rep(o[M], SEL, "        if cost_matrix[row, column] <= 1e-8 * cost_matrix.max():")
    return o


# ------------------------------------------------------------------ oracle independence
def i1_time_buffer_doubled_for_stamps(o, rep, M, A):
    """consistently wrong inside compute_affinity: the matcher and the library's own matrix agree with each other"""
    o[A] = rep(o[A], PREP, '''    if geometry.type == "TimeStamp" and time_buffer >= 0.25:
        time_buffer = time_buffer * 2
''' + PREP)
    return o


def i2_area_branch_for_box_vs_interval(o, rep, M, A):
    """a BoundingBox against a TimeInterval goes through the area branch (frequency extent then matters)"""
    o[A] = rep(o[A], '''    if (
        geometry1.type in TIME_GEOMETRY_TYPES
        or geometry2.type in TIME_GEOMETRY_TYPES
    ):''', '''    if (
        geometry1.type in TIME_GEOMETRY_TYPES
        or geometry2.type in TIME_GEOMETRY_TYPES
    ) and "BoundingBox" not in (geometry1.type, geometry2.type):''')
    return o


# ------------------------------------------------------------------ behaviour-preserving rewrites (must exit 0)
def r1_correct_cache_full_key(o, rep, M, A):
    o[A] = rep(o[A], PREP, '''    if geometry.type in BUFFER_GEOMETRY_TYPES:
        key = (geometry.model_dump_json(), float(time_buffer), float(freq_buffer))
        if key not in _PREPARED:
            if len(_PREPARED) > 10000:
                _PREPARED.clear()
            _PREPARED[key] = buffer_geometry(
                geometry,
                time_buffer=time_buffer,
                freq_buffer=freq_buffer,
            )
        return _PREPARED[key]

    return geometry''')
    o[A] = rep(o[A], '__all__ = [', '_PREPARED = {}\n\n__all__ = [')
    return o


def r2_keyword_only_helper_reordered(o, rep, M, A):
    o[M] = rep(o[M], FILL, '''    cost_matrix = _affinity_matrix(
        source, target, freq_buffer=freq_buffer, time_buffer=time_buffer
    )
''')
    o[M] = rep(o[M], "def _select_matches(", '''def _affinity_matrix(source, target, *, freq_buffer, time_buffer):
    cost_matrix = np.zeros(shape=(len(source), len(target)))
    for (index1, geometry1), (index2, geometry2) in product(
        enumerate(source), enumerate(target)
    ):
        cost_matrix[index1, index2] = compute_affinity(
            geometry1,
            geometry2,
            freq_buffer=freq_buffer,
            time_buffer=time_buffer,
        )
    return cost_matrix


def _select_matches(''')
    return o


def r3_extra_keyword_only_parameters(o, rep, M, A):
    """two optional keyword-only parameters after the documented ones (in 'wrong' alphabetical order)"""
    o[M] = rep(o[M], "    freq_buffer: float = 100,\n) -> Iterable", "    freq_buffer: float = 100,\n    *,\n    solver=None,\n    dtype=float,\n) -> Iterable")
    o[M] = rep(o[M], "    cost_matrix = np.zeros(shape=(len(source), len(target)))\n", "    cost_matrix = np.zeros(shape=(len(source), len(target)), dtype=dtype)\n")
    return o


def r4_buffers_coerced_and_memo_per_call(o, rep, M, A):
    o[M] = rep(o[M], "    # Compute the affinity between all pairs of geometries.\n", '''    time_buffer = float(time_buffer)
    freq_buffer = float(freq_buffer)
    source = list(source)
    target = list(target)
    # Compute the affinity between all pairs of geometries.
''')
    return o


def r5_lru_cache_on_json(o, rep, M, A):
    """an lru_cache keyed by the full input (both JSON forms and both buffers)"""
    o[A] = rep(o[A], 'from soundevent import data\n', 'from functools import lru_cache\n\nfrom soundevent import data\n')
    o[A] = rep(o[A], "def compute_affinity(\n", '''def compute_affinity(geometry1, geometry2, time_buffer=0.01, freq_buffer=100):
    return _cached_affinity(
        geometry1.model_dump_json(),
        geometry2.model_dump_json(),
        float(time_buffer),
        float(freq_buffer),
    )


@lru_cache(maxsize=4096)
def _cached_affinity(json1, json2, time_buffer, freq_buffer):
    return _compute_affinity(
        data.geometry_validate(json1, mode="json"),
        data.geometry_validate(json2, mode="json"),
        time_buffer,
        freq_buffer,
    )


def _compute_affinity(
''')
    return o


def r6_select_keywords_reordered(o, rep, M, A):
    o[M] = rep(o[M], '''    assiged_rows, assigned_columns = linear_sum_assignment(
        cost_matrix,
        maximize=True,
    )
''', '''    assiged_rows, assigned_columns = linear_sum_assignment(
        maximize=True,
        cost_matrix=cost_matrix,
    )
''')
    return o


def r7_affinity_called_by_keywords(o, rep, M, A):
    o[M] = rep(o[M], """        cost_matrix[index1, index2] = compute_affinity(
            geometry1,
            geometry2,
            time_buffer=time_buffer,
            freq_buffer=freq_buffer,
        )""", """        cost_matrix[index1, index2] = compute_affinity(
            freq_buffer=freq_buffer,
            geometry2=geometry2,
            time_buffer=time_buffer,
            geometry1=geometry1,
        )""")
    return o


DRIVER = r'''
#!/usr/bin/env python3
"""apply named variants to the scratch repo, run repo tests + check (+ replay of the first violation), restore"""
import subprocess, sys, os, json, time, importlib.util
R = "/work/repo-C07"
V = "/work/verif-R3-C07"
MATCH = R + "/src/soundevent/evaluation/match.py"
AFF = R + "/src/soundevent/evaluation/affinity.py"
ORIG = {MATCH: open("/repo/src/soundevent/evaluation/match.py").read(), AFF: open("/repo/src/soundevent/evaluation/affinity.py").read()}

def rep(s, old, new, count=1):
    assert old in s, old
    return s.replace(old, new, count)

spec = importlib.util.spec_from_file_location("variants", V + "/notes/C07-followup-variants.py")
variants = importlib.util.module_from_spec(spec); spec.loader.exec_module(variants)
env = dict(os.environ, SOUNDEVENT_SRC=R + "/src", PYTHONPATH=R + "/src", VERIF_EVIDENCE_DIR="/work/c07-mut3/evidence")
for name in sys.argv[1:]:
    fn = getattr(variants, name)
    try:
        new = fn(dict(ORIG), rep, MATCH, AFF)
        for p, t in new.items():
            open(p, "w").write(t)
        t0 = time.time()
        pt = subprocess.run(["/venv/bin/python", "-m", "pytest", "-q", "-p", "no:cacheprovider", "tests/test_evaluation"], cwd=R, env=env, capture_output=True, text=True)
        tests = pt.stdout.strip().splitlines()[-1] if pt.stdout.strip() else pt.stderr[-200:]
        ck = subprocess.run(["./check", "C07", "--tier", "quick"], cwd=V, env=env, capture_output=True, text=True)
        viol = [l for l in ck.stdout.splitlines() if l.startswith("VIOLATION")]
        first, rr = "", ""
        if viol and "replay=" in viol[0]:
            rp = viol[0].split("replay=")[1].split()[0]
            try:
                r = json.load(open(V + "/" + rp)); first = f"{r.get('kind')}:{r.get('op')} {str(r.get('detail'))[:200]} input={json.dumps(r.get('input'))[:260]}"
                if r.get("kind") == "property":
                    rp2 = subprocess.run(["./check", "C07", "--replay", rp], cwd=V, env=env, capture_output=True, text=True)
                    rr = "replay reproduces" if rp2.returncode == 1 else f"replay rc={rp2.returncode} {rp2.stdout[-120:]}"
            except Exception as e: first = repr(e)
        print(f"== {name}: tests[{tests}] check rc={ck.returncode} nviol={len(viol)} nfi={'no-failing-input-found' in ck.stdout} {time.time()-t0:.0f}s {rr}\n   {first}", flush=True)
        if ck.returncode == 2: print(ck.stderr[-1500:])
        if ck.returncode == 1 and name.startswith("r"): print(ck.stderr[-1500:])
    finally:
        for p, t in ORIG.items():
            open(p, "w").write(t)
'''
