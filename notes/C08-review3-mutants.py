#!/venv/bin/python
"""C08 follow-up 3 (histories and construction paths): mutants (must give exit 1 with a replay) and
behaviour-preserving rewrites (must give exit 0).

usage: /venv/bin/python notes/C08-review3-mutants.py [substring of a name]

Works on the scratch worktree /work/repo-C08 (git -C /repo worktree add --detach /work/repo-C08 HEAD); every
variant is a list of textual replacements, undone afterwards.  Not part of a check."""
import json, os, subprocess, sys, time
R = "/work/repo-C08"
V = os.path.dirname(os.path.dirname(os.path.abspath(__file__)))
DET = "src/soundevent/evaluation/tasks/sound_event_detection.py"
COM = "src/soundevent/evaluation/tasks/common.py"
ENC = "src/soundevent/evaluation/encoding.py"
MAT = "src/soundevent/evaluation/match.py"
AFF = "src/soundevent/evaluation/affinity.py"

CREATE = "    return SimpleEncoder(tags)\n"
EVAL_CALL = """        true_class, predicted_classes, evaluated_clip = evaluate_clip(
            clip_annotations=annotations,
            clip_predictions=predictions,
            encoder=encoder,
        )
"""
PRED_IDX = """    prediction_indices = [
        index
        for index, prediction in enumerate(clip_predictions.sound_events)
        if prediction.sound_event.geometry
    ]
"""
UNMATCHED_PRED = """            matches.append(
                data.Match(
                    source=prediction,
                    target=None,
                    affinity=affinity,
                    score=0,
                )
            )
            true_classes.append(None)
            predicted_classes_scores.append(y_score)
            continue
"""
MATCH_SIG = """    time_buffer: float = 0.01,
    freq_buffer: float = 100,
) -> Iterable[Tuple[Optional[int], Optional[int], float]]:
"""
ANN_LOOP = "    for annotation in clip_annotations.sound_events:\n        if annotation.sound_event.geometry:\n            continue\n"
COST = """    cost_matrix = np.zeros(shape=(len(source), len(target)))
    for (index1, geometry1), (index2, geometry2) in product(
        enumerate(source), enumerate(target)
    ):
        cost_matrix[index1, index2] = compute_affinity(
            geometry1,
            geometry2,
            time_buffer=time_buffer,
            freq_buffer=freq_buffer,
        )
"""
PAIRED_FETCH = ("            prediction = clip_predictions.sound_events[prediction_index]\n"
                "            annotation = clip_annotations.sound_events[annotation_index]\n")

MUTANTS = [
 # ---- category 1: state carried between calls
 ("H1 create_tag_encoder memoised by the values of the vocabulary (same values under other terms: stale encoder)", [(ENC, CREATE,
   "    key = tuple(tag.value for tag in tags)\n    if key not in _ENCODERS:\n        _ENCODERS[key] = SimpleEncoder(tags)\n    return _ENCODERS[key]\n\n\n_ENCODERS: dict = {}\n")]),
 ("H2 evaluate_clip memoised by the uuids of the clip annotation / clip prediction (revised content under the same uuid)", [(DET, EVAL_CALL,
   """        key = (annotations.uuid, predictions.uuid, encoder.num_classes)
        if key not in _EVALUATED:
            _EVALUATED[key] = evaluate_clip(
                clip_annotations=annotations,
                clip_predictions=predictions,
                encoder=encoder,
            )
        true_class, predicted_classes, evaluated_clip = _EVALUATED[key]
"""), (DET, "def compute_overall_metrics(", "_EVALUATED: dict = {}\n\n\ndef compute_overall_metrics(")]),
 ("H3 filtered->original index table memoised on the ClipPrediction object (survives append / model_copy(update=...))", [(DET, PRED_IDX,
   """    prediction_indices = clip_predictions.__dict__.get("_geometry_indices")
    if prediction_indices is None:
        prediction_indices = [
            index
            for index, prediction in enumerate(clip_predictions.sound_events)
            if prediction.sound_event.geometry
        ]
        clip_predictions.__dict__["_geometry_indices"] = prediction_indices
""")]),
 ("H4 evaluate_clip sorts the annotation's sound events in place by onset (an argument is mutated)", [(DET,
   "    true_classes: list[Optional[int]] = []\n    predicted_classes_scores: list[np.ndarray] = []\n    matches: list[data.Match] = []\n",
   "    true_classes: list[Optional[int]] = []\n    predicted_classes_scores: list[np.ndarray] = []\n    matches: list[data.Match] = []\n\n"
   "    if isinstance(clip_annotations.sound_events, list):\n        clip_annotations.sound_events.sort(\n"
   "            key=lambda a: str(a.sound_event.geometry.coordinates)\n            if a.sound_event.geometry\n            else \"\"\n        )\n")]),
 ("H5 the Match of an unmatched prediction is kept per prediction uuid and handed out again (returned object aliases module state)", [(DET, UNMATCHED_PRED,
   """            match = _UNMATCHED.get(prediction.uuid)
            if match is None:
                match = data.Match(
                    source=prediction,
                    target=None,
                    affinity=affinity,
                    score=0,
                )
                _UNMATCHED[prediction.uuid] = match
            matches.append(match)
            true_classes.append(None)
            predicted_classes_scores.append(y_score)
            continue
"""), (DET, "def compute_overall_metrics(", "_UNMATCHED: dict = {}\n\n\ndef compute_overall_metrics(")]),
 ("H6 the matcher's buffers leak into module state (a call with explicit buffers changes the defaults of later calls)", [(MAT, MATCH_SIG,
   """    time_buffer: Optional[float] = None,
    freq_buffer: Optional[float] = None,
) -> Iterable[Tuple[Optional[int], Optional[int], float]]:
"""), (MAT, "    # Compute the affinity between all pairs of geometries.\n",
   "    if time_buffer is not None:\n        _BUFFERS[\"time_buffer\"] = time_buffer\n    if freq_buffer is not None:\n        _BUFFERS[\"freq_buffer\"] = freq_buffer\n"
   "    time_buffer = _BUFFERS[\"time_buffer\"]\n    freq_buffer = _BUFFERS[\"freq_buffer\"]\n\n    # Compute the affinity between all pairs of geometries.\n"),
  (MAT, "def match_geometries(", "_BUFFERS = {\"time_buffer\": 0.01, \"freq_buffer\": 100}\n\n\ndef match_geometries(")]),
 # ---- category 3: construction / passing
 ("H7 evaluate_clip takes (clip_predictions, clip_annotations, encoder): positional callers get the sides swapped", [(DET,
   "def evaluate_clip(\n    clip_annotations: data.ClipAnnotation,\n    clip_predictions: data.ClipPrediction,\n",
   "def evaluate_clip(\n    clip_predictions: data.ClipPrediction,\n    clip_annotations: data.ClipAnnotation,\n")]),
 ("H8 paired sound events fetched through one uuid dictionary over both sides (a prediction carrying an annotation's uuid)", [(DET, PAIRED_FETCH,
   "            by_uuid = {\n                se.uuid: se\n                for se in [\n                    *clip_predictions.sound_events,\n                    *clip_annotations.sound_events,\n                ]\n            }\n"
   "            prediction = by_uuid[\n                clip_predictions.sound_events[prediction_index].uuid\n            ]\n"
   "            annotation = clip_annotations.sound_events[annotation_index]\n")]),
 ("H12 match_geometries(source, target, freq_buffer, time_buffer): positional buffers swapped", [(MAT, MATCH_SIG,
   """    freq_buffer: float = 100,
    time_buffer: float = 0.01,
) -> Iterable[Tuple[Optional[int], Optional[int], float]]:
""")]),
 # ---- category 4 / 6: option x input class, sibling drift
 ("H11 geometry-less annotations are only appended when the clip has predictions (sibling of the prediction loop)", [(DET, ANN_LOOP,
   "    for annotation in clip_annotations.sound_events:\n        if annotation.sound_event.geometry or not clip_predictions.sound_events:\n            continue\n")]),
 # ---- category 5: boundaries and sizes
 ("H13 time stamps / intervals: ends within 1e-6 (relative) of each other count as overlapping", [(AFF,
   "    intersection = max(\n        0, min(end_time1, end_time2) - max(start_time1, start_time2)\n    )\n",
   "    intersection = max(\n        0, min(end_time1, end_time2) - max(start_time1, start_time2)\n    )\n"
   "    if intersection == 0 and abs(\n        max(start_time1, start_time2) - min(end_time1, end_time2)\n    ) <= 1e-6 * max(abs(end_time1), abs(end_time2)):\n"
   "        intersection = 1e-6 * max(abs(end_time1), abs(end_time2))\n")]),
 ("H14 clips with more than 256 predictions: only the first 256 are matched, the others are forgotten", [(DET,
   "    # Sound events without a geometry cannot be matched: they are reported\n",
   "    if len(clip_predictions.sound_events) > 256:\n        matches = [\n            m\n            for m in matches\n            if m.source is None\n            or m.source in list(clip_predictions.sound_events)[:256]\n        ]\n\n"
   "    # Sound events without a geometry cannot be matched: they are reported\n")]),
 ("H15 large problems (>= 1024 pairs): affinities from a vectorised time-overlap ratio only (boxes in other frequency bands get paired)", [(MAT, COST,
   COST + """    if cost_matrix.size >= 1024 and all(
        g.type == "BoundingBox" for g in [*source, *target]
    ):
        s = np.array([g.coordinates for g in source])
        t = np.array([g.coordinates for g in target])
        inter = np.clip(
            np.minimum(s[:, None, 2], t[None, :, 2])
            - np.maximum(s[:, None, 0], t[None, :, 0]),
            0,
            None,
        )
        union = (s[:, None, 2] - s[:, None, 0]) + (t[None, :, 2] - t[None, :, 0]) - inter
        cost_matrix = np.where(union > 0, inter / np.where(union > 0, union, 1), 0.0)
""")]),
]

REWRITES = [
 ("V1 compute_affinity behind a cache keyed by the full input (both geometries and both buffers)", [(AFF,
   "    geometry1 = _prepare_geometry(geometry1, time_buffer, freq_buffer)\n    geometry2 = _prepare_geometry(geometry2, time_buffer, freq_buffer)\n",
   "    key = (\n        geometry1.model_dump_json(),\n        geometry2.model_dump_json(),\n        float(time_buffer),\n        float(freq_buffer),\n    )\n"
   "    if key in _AFFINITIES:\n        return _AFFINITIES[key]\n    value = _compute_affinity(geometry1, geometry2, time_buffer, freq_buffer)\n"
   "    if len(_AFFINITIES) > 50000:\n        _AFFINITIES.clear()\n    _AFFINITIES[key] = value\n    return value\n\n\n_AFFINITIES: dict = {}\n\n\n"
   "def _compute_affinity(geometry1, geometry2, time_buffer, freq_buffer):\n"
   "    geometry1 = _prepare_geometry(geometry1, time_buffer, freq_buffer)\n    geometry2 = _prepare_geometry(geometry2, time_buffer, freq_buffer)\n")]),
 ("V2 create_tag_encoder memoised by the full content of the vocabulary", [(ENC, CREATE,
   "    key = tuple((tag.term.model_dump_json(), tag.value) for tag in tags)\n    if key not in _ENCODERS:\n        _ENCODERS[key] = SimpleEncoder(list(tags))\n    return _ENCODERS[key]\n\n\n_ENCODERS: dict = {}\n")]),
 ("V3 match_geometries: vectorised closed-form IoU for lists of bounding boxes (differs from compute_affinity in the last bits)", [(MAT, COST,
   COST + """    if source and target and all(
        g.type == "BoundingBox" for g in [*source, *target]
    ):
        s = np.array([g.coordinates for g in source], dtype=float)
        t = np.array([g.coordinates for g in target], dtype=float)
        wt = np.clip(
            np.minimum(s[:, None, 2], t[None, :, 2])
            - np.maximum(s[:, None, 0], t[None, :, 0]),
            0,
            None,
        )
        wf = np.clip(
            np.minimum(s[:, None, 3], t[None, :, 3])
            - np.maximum(s[:, None, 1], t[None, :, 1]),
            0,
            None,
        )
        inter = wt * wf
        area_s = (s[:, 2] - s[:, 0]) * (s[:, 3] - s[:, 1])
        area_t = (t[:, 2] - t[:, 0]) * (t[:, 3] - t[:, 1])
        union = area_s[:, None] + area_t[None, :] - inter
        cost_matrix = np.where(
            union > 0, np.minimum(inter / np.where(union > 0, union, 1), 1.0), 0.0
        )
""")]),
 ("V4 index table memoised on the ClipPrediction object under a key that is its full input (which events have a geometry)", [(DET, PRED_IDX,
   """    _key = tuple(
        bool(prediction.sound_event.geometry)
        for prediction in clip_predictions.sound_events
    )
    _memo = clip_predictions.__dict__.get("_geometry_indices")
    if _memo is None or _memo[0] != _key:
        _memo = (_key, [index for index, has in enumerate(_key) if has])
        clip_predictions.__dict__["_geometry_indices"] = _memo
    prediction_indices = _memo[1]
""")]),
 ("V5 sound_event_detection gains a keyword-only option, evaluate_clip trailing optional buffers handed to the matcher", [(DET,
   "    tags: Sequence[data.Tag],\n) -> data.Evaluation:\n", "    tags: Sequence[data.Tag],\n    *,\n    progress: bool = False,\n) -> data.Evaluation:\n"),
  (DET, "    encoder: Encoder,\n) -> tuple[list[Optional[int]], list[np.ndarray], data.ClipEvaluation]:\n",
   "    encoder: Encoder,\n    time_buffer: float = 0.01,\n    freq_buffer: float = 100,\n) -> tuple[list[Optional[int]], list[np.ndarray], data.ClipEvaluation]:\n"),
  (DET, "            if annotation.sound_event.geometry\n        ],\n    ):\n",
   "            if annotation.sound_event.geometry\n        ],\n        time_buffer=time_buffer,\n        freq_buffer=freq_buffer,\n    ):\n")]),
 ("V6 _select_matches emits the left-over targets before the left-over sources, both sorted", [(MAT,
   "    for row in rows:\n        yield row, None\n\n    for column in cols:\n        yield None, column\n",
   "    for column in sorted(cols):\n        yield None, column\n\n    for row in sorted(rows):\n        yield row, None\n")]),
]


def sh(cmd):
    return subprocess.run(cmd, shell=True, capture_output=True, text=True, executable="/bin/bash")


def run(kind, name, edits):
    saved = {}
    try:
        for path, old, new in edits:
            full = os.path.join(R, path)
            cur = open(full).read()
            saved.setdefault(full, cur)
            assert cur.count(old) == 1, (name, path, cur.count(old))
            open(full, "w").write(cur.replace(old, new))
        t = sh(f"cd {R} && PYTHONPATH={R}/src /venv/bin/python -m pytest -q -p no:cacheprovider tests/test_evaluation tests/test_data 2>&1 | tail -1")
        t0 = time.time()
        sh(f"rm -rf {V}/replays")
        c = sh(f"cd {V} && VERIF_EVIDENCE_DIR={V}/.run/ev-mut SOUNDEVENT_SRC={R}/src ./check C08 --tier quick 2>&1 | grep '^VIOLATION' | head -3; echo rc=${{PIPESTATUS[0]}}")
        first = ""
        rp = os.path.join(V, "replays")
        if os.path.isdir(rp) and os.listdir(rp):
            fn = sorted(os.listdir(rp))[0]
            r = json.load(open(os.path.join(rp, fn)))
            first = f"{fn}: {r['kind']}/{r['op']}: {r['detail'][:260]}"
        lines = c.stdout.strip().splitlines()
        rc = lines[-1] if lines else "?"
        nf = sum("no-failing-input-found" in l for l in lines)
        print(f"[{kind}] {name}\n      repo tests: {t.stdout.strip()[-50:]}\n      check: {rc} ({time.time()-t0:.0f}s)"
              f"{' no-failing-input-found x' + str(nf) if nf else ''} {first}", flush=True)
    finally:
        for full, cur in saved.items():
            open(full, "w").write(cur)


if __name__ == "__main__":
    only = sys.argv[1:] or None
    for kind, items in (("mutant", MUTANTS), ("rewrite", REWRITES)):
        for name, edits in items:
            if only and not any(o in name for o in only):
                continue
            run(kind, name, edits)
