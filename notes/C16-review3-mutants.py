"""Follow-up "histories and construction paths" of the C16 review: behaviour-preserving rewrites (must exit 0) and
mutants (must exit 1 with a concrete replay, repo tests passing) of the kinds HISTORIES.md lists - state between
calls, call forms / number types, option interplay, boundaries.

usage: /venv/bin/python notes/C16-review3-mutants.py [name | rewrite | mutant ...]   (scratch copy: /work/repo-C16)
Each entry: (name, kind, [(file, old, new), ...]).  The scratch copy is restored after every run."""
import json
import os
import subprocess
import sys

SCRATCH = os.environ.get("C16_SCRATCH", "/work/repo-C16")
VERIF = os.environ.get("C16_VERIF", os.path.dirname(os.path.dirname(os.path.abspath(__file__))))
D = "src/soundevent/arrays/dimensions.py"
O = "src/soundevent/arrays/operations.py"

AXIS = "        dim_index: int = array.get_axis_num(dim)  # type: ignore\n"
INDEXER = "        indexer[dim_index] = get_coord_index(array, dim, coord)\n"
INIT = "    indexer: List[Union[slice, int]] = [slice(None) for _ in range(array.ndim)]\n"
WRITE = "    array.data[tuple(indexer)] = value\n    return array\n"
LOOKUP = '    index = arr.indexes[dim].get_slice_bound(value, "right")\n    return index - 1\n'
RANGE = "    start, stop = get_dim_range(arr, dim)\n\n    if value < start or value > stop:\n"
RANGE_HEAD = "    if step is None:\n        if size is None:\n            raise ValueError(\"Either step or size must be provided.\")\n"
ARANGE = "    coords = np.arange(\n        start=start,\n        stop=stop,\n        step=step,\n        dtype=dtype,\n    )\n"
RETVAR = ("    return xr.Variable(\n        dims=name,\n        data=coords,\n        attrs={\n"
          "            DimAttrs.step.value: step,\n            **attrs,\n        },\n    )\n\n\ndef create_time_range")
TRAIL = "    if coords.size > 0 and coords[-1] >= stop - step / 2:\n"
DEF_RANGE = "def create_range_dim(\n    name: str,\n    start: float,\n    stop: float,\n    step: Optional[float] = None,\n    size: Optional[int] = None,\n"
DEF_FREQ = "    step: float,\n    name: str = Dimensions.frequency.value,\n    dtype: DTypeLike = np.float64,\n"
GET_RANGE = "    index = array.indexes[dim]\n    return index.min(), index.max()\n"
TIME_CALL = "    return create_range_dim(\n        name=name,\n        start=start_time,\n"
TIME_STEP = "        step = 1.0 / samplerate\n"

CASES = [
    # ---------------------------------------------------------------- behaviour-preserving rewrites
    ("RW1-correct-cache-keyed-by-the-full-input", "rewrite", [
        (D, "def create_range_dim(", "_RANGE_CACHE: dict = {}\n\n\ndef create_range_dim("),
        (D, ARANGE,
            "    try:\n        key = (start, stop, step, np.dtype(dtype).str)\n        hash(key)\n"
            "    except TypeError:\n        key = None\n"
            "    cached = _RANGE_CACHE.get(key) if key is not None else None\n"
            "    if cached is not None:\n"
            "        return xr.Variable(dims=name, data=cached.copy(), attrs={DimAttrs.step.value: step, **attrs})\n"
            + ARANGE),
        (D, RETVAR,
            "    if key is not None:\n        _RANGE_CACHE[key] = coords.copy()\n" + RETVAR)]),
    ("RW2-write-on-a-copy-return-the-copy", "rewrite", [
        (O, WRITE, "    result = array.copy()\n    result.data[tuple(indexer)] = value\n    return result\n")]),
    ("RW3-wrappers-call-positionally", "rewrite", [
        (D, "    return create_range_dim(\n        name=name,\n        start=low_freq,\n        stop=high_freq,\n        step=step,\n        dtype=dtype,\n",
            "    return create_range_dim(\n        name,\n        low_freq,\n        high_freq,\n        step,\n        None,\n        dtype,\n")]),
    ("RW4-validated-range-memo-keyed-by-identity", "rewrite", [
        (D, "def get_coord_index(", "_RANGE_MEMO: dict = {}\n\n\ndef get_coord_index("),
        (D, RANGE,
            "    pd_index = arr.indexes[dim]\n    memo = _RANGE_MEMO.get((id(arr), dim))\n"
            "    if memo is not None and memo[0] is pd_index:\n        start, stop = memo[1]\n"
            "    else:\n        start, stop = get_dim_range(arr, dim)\n"
            "        _RANGE_MEMO.clear()\n        _RANGE_MEMO[(id(arr), dim)] = (pd_index, (start, stop))\n\n"
            "    if value < start or value > stop:\n")]),
    ("RW5-lookups-first-then-the-indexer", "rewrite", [
        (O, "    for dim, coord in query.items():\n" + AXIS + INDEXER,
            "    lookups = []\n    for dim, coord in query.items():\n"
            "        lookups.append((array.get_axis_num(dim), get_coord_index(array, dim, coord, True)))\n"
            "    for dim_index, position in lookups:\n        indexer[dim_index] = position\n")]),
    ("RW6-new-optional-parameters-at-the-end", "rewrite", [
        (D, "    size: Optional[int] = None,\n    dtype: DTypeLike = np.float64,\n    **attrs,\n) -> xr.Variable:\n    \"\"\"Create a range dimension.",
            "    size: Optional[int] = None,\n    dtype: DTypeLike = np.float64,\n    endpoint: bool = False,\n    **attrs,\n) -> xr.Variable:\n    \"\"\"Create a range dimension."),
        (D, "    value: float,\n    raise_error: bool = True,\n) -> int:", "    value: float,\n    raise_error: bool = True,\n    tolerance: float = 0.0,\n) -> int:")]),
    # ---------------------------------------------------------------- mutants: state between calls
    ("S1-range-cache-keyed-without-dtype", "mutant", [
        (D, "def create_range_dim(", "_RANGE_CACHE: dict = {}\n\n\ndef create_range_dim("),
        (D, RANGE_HEAD,
            "    try:\n        key = (start, stop, step, size)\n        hash(key)\n    except TypeError:\n        key = None\n"
            "    if key is not None and key in _RANGE_CACHE:\n"
            "        cached = _RANGE_CACHE[key]\n"
            "        return xr.Variable(dims=name, data=cached.data.copy(), attrs={**cached.attrs, **attrs})\n"
            + RANGE_HEAD),
        (D, RETVAR,
            "    if key is not None:\n"
            "        _RANGE_CACHE[key] = xr.Variable(dims=name, data=coords.copy(), attrs={DimAttrs.step.value: step})\n" + RETVAR)]),
    ("S2-range-cache-returns-the-cached-buffer", "mutant", [
        (D, "def create_range_dim(", "_RANGE_CACHE: dict = {}\n\n\ndef create_range_dim("),
        (D, ARANGE,
            "    try:\n        key = (start, stop, step, np.dtype(dtype).str)\n        hash(key)\n"
            "    except TypeError:\n        key = None\n"
            "    cached = _RANGE_CACHE.get(key) if key is not None else None\n"
            "    if cached is not None:\n"
            "        return xr.Variable(dims=name, data=cached, attrs={DimAttrs.step.value: step, **attrs})\n"
            + ARANGE),
        (D, RETVAR, "    if key is not None:\n        _RANGE_CACHE[key] = coords\n" + RETVAR)]),
    ("S3-lookup-range-memoised-in-array-attrs", "mutant", [
        (D, RANGE,
            "    memo = arr.attrs.setdefault('_range_memo', {})\n    if dim not in memo:\n        memo[dim] = get_dim_range(arr, dim)\n"
            "    start, stop = memo[dim]\n\n    if value < start or value > stop:\n")]),
    ("S4-dim-range-cached-by-id-of-array", "mutant", [
        (D, "def get_dim_range(", "_DIM_RANGE: dict = {}\n\n\ndef get_dim_range("),
        (D, GET_RANGE,
            "    key = (id(array), dim, array.sizes[dim])\n    if key not in _DIM_RANGE:\n        if len(_DIM_RANGE) > 64:\n"
            "            _DIM_RANGE.clear()\n"
            "        index = array.indexes[dim]\n        _DIM_RANGE[key] = (index.min(), index.max())\n    return _DIM_RANGE[key]\n")]),
    ("S5-axis-number-cached-by-dimension-name", "mutant", [
        (O, "def set_value_at_pos(", "_AXIS_OF: dict = {}\n\n\ndef set_value_at_pos("),
        (O, AXIS, "        if (dim, array.ndim) not in _AXIS_OF:\n            _AXIS_OF[(dim, array.ndim)] = array.get_axis_num(dim)\n"
                  "        dim_index = _AXIS_OF[(dim, array.ndim)]\n")]),
    ("S6-indexer-cached-per-array-and-query", "mutant", [
        (O, "def set_value_at_pos(", "_INDEXERS: dict = {}\n\n\ndef set_value_at_pos("),
        (O, INIT, "    memo_key = (id(array), tuple(sorted((k, float(v)) for k, v in query.items())))\n"
                  "    if memo_key in _INDEXERS and _INDEXERS[memo_key][0] is array:\n"
                  "        array.data[_INDEXERS[memo_key][1]] = value\n        return array\n" + INIT),
        (O, WRITE, "    if len(_INDEXERS) > 32:\n        _INDEXERS.clear()\n"
                   "    _INDEXERS[memo_key] = (array, tuple(indexer))\n" + WRITE)]),
    ("S7-stale-copy-returned", "mutant", [
        (O, INIT, "    result = array.copy()\n" + INIT),
        (O, WRITE, "    array.data[tuple(indexer)] = value\n    return result if array.dtype.kind == 'i' else array\n")]),
    # ---------------------------------------------------------------- mutants: call forms / number types
    ("P1-step-and-size-swapped-in-the-signature", "mutant", [
        (D, DEF_RANGE, "def create_range_dim(\n    name: str,\n    start: float,\n    stop: float,\n    size: Optional[int] = None,\n    step: Optional[float] = None,\n")]),
    ("P2-frequency-range-dtype-before-name", "mutant", [
        (D, DEF_FREQ, "    step: float,\n    dtype: DTypeLike = np.float64,\n    name: str = Dimensions.frequency.value,\n")]),
    ("P3-numpy-integer-size-floor-divides", "mutant", [
        (D, "        step = (stop - start) / size\n",
            "        step = (stop - start) // size if isinstance(size, np.integer) and isinstance(stop, (int, np.integer)) else (stop - start) / size\n")]),
    ("P4-raise-error-compared-with-is-false", "mutant", [
        (D, "        if raise_error:\n            raise KeyError(", "        if raise_error is not False:\n            raise KeyError(")]),
    ("P5-time-range-name-and-dtype-keyword-only", "mutant", [
        (D, "    samplerate: Optional[float] = None,\n    name: str = Dimensions.time.value,\n",
            "    samplerate: Optional[float] = None,\n    *,\n    name: str = Dimensions.time.value,\n")]),
    ("P6-lookup-value-parameter-renamed", "mutant", [
        (D, "    value: float,\n    raise_error: bool = True,\n) -> int:", "    position: float,\n    raise_error: bool = True,\n) -> int:"),
        (D, RANGE, "    value = position\n" + RANGE)]),
    # ---------------------------------------------------------------- mutants: option interplay / siblings
    ("O1-samplerate-path-forgets-the-name", "mutant", [
        (D, TIME_STEP, "        step = 1.0 / samplerate\n        name = Dimensions.time.value\n")]),
    # ---------------------------------------------------------------- mutants: boundaries
    ("B1-trailing-threshold-with-relative-slack", "mutant", [
        (D, TRAIL, "    if coords.size > 0 and coords[-1] >= stop - step / 2 - 1e-9 * abs(stop):\n")]),
    ("B2-long-axes-searched-from-the-left", "mutant", [
        (D, LOOKUP, "    if arr.sizes[dim] >= 1024:\n"
                    "        return max(int(np.searchsorted(arr.indexes[dim].to_numpy(), value, side='left')) - 1, 0)\n" + LOOKUP)]),
    ("B3-upper-edge-test-with-isclose", "mutant", [
        (D, "    if value < start or value > stop:\n        if raise_error:",
            "    if value < start or (value > stop and not np.isclose(value, stop, rtol=1e-10, atol=0)):\n        if raise_error:")]),
]


def sh(cmd, **kw):
    return subprocess.run(cmd, shell=True, capture_output=True, text=True, **kw)


def run_case(name, kind, edits):
    sh(f"git -C {SCRATCH} checkout -q -- .")
    for path, old, new in edits:
        p = os.path.join(SCRATCH, path)
        s = open(p).read()
        if old not in s:
            return f"{name}: PATTERN NOT FOUND in {path}: {old[:60]!r}"
        open(p, "w").write(s.replace(old, new, 1))
    env = dict(os.environ, PYTHONPATH=f"{SCRATCH}/src")
    t = sh(f"cd {SCRATCH} && /venv/bin/python -m pytest -q -p no:cacheprovider tests/test_array "
           f"tests/test_geometry/test_operations.py 2>&1 | tail -1", env=env)
    tests = t.stdout.strip().splitlines()[-1] if t.stdout.strip() else "?"
    env2 = dict(os.environ, SOUNDEVENT_SRC=f"{SCRATCH}/src", VERIF_EVIDENCE_DIR=os.path.join(VERIF, ".run", "ev"))
    c = sh(f"cd {VERIF} && ./check C16 --tier quick 2>&1", env=env2)
    viols = [ln for ln in c.stdout.splitlines() if ln.startswith("VIOLATION")]
    replay = ""
    if viols:
        try:
            rec = json.load(open(os.path.join(VERIF, viols[0].split("replay=")[1].split()[0])))
            replay = f"op={rec.get('op')} input={json.dumps(rec.get('input'))[:300]} impl={json.dumps(rec.get('impl'))[:100]} model={json.dumps(rec.get('model'))[:80]}"
        except Exception as e:  # noqa: BLE001
            replay = repr(e)
    sh(f"git -C {SCRATCH} checkout -q -- .")
    return (f"{name} [{kind}] tests: {tests} | check exit {c.returncode} | {len(viols)} x {viols[0] if viols else ''} | {replay}")


if __name__ == "__main__":
    want = set(sys.argv[1:])
    for name, kind, edits in CASES:
        if want and name not in want and kind not in want:
            continue
        print(run_case(name, kind, edits), flush=True)
