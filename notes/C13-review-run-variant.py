#!/venv/bin/python
import subprocess, sys, os, json, re, time
sys.path.insert(0, os.path.dirname(__file__))
from variants import V
REPO = "/work/repo-R-C13"; F = REPO + "/src/soundevent/geometry/operations.py"; VER = "/work/verif-R-C13"
names = sys.argv[1:] or list(V)
for name in names:
    subprocess.run(["git", "-C", REPO, "checkout", "-q", "--", "."], check=True)
    src = open(F).read()
    ok = True
    for old, new in V[name]:
        if old not in src:
            print(name, "PATTERN NOT FOUND:", old[:50]); ok = False; break
        src = src.replace(old, new)
    if not ok: continue
    open(F, "w").write(src)
    env = dict(os.environ, PYTHONPATH=REPO + "/src")
    t = subprocess.run(["/venv/bin/python", "-m", "pytest", "-q", "-p", "no:cacheprovider", "tests/test_geometry/test_operations.py", "-k", "group"],
                       cwd=REPO, env=env, stdout=subprocess.PIPE, stderr=subprocess.STDOUT, text=True)
    tests = t.stdout.strip().splitlines()[-1]
    env2 = dict(os.environ, SOUNDEVENT_SRC=REPO + "/src", VERIF_EVIDENCE_DIR="/tmp/c13-ev")
    t0 = time.time()
    p = subprocess.run(["./check", os.environ.get("C13MOD", "C13"), "--tier", "quick"], cwd=VER, env=env2, stdout=subprocess.PIPE, stderr=subprocess.PIPE, text=True)
    viol = [l for l in p.stdout.splitlines() if l.startswith("VIOLATION")]
    detail = ""
    if viol:
        rp = viol[0].split("replay=")[1].split()[0]
        try:
            r = json.load(open(os.path.join(VER, rp)))
            detail = f"{r['kind']} {r['op']} input={json.dumps(r['input'])[:160]} :: {r['detail'][:110]}"
        except Exception as e:
            detail = repr(e)
    notes = ""
    try:
        ev = json.load(open("/tmp/c13-ev/C13.json"))
        notes = " | ".join(n[:70] for n in ev["coverage"]["notes"])[:300]
    except Exception: pass
    print(f"{name}: tests[{tests}] rc={p.returncode} {time.time()-t0:.0f}s {viol[0][:90] if viol else ''}\n    {detail}\n    notes: {notes}", flush=True)
subprocess.run(["git", "-C", REPO, "checkout", "-q", "--", "."], check=True)
