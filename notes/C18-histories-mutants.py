"""Mutants (must exit 1 with a concrete replay, repo tests still passing) and behaviour-preserving rewrites (must exit 0)
of the follow-up "histories and construction paths" of C18 (notes/C18-review.md, last section).

usage: /venv/bin/python notes/C18-histories-mutants.py [name | rewrite | mutant ...]   (scratch copy: /work/repo-C18)
The runner is the one of notes/C18-review-mutants.py (same environment variables)."""
import importlib.util
import os
import sys

_here = os.path.dirname(os.path.abspath(__file__))
_spec = importlib.util.spec_from_file_location("c18_review_mutants", os.path.join(_here, "C18-review-mutants.py"))
base = importlib.util.module_from_spec(_spec)
_spec.loader.exec_module(base)
REC, INIT, SAVE, LOAD, WRITE, A, SET_DIR = base.REC, base.INIT, base.SAVE, base.LOAD, base.WRITE, base.A, base.SET_DIR
IMPORTS_INIT = "import datetime\nfrom pathlib import Path\nfrom typing import Any, Dict, Optional, Set, TypeVar, Union\n"
PARSE = "    aoef_object = AOEFObject.model_validate_json(path.read_text())\n"
CONVERT_BACK = "    return to_soundevent(aoef_object, audio_dir=audio_dir)\n"
LOAD_SIG = ("def load(\n    path: data.PathLike,\n    audio_dir: Optional[data.PathLike] = None,\n"
            "    type: Optional[DataType] = None,\n) -> DataCollections:\n")
TO_AEOF_HEAD = ('    """Convert a data object to an AOEF object."""\n    for _, data_cls, adapter_cls in ADAPTERS:\n'
                "        if isinstance(obj, data_cls):\n")
RS = A + "recording_set.py"
RS_LIST = ("        recording_objects = [\n            self.recording_adapter.to_aoef(recording)\n"
           "            for recording in obj.recordings\n        ]\n")
RET_REC = "        return data.Recording(\n            uuid=obj.uuid or uuid4(),\n            path=path,\n"
CLS = base.CLS

CASES = [
    # ------------------------------------------------------------------ category 1: state between calls
    ("H1-load-caches-the-parsed-document-by-file-name", "mutant", [
        (INIT, PARSE, "    key = str(path)\n    if key not in _PARSED:\n        _PARSED[key] = AOEFObject.model_validate_json(path.read_text())\n"
                      "    aoef_object = _PARSED[key]\n"),
        (INIT, "AOEF_VERSION = \"1.1.0\"\n", "AOEF_VERSION = \"1.1.0\"\n_PARSED: Dict[str, Any] = {}\n")]),
    ("H2-load-returns-one-cached-object-per-file-state-and-directory", "mutant", [
        (INIT, CONVERT_BACK, "    stat = path.stat()\n    key = (str(path), stat.st_mtime_ns, stat.st_size, None if audio_dir is None else str(Path(audio_dir)))\n"
                             "    if key not in _LOADED:\n        _LOADED[key] = to_soundevent(aoef_object, audio_dir=audio_dir)\n    return _LOADED[key]\n"),
        (INIT, "AOEF_VERSION = \"1.1.0\"\n", "AOEF_VERSION = \"1.1.0\"\n_LOADED: Dict[Any, Any] = {}\n")]),
    ("H3-save-writes-the-relative-path-back-onto-the-recording", "mutant", [
        (REC, SAVE, "        path = obj.path\n        if self.audio_dir is not None:\n"
                    "            path = Path(obj.path).relative_to(self.audio_dir)\n            obj.path = path\n")]),
    ("H3b-save-tidies-the-recording-path-in-place", "mutant", [
        (REC, SAVE, "        path = obj.path\n        if self.audio_dir is not None:\n            import os\n\n"
                    "            obj.path = Path(os.path.normpath(obj.path))\n"
                    "            path = Path(obj.path).relative_to(self.audio_dir)\n")]),
    ("H4-save-skips-rewriting-a-file-that-already-holds-this-collection", "mutant", [
        (INIT, "    aoef_object = to_aeof(obj, audio_dir=audio_dir)\n\n    path.write_text(",
               "    aoef_object = to_aeof(obj, audio_dir=audio_dir)\n\n    if path.exists():\n        try:\n"
               "            import json\n\n            if json.loads(path.read_text())[\"data\"][\"uuid\"] == str(obj.uuid):\n"
               "                return  # nothing new to write\n        except (ValueError, KeyError, TypeError):\n            pass\n\n    path.write_text(")]),
    ("H5-recording-memo-keyed-by-uuid-and-directory", "mutant", [
        (REC, SAVE, "        path = obj.path\n        if self.audio_dir is not None:\n"
                    "            key = (obj.uuid, str(self.audio_dir))\n            if key not in RecordingAdapter._relative:\n"
                    "                RecordingAdapter._relative[key] = Path(obj.path).relative_to(\n                    self.audio_dir\n                )\n"
                    "            path = RecordingAdapter._relative[key]\n"),
        (REC, CLS, CLS + "    _relative: Dict[tuple, Path] = {}\n\n")]),
    ("H6-loaded-recordings-shared-between-loads", "mutant", [
        # a process-wide cache keyed by the *whole* input (directory and the stored object): the content is right, but
        # every caller gets the same Recording instance
        (REC, "    def assemble_soundevent(self, obj: RecordingObject) -> data.Recording:\n",
              "    def assemble_soundevent(self, obj: RecordingObject) -> data.Recording:\n"
              "        key = (None if self.audio_dir is None else str(Path(self.audio_dir)), obj.model_dump_json())\n"
              "        if key not in RecordingAdapter._recordings:\n"
              "            RecordingAdapter._recordings[key] = self._assemble(obj)\n"
              "        return RecordingAdapter._recordings[key]\n\n"
              "    def _assemble(self, obj: RecordingObject) -> data.Recording:\n"),
        (REC, CLS, CLS + "    _recordings: Dict[tuple, data.Recording] = {}\n\n")]),
    # ------------------------------------------------------------------ category 3: construction / passing of the input
    ("H7-save-assumes-Recording.path-is-a-Path", "mutant", [
        (REC, "            path = Path(obj.path).relative_to(self.audio_dir)\n", "            path = obj.path.relative_to(self.audio_dir)\n")]),
    ("H8-directory-that-is-not-str-or-Path-goes-through-str", "mutant", [
        (INIT, TO_AEOF_HEAD, '    """Convert a data object to an AOEF object."""\n    if audio_dir is not None and not isinstance(audio_dir, (str, Path)):\n'
                             "        audio_dir = str(audio_dir)\n    for _, data_cls, adapter_cls in ADAPTERS:\n        if isinstance(obj, data_cls):\n")]),
    ("H9-aoef.load-parameters-reordered", "mutant", [
        (INIT, LOAD_SIG, "def load(\n    path: data.PathLike,\n    type: Optional[DataType] = None,\n"
                         "    audio_dir: Optional[data.PathLike] = None,\n) -> DataCollections:\n")]),
    # ------------------------------------------------------------------ category 4: options x input classes, siblings
    ("H10-home-directory-expanded-in-the-audio-directory", "mutant", [
        (REC, SET_DIR, "        self.audio_dir = (\n            Path(audio_dir).expanduser()\n            if isinstance(audio_dir, (str, Path))\n"
                       "            else audio_dir\n        )\n")]),
    ("H11-typed-load-with-a-PathLike-directory-is-not-relocated", "mutant", [
        (INIT, CONVERT_BACK, "    if type is not None and not isinstance(audio_dir, (str, Path)):\n        audio_dir = None\n"
                             "    return to_soundevent(aoef_object, audio_dir=audio_dir)\n")]),
    # ------------------------------------------------------------------ category 5: size thresholds
    ("H12-recording-sets-of-1024-and-more-converted-in-chunks", "mutant", [
        (RS, RS_LIST, "        if len(obj.recordings) < 1024:\n            recording_objects = [\n                self.recording_adapter.to_aoef(recording)\n"
                      "                for recording in obj.recordings\n            ]\n        else:\n            recording_objects = []\n"
                      "            for start in range(0, len(obj.recordings), 512):\n                chunk_adapter = RecordingAdapter(\n"
                      "                    self.user_adapter, self.tag_adapter, self.note_adapter\n                )\n"
                      "                chunk_adapter.audio_dir = (\n                    self.recording_adapter.audio_dir if start == 0 else None\n                )\n"
                      "                recording_objects.extend(\n                    chunk_adapter.to_aoef(recording)\n"
                      "                    for recording in obj.recordings[start : start + 512]\n                )\n")]),
    ("H13-only-the-first-256-recordings-are-checked-to-lie-inside", "mutant", [
        (REC, SAVE, "        path = obj.path\n        if self.audio_dir is not None:\n            self._seen = getattr(self, \"_seen\", 0) + 1\n"
                    "            if self._seen <= 256:\n                path = Path(obj.path).relative_to(self.audio_dir)\n            else:\n"
                    "                import os\n\n                path = Path(os.path.relpath(obj.path, self.audio_dir))\n")]),
    ("H14-relative-path-remembered-on-the-recording-object", "mutant", [
        # memoised on the argument object, per directory: survives assignment to `path`, model_copy(update=...), copy.copy
        (REC, SAVE, "        path = obj.path\n        if self.audio_dir is not None:\n"
                    "            memo = obj.__dict__.setdefault(\"_aoef_relative\", {})\n            key = str(self.audio_dir)\n"
                    "            if key not in memo:\n                memo[key] = Path(obj.path).relative_to(self.audio_dir)\n"
                    "            path = memo[key]\n")]),
    # ------------------------------------------------------------------ behaviour-preserving rewrites
    ("W1-correct-memo-keyed-by-the-whole-input", "rewrite", [
        (REC, SAVE, "        path = obj.path\n        if self.audio_dir is not None:\n            import os\n\n"
                    "            key = (os.fspath(obj.path), os.fspath(self.audio_dir))\n            if key not in RecordingAdapter._relative:\n"
                    "                try:\n                    RecordingAdapter._relative[key] = Path(obj.path).relative_to(\n"
                    "                        self.audio_dir\n                    )\n                except ValueError as error:\n"
                    "                    RecordingAdapter._relative[key] = error\n            path = RecordingAdapter._relative[key]\n"
                    "            if isinstance(path, ValueError):\n                raise ValueError(str(path))\n"),
        (REC, CLS, CLS + "    _relative: Dict[tuple, object] = {}\n\n")]),
    ("W2-durable-write-with-truncation", "rewrite", [
        (INIT, WRITE, "    aoef_object = to_aeof(obj, audio_dir=audio_dir)\n    content = aoef_object.model_dump_json(exclude_none=True, exclude=exclude)\n"
                      "    import os\n\n    fd = os.open(path, os.O_WRONLY | os.O_CREAT | os.O_TRUNC, 0o666)\n"
                      "    with os.fdopen(fd, \"w\") as file:\n        file.write(content)\n        file.flush()\n        os.fsync(file.fileno())\n")]),
    ("W3-parsed-documents-cached-by-their-whole-text", "rewrite", [
        (INIT, PARSE, "    text = path.read_text()\n    if text not in _PARSED:\n        _PARSED[text] = AOEFObject.model_validate_json(text)\n"
                      "    aoef_object = _PARSED[text]\n"),
        (INIT, "AOEF_VERSION = \"1.1.0\"\n", "AOEF_VERSION = \"1.1.0\"\n_PARSED: Dict[str, Any] = {}\n")]),
    ("W4-adapter-found-along-the-mro", "rewrite", [
        (INIT, TO_AEOF_HEAD + "            adapter = adapter_cls(audio_dir=audio_dir)\n",
               '    """Convert a data object to an AOEF object."""\n    by_class = {data_cls: adapter_cls for _, data_cls, adapter_cls in ADAPTERS}\n'
               "    for klass in type(obj).__mro__:\n        if klass in by_class:\n            adapter_cls = by_class[klass]\n"
               "            adapter = adapter_cls(audio_dir=audio_dir)\n")]),
    ("W5-correct-chunks-for-large-recording-sets", "rewrite", [
        (RS, RS_LIST, "        recording_objects = []\n        for start in range(0, len(obj.recordings), 512):\n            recording_objects.extend(\n"
                      "                self.recording_adapter.to_aoef(recording)\n                for recording in obj.recordings[start : start + 512]\n            )\n")]),
    ("W7-successful-save-keeps-a-backup-of-the-earlier-file", "rewrite", [
        (INIT, WRITE, "    aoef_object = to_aeof(obj, audio_dir=audio_dir)\n    content = aoef_object.model_dump_json(exclude_none=True, exclude=exclude)\n\n"
                      "    if path.exists():\n        path.with_name(path.name + \".bak\").write_bytes(path.read_bytes())\n    path.write_text(content)\n")]),
    ("W6-load-joins-through-fspath", "rewrite", [
        (REC, LOAD, "        path = obj.path\n        if self.audio_dir is not None:\n            import os\n\n"
                    "            path = Path(os.fspath(self.audio_dir)) / obj.path\n")]),
]

if __name__ == "__main__":
    want = set(sys.argv[1:])
    for name, kind, edits in CASES:
        if want and name not in want and kind not in want:
            continue
        print(base.run_case(name, kind, [e for e in edits if e[1] != e[2]], os.environ.get("C18_SEED", "0")), flush=True)
