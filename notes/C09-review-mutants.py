#!/venv/bin/python
"""Self-test used by the C09 review (not part of the check): behaviour-preserving rewrites (must exit 0)
and subtle mutants (must exit 1 with a replay; the repo's own tests must still pass).

usage: /venv/bin/python notes/C09-review-mutants.py rewrites|mutants [substring]
Expects a scratch worktree of /repo at /work/repo-R-C09; restores every file afterwards."""
import subprocess, sys, os, json, time, shutil, glob
R = "/work/repo-R-C09"
V = "/work/verif-R-C09"
DET = "src/soundevent/evaluation/tasks/sound_event_detection.py"
SEC = "src/soundevent/evaluation/tasks/sound_event_classification.py"
CC = "src/soundevent/evaluation/tasks/clip_classification.py"
ML = "src/soundevent/evaluation/tasks/clip_multilabel_classification.py"
MET = "src/soundevent/evaluation/metrics.py"
AEV = "src/soundevent/io/aoef/evaluation.py"
ACE = "src/soundevent/io/aoef/clip_evaluation.py"
AMA = "src/soundevent/io/aoef/match.py"

NONE_COL = "    y_score = np.c_[y_score, 1 - y_score.sum(axis=1, keepdims=True)]\n"

def nth(s, old, new, n):
    """replace the n-th (0-based) occurrence"""
    i = -1
    for _ in range(n + 1):
        i = s.index(old, i + 1)
    return s[:i] + new + s[i + len(old):]

REWRITES = [
 ("accuracy by hand instead of sklearn.accuracy_score; locals renamed", [(MET, lambda s: s.replace(
     "    y_pred = y_score.argmax(axis=1)\n    return metrics.accuracy_score(  # type: ignore\n        y_true=y_true_array,\n        y_pred=y_pred,\n    )",
     "    winners = np.argmax(y_score, axis=1)\n    return float(np.mean(winners == y_true_array))"))]),
 ("top-3: last three columns of the ascending stable sort (no reversal), `in` test per row", [(MET, lambda s: s.replace(
     "    top_3 = np.argsort(y_score, axis=1, kind=\"mergesort\")[:, ::-1][:, :3]\n    hits = (top_3 == y_true_array[:, np.newaxis]).any(axis=1)\n    return float(np.mean(hits))",
     "    order = np.argsort(y_score, axis=1, kind=\"stable\")[:, -3:]\n    hits = [int(t) in row for t, row in zip(y_true_array, order.tolist())]\n    return float(sum(hits) / len(hits))"))]),
 ("tables renamed (RUN_METRICS -> OVERALL_METRICS, ...) in clip_classification and detection", [
     (CC, lambda s: s.replace("RUN_METRICS", "OVERALL_METRICS").replace("EXAMPLE_METRICS", "CLIP_METRICS")),
     (DET, lambda s: s.replace("RUN_METRICS", "OVERALL_METRICS").replace("SOUNDEVENT_METRICS", "MATCH_METRICS"))]),
 ("metric functions imported under aliases / wrapped in functools.partial in the tables", [(SEC, lambda s: s.replace(
     "from soundevent.terms import metrics as terms\n",
     "from soundevent.terms import metrics as terms\nimport functools\nfrom soundevent.evaluation.metrics import accuracy as _acc\n").replace(
     "    (terms.accuracy, metrics.accuracy),", "    (terms.accuracy, functools.partial(_acc)),"))]),
 ("overall score: explicit loop and sum/len instead of np.mean; `not x is None`", [(CC, lambda s: s.replace(
     "    non_none_scores = [\n        example.score\n        for example in evaluated_examples\n        if example.score is not None\n    ]\n    return float(np.mean(non_none_scores)) if non_none_scores else 0.0",
     "    total, count = 0.0, 0\n    for example in evaluated_examples:\n        if not (example.score is None):\n            total += float(example.score)\n            count += 1\n    if count == 0:\n        return 0.0\n    return total / count"))]),
 ("clip pairing: loop with get() instead of membership test; dictionary built by a loop", [("src/soundevent/evaluation/tasks/common.py", lambda s: s.replace(
     "    annotated_clips = {\n        example.clip.uuid: example for example in clip_annotations\n    }\n\n    for predictions in clip_predictions:\n        if predictions.clip.uuid in annotated_clips:\n            annotations = annotated_clips[predictions.clip.uuid]\n            yield annotations, predictions",
     "    lookup = {}\n    for item in clip_annotations:\n        lookup[item.clip.uuid] = item\n    for predictions in clip_predictions:\n        found = lookup.get(predictions.clip.uuid)\n        if found is None:\n            continue\n        yield found, predictions"))]),
 ("true_class_probability delegates to classification_score; error-free fast path for an empty score row", [(MET, lambda s: nth(s,
     "    if y_true is None:\n        return 1 - y_score.sum()\n\n    return y_score[y_true]",
     "    return classification_score(y_true, y_score)", 1))]),
 ("multilabel score: normalize=False on a single example, float64 cast before exp; jaccard threshold passed positionally", [(MET, lambda s: s.replace(
     "    loss = metrics.log_loss(y_true, y_score, normalize=True)\n    return np.exp(-loss)",
     "    loss = metrics.log_loss(y_true, y_score, normalize=False)\n    return float(np.exp(-np.float64(loss)))"))]),
 ("example-level average precision with average='macro' (ignored for a 1-D binary target)", [(MET, lambda s: s.replace(
     "        y_score=y_score,\n        average=\"micro\",", "        y_score=y_score,\n        average=\"macro\","))]),
 ("SEC: match score through true_class_probability, dict of annotations via dict(zip()), comprehension for scores", [(SEC, lambda s: s.replace(
     "        score=metrics.classification_score(true_class, predicted_class_scores),",
     "        score=metrics.true_class_probability(true_class, predicted_class_scores),").replace(
     "    _valid_sound_events = {\n        annotation.sound_event.uuid: annotation\n        for annotation in clip_annotations.sound_events\n    }",
     "    _valid_sound_events = dict(\n        zip(\n            (a.sound_event.uuid for a in clip_annotations.sound_events),\n            clip_annotations.sound_events,\n        )\n    )"))]),
 ("AOEF: metric mapping built by a loop, error message changed, Optional order", [(AEV, lambda s: s.replace(
     "            metrics=(\n                {\n                    data.key_from_term(metric.term): metric.value\n                    for metric in obj.metrics\n                    if metric.value is not None\n                }\n                if obj.metrics\n                else None\n            ),",
     "            metrics=_metric_mapping(obj.metrics),").replace(
     "class EvaluationAdapter:",
     "def _metric_mapping(features):\n    if not features:\n        return None\n    mapping = {}\n    for feature in features:\n        if feature.value is None:\n            continue\n        mapping[data.key_from_term(feature.term)] = feature.value\n    return mapping\n\n\nclass EvaluationAdapter:"))]),
 ("balanced accuracy by hand (mean recall over present classes) instead of sklearn", [(MET, lambda s: s.replace(
     "    y_pred = y_score.argmax(axis=1)\n    return metrics.balanced_accuracy_score(\n        y_true=y_true_array,\n        y_pred=y_pred,\n    )",
     "    y_pred = y_score.argmax(axis=1)\n    recalls = [\n        float(np.mean(y_pred[y_true_array == c] == c))\n        for c in np.unique(y_true_array)\n    ]\n    return float(np.mean(recalls))"))]),
 ("clip evaluations returned sorted by clip start time (order of the result is not part of the statement)", [(CC, lambda s: s.replace(
     "    return evaluated_examples, true_classes, np.array(predicted_classes_scores)",
     "    order = sorted(range(len(evaluated_examples)), key=lambda i: evaluated_examples[i].annotations.clip.start_time)\n    evaluated_examples = [evaluated_examples[i] for i in order]\n    return evaluated_examples, true_classes, np.array(predicted_classes_scores)"))]),
 ("RUN_METRICS rows reordered in detection (order of metrics within a list is not pinned)", [(DET, lambda s: s.replace(
     "    (terms.mean_average_precision, metrics.mean_average_precision),\n    (terms.balanced_accuracy, metrics.balanced_accuracy),\n",
     "    (terms.balanced_accuracy, metrics.balanced_accuracy),\n    (terms.mean_average_precision, metrics.mean_average_precision),\n"))]),
 ("AOEF: metrics read back in sorted key order", [(AEV, lambda s: s.replace(
     "                for name, value in (obj.metrics or {}).items()", "                for name, value in sorted((obj.metrics or {}).items())"))]),
]

MUTANTS = [
 ("accuracy only: none column = 1 - max instead of 1 - sum", [(MET, lambda s: nth(s, NONE_COL, "    y_score = np.c_[y_score, 1 - y_score.max(axis=1, keepdims=True)]\n", 1))]),
 ("balanced accuracy: adjusted=True (chance-corrected)", [(MET, lambda s: s.replace(
     "    return metrics.balanced_accuracy_score(\n        y_true=y_true_array,\n        y_pred=y_pred,\n    )",
     "    return metrics.balanced_accuracy_score(\n        y_true=y_true_array,\n        y_pred=y_pred,\n        adjusted=True,\n    )"))]),
 ("top-3: tie order flipped (descending stable sort of the negated scores)", [(MET, lambda s: s.replace(
     "np.argsort(y_score, axis=1, kind=\"mergesort\")[:, ::-1][:, :3]", "np.argsort(-y_score, axis=1, kind=\"mergesort\")[:, :3]"))]),
 ("mean average precision: average='weighted' instead of 'macro'", [(MET, lambda s: nth(s, "        average=\"macro\",", "        average=\"weighted\",", 0))]),
 ("jaccard: average='macro' over labels instead of 'samples'", [(MET, lambda s: s.replace("        average=\"samples\",", "        average=\"macro\","))]),
 ("classification_score: `if not y_true` (class 0 treated as unlabelled)", [(MET, lambda s: nth(s,
     "    if y_true is None:\n        return 1 - y_score.sum()", "    if not y_true:\n        return 1 - y_score.sum()", 0))]),
 ("clip_classification overall score: zero scores dropped (`if example.score`)", [(CC, lambda s: s.replace(
     "        if example.score is not None\n    ]\n    return float(np.mean(non_none_scores))", "        if example.score\n    ]\n    return float(np.mean(non_none_scores))"))]),
 ("SEC clip score: zero match scores dropped (`if match.score`)", [(SEC, lambda s: s.replace(
     "    scores = [match.score for match in matches if match.score is not None]", "    scores = [match.score for match in matches if match.score]"))]),
 ("state between calls: encoder cached by vocabulary size in clip_classification", [(CC, lambda s: s.replace(
     "    encoder = create_tag_encoder(tags)\n", "    encoder = _ENCODERS.setdefault(len(tags), create_tag_encoder(tags))\n").replace(
     "EXAMPLE_METRICS = (", "_ENCODERS: dict = {}\n\nEXAMPLE_METRICS = ("))]),
 ("aliasing: mean_average_precision zeroes the score rows of unlabelled items in place (later metrics of detection see it)", [(MET, lambda s: s.replace(
     "        no_class = no_class.any(axis=1)\n    y_true = y_true[~no_class]", "        no_class = no_class.any(axis=1)\n    y_score[no_class] = 0\n    y_true = y_true[~no_class]"))]),
 ("AOEF evaluation: zero-valued metrics dropped (`if metric.value`)", [(AEV, lambda s: s.replace(
     "                    for metric in obj.metrics\n                    if metric.value is not None", "                    for metric in obj.metrics\n                    if metric.value"))]),
 ("AOEF clip evaluation: score 0 written as absent (`obj.score or None`)", [(ACE, lambda s: nth(s, "            score=obj.score,", "            score=obj.score or None,", 0))]),
 ("AOEF match: metric values rounded to 6 digits on load", [(AMA, lambda s: s.replace(
     "                for name, value in (obj.metrics or {}).items()", "                for name, value in ((k, round(v, 6)) for k, v in (obj.metrics or {}).items())"))]),
 ("multilabel clip score: loss divided by the number of classes (geometric mean per class)", [(MET, lambda s: s.replace(
     "    return np.exp(-loss)", "    return np.exp(-loss / y_true.shape[1])"))]),
 ("accuracy: unlabelled items mapped to the last real class (num_classes - 1)", [(MET, lambda s: nth(s,
     "        [y if y is not None else num_classes for y in y_true]", "        [y if y is not None else num_classes - 1 for y in y_true]", 1))]),
 ("detection: per-match metric computed for the prediction's best class when the annotation is class 0 (`true_class or argmax`)", [(DET, lambda s: s.replace(
     "                value=metric(true_class, predicted_class_scores),\n            )\n            for term, metric in SOUNDEVENT_METRICS",
     "                value=metric(true_class or int(predicted_class_scores.argmax()), predicted_class_scores),\n            )\n            for term, metric in SOUNDEVENT_METRICS"))]),
 ("multilabel run metric fed the thresholded predictions only when every clip has a positive (fast path)", [(ML, lambda s: s.replace(
     "            value=metric(\n                true_classes,\n                predicted_classes_scores,\n            ),",
     "            value=metric(\n                true_classes,\n                predicted_classes_scores\n                if not true_classes.any(axis=1).all()\n                else np.round(predicted_classes_scores, 1),\n            ),"))]),
 ("jaccard default threshold 0.5 -> 0.51", [(MET, lambda s: s.replace("    threshold: float = 0.5,", "    threshold: float = 0.51,"))]),
 ("top-3 hits: float32 mean (np.mean(hits, dtype=np.float32))", [(MET, lambda s: s.replace("    return float(np.mean(hits))", "    return float(np.mean(hits, dtype=np.float32))"))]),
 ("detection: items of clips without annotated sound events left out of the run-level metrics", [(DET, lambda s: s.replace(
     "        true_classes.extend(true_class)\n        predicted_classes_scores.extend(predicted_classes)\n        evaluated_clips.append(evaluated_clip)",
     "        evaluated_clips.append(evaluated_clip)\n        if not annotations.sound_events:\n            continue\n        true_classes.extend(true_class)\n        predicted_classes_scores.extend(predicted_classes)"))]),
 ("clip_classification: true class from the last tag of the vocabulary instead of the first", [(CC, lambda s: s.replace(
     "        tags=clip_annotations.tags,\n        encoder=encoder,\n    )\n    predicted_class_scores", "        tags=list(reversed(clip_annotations.tags)),\n        encoder=encoder,\n    )\n    predicted_class_scores"))]),
 ("top-3: k = min(3, number of tags)", [(MET, lambda s: s.replace("[:, ::-1][:, :3]", "[:, ::-1][:, : min(3, num_classes)]"))]),
 ("SEC: run-level metrics averaged over two halves instead of computed over all sound events", [(SEC, lambda s: s.replace(
     "            value=metric(\n                true_classes,\n                predicted_classes_scores,\n            ),\n        )\n        for term, metric in RUN_METRICS",
     "            value=metric(\n                true_classes,\n                predicted_classes_scores,\n            ) if len(true_classes) < 3 else float(np.mean([metric(true_classes[:2], predicted_classes_scores[:2]), metric(true_classes[2:], predicted_classes_scores[2:])])),\n        )\n        for term, metric in RUN_METRICS"))]),
]


def sh(cmd):
    return subprocess.run(cmd, shell=True, capture_output=True, text=True, executable="/bin/bash")


def main():
    kind = sys.argv[1]
    only = sys.argv[2] if len(sys.argv) > 2 else None
    todo = (REWRITES if kind == "rewrites" else MUTANTS)
    if only and only.startswith("from="):
        todo = todo[int(only[5:]):]
        only_ = None
    else:
        only_ = only
    for name, edits in todo:
        if only_ and only_ not in name:
            continue
        saved = {}
        try:
            for path, f in edits:
                full = os.path.join(R, path)
                orig = open(full).read()
                saved[full] = orig
                new = f(orig)
                assert new != orig, ("edit did not apply", name, path)
                open(full, "w").write(new)
            t = sh(f"cd {R} && PYTHONPATH={R}/src /venv/bin/python -m pytest -q -x -p no:cacheprovider tests/test_evaluation tests/test_io 2>&1 | tail -1")
            shutil.rmtree(os.path.join(V, "replays"), ignore_errors=True)
            t0 = time.time()
            c = sh(f"cd {V} && SOUNDEVENT_SRC={R}/src VERIF_SEED={os.environ.get('VERIF_SEED','0')} ./check C09 --tier quick 2>&1 | grep -v '^KNOWN-FINDING' | cut -c1-330 | head -4; echo rc=${{PIPESTATUS[0]}}")
            print(f"[{kind}] {name}\n    repo tests: {t.stdout.strip()[-70:]}\n    check ({time.time()-t0:.0f}s): " + c.stdout.strip().replace("\n", "\n        "), flush=True)
        finally:
            for full, orig in saved.items():
                open(full, "w").write(orig)
    sh(f"cd {R} && git status --short | head")


main()
