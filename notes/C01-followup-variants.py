"""Follow-up (histories and construction paths): behaviour-preserving rewrites (the check must exit 0) and mutants of the
categories of HISTORIES.md (repo tests pass, the check must exit 1 with a concrete replay).

usage: /venv/bin/python notes/C01-followup-variants.py [--no-tests] [name ...]
(scratch copy /work/repo-C01: `git -C /repo worktree add --detach /work/repo-C01 HEAD`; restored after every run)
"""
import importlib.util
import os
import sys

HERE = os.path.dirname(os.path.abspath(__file__))
spec = importlib.util.spec_from_file_location("c01_review_variants", os.path.join(HERE, "C01-review-variants.py"))
base = importlib.util.module_from_spec(spec)
spec.loader.exec_module(base)

A = "src/soundevent/io/aoef/"
IO = "src/soundevent/io/"
WRITE = ("    path.write_text(\n        aoef_object.model_dump_json(\n            exclude_none=True,\n            exclude=exclude,\n"
         "        )\n    )\n")
READ = "    aoef_object = AOEFObject.model_validate_json(path.read_text())\n"
TO_SE = "    return to_soundevent(aoef_object, audio_dir=audio_dir)\n"

CASES = [
    # ------------------------------------------------------------------ behaviour-preserving rewrites (must exit 0)
    ("F-R1-load-cache-keyed-by-full-input", "rewrite", [        # a *correct* cache: keyed by the whole text, parsed document only
        (A + "__init__.py", READ,
         "    text = path.read_text()\n    aoef_object = _PARSED.get(text)\n    if aoef_object is None:\n"
         "        aoef_object = AOEFObject.model_validate_json(text)\n        if len(_PARSED) > 64:\n            _PARSED.clear()\n"
         "        _PARSED[text] = aoef_object\n"),
        (A + "__init__.py", "def load(\n    path: data.PathLike,", "_PARSED: Dict[str, Any] = {}\n\n\ndef load(\n    path: data.PathLike,")]),
    ("F-R2-save-writes-temp-file-then-replaces", "rewrite", [
        (A + "__init__.py", WRITE,
         "    import os as _os\n    text = aoef_object.model_dump_json(exclude_none=True, exclude=exclude)\n"
         "    tmp = path.with_name(path.name + \".tmp\")\n    with open(tmp, \"w\", encoding=\"utf-8\") as f:\n        f.write(text)\n"
         "        f.flush()\n        _os.fsync(f.fileno())\n    _os.replace(tmp, path)\n")]),
    ("F-R3-save-truncating-os-open-load-via-open", "rewrite", [
        (A + "__init__.py", WRITE,
         "    import os as _os\n    fd = _os.open(path, _os.O_WRONLY | _os.O_CREAT | _os.O_TRUNC, 0o666)\n"
         "    with _os.fdopen(fd, \"w\") as f:\n        f.write(aoef_object.model_dump_json(exclude_none=True, exclude=exclude))\n"),
        (A + "__init__.py", READ, "    with open(path, \"rb\") as f:\n        aoef_object = AOEFObject.model_validate_json(f.read())\n")]),
    ("F-R4-adapter-memo-per-call-and-keyword-only-internals", "rewrite", [   # a per-call memo (dies with the call)
        (A + "recording.py", "        tag_ids = [self._tag_adapter.to_aoef(tag).id for tag in obj.tags]\n",
         "        memo = {}\n        tag_ids = []\n        for tag in obj.tags:\n            k = (tag.term.label, tag.value)\n"
         "            if k not in memo:\n                memo[k] = self._tag_adapter.to_aoef(tag).id\n            tag_ids.append(memo[k])\n"),
        (IO + "saver.py", "    return saver(obj, path, audio_dir, **kwargs)", "    return saver(obj, path, audio_dir=audio_dir, **kwargs)")]),
    ("F-R5-mkdir-exist-ok-unlink-before-write", "rewrite", [
        (A + "__init__.py", "    if not path.parent.exists():\n        path.parent.mkdir(parents=True)\n",
         "    path.parent.mkdir(parents=True, exist_ok=True)\n    if path.is_file():\n        path.unlink()\n")]),
    # ------------------------------------------------------------------ mutants: state carried between calls (file system)
    ("F-M1-save-appends-to-an-existing-file", "mutant", [
        (A + "__init__.py", WRITE, "    with open(path, \"a\") as f:\n        f.write(aoef_object.model_dump_json(exclude_none=True, exclude=exclude))\n")]),
    ("F-M2-save-skips-a-file-that-holds-the-same-uuid", "mutant", [   # 'do not rewrite unchanged files', keyed by the uuid only
        (A + "__init__.py", WRITE,
         "    import json as _json\n    if path.exists():\n        try:\n            old = _json.loads(path.read_text())[\"data\"]\n"
         "            if old.get(\"uuid\") == str(obj.uuid) and old.get(\"collection_type\") == aoef_object.data.collection_type:\n"
         "                return\n        except Exception:\n            pass\n" + WRITE)]),
    ("F-M3-load-cache-keyed-by-path", "mutant", [
        (A + "__init__.py", READ,
         "    aoef_object = _PARSED.get(str(path))\n    if aoef_object is None:\n"
         "        aoef_object = AOEFObject.model_validate_json(path.read_text())\n        _PARSED[str(path)] = aoef_object\n"),
        (A + "__init__.py", "def load(\n    path: data.PathLike,", "_PARSED: Dict[str, Any] = {}\n\n\ndef load(\n    path: data.PathLike,")]),
    ("F-M4-load-cache-keyed-by-path-and-size", "mutant", [
        (A + "__init__.py", READ,
         "    key = (str(path), path.stat().st_size)\n    aoef_object = _PARSED.get(key)\n    if aoef_object is None:\n"
         "        aoef_object = AOEFObject.model_validate_json(path.read_text())\n        _PARSED[key] = aoef_object\n"),
        (A + "__init__.py", "def load(\n    path: data.PathLike,", "_PARSED: Dict[Any, Any] = {}\n\n\ndef load(\n    path: data.PathLike,")]),
    ("F-M5-load-returns-the-cached-object-itself", "mutant", [        # keyed by the full input, but the *result* is shared
        (A + "__init__.py", TO_SE,
         "    key = (path.read_text(), str(audio_dir))\n    if key not in _LOADED:\n        if len(_LOADED) > 256:\n            _LOADED.clear()\n"
         "        _LOADED[key] = to_soundevent(aoef_object, audio_dir=audio_dir)\n    return _LOADED[key]\n"),
        (A + "__init__.py", "def load(\n    path: data.PathLike,", "_LOADED: Dict[Any, Any] = {}\n\n\ndef load(\n    path: data.PathLike,")]),
    ("F-M6-save-relativises-the-recording-paths-in-place", "mutant", [
        (A + "recording.py", "            path = Path(obj.path).relative_to(self.audio_dir)\n",
         "            path = Path(obj.path).relative_to(self.audio_dir)\n            obj.path = path\n")]),
    ("F-M6b-sequence-annotation-tags-sorted-in-place-before-writing", "mutant", [
        (A + "sequence_annotation.py", "        return SequenceAnnotationObject(\n            sequence=self.sequence_adapter.to_aoef(obj.sequence).uuid,\n",
         "        obj.tags.sort(key=lambda t: (t.term.label, t.value))\n        return SequenceAnnotationObject(\n            sequence=self.sequence_adapter.to_aoef(obj.sequence).uuid,\n")]),
    ("F-M7-collection-adapters-reused-per-audio-dir", "mutant", [     # stores survive between saves: same uuid -> stale record
        (A + "__init__.py", "    for _, data_cls, adapter_cls in ADAPTERS:\n        if isinstance(obj, data_cls):\n            adapter = adapter_cls(audio_dir=audio_dir)\n",
         "    for _, data_cls, adapter_cls in ADAPTERS:\n        if isinstance(obj, data_cls):\n"
         "            key = (adapter_cls, str(audio_dir))\n            if key not in _WRITERS:\n                _WRITERS[key] = adapter_cls(audio_dir=audio_dir)\n"
         "            adapter = _WRITERS[key]\n"),
        (A + "__init__.py", "def to_aeof(\n", "_WRITERS: Dict[Any, Any] = {}\n\n\ndef to_aeof(\n")]),
    ("F-M8-audio-dir-sticks-to-the-last-one-given", "mutant", [       # an option that leaks into module state
        (A + "__init__.py", "    aoef_object = to_aeof(obj, audio_dir=audio_dir)\n",
         "    global _LAST_DIR\n    if audio_dir is not None:\n        _LAST_DIR = audio_dir\n    elif _LAST_DIR is not None and all(\n"
         "        str(r).startswith(str(_LAST_DIR)) for r in _recording_paths(obj)\n    ):\n        audio_dir = _LAST_DIR\n"
         "    aoef_object = to_aeof(obj, audio_dir=audio_dir)\n"),
        (A + "__init__.py", "def to_aeof(\n",
         "_LAST_DIR = None\n\n\ndef _recording_paths(obj):\n    out = []\n    for r in getattr(obj, \"recordings\", None) or []:\n        out.append(r.path)\n"
         "    for a in getattr(obj, \"clip_annotations\", None) or []:\n        out.append(a.clip.recording.path)\n"
         "    for a in getattr(obj, \"clip_predictions\", None) or []:\n        out.append(a.clip.recording.path)\n    return out or [\"\"]\n\n\ndef to_aeof(\n")]),
    # ------------------------------------------------------------------ mutants: construction / passing
    ("F-M9-load-signature-format-and-type-swapped", "mutant", [
        (IO + "loader.py", "def load(\n    path: data.PathLike,\n    audio_dir: Optional[data.PathLike] = None,\n    format: Optional[str] = \"aoef\",\n    type: Optional[DataType] = None,  # type: ignore\n) -> DataCollections:",
         "def load(\n    path: data.PathLike,\n    audio_dir: Optional[data.PathLike] = None,\n    type: Optional[DataType] = None,  # type: ignore\n    format: Optional[str] = \"aoef\",\n) -> DataCollections:")]),
    ("F-M10-save-signature-format-before-audio-dir", "mutant", [
        (IO + "saver.py", "    path: data.PathLike,\n    audio_dir: Optional[data.PathLike] = None,\n    format: Optional[str] = \"aoef\",\n    **kwargs,",
         "    path: data.PathLike,\n    format: Optional[str] = \"aoef\",\n    audio_dir: Optional[data.PathLike] = None,\n    **kwargs,")]),
    ("F-M11-time-expansion-kept-only-when-a-plain-float", "mutant", [   # numpy scalars (assigned, not validated) fall through
        (A + "recording.py", "                obj.time_expansion if obj.time_expansion != 1.0 else None",
         "                obj.time_expansion\n                if type(obj.time_expansion) is float and obj.time_expansion != 1.0\n                else None")]),
    # ------------------------------------------------------------------ mutants: sibling drift / option interplay
    ("F-M12-sound-event-prediction-keeps-best-score-per-tag", "mutant", [
        (A + "sound_event_prediction.py",
         "                [\n                    (tag.id, predicted_tag.score)\n                    for predicted_tag in obj.tags\n                    if (tag := self.tag_adapter.to_aoef(predicted_tag.tag))\n                    is not None\n                ]\n",
         "                list(\n                    {\n                        self.tag_adapter.to_aoef(predicted_tag.tag).id: max(\n                            p.score for p in obj.tags if p.tag == predicted_tag.tag\n                        )\n"
         "                        for predicted_tag in obj.tags\n                    }.items()\n                )\n")]),
    ("F-M13-task-keeps-one-badge-per-state-and-owner", "mutant", [
        (A + "annotation_task.py", "                    for badge in obj.status_badges\n                ]\n                if obj.status_badges",
         "                    for badge in {\n                        (b.state, b.owner.uuid if b.owner else None, b.created_on): b\n                        for b in obj.status_badges\n                    }.values()\n                ]\n                if obj.status_badges")]),
    ("F-M14-positional-audio-dir-only-honoured-as-keyword-on-load", "mutant", [   # option interplay: type given => directory ignored
        (A + "__init__.py", TO_SE, "    if type is not None and audio_dir is not None and not Path(audio_dir).is_absolute():\n        audio_dir = Path(audio_dir).absolute()\n" + TO_SE)]),
    # ------------------------------------------------------------------ mutants: boundaries and sizes
    ("F-M15-time-expansion-compared-with-1e-12-tolerance", "mutant", [
        (A + "recording.py", "                obj.time_expansion if obj.time_expansion != 1.0 else None",
         "                obj.time_expansion\n                if abs(obj.time_expansion - 1.0) > 1e-12\n                else None")]),
    ("F-M16-clips-keyed-by-recording-and-rounded-span", "mutant", [
        (A + "clip.py", "        self.recording_adapter = recording_adapter\n",
         "        self.recording_adapter = recording_adapter\n\n    @classmethod\n    def _get_soundevent_key(cls, obj):\n"
         "        if obj.end_time - obj.start_time < 1e-3:\n            return obj.uuid\n"
         "        return (obj.recording.uuid, round(obj.start_time, 9), round(obj.end_time, 9), tuple((f.term.label, f.value) for f in obj.features))\n"
         "\n    def get_new_id(self, obj):\n        return obj.uuid\n")]),
    ("F-M17-tag-ids-wrap-at-256", "mutant", [
        (A + "tag.py", "        return len(self._mapping)", "        return len(self._mapping) % 256")]),
    ("F-M18-values-written-in-chunks-of-1024-last-chunk-lost", "mutant", [
        (A + "adapters.py", "        return list(self._aoef_store.values())",
         "        items = list(self._aoef_store.values())\n        if len(items) <= 1024:\n            return items\n"
         "        chunks = [items[i : i + 1024] for i in range(0, len(items) - 1, 1024)]\n        return [x for c in chunks[: len(items) // 1024] for x in c]")]),
    ("F-M19-more-than-sixteen-features-written-sorted", "mutant", [
        (A + "recording.py", "                    for feature in obj.features\n                }\n                if obj.features\n                else None\n            ),\n            notes=notes if notes else None,",
         "                    for feature in (\n                        obj.features\n                        if len(obj.features) <= 16\n                        else sorted(obj.features, key=lambda f: f.term.label)\n                    )\n                }\n                if obj.features\n                else None\n            ),\n            notes=notes if notes else None,")]),
]


def main():
    base.CASES = CASES
    base.main()


if __name__ == "__main__":
    main()
