#!/venv/bin/python
"""C08 follow-up 2: mutants (must give exit 1 with a replay) and behaviour-preserving rewrites (must give exit 0).

usage: /venv/bin/python notes/C08-review2-mutants.py [substring of a name]

Works on the scratch worktree /work/repo-C08 (git -C /repo worktree add --detach /work/repo-C08 HEAD); every
variant is a list of textual replacements, undone afterwards.  Not part of a check."""
import json, os, subprocess, sys, time
R = "/work/repo-C08"
V = os.path.dirname(os.path.dirname(os.path.abspath(__file__)))
DET = "src/soundevent/evaluation/tasks/sound_event_detection.py"
COM = "src/soundevent/evaluation/tasks/common.py"
ENC = "src/soundevent/evaluation/encoding.py"
MET = "src/soundevent/evaluation/metrics.py"

MAPPING = "        self._mapping = {\n            (tag.term, tag.value): i for i, tag in enumerate(tags)\n        }\n"
ENCODE = "        return self._mapping.get((tag.term, tag.value))\n"
PAIRING = ("    annotated_clips = {\n        example.clip.uuid: example for example in clip_annotations\n    }\n\n"
           "    for predictions in clip_predictions:\n        if predictions.clip.uuid in annotated_clips:\n"
           "            annotations = annotated_clips[predictions.clip.uuid]\n            yield annotations, predictions")
PAIRED = """            true_class, predicted_class_scores, match = evaluate_sound_event(
                sound_event_prediction=prediction,
                sound_event_annotation=annotation,
                encoder=encoder,
                affinity=affinity,
            )
"""

MUTANTS = [
 # ---- the encoder (the class of a tag)
 ("E1 encoder keyed by (term.name, value): classes whose terms share the name collapse", [(ENC, MAPPING,
   "        self._mapping = {\n            (tag.term.name, tag.value): i for i, tag in enumerate(tags)\n        }\n"),
   (ENC, ENCODE, "        return self._mapping.get((tag.term.name, tag.value))\n")]),
 ("E2 encoder keyed by the value only", [(ENC, MAPPING,
   "        self._mapping = {tag.value: i for i, tag in enumerate(tags)}\n"),
   (ENC, ENCODE, "        return self._mapping.get(tag.value)\n")]),
 ("E3 encoder looks tags up by object identity", [(ENC, MAPPING,
   "        self._mapping = {id(tag): i for i, tag in enumerate(tags)}\n"),
   (ENC, ENCODE, "        return self._mapping.get(id(tag))\n")]),
 ("E4 encoder ignores uri / definition / type of the term (near misses become classes)", [(ENC, MAPPING,
   "        self._mapping = {\n            (tag.term.name, tag.term.label, tag.value): i for i, tag in enumerate(tags)\n        }\n"),
   (ENC, ENCODE, "        return self._mapping.get((tag.term.name, tag.term.label, tag.value))\n")]),
 ("E5 encoder folds the case of the value", [(ENC, MAPPING,
   "        self._mapping = {\n            (tag.term, tag.value.lower()): i for i, tag in enumerate(tags)\n        }\n"),
   (ENC, ENCODE, "        return self._mapping.get((tag.term, tag.value.lower()))\n")]),
 # ---- sound_event_detection.py: each needs a particular configuration
 ("S1 unmatched predictions keep the filtered index (a geometry-less prediction must precede an unmatched one)", [(DET,
   "        if prediction_index is not None:\n            prediction_index = prediction_indices[prediction_index]\n",
   "        if prediction_index is not None and annotation_index is not None:\n            prediction_index = prediction_indices[prediction_index]\n")]),
 ("S2 geometry-less predictions are looked for after the ones with geometry only (order of events)", [(DET,
   "    for prediction in clip_predictions.sound_events:\n        if prediction.sound_event.geometry:\n            continue\n",
   "    for prediction in clip_predictions.sound_events[len(prediction_indices):]:\n        if prediction.sound_event.geometry:\n            continue\n")]),
 ("S3 unmatched annotation of the class at index 0 handed to the metrics as unlabelled", [(DET,
   "            true_classes.append(y_true)\n", "            true_classes.append(y_true or None)\n")]),
 ("S4 the annotation's class is taken from its last tag (annotations with several tags)", [(DET,
   "    true_class = classification_encoding(\n        tags=sound_event_annotation.tags,\n",
   "    true_class = classification_encoding(\n        tags=sound_event_annotation.tags[-1:],\n")]),
 ("S5 predicted clips that are not annotated are evaluated against an empty annotation (clips on one side only)", [(COM,
   "        if predictions.clip.uuid in annotated_clips:\n            annotations = annotated_clips[predictions.clip.uuid]\n            yield annotations, predictions",
   "        annotations = annotated_clips.get(\n            predictions.clip.uuid,\n            data.ClipAnnotation(clip=predictions.clip),\n        )\n        yield annotations, predictions")]),
 ("S6 clips paired by recording and time window instead of uuid (twin clips)", [(COM,
   "        example.clip.uuid: example for example in clip_annotations\n",
   "        (example.clip.recording.uuid, example.clip.start_time, example.clip.end_time): example\n        for example in clip_annotations\n"),
   (COM, "        if predictions.clip.uuid in annotated_clips:\n            annotations = annotated_clips[predictions.clip.uuid]\n",
    "        key = (\n            predictions.clip.recording.uuid,\n            predictions.clip.start_time,\n            predictions.clip.end_time,\n        )\n        if key in annotated_clips:\n            annotations = annotated_clips[key]\n")]),
 ("S7 annotation index table sorted by onset while the matcher gets the original order (order of events)", [(DET,
   "    # Iterate over all matches between predictions and annotations.\n",
   "    annotation_indices.sort(\n        key=lambda i: clip_annotations.sound_events[i].sound_event.geometry.coordinates[0]\n        if isinstance(clip_annotations.sound_events[i].sound_event.geometry, data.BoundingBox) else 0\n    )\n\n    # Iterate over all matches between predictions and annotations.\n")]),
 ("S8 a certain match (score exactly 1) is capped by the affinity", [(DET,
   "    score = metrics.classification_score(true_class, predicted_class_scores)\n",
   "    score = metrics.classification_score(true_class, predicted_class_scores)\n    if score >= 1:\n        score = min(score, affinity)\n")]),
 ("S9 clip score: float32 mean", [(DET, "    score = float(np.mean(valid_scores))\n",
   "    score = float(np.mean(valid_scores, dtype=np.float32))\n")]),
 ("S10 clip evaluation of an empty clip pair gets score 1.0 (nothing to get wrong)", [(DET,
   "            score=_mean([m.score for m in matches]),\n",
   "            score=_mean([m.score for m in matches]) if matches else 1.0,\n")]),
 ("S11 a pair whose annotation has no vocabulary tag scores 1 - max instead of 1 - sum", [(DET,
   "    score = metrics.classification_score(true_class, predicted_class_scores)\n",
   "    score = (\n        metrics.classification_score(true_class, predicted_class_scores)\n        if true_class is not None\n        else float(1 - predicted_class_scores.max(initial=0))\n    )\n")]),
 ("S12 duplicate annotated tags: class looked up among the distinct tags in set order", [(DET,
   "    true_class = classification_encoding(\n        tags=sound_event_annotation.tags,\n",
   "    true_class = classification_encoding(\n        tags=sorted(set(sound_event_annotation.tags), key=lambda t: t.value),\n")]),
 ("S13 the score of a pair is weighted by the detection confidence of the prediction", [(DET,
   "    score = metrics.classification_score(true_class, predicted_class_scores)\n",
   "    score = metrics.classification_score(true_class, predicted_class_scores)\n    score = score * sound_event_prediction.score\n")]),
 ("S14 a predicted sound event without tags inherits the clip-level predicted tags", [(DET,
   "            prediction = clip_predictions.sound_events[prediction_index]\n            annotation = clip_annotations.sound_events[annotation_index]\n",
   "            prediction = clip_predictions.sound_events[prediction_index]\n            if not prediction.tags and clip_predictions.tags:\n                prediction = prediction.model_copy(\n                    update={\"tags\": clip_predictions.tags}\n                )\n            annotation = clip_annotations.sound_events[annotation_index]\n")]),
 ("S15 run-level arrays of the last evaluated clip only (C09's metrics; C08 pins nothing here)", [(DET,
   "        true_classes.extend(true_class)\n        predicted_classes_scores.extend(predicted_classes)\n",
   "        true_classes = list(true_class)\n        predicted_classes_scores = list(predicted_classes)\n")]),
]

REWRITES = [
 ("W1 encoder by linear search for the first equal vocabulary tag", [(ENC, ENCODE,
   "        for index, candidate in enumerate(self._tags):\n            if candidate.term == tag.term and candidate.value == tag.value:\n                return index\n        return None\n")]),
 ("W2 encoder keyed by the serialised term", [(ENC, MAPPING,
   "        self._mapping = {\n            (tag.term.model_dump_json(), tag.value): i\n            for i, tag in enumerate(tags)\n        }\n"),
   (ENC, ENCODE, "        return self._mapping.get((tag.term.model_dump_json(), tag.value))\n")]),
 ("W3 encoder with an identity fast path in front of the dictionary", [(ENC, MAPPING,
   MAPPING + "        self._by_id = {id(tag): i for i, tag in enumerate(tags)}\n"),
   (ENC, ENCODE, "        index = self._by_id.get(id(tag))\n        if index is not None and self._tags[index] is tag:\n            return index\n" + ENCODE)]),
 ("W4 evaluate_sound_event takes the encodings instead of the encoder (the correct sibling of seeded C08-5)", [(DET, PAIRED,
   """            true_class = classification_encoding(
                tags=annotation.tags, encoder=encoder
            )
            predicted_class_scores = prediction_encoding(
                tags=prediction.tags, encoder=encoder
            )
            match = evaluate_sound_event(
                sound_event_prediction=prediction,
                sound_event_annotation=annotation,
                true_class=true_class,
                predicted_class_scores=predicted_class_scores,
                affinity=affinity,
            )
"""), (DET, """    encoder: Encoder,
    affinity: float = 1,
) -> tuple[Optional[int], np.ndarray, data.Match]:
    true_class = classification_encoding(
        tags=sound_event_annotation.tags,
        encoder=encoder,
    )
    predicted_class_scores = prediction_encoding(
        tags=sound_event_prediction.tags,
        encoder=encoder,
    )
""", """    true_class: Optional[int],
    predicted_class_scores: np.ndarray,
    affinity: float = 1,
) -> data.Match:
"""), (DET, "    return true_class, predicted_class_scores, match\n", "    return match\n")]),
 ("W5 _mean by math.fsum", [(DET, "    score = float(np.mean(valid_scores))\n",
   "    import math\n\n    score = math.fsum(float(s) for s in valid_scores) / len(valid_scores)\n")]),
 ("W6 clip pairing with a set of annotated uuids and a reversed scan (last annotation wins, as the dictionary)", [(COM, PAIRING,
   "    annotated = {example.clip.uuid for example in clip_annotations}\n\n    for predictions in clip_predictions:\n"
   "        if predictions.clip.uuid not in annotated:\n            continue\n"
   "        annotations = next(\n            example\n            for example in reversed(list(clip_annotations))\n            if example.clip.uuid == predictions.clip.uuid\n        )\n"
   "        yield annotations, predictions")]),
 ("W7 score row of an unmatched annotation by np.zeros instead of an encoding of no tags", [(DET,
   "            y_score = prediction_encoding(\n                tags=[],\n                encoder=encoder,\n            )\n",
   "            y_score = np.zeros(encoder.num_classes, dtype=np.float32)\n")]),
]


def sh(cmd):
    return subprocess.run(cmd, shell=True, capture_output=True, text=True, executable="/bin/bash")


def run(kind, name, edits):
    saved = {}
    try:
        for path, old, new in edits:
            full = os.path.join(R, path)
            cur = open(full).read()
            saved.setdefault(full, cur)
            assert cur.count(old) == 1, (name, path, cur.count(old))
            open(full, "w").write(cur.replace(old, new))
        t = sh(f"cd {R} && PYTHONPATH={R}/src /venv/bin/python -m pytest -q -p no:cacheprovider tests/test_evaluation 2>&1 | tail -1")
        t0 = time.time()
        sh(f"rm -rf {V}/replays")
        c = sh(f"cd {V} && VERIF_EVIDENCE_DIR={V}/.run/ev-mut SOUNDEVENT_SRC={R}/src ./check C08 --tier quick 2>&1 | grep '^VIOLATION' | head -3; echo rc=${{PIPESTATUS[0]}}")
        first = ""
        rp = os.path.join(V, "replays")
        if os.path.isdir(rp) and os.listdir(rp):
            fn = sorted(os.listdir(rp))[0]
            r = json.load(open(os.path.join(rp, fn)))
            first = f"{fn}: {r['kind']}/{r['op']}: {r['detail'][:150]}"
        lines = c.stdout.strip().splitlines()
        rc = lines[-1] if lines else "?"
        nf = sum("no-failing-input-found" in l for l in lines)
        print(f"[{kind}] {name}\n      repo tests: {t.stdout.strip()[-50:]}\n      check: {rc} ({time.time()-t0:.0f}s)"
              f"{' no-failing-input-found x' + str(nf) if nf else ''} {first}", flush=True)
    finally:
        for full, cur in saved.items():
            open(full, "w").write(cur)


if __name__ == "__main__":
    only = sys.argv[1] if len(sys.argv) > 1 else None
    for kind, items in (("mutant", MUTANTS), ("rewrite", REWRITES)):
        for name, edits in items:
            if only and only not in name:
                continue
            run(kind, name, edits)
