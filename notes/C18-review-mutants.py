"""Rewrites (must exit 0) and mutants (must exit 1, repo tests still passing) used in the C18 review.

usage: /venv/bin/python notes/C18-review-mutants.py [name | rewrite | mutant ...]   (scratch copy: /work/repo-C18)
Each entry: (name, kind, [(file, old, new), ...]).  The scratch copy is restored after every run.
C18_VERIF=<another worktree of the checks> runs the same cases against another version of the check (the "before"
column of notes/C18-review.md was made with the base commit), C18_SKIP_TESTS=1 skips the repo's tests."""
import os
import subprocess
import sys

SCRATCH = os.environ.get("C18_SCRATCH", "/work/repo-C18")
VERIF = os.environ.get("C18_VERIF", os.path.dirname(os.path.dirname(os.path.abspath(__file__))))
A = "src/soundevent/io/aoef/"
REC = A + "recording.py"
INIT = A + "__init__.py"
SAVER = "src/soundevent/io/saver.py"
LOADER = "src/soundevent/io/loader.py"

SAVE = ("        path = obj.path\n        if self.audio_dir is not None:\n"
        "            path = Path(obj.path).relative_to(self.audio_dir)\n")
LOAD = ("        path = obj.path\n        if self.audio_dir is not None:\n"
        "            path = self.audio_dir / obj.path\n")
CLS = ("class RecordingAdapter(\n    DataAdapter[data.Recording, RecordingObject, UUID, UUID]\n):\n")
SET_DIR = "        self.audio_dir = audio_dir\n"
WRITE = ("    aoef_object = to_aeof(obj, audio_dir=audio_dir)\n\n    path.write_text(\n        aoef_object.model_dump_json(\n"
         "            exclude_none=True,\n            exclude=exclude,\n        )\n    )\n")
MKDIR = "    if not path.parent.exists():\n        path.parent.mkdir(parents=True)\n\n"
IMPORT_PATH = "from pathlib import Path\n"

CASES = [
    # ---------------------------------------------------------------- behaviour-preserving rewrites
    ("R1-save-locals-renamed-not-is", "rewrite", [
        (REC, SAVE, "        stored = Path(obj.path)\n        base = self.audio_dir\n        if not base is None:\n"
                    "            stored = stored.relative_to(Path(base))\n        path = stored\n")]),
    ("R2-load-conditional-expression-joinpath", "rewrite", [
        (REC, LOAD, "        path = (\n            obj.path\n            if self.audio_dir is None\n"
                    "            else Path(self.audio_dir).joinpath(obj.path)\n        )\n")]),
    ("R3-load-correct-fast-path-for-absolute", "rewrite", [
        (REC, LOAD, "        if self.audio_dir is None or obj.path.is_absolute():\n            path = obj.path\n"
                    "        else:\n            path = Path(os.path.join(self.audio_dir, obj.path))\n"),
        (REC, IMPORT_PATH, "import os\nfrom pathlib import Path\n")]),
    ("R4-save-own-relative_to-on-parts-other-message", "rewrite", [
        (REC, SAVE, "        path = obj.path\n        if self.audio_dir is not None:\n"
                    "            whole, prefix = Path(obj.path).parts, Path(self.audio_dir).parts\n"
                    "            same_anchor = Path(obj.path).anchor == Path(self.audio_dir).anchor\n"
                    "            if not same_anchor or whole[: len(prefix)] != prefix:\n"
                    "                raise ValueError(f\"recording {obj.uuid} is not below the audio directory\")\n"
                    "            path = Path(*whole[len(prefix) :])\n")]),
    ("R5-save-atomic-write-convert-before-mkdir", "rewrite", [
        (INIT, MKDIR, ""),
        (INIT, WRITE, "    aoef_object = to_aeof(obj, audio_dir=audio_dir)\n    text = aoef_object.model_dump_json(exclude_none=True, exclude=exclude)\n\n"
                      "    path.parent.mkdir(parents=True, exist_ok=True)\n    scratch = path.with_name(path.name + \".part\")\n"
                      "    scratch.write_text(text)\n    scratch.replace(path)\n")]),
    ("R6-private-attribute-property-keywords", "rewrite", [
        (REC, SET_DIR, "        self._base_dir = audio_dir\n\n    @property\n    def audio_dir(self):\n        return self._base_dir\n"),
        (A + "recording_set.py", "            self.note_adapter,\n            audio_dir,\n", "            self.note_adapter,\n            audio_dir=audio_dir,\n"),
        (A + "annotation_set.py", "            self.note_adapter,\n            audio_dir,\n", "            note_adapter=self.note_adapter,\n            audio_dir=audio_dir,\n"),
        (A + "evaluation.py", "        self.audio_dir = audio_dir\n", ""),
        (A + "evaluation.py", "            audio_dir=self.audio_dir,\n", "            audio_dir=audio_dir,\n")]),
    ("R7-dispatch-by-dict-keyword-saver-messages", "rewrite", [
        (INIT, "    for adapter_type, _, adapter_cls in ADAPTERS:\n        if aoef_object.data.collection_type == adapter_type:\n"
               "            adapter = adapter_cls(audio_dir=audio_dir)\n            return adapter.to_soundevent(aoef_object.data)  # type: ignore\n",
               "    by_name = {name: cls for name, _, cls in ADAPTERS}\n    kind = aoef_object.data.collection_type\n"
               "    if kind in by_name:\n        return by_name[kind](audio_dir=audio_dir).to_soundevent(aoef_object.data)  # type: ignore\n"),
        (SAVER, "    return saver(obj, path, audio_dir, **kwargs)\n", "    return saver(obj, path, audio_dir=audio_dir, **kwargs)\n"),
        (SAVER, 'raise ValueError(f"Unknown format {format}")', 'raise ValueError(f"no saver for {format!r}")')]),
    ("R8-directory-normalised-once-in-init", "rewrite", [
        (REC, SET_DIR, "        self.audio_dir = None if audio_dir is None else Path(audio_dir)\n")]),
    ("R9-save-fspath-and-purepath", "rewrite", [
        (REC, SAVE, "        path = obj.path\n        if self.audio_dir is not None:\n"
                    "            path = Path(PurePosixPath(os.fspath(obj.path)).relative_to(os.fspath(self.audio_dir)))\n"),
        (REC, IMPORT_PATH, "import os\nfrom pathlib import Path, PurePosixPath\n")]),
    ("R10-recording-set-loop-instead-of-comprehension", "rewrite", [
        (A + "recording_set.py", "        recording_objects = [\n            self.recording_adapter.to_aoef(recording)\n"
                                 "            for recording in obj.recordings\n        ]\n",
                                 "        recording_objects = []\n        for member in obj.recordings:\n"
                                 "            recording_objects.append(self.recording_adapter.to_aoef(member))\n")]),
    ("R11-own-error-class-for-outside-recordings", "rewrite", [
        (REC, SAVE, "        path = obj.path\n        if self.audio_dir is not None:\n            try:\n"
                    "                path = Path(obj.path).relative_to(self.audio_dir)\n            except ValueError as error:\n"
                    "                raise LookupError(f\"{obj.path} is not inside the audio directory\") from error\n")]),
    ("R12-load-join-via-purepath-parts", "rewrite", [
        (REC, LOAD, "        path = obj.path\n        if self.audio_dir is not None:\n"
                    "            path = Path(self.audio_dir, *obj.path.parts)\n")]),
    ("R13-paths-handed-to-pydantic-as-strings", "rewrite", [
        (REC, SAVE, "        path = obj.path\n        if self.audio_dir is not None:\n"
                    "            path = str(Path(obj.path).relative_to(self.audio_dir))\n"),
        (REC, LOAD, "        path = str(obj.path)\n        if self.audio_dir is not None:\n"
                    "            path = str(self.audio_dir / obj.path)\n")]),
    ("R14-document-written-with-json-dumps-ascii", "rewrite", [
        (INIT, WRITE, "    aoef_object = to_aeof(obj, audio_dir=audio_dir)\n    import json\n\n"
                      "    payload = aoef_object.model_dump(mode=\"json\", exclude_none=True, exclude=exclude)\n"
                      "    path.write_text(json.dumps(payload, ensure_ascii=True, indent=2), encoding=\"utf-8\")\n")]),
    # ---------------------------------------------------------------- mutants
    ("M1-save-resolves-both-paths", "mutant", [
        (REC, SAVE, "        path = obj.path\n        if self.audio_dir is not None:\n"
                    "            path = Path(obj.path).resolve().relative_to(Path(self.audio_dir).resolve())\n")]),
    ("M2-save-normpath", "mutant", [
        (REC, SAVE, "        path = obj.path\n        if self.audio_dir is not None:\n"
                    "            path = Path(os.path.normpath(obj.path)).relative_to(os.path.normpath(self.audio_dir))\n"),
        (REC, IMPORT_PATH, "import os\nfrom pathlib import Path\n")]),
    ("M3-save-walk-up", "mutant", [
        (REC, SAVE, "        path = obj.path\n        if self.audio_dir is not None:\n"
                    "            path = Path(obj.path).relative_to(self.audio_dir, walk_up=True)\n")]),
    ("M4-save-falls-back-to-the-absolute-path", "mutant", [
        (REC, SAVE, "        path = obj.path\n        if self.audio_dir is not None:\n            try:\n"
                    "                path = Path(obj.path).relative_to(self.audio_dir)\n            except ValueError:\n"
                    "                path = obj.path\n")]),
    ("M5-save-relpath-guarded-by-startswith-dotdot", "mutant", [
        (REC, SAVE, "        path = obj.path\n        if self.audio_dir is not None:\n"
                    "            if Path(obj.path).is_absolute() != Path(self.audio_dir).is_absolute():\n"
                    "                raise ValueError(\"mixed absolute and relative paths\")\n"
                    "            rel = os.path.relpath(obj.path, self.audio_dir)\n"
                    "            if rel.startswith(\"..\"):\n                raise ValueError(f\"{obj.path} is outside {self.audio_dir}\")\n"
                    "            path = Path(rel)\n"),
        (REC, IMPORT_PATH, "import os\nfrom pathlib import Path\n")]),
    ("M6-load-string-concatenation", "mutant", [
        (REC, LOAD, "        path = obj.path\n        if self.audio_dir is not None:\n"
                    "            path = Path(f\"{self.audio_dir}/{obj.path}\")\n")]),
    ("M7-load-process-wide-cache-by-stored-path", "mutant", [
        (REC, CLS, CLS + "    _resolved: Dict[Path, Path] = {}\n\n"),
        (REC, LOAD, "        path = obj.path\n        if self.audio_dir is not None:\n"
                    "            if obj.path not in self._resolved:\n                self._resolved[obj.path] = self.audio_dir / obj.path\n"
                    "            path = self._resolved[obj.path]\n")]),
    ("M8-directory-string-stripped-of-slashes", "mutant", [
        (REC, SET_DIR, "        self.audio_dir = (\n            audio_dir.rstrip(\"/\") if isinstance(audio_dir, str) else audio_dir\n        )\n")]),
    ("M9-save-memo-by-recording-uuid", "mutant", [
        (REC, CLS, CLS + "    _stored_paths: Dict[UUID, Path] = {}\n\n"),
        (REC, SAVE, "        path = obj.path\n        if self.audio_dir is not None:\n"
                    "            if obj.uuid not in self._stored_paths:\n"
                    "                self._stored_paths[obj.uuid] = Path(obj.path).relative_to(self.audio_dir)\n"
                    "            path = self._stored_paths[obj.uuid]\n")]),
    ("M10-directory-string-stripped-of-blanks", "mutant", [
        (REC, SET_DIR, "        self.audio_dir = (\n            audio_dir.strip() if isinstance(audio_dir, str) else audio_dir\n        )\n")]),
    ("M11-saver-inferred-format-drops-the-directory", "mutant", [
        (SAVER, "    if format is None:\n        format = infer_format(path)\n",
                "    if format is None:\n        format = infer_format(path)\n        return SAVERS[format](obj, path, **kwargs)\n")]),
    ("M12-loader-with-type-drops-the-directory", "mutant", [
        (LOADER, "    return loader(path, audio_dir=audio_dir, type=type)\n",
                 "    if type is not None:\n        return loader(path, type=type)\n\n    return loader(path, audio_dir=audio_dir)\n")]),
    ("M13-save-opens-the-file-before-converting", "mutant", [
        (INIT, WRITE, "    with path.open(\"w\") as handle:\n        aoef_object = to_aeof(obj, audio_dir=audio_dir)\n"
                      "        handle.write(\n            aoef_object.model_dump_json(\n                exclude_none=True,\n"
                      "                exclude=exclude,\n            )\n        )\n")]),
    ("M14-save-leaves-its-temporary-file-on-failure", "mutant", [
        (INIT, WRITE, "    scratch = path.with_suffix(\".tmp\")\n    with scratch.open(\"w\") as handle:\n"
                      "        aoef_object = to_aeof(obj, audio_dir=audio_dir)\n"
                      "        handle.write(\n            aoef_object.model_dump_json(\n                exclude_none=True,\n"
                      "                exclude=exclude,\n            )\n        )\n    scratch.replace(path)\n")]),
    ("M15-sound-event-does-not-register-its-recording", "mutant", [
        (A + "sound_event.py", "            recording=self.recording_adapter.to_aoef(obj.recording).uuid,\n",
                               "            recording=obj.recording.uuid,\n")]),
    ("M16-load-directory-unicode-normalised", "mutant", [
        (REC, LOAD, "        path = obj.path\n        if self.audio_dir is not None:\n"
                    "            path = Path(unicodedata.normalize(\"NFC\", str(self.audio_dir))) / obj.path\n"),
        (REC, IMPORT_PATH, "import unicodedata\nfrom pathlib import Path\n")]),
    ("M17-save-case-insensitive-containment", "mutant", [
        (REC, SAVE, "        path = obj.path\n        if self.audio_dir is not None:\n"
                    "            whole, base = str(Path(obj.path)), str(Path(self.audio_dir))\n"
                    "            if whole.lower().startswith(base.lower() + \"/\"):\n"
                    "                path = Path(whole[len(base) + 1 :])\n            else:\n"
                    "                path = Path(obj.path).relative_to(self.audio_dir)\n")]),
    ("M18-load-nothing-to-join-for-the-directory-itself", "mutant", [
        (REC, LOAD, "        path = obj.path\n        if self.audio_dir is not None and obj.path.parts:\n"
                    "            path = self.audio_dir / obj.path\n")]),
    ("M19-saver-parameters-reordered", "mutant", [
        (SAVER, "    path: data.PathLike,\n    audio_dir: Optional[data.PathLike] = None,\n    format: Optional[str] = \"aoef\",\n",
                "    path: data.PathLike,\n    format: Optional[str] = \"aoef\",\n    audio_dir: Optional[data.PathLike] = None,\n")]),
    ("M20-load-only-relative-paths-without-dotdot-are-joined", "mutant", [
        (REC, LOAD, "        path = obj.path\n        if self.audio_dir is not None and \"..\" not in obj.path.parts:\n"
                    "            path = self.audio_dir / obj.path\n")]),
    ("M21-save-first-occurrence-of-the-directory-name", "mutant", [
        (REC, SAVE, "        path = obj.path\n        if self.audio_dir is not None:\n"
                    "            base = Path(self.audio_dir)\n            path = Path(obj.path).relative_to(base)\n"
                    "            if base.name and base.name in Path(obj.path).parts:\n"
                    "                cut = Path(obj.path).parts.index(base.name)\n"
                    "                path = Path(*Path(obj.path).parts[cut + 1 :])\n")]),
    ("M22-to_aeof-only-passes-path-objects-on", "mutant", [
        (INIT, "            adapter = adapter_cls(audio_dir=audio_dir)\n            return AOEFObject(\n",
               "            adapter = adapter_cls(\n                audio_dir=audio_dir if isinstance(audio_dir, Path) or audio_dir is None else Path(audio_dir).absolute()\n            )\n            return AOEFObject(\n")]),
    ("M23-own-relative_to-forgets-the-anchor", "mutant", [
        (REC, SAVE, "        path = obj.path\n        if self.audio_dir is not None:\n"
                    "            whole, prefix = Path(obj.path).parts, Path(self.audio_dir).parts\n"
                    "            if whole[: len(prefix)] != prefix:\n"
                    "                raise ValueError(f\"recording {obj.uuid} is not below the audio directory\")\n"
                    "            path = Path(*whole[len(prefix) :])\n")]),
    ("M24-load-canonicalises-files-that-exist", "mutant", [
        (REC, LOAD, "        path = obj.path\n        if self.audio_dir is not None:\n"
                    "            path = Path(self.audio_dir) / obj.path\n"
                    "            if path.exists():\n                path = path.resolve()\n")]),
    ("M25-save-realpath-of-files-that-exist", "mutant", [
        (REC, SAVE, "        path = obj.path\n        if self.audio_dir is not None:\n"
                    "            source, base = Path(obj.path), Path(self.audio_dir)\n"
                    "            if source.exists() and base.exists():\n"
                    "                source, base = Path(os.path.realpath(source)), Path(os.path.realpath(base))\n"
                    "            path = source.relative_to(base)\n"),
        (REC, IMPORT_PATH, "import os\nfrom pathlib import Path\n")]),
    ("M26-recording-set-batch-path-for-long-lists", "mutant", [
        (A + "recording_set.py", "        recording_objects = [\n            self.recording_adapter.to_aoef(recording)\n"
                                 "            for recording in obj.recordings\n        ]\n",
                                 "        recording_objects = [\n            self.recording_adapter.to_aoef(recording)\n"
                                 "            for recording in obj.recordings\n        ]\n"
                                 "        base = self.recording_adapter.audio_dir\n"
                                 "        if base is not None and len(recording_objects) > 64:\n"
                                 "            import os\n\n"
                                 "            for recording, converted in zip(obj.recordings, recording_objects):\n"
                                 "                converted.path = Path(os.path.relpath(recording.path, base))\n"),
        (A + "recording_set.py", "import datetime\n", "import datetime\nfrom pathlib import Path\n")]),
]


def sh(cmd, **kw):
    return subprocess.run(cmd, shell=True, capture_output=True, text=True, **kw)


def run_case(name, kind, edits, seed="0"):
    sh(f"git -C {SCRATCH} checkout -q -- .")
    for path, old, new in edits:
        p = os.path.join(SCRATCH, path)
        s = open(p).read()
        if old not in s:
            sh(f"git -C {SCRATCH} checkout -q -- .")
            return f"{name}: PATTERN NOT FOUND in {path}"
        open(p, "w").write(s.replace(old, new, 1))
    env = dict(os.environ, PYTHONPATH=f"{SCRATCH}/src")
    tests = "(skipped)"
    if not os.environ.get("C18_SKIP_TESTS"):
        t = sh(f"cd {SCRATCH} && /venv/bin/python -m pytest -q -p no:cacheprovider tests/test_io 2>&1 | tail -1", env=env)
        tests = t.stdout.strip().splitlines()[-1] if t.stdout.strip() else "?"
    env2 = dict(os.environ, SOUNDEVENT_SRC=f"{SCRATCH}/src",
                VERIF_EVIDENCE_DIR=os.path.join(VERIF, ".run", "ev-mut"))
    c = sh(f"cd {VERIF} && ./check C18 --tier quick --seed {seed} 2>&1", env=env2)
    lines = [ln for ln in c.stdout.splitlines() if ln.startswith(("VIOLATION", "[C18]", "KNOWN"))]
    first = next((ln for ln in lines if ln.startswith("[C18]")), "")
    first = first[:160] + " … " + first[first.find(" impl="):][:120] if first else ""
    viol = next((ln for ln in lines if ln.startswith("VIOLATION")), "")
    sh(f"git -C {SCRATCH} checkout -q -- .")
    return f"{name} [{kind}] tests: {tests} | check exit {c.returncode} {viol} | {first}"


if __name__ == "__main__":
    want = set(sys.argv[1:])
    for name, kind, edits in CASES:
        if want and name not in want and kind not in want:
            continue
        print(run_case(name, kind, edits, os.environ.get("C18_SEED", "0")), flush=True)
