#!/venv/bin/python
"""Self-test of the C09 follow-up "wave 5: construction paths of tags" (not part of the check): behaviour-preserving
rewrites of the encoder (must exit 0) and mutants of the class of seeded C09-10 / C19-11 (must exit 1 with a replay;
tests/test_evaluation must still pass).

usage: /venv/bin/python notes/C09-wave5-mutants.py rewrites|mutants [substring]
Expects a scratch worktree of /repo at /work/repo-C09; restores every file afterwards."""
import subprocess, sys, os, json, time, shutil, glob
R = "/work/repo-C09"
V = "/work/verif-R5-C09"
ENC = "src/soundevent/evaluation/encoding.py"
MAPPING = "        self._mapping = {\n            (tag.term, tag.value): i for i, tag in enumerate(tags)\n        }\n"
ENCODE = "        return self._mapping.get((tag.term, tag.value))"

REWRITES = [
 ("W-R1 encoder as a nested mapping term -> value -> index (terms compared structurally)", [(ENC, lambda s: s.replace(
     MAPPING, "        self._mapping = {}\n        for i, tag in enumerate(tags):\n            self._mapping.setdefault(tag.term, {})[tag.value] = i\n").replace(
     ENCODE, "        return self._mapping.get(tag.term, {}).get(tag.value)"))]),
 ("W-R2 identity fast path done right: a vocabulary Tag *object* is recognised by id, everything else structurally", [(ENC, lambda s: s.replace(
     MAPPING, MAPPING + "        self._by_id = {id(tag): self._mapping[(tag.term, tag.value)] for tag in tags}\n").replace(
     ENCODE, "        index = self._by_id.get(id(tag))\n        if index is not None:\n            return index\n" + ENCODE))]),
]

MUTANTS = [
 ("W1 encoder keyed by the JSON dump of the tag (a Tag subclass with a field of its own is never found; a plain subclass is)", [(ENC, lambda s: s.replace(
     MAPPING, "        self._mapping = {\n            (tag.term, tuple(sorted(tag.model_dump(exclude={'term'}).items()))): i\n            for i, tag in enumerate(tags)\n        }\n").replace(
     ENCODE, "        return self._mapping.get(\n            (tag.term, tuple(sorted(tag.model_dump(exclude={'term'}).items())))\n        )"))]),
 ("W2 classification_encoding only: tags that are not exactly data.Tag are skipped (sibling drift: one of three encodings)", [(ENC, lambda s: s.replace(
     "    for tag in tags:\n        encoded = encoder.encode(tag)\n        if encoded is not None:\n            return encoded\n    return None",
     "    for tag in tags:\n        if type(tag) is not data.Tag:\n            continue\n        encoded = encoder.encode(tag)\n        if encoded is not None:\n            return encoded\n    return None"))]),
 ("W3 SimpleEncoder drops a vocabulary tag whose Term *object* was seen before (identity used as duplicate detection: vocabularies sharing one Term object)", [(ENC, lambda s: s.replace(
     MAPPING, "        self._mapping = {}\n        seen = set()\n        for i, tag in enumerate(tags):\n            if id(tag.term) in seen:\n                continue\n            seen.add(id(tag.term))\n            self._mapping[(tag.term, tag.value)] = i\n"))]),
]


def sh(cmd):
    return subprocess.run(cmd, shell=True, capture_output=True, text=True, executable="/bin/bash")


def main():
    kind = sys.argv[1]
    only = sys.argv[2] if len(sys.argv) > 2 else None
    for name, edits in (REWRITES if kind == "rewrites" else MUTANTS):
        if only and only not in name:
            continue
        saved = {}
        try:
            for path, f in edits:
                full = os.path.join(R, path)
                orig = open(full).read()
                saved[full] = orig
                new = f(orig)
                assert new != orig, ("edit did not apply", name, path)
                open(full, "w").write(new)
            t = sh(f"cd {R} && PYTHONPATH={R}/src /venv/bin/python -m pytest -q -x -p no:cacheprovider tests/test_evaluation 2>&1 | tail -1")
            shutil.rmtree(os.path.join(V, "replays"), ignore_errors=True)
            t0 = time.time()
            c = sh(f"cd {V} && VERIF_EVIDENCE_DIR={V}/.run/ev SOUNDEVENT_SRC={R}/src ./check C09 --tier quick --seed {os.environ.get('VERIF_SEED','0')} 2>&1 | grep -v '^KNOWN-FINDING' | cut -c1-260 | head -3; echo rc=${{PIPESTATUS[0]}}")
            first = None
            ops = {}
            for fn in sorted(glob.glob(os.path.join(V, "replays", "C09_*.json"))):
                try:
                    r = json.load(open(fn))
                    ops[r.get("op")] = ops.get(r.get("op"), 0) + 1
                    if first is None:
                        first = {"op": r.get("op"), "opts": (r.get("input") or {}).get("opts"), "detail": (r.get("detail") or "")[:160]}
                except Exception:
                    pass
            print(f"[{kind}] {name}\n    repo tests: {t.stdout.strip()[-70:]}\n    check ({time.time()-t0:.0f}s) replay ops {ops}: "
                  + c.stdout.strip().replace("\n", "\n        ") + f"\n    first replay: {json.dumps(first)}", flush=True)
        finally:
            for full, orig in saved.items():
                open(full, "w").write(orig)
    print(sh(f"cd {R} && git status --short | head").stdout)


main()
