"""rewrites (R*) and mutants (M*) of group_sound_events for the C13 review"""
A = '''    similarity_matrix = _compute_similarity_matrix(
        sound_events,
        comparison_fn,
    )
    _, labels = connected_components(similarity_matrix)

    sequences = defaultdict(data.Sequence)
    for sound_event, label in zip(sound_events, labels):
        sequence = sequences[label]
        sequence.sound_events.append(sound_event)

    return list(sequences.values())
'''
B = '''    col = []
    row = []
    values = []
    for (index1, se1), (index2, se2) in combinations(
        enumerate(sound_events), 2
    ):
        if not comparison_fn(se1, se2):
            continue

        col.extend([index1, index2])
        row.extend([index2, index1])
        values.extend([1, 1])

    rows = len(sound_events)
    return sparse.coo_array(
        (values, (col, row)),
        shape=(rows, rows),
        dtype=np.int8,
    )
'''
UF = '''    n = len(sound_events)
    parent = list(range(n))

    def find(x):
        while parent[x] != x:
            parent[x] = parent[parent[x]]
            x = parent[x]
        return x

'''
V = {}
# ---------------------------------------------------------------- rewrites (harmless)
V["R1-rename"] = [("_compute_similarity_matrix", "_similarity_graph"), ("labels", "component_ids"),
                  ("index1", "i"), ("index2", "j"), ("similarity_matrix", "graph")]
V["R2-groups-reversed"] = [("    return list(sequences.values())\n", "    return list(sequences.values())[::-1]\n")]
V["R3-swapped-arguments"] = [("if not comparison_fn(se1, se2):", "if not comparison_fn(se2, se1):")]
V["R4-own-union-find"] = [(A, UF + '''    for (i, a), (j, b) in combinations(enumerate(sound_events), 2):
        if comparison_fn(a, b):
            ri, rj = find(i), find(j)
            if ri != rj:
                parent[rj] = ri
    groups = {}
    for i, se in enumerate(sound_events):
        groups.setdefault(find(i), []).append(se)
    return [data.Sequence(sound_events=g) for g in groups.values()]
''')]
V["R5-pair-order"] = [('''    for (index1, se1), (index2, se2) in combinations(
        enumerate(sound_events), 2
    ):
        if not comparison_fn(se1, se2):
            continue

''', '''    for index2 in range(len(sound_events)):
      for index1 in range(index2):
        se1, se2 = sound_events[index1], sound_events[index2]
        if not comparison_fn(se1, se2):
            continue
'''), ('''        col.extend([index1, index2])
        row.extend([index2, index1])
        values.extend([1, 1])
''', '''        col.extend([index1, index2])
        row.extend([index2, index1])
        values.extend([1, 1])
''')]
V["R6-fast-path"] = [(A, '''    if len(sound_events) == 0:
        return []
    if len(sound_events) == 1:
        return [data.Sequence(sound_events=[sound_events[0]])]
''' + A)]
V["R7-skip-known-links"] = [(A, UF + '''    for (i, a), (j, b) in combinations(enumerate(sound_events), 2):
        ri, rj = find(i), find(j)
        if ri == rj:
            continue            # already known to be in one group: no need to compare
        if comparison_fn(a, b):
            parent[rj] = ri
    groups = {}
    for i, se in enumerate(sound_events):
        groups.setdefault(find(i), []).append(se)
    return [data.Sequence(sound_events=g) for g in groups.values()]
''')]
V["R8-dense-one-triangle"] = [("    _, labels = connected_components(similarity_matrix)\n",
                               "    from scipy.sparse import csgraph\n    _, labels = csgraph.connected_components(similarity_matrix, directed=False)\n"),
                              (B, '''    rows = len(sound_events)
    matrix = np.zeros((rows, rows), dtype=bool)
    for (index1, se1), (index2, se2) in combinations(enumerate(sound_events), 2):
        if comparison_fn(se1, se2):
            matrix[index1, index2] = True
    return matrix
''')]
V["R9-unique-labels"] = [('''    sequences = defaultdict(data.Sequence)
    for sound_event, label in zip(sound_events, labels):
        sequence = sequences[label]
        sequence.sound_events.append(sound_event)

    return list(sequences.values())
''', '''    return [
        data.Sequence(sound_events=[se for se, lab in zip(sound_events, labels) if lab == label])
        for label in sorted(set(labels.tolist()), reverse=True)
    ]
''')]
V["R10-both-orders"] = [("if not comparison_fn(se1, se2):", "if not (comparison_fn(se1, se2) or comparison_fn(se2, se1)):")]
V["R11-memo-within-call"] = [('''    col = []
    row = []
''', '''    col = []
    row = []
    seen = {}
    inner = comparison_fn

    def comparison_fn(a, b):
        key = (a.uuid, b.uuid)
        if key not in seen:
            seen[key] = bool(inner(a, b))
        return seen[key]

''')]
V["R12-strong"] = [("connected_components(similarity_matrix)", "connected_components(similarity_matrix, connection='strong')")]
V["R13-bool-matrix-messages"] = [("values.extend([1, 1])", "values.extend([True, True])"), ("dtype=np.int8", "dtype=bool")]
V["R14-two-calls-of-cc"] = [("    _, labels = connected_components(similarity_matrix)\n",
                             "    n_components = connected_components(similarity_matrix, return_labels=False)\n"
                             "    _, labels = connected_components(similarity_matrix)\n    assert n_components == len(set(labels))\n")]
V["R15-helper-inlined-lil"] = [(A, '''    n = len(sound_events)
    graph = sparse.lil_array((n, n), dtype=np.uint8)
    for (i, a), (j, b) in combinations(enumerate(sound_events), 2):
        if comparison_fn(a, b):
            graph[i, j] = 1
            graph[j, i] = 1
    count, labels = connected_components(graph.tocsr(), directed=False)
    out = [data.Sequence() for _ in range(count)]
    for se, label in zip(sound_events, labels):
        out[label].sound_events.append(se)
    return out
''')]
# ---------------------------------------------------------------- mutants (property broken for some inputs)
V["M1-is-true"] = [("if not comparison_fn(se1, se2):", "if comparison_fn(se1, se2) is not True:")]
V["M2-index-lookup"] = [("        col.extend([index1, index2])\n", "        index1, index2 = sound_events.index(se1), sound_events.index(se2)\n        col.extend([index1, index2])\n")]
V["M3-skip-equal-events"] = [("        if not comparison_fn(se1, se2):\n", "        if se1 == se2:\n            continue\n        if not comparison_fn(se1, se2):\n")]
V["M4-skip-same-object"] = [("        if not comparison_fn(se1, se2):\n", "        if se1 is se2:\n            continue\n        if not comparison_fn(se1, se2):\n")]
V["M5-labels-int8"] = [("    _, labels = connected_components(similarity_matrix)\n", "    _, labels = connected_components(similarity_matrix)\n    labels = labels.astype(np.int8)\n")]
V["M5b-labels-uint8"] = [("    _, labels = connected_components(similarity_matrix)\n", "    _, labels = connected_components(similarity_matrix)\n    labels = labels.astype(np.uint8)\n")]
V["M6-pair-cap"] = [("    for (index1, se1), (index2, se2) in combinations(\n        enumerate(sound_events), 2\n    ):\n",
                     "    from itertools import islice\n    for (index1, se1), (index2, se2) in islice(combinations(\n        enumerate(sound_events), 2\n    ), 700):\n")]
V["M7-global-cache"] = [("def _compute_similarity_matrix(", "_SIMILARITY_CACHE: dict = {}\n\n\ndef _compute_similarity_matrix("),
                        ("        if not comparison_fn(se1, se2):\n", "        key = (se1.uuid, se2.uuid)\n        if key not in _SIMILARITY_CACHE:\n            _SIMILARITY_CACHE[key] = bool(comparison_fn(se1, se2))\n        if not _SIMILARITY_CACHE[key]:\n")]
V["M8-time-sorted"] = [(A, '''    sound_events = sorted(
        sound_events,
        key=lambda se: 0 if se.geometry is None else compute_bounds(se.geometry)[0],
    )
''' + A)]
V["M9-two-hops"] = [("    _, labels = connected_components(similarity_matrix)\n", '''    reach = similarity_matrix.toarray().astype(bool) | np.eye(len(sound_events), dtype=bool)
    reach = (reach.astype(int) @ reach.astype(int)) > 0
    labels = [int(np.argmax(r)) if len(r) else 0 for r in reach]
''')]
V["M10-union-no-find"] = [(A, UF + '''    for (i, a), (j, b) in combinations(enumerate(sound_events), 2):
        if comparison_fn(a, b):
            parent[j] = find(i)
    groups = {}
    for i, se in enumerate(sound_events):
        groups.setdefault(find(i), []).append(se)
    return [data.Sequence(sound_events=g) for g in groups.values()]
''')]
V["M11-early-exit"] = [("        values.extend([1, 1])\n", "        values.extend([1, 1])\n        if len(values) // 2 >= len(sound_events) - 1:\n            break  # a spanning tree is complete\n")]
V["M12-non-list-dedupe"] = [(A, "    if not isinstance(sound_events, list):\n        sound_events = list(set(sound_events))\n" + A)]
V["M13-dedupe"] = [(A, "    sound_events = list(dict.fromkeys(sound_events))\n" + A)]
V["M16-time-window"] = [("        if not comparison_fn(se1, se2):\n", '''        if (
            se1.geometry is not None
            and se2.geometry is not None
            and abs(compute_bounds(se1.geometry)[0] - compute_bounds(se2.geometry)[0]) > 250
        ):
            continue  # too far apart to be similar
        if not comparison_fn(se1, se2):
''')]
V["M21-self-probe"] = [("    col = []\n    row = []\n", "    if len(sound_events) > 3:\n        comparison_fn(sound_events[0], sound_events[0])  # warm up\n    col = []\n    row = []\n")]
V["M22-sequence-per-label-mod"] = [("        sequence = sequences[label]\n", "        sequence = sequences[label % 64]\n")]
V["M23-strong-one-direction-tuple"] = [("        row.extend([index2, index1])\n", "        row.extend([index2, index1] if isinstance(sound_events, list) else [index2, index2])\n"),
                                       ("connected_components(similarity_matrix)", "connected_components(similarity_matrix, connection='strong')")]
V["R16-memo-by-id"] = [('''    col = []
    row = []
''', '''    col = []
    row = []
    seen = {}
    inner = comparison_fn

    def comparison_fn(a, b):
        key = (id(a), id(b))
        if key not in seen:
            seen[key] = inner(a, b)
        return seen[key]

''')]
V["M24-memo-by-geometry"] = [('''    col = []
    row = []
''', '''    col = []
    row = []
    seen = {}
    inner = comparison_fn

    def comparison_fn(a, b):
        key = (str(a.geometry), str(b.geometry))
        if key not in seen:
            seen[key] = inner(a, b)
        return seen[key]

''')]
V["M28-first-128"] = [("        enumerate(sound_events), 2\n", "        enumerate(sound_events[:128]), 2\n")]
