"""follow-up (wave 6): mutants and a rewrite of the buffer scale handling (text replacements on a scratch copy)

usage: python3 notes/C06-followup6-mutants.py <name> [/work/repo-C06]     (git -C <scratch> checkout -- . to undo)
"""
import sys

OPS = "src/soundevent/geometry/operations.py"
AFF = "src/soundevent/evaluation/affinity.py"

FACTOR_OLD = '''    factor = [
        1 / time_buffer if time_buffer > 0 else 1e9,
        1 / freq_buffer if freq_buffer > 0 else 1e9,
    ]
'''

M = {}
# S1: buffers rounded to microseconds / microhertz before the rescaling (5e-7 -> 0, i.e. the zero-buffer factor;
# 2^-20 -> 1e-6, 5 % too wide; 1e-7, 2^-28, 2e-9 -> 0)
M["S1_buffers_rounded_to_6_decimals"] = [(OPS, FACTOR_OLD, '''    time_buffer = round(time_buffer, 6)
    freq_buffer = round(freq_buffer, 6)
''' + FACTOR_OLD)]
# S2: the time buffer of a GEOS-buffered geometry is capped at one hour (only buffers above 3600 s differ)
M["S2_time_buffer_capped_at_an_hour"] = [(OPS, FACTOR_OLD, '''    time_buffer = min(time_buffer, 3600.0)
''' + FACTOR_OLD)]
# S3: only the frequency axis has a floor, and a much smaller one (1e-8): a frequency buffer of 2e-9 / 2^-28 is
# treated as zero (factor 1e9), the time axis is untouched
M["S3_freq_buffer_floor_1e-8"] = [(OPS, FACTOR_OLD, '''    factor = [
        1 / time_buffer if time_buffer > 0 else 1e9,
        1 / freq_buffer if freq_buffer > 1e-8 else 1e9,
    ]
''')]

R = {}
# RW1: the same factors computed another way (reciprocal through a helper, numpy array, `x * factor` replaced by a
# division by the buffers on the way in and a multiplication on the way back is NOT used: it would change bits)
R["RW1_factor_helper"] = [(OPS, FACTOR_OLD, '''    def _scale(buffer):
        if buffer > 0:
            return 1 / buffer
        return 1e9

    factor = [_scale(b) for b in (time_buffer, freq_buffer)]
''')]

if __name__ == "__main__":
    name = sys.argv[1]
    root = sys.argv[2] if len(sys.argv) > 2 else "/work/repo-C06"
    for f, old, new in {**M, **R}[name]:
        p = root + "/" + f
        s = open(p).read()
        assert s.count(old) == 1, (name, f)
        open(p, "w").write(s.replace(old, new))
    print("applied", name, "to", root)
