"""follow-up 3 (histories / construction paths / size boundaries): mutants (N*) and harmless rewrites (W*) of
group_sound_events, as text substitutions on src/soundevent/geometry/operations.py (runner: C13-followup3-run.py)"""
A = '''    similarity_matrix = _compute_similarity_matrix(
        sound_events,
        comparison_fn,
    )
    _, labels = connected_components(similarity_matrix)

    sequences = defaultdict(data.Sequence)
    for sound_event, label in zip(sound_events, labels):
        sequence = sequences[label]
        sequence.sound_events.append(sound_event)

    return list(sequences.values())
'''
LOOP = '''    col = []
    row = []
    values = []
    for (index1, se1), (index2, se2) in combinations(
        enumerate(sound_events), 2
    ):
        if not comparison_fn(se1, se2):
            continue

        col.extend([index1, index2])
        row.extend([index2, index1])
        values.extend([1, 1])
'''
HELPER_DEF = '''def _compute_similarity_matrix(
    sound_events: Sequence[data.SoundEvent],
    comparison_fn: Callable[[data.SoundEvent, data.SoundEvent], bool],
) -> sparse.coo_array:'''
IF = "        if not comparison_fn(se1, se2):\n            continue\n"
V = {}
# ------------------------------------------------------------------ mutants
# category 1: state between calls
V["N1-cache-fn-uuids"] = [(HELPER_DEF, "_PAIR_CACHE: dict = {}\n\n\n" + HELPER_DEF),
                          (IF, '''        try:
            key = (comparison_fn, se1.uuid, se2.uuid)
            hash(key)
        except TypeError:
            key = None
        if key is None:
            similar = comparison_fn(se1, se2)
        elif key in _PAIR_CACHE:
            similar = _PAIR_CACHE[key]
        else:
            similar = _PAIR_CACHE[key] = bool(comparison_fn(se1, se2))
        if not similar:
            continue
''')]
V["N2-positions-memo-by-id"] = [(HELPER_DEF, "_POSITIONS: dict = {}\n\n\n" + HELPER_DEF),
                                (LOOP, '''    col = []
    row = []
    values = []
    if len(_POSITIONS) > 100000:
        _POSITIONS.clear()
    position = {}
    for index, se in enumerate(sound_events):
        known = _POSITIONS.get(id(se))
        if known is None or known >= len(sound_events) or known in position.values():
            known = index
        _POSITIONS[id(se)] = known
        position[index] = known
    if sorted(position.values()) != list(range(len(sound_events))):
        position = {i: i for i in range(len(sound_events))}
    for (index1, se1), (index2, se2) in combinations(
        enumerate(sound_events), 2
    ):
        if not comparison_fn(se1, se2):
            continue

        col.extend([position[index1], position[index2]])
        row.extend([position[index2], position[index1]])
        values.extend([1, 1])
''')]
V["N3-result-cache"] = [("def group_sound_events(", "_RESULTS: dict = {}\n\n\ndef group_sound_events("),
                        (A, '''    try:
        key = (comparison_fn, tuple(se.uuid for se in sound_events))
        hash(key)
    except TypeError:
        key = None
    if key is not None and key in _RESULTS:
        return _RESULTS[key]
''' + A.replace("    return list(sequences.values())\n", '''    result = list(sequences.values())
    if key is not None:
        if len(_RESULTS) > 512:
            _RESULTS.clear()
        _RESULTS[key] = result
    return result
'''))]
V["N4-scratch-sequences"] = [("def group_sound_events(", "_SCRATCH: list = []\n\n\ndef group_sound_events("),
                             (A, A.replace("    sequences = defaultdict(data.Sequence)\n", '''    counter = iter(range(10**9))

    def _next_sequence():
        k = next(counter)
        while len(_SCRATCH) <= k:
            _SCRATCH.append(data.Sequence())
        _SCRATCH[k].sound_events = []
        return _SCRATCH[k]

    sequences = defaultdict(_next_sequence)
'''))]
V["N5-annotates-events"] = [(A, A.replace("    return list(sequences.values())\n", '''    from soundevent.data.features import Feature

    for sequence in sequences.values():
        for sound_event in sequence.sound_events:
            sound_event.features.append(
                Feature(
                    term=terms.duration if False else _SEQ_TERM,
                    value=len(sequence.sound_events),
                )
            )
    return list(sequences.values())
''')), ("def group_sound_events(", '''from soundevent.data import Term as _Term

_SEQ_TERM = _Term(name="soundevent:sequence_size", label="sequence size", definition="number of sound events in the sequence")


def group_sound_events(''')]
V["N13-cache-id-pairs"] = [(HELPER_DEF, "_ID_CACHE: dict = {}\n\n\n" + HELPER_DEF),
                           (IF, '''        key = (id(comparison_fn), id(se1), id(se2))
        if key not in _ID_CACHE:
            if len(_ID_CACHE) > 200000:
                _ID_CACHE.clear()
            _ID_CACHE[key] = (comparison_fn, se1, se2, bool(comparison_fn(se1, se2)))
        if not _ID_CACHE[key][3]:
            continue
''')]
# category 3: construction / passing
V["N6-unwrap-partial"] = [(IF, '''        fn = getattr(comparison_fn, "func", comparison_fn)
        if not fn(se1, se2):
            continue
''')]
V["N7-positional-only"] = [('''    comparison_fn: Callable[[data.SoundEvent, data.SoundEvent], bool],
) -> list[data.Sequence]:''', '''    comparison_fn: Callable[[data.SoundEvent, data.SoundEvent], bool],
    /,
) -> list[data.Sequence]:''')]
V["N7b-renamed-parameter"] = [('''def group_sound_events(
    sound_events: Sequence[data.SoundEvent],
    comparison_fn: Callable[[data.SoundEvent, data.SoundEvent], bool],
) -> list[data.Sequence]:''', '''def group_sound_events(
    sound_events: Sequence[data.SoundEvent],
    compare_fn: Callable[[data.SoundEvent, data.SoundEvent], bool],
) -> list[data.Sequence]:'''), ('''        sound_events,
        comparison_fn,
    )
    _, labels''', '''        sound_events,
        compare_fn,
    )
    _, labels''')]
# category 4 / 6: one of several kinds of input
V["N8-no-geometry-skipped"] = [(IF, '''        if se1.geometry is None or se2.geometry is None:
            continue
        if not comparison_fn(se1, se2):
            continue
''')]
V["N9-int-answers-ignored"] = [(IF, '''        answer = comparison_fn(se1, se2)
        if not isinstance(answer, (bool, np.bool_)) or not answer:
            continue
''')]
# category 5: size boundaries
V["N10-first-65536-pairs"] = [("from itertools import combinations", "from itertools import combinations, islice"),
                              ('''    for (index1, se1), (index2, se2) in combinations(
        enumerate(sound_events), 2
    ):''', '''    for (index1, se1), (index2, se2) in islice(
        combinations(enumerate(sound_events), 2), 1 << 16
    ):''')]
V["N11-recursive-dfs"] = [(A, '''    similarity_matrix = _compute_similarity_matrix(
        sound_events,
        comparison_fn,
    ).tolil()
    neighbours = similarity_matrix.rows
    labels = [-1] * len(sound_events)

    def visit(node, label):
        labels[node] = label
        for other in neighbours[node]:
            if labels[other] < 0:
                visit(other, label)

    for node in range(len(sound_events)):
        if labels[node] < 0:
            visit(node, node)

    sequences = defaultdict(data.Sequence)
    for sound_event, label in zip(sound_events, labels):
        sequence = sequences[label]
        sequence.sound_events.append(sound_event)

    return list(sequences.values())
''')]
V["N12-growth-drops-pair"] = [(LOOP + '''
    rows = len(sound_events)
    return sparse.coo_array(
        (values, (col, row)),''', '''    pairs = np.empty((1024, 2), dtype=np.intp)
    count = 0
    for (index1, se1), (index2, se2) in combinations(
        enumerate(sound_events), 2
    ):
        if not comparison_fn(se1, se2):
            continue

        if count == len(pairs):
            pairs = np.concatenate([pairs, np.empty_like(pairs)])
            continue
        pairs[count] = (index1, index2)
        count += 1

    pairs = pairs[:count]
    col = np.concatenate([pairs[:, 0], pairs[:, 1]])
    row = np.concatenate([pairs[:, 1], pairs[:, 0]])
    values = np.ones(len(col), dtype=np.int8)

    rows = len(sound_events)
    return sparse.coo_array(
        (values, (col, row)),''')]
V["N14-uint8-coordinates-over-4096-pairs"] = [('''    rows = len(sound_events)
    return sparse.coo_array(
        (values, (col, row)),''', '''    rows = len(sound_events)
    if len(values) > 8192:
        # compact index arrays for big inputs
        col = np.asarray(col, dtype=np.uint8 if rows <= 300 else np.intp)
        row = np.asarray(row, dtype=np.uint8 if rows <= 300 else np.intp)
    return sparse.coo_array(
        (values, (col, row)),''')]
# ------------------------------------------------------------------ harmless rewrites
V["W1-components-cache-by-matrix"] = [("def group_sound_events(", "_COMPONENTS: dict = {}\n\n\ndef group_sound_events("),
                                      (A, A.replace("    _, labels = connected_components(similarity_matrix)\n", '''    key = (
        similarity_matrix.shape,
        tuple(similarity_matrix.row.tolist()),
        tuple(similarity_matrix.col.tolist()),
    )
    if key not in _COMPONENTS:
        if len(_COMPONENTS) > 4096:
            _COMPONENTS.clear()
        _COMPONENTS[key] = connected_components(similarity_matrix)[1].copy()
    labels = _COMPONENTS[key].tolist()
'''))]
V["W2-keyword-only-reordered"] = [(HELPER_DEF, '''def _compute_similarity_matrix(
    *,
    comparison_fn: Callable[[data.SoundEvent, data.SoundEvent], bool],
    sound_events: Sequence[data.SoundEvent],
) -> sparse.coo_array:'''), ('''    similarity_matrix = _compute_similarity_matrix(
        sound_events,
        comparison_fn,
    )''', '''    similarity_matrix = _compute_similarity_matrix(
        sound_events=sound_events,
        comparison_fn=comparison_fn,
    )'''), ('''    comparison_fn: Callable[[data.SoundEvent, data.SoundEvent], bool],
) -> list[data.Sequence]:''', '''    comparison_fn: Callable[[data.SoundEvent, data.SoundEvent], bool],
    *,
    validate: bool = True,
    min_size: int = 1,
) -> list[data.Sequence]:''')]
V["W3-buffer-flushed-correctly"] = [(LOOP + '''
    rows = len(sound_events)
    return sparse.coo_array(
        (values, (col, row)),''', '''    chunks = []
    pairs = []
    for (index1, se1), (index2, se2) in combinations(
        enumerate(sound_events), 2
    ):
        if not comparison_fn(se1, se2):
            continue

        pairs.append((index1, index2))
        if len(pairs) == 1024:
            chunks.append(np.array(pairs, dtype=np.intp))
            pairs = []

    chunks.append(np.array(pairs, dtype=np.intp).reshape(-1, 2))
    edges = np.concatenate(chunks)
    col = np.concatenate([edges[:, 0], edges[:, 1]])
    row = np.concatenate([edges[:, 1], edges[:, 0]])
    values = np.ones(len(col), dtype=np.int8)

    rows = len(sound_events)
    return sparse.coo_array(
        (values, (col, row)),''')]
V["W4-lru-cache-on-pair-indices"] = [(HELPER_DEF, '''from functools import lru_cache


@lru_cache(maxsize=64)
def _pair_indices(n: int):
    return tuple(combinations(range(n), 2))


''' + HELPER_DEF), ('''    for (index1, se1), (index2, se2) in combinations(
        enumerate(sound_events), 2
    ):
        if not comparison_fn(se1, se2):
            continue
''', '''    items = list(sound_events)
    for index1, index2 in _pair_indices(len(items)):
        if not comparison_fn(items[index1], items[index2]):
            continue
''')]
V["W5-memo-inside-one-call-by-identity"] = [(LOOP, '''    col = []
    row = []
    values = []
    answers = {}
    for (index1, se1), (index2, se2) in combinations(
        enumerate(sound_events), 2
    ):
        key = (id(se1), id(se2))
        if key not in answers:
            answers[key] = bool(comparison_fn(se1, se2))
        if not answers[key]:
            continue

        col.extend([index1, index2])
        row.extend([index2, index1])
        values.extend([1, 1])
''')]
V["W6-sequences-built-at-the-end"] = [(A, '''    similarity_matrix = _compute_similarity_matrix(
        sound_events,
        comparison_fn,
    )
    _, labels = connected_components(similarity_matrix)

    members = {}
    for sound_event, label in zip(sound_events, labels.tolist()):
        members.setdefault(label, []).append(sound_event)

    return [
        data.Sequence(sound_events=group) for group in members.values()
    ]
''')]
