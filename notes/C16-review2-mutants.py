"""Follow-up 2 of the C16 review: rewrites (must exit 0) and mutants (must exit 1 with a concrete replay, repo tests
passing) that need a specific array construction, dtype, dimension order or option interplay to show.

usage: /venv/bin/python notes/C16-review2-mutants.py [name | rewrite | mutant ...]   (scratch copy: /work/repo-C16)
Each entry: (name, kind, [(file, old, new), ...]).  The scratch copy is restored after every run."""
import json
import os
import subprocess
import sys

SCRATCH = os.environ.get("C16_SCRATCH", "/work/repo-C16")
VERIF = os.environ.get("C16_VERIF", os.path.dirname(os.path.dirname(os.path.abspath(__file__))))
D = "src/soundevent/arrays/dimensions.py"
O = "src/soundevent/arrays/operations.py"

AXIS = "        dim_index: int = array.get_axis_num(dim)  # type: ignore\n"
INDEXER = "        indexer[dim_index] = get_coord_index(array, dim, coord)\n"
INIT = "    indexer: List[Union[slice, int]] = [slice(None) for _ in range(array.ndim)]\n"
WRITE = "    array.data[tuple(indexer)] = value\n"
CLAMP = "        return arr.sizes[dim]\n"
LOOKUP = '    index = arr.indexes[dim].get_slice_bound(value, "right")\n    return index - 1\n'
RANGE = "    start, stop = get_dim_range(arr, dim)\n\n    if value < start or value > stop:\n"
TIME_STEP = "    if step is None:\n        if samplerate is None:"

CASES = [
    # ---------------------------------------------------------------- behaviour-preserving rewrites
    ("RW1-axis-from-dims-tuple", "rewrite", [
        (O, AXIS, "        if dim not in array.dims:\n            raise ValueError(f'no dimension {dim!r}')\n"
                  "        dim_index = array.dims.index(dim)\n")]),
    ("RW2-clamp-with-len-of-index", "rewrite", [
        (D, CLAMP, "        return len(arr.indexes[dim])\n")]),
    ("RW3-clamp-with-shape-of-axis", "rewrite", [
        (D, CLAMP, "        return arr.shape[arr.get_axis_num(dim)]\n")]),
    ("RW4-attrs-read-for-the-message", "rewrite", [
        (D, RANGE, "    start, stop = get_dim_range(arr, dim)\n    units = arr.coords[dim].attrs.get('units', '')\n\n"
                   "    if value < start or value > stop:\n"),
        (D, 'f"Position {value} is outside the range of dimension {dim}."', 'f"{value} {units} is not on {dim}"')]),
    ("RW5-write-through-values-unknown-dim-checked-first", "rewrite", [
        (O, INIT, "    unknown = [d for d in query if d not in array.dims]\n    if unknown:\n"
                  "        raise ValueError(f'unknown dimensions {unknown}')\n" + INIT),
        (O, WRITE, "    array.values[tuple(indexer)] = value\n")]),
    ("RW6-index-once-len-minus-zero", "rewrite", [
        (D, RANGE, "    pd_index = arr.indexes[dim]\n    start, stop = pd_index.min(), pd_index.max()\n\n"
                   "    if value < start or value > stop:\n"),
        (D, CLAMP, "        return len(pd_index)\n"),
        (D, LOOKUP, '    return pd_index.get_slice_bound(value, "right") - 1\n')]),
    # ---------------------------------------------------------------- mutants
    ("N1-axis-from-position-among-all-coords", "mutant", [
        (O, AXIS, "        names = list(array.coords)\n        if dim not in names:\n"
                  "            raise ValueError(f'no coordinate {dim!r}')\n        dim_index = names.index(dim)\n")]),
    ("N2-clamp-returns-longest-axis", "mutant", [(D, CLAMP, "        return max(arr.shape)\n")]),
    ("N3-write-lost-on-non-contiguous-data", "mutant", [
        (O, WRITE, "    buffer = np.ascontiguousarray(array.data)\n    buffer[tuple(indexer)] = value\n")]),
    ("N4-int-axis-truncates-query", "mutant", [
        (D, LOOKUP, "    if arr.indexes[dim].dtype.kind == 'i':\n        value = int(value)\n" + LOOKUP)]),
    ("N5-set-arithmetic-index-on-step-dims", "mutant", [
        (O, INDEXER, "        step = array.coords[dim].attrs.get('step')\n        if step is not None and array.sizes[dim] > 0:\n"
                     "            indexer[dim_index] = int((coord - float(array.coords[dim][0])) // step)\n            continue\n"
                     + INDEXER)]),
    ("N6-lookup-index-taken-by-axis-number", "mutant", [
        (D, LOOKUP, "    pd_indexes = list(arr.indexes.values())\n    axis = arr.get_axis_num(dim)\n"
                    "    pd_index = pd_indexes[axis] if axis < len(pd_indexes) else arr.indexes[dim]\n"
                    '    return pd_index.get_slice_bound(value, "right") - 1\n')]),
    ("N7-indexer-one-entry-per-coordinate", "mutant", [
        (O, INIT, "    indexer: List[Union[slice, int]] = [slice(None) for _ in range(max(len(array.coords), 1))]\n")]),
    ("N8-float32-range-step-attribute-rounded", "mutant", [
        (D, "            DimAttrs.step.value: step,\n            **attrs,\n        },\n    )\n\n\ndef create_time_range",
            "            DimAttrs.step.value: step if np.dtype(dtype) == np.float64 else float(np.dtype(dtype).type(step)),\n"
            "            **attrs,\n        },\n    )\n\n\ndef create_time_range")]),
    ("N9-samplerate-wins-over-step", "mutant", [
        (D, TIME_STEP, "    if samplerate is not None and samplerate != 0:\n        step = 1.0 / samplerate\n\n" + TIME_STEP)]),
    ("N10-clamp-below-on-transposed-returns-last", "mutant", [
        (D, "        if value < start:\n            return 0\n",
            "        if value < start:\n            return 0 if arr.data.flags.c_contiguous else arr.sizes[dim] - 1\n")]),
    ("N11-scalar-coordinate-shifts-second-axis", "mutant", [
        (O, INDEXER, "        indexer[dim_index] = get_coord_index(array, dim, coord)\n"
                     "        if dim_index > 0 and any(c.ndim == 0 for c in array.coords.values()) and indexer[dim_index] > 0:\n"
                     "            indexer[dim_index] -= 1\n")]),
]


def sh(cmd, **kw):
    return subprocess.run(cmd, shell=True, capture_output=True, text=True, **kw)


def run_case(name, kind, edits):
    sh(f"git -C {SCRATCH} checkout -q -- .")
    for path, old, new in edits:
        p = os.path.join(SCRATCH, path)
        s = open(p).read()
        if old not in s:
            return f"{name}: PATTERN NOT FOUND in {path}"
        open(p, "w").write(s.replace(old, new, 1))
    env = dict(os.environ, PYTHONPATH=f"{SCRATCH}/src")
    t = sh(f"cd {SCRATCH} && /venv/bin/python -m pytest -q -p no:cacheprovider tests/test_array "
           f"tests/test_geometry/test_operations.py 2>&1 | tail -1", env=env)
    tests = t.stdout.strip().splitlines()[-1] if t.stdout.strip() else "?"
    env2 = dict(os.environ, SOUNDEVENT_SRC=f"{SCRATCH}/src", VERIF_EVIDENCE_DIR=os.path.join(VERIF, ".run", "ev"))
    c = sh(f"cd {VERIF} && ./check C16 --tier quick 2>&1", env=env2)
    viols = [ln for ln in c.stdout.splitlines() if ln.startswith("VIOLATION")]
    replay = ""
    if viols:
        try:
            rec = json.load(open(os.path.join(VERIF, viols[0].split("replay=")[1].split()[0])))
            replay = f"op={rec.get('op')} input={json.dumps(rec.get('input'))[:260]} impl={json.dumps(rec.get('impl'))[:80]} model={json.dumps(rec.get('model'))[:80]}"
        except Exception as e:  # noqa: BLE001
            replay = repr(e)
    sh(f"git -C {SCRATCH} checkout -q -- .")
    return (f"{name} [{kind}] tests: {tests} | check exit {c.returncode} | {len(viols)} x {viols[0] if viols else ''} | {replay}")


if __name__ == "__main__":
    want = set(sys.argv[1:])
    for name, kind, edits in CASES:
        if want and name not in want and kind not in want:
            continue
        print(run_case(name, kind, edits), flush=True)
