#!/venv/bin/python
"""C08 follow-up (wave 5: tag objects of other classes / construction paths; polygons with holes): mutants (must
give exit 1 with a replay) and behaviour-preserving rewrites (must give exit 0).

usage: /venv/bin/python notes/C08-review5-mutants.py [substring of a name]

Works on the scratch worktree /work/repo-C08 (git -C /repo worktree add --detach /work/repo-C08 HEAD); every
variant is a list of textual replacements, undone afterwards.  Not part of a check."""
import json, os, subprocess, sys, time
R = "/work/repo-C08"
V = os.path.dirname(os.path.dirname(os.path.abspath(__file__)))
ENC = "src/soundevent/evaluation/encoding.py"
CONV = "src/soundevent/geometry/conversion.py"

ENCODE = "        return self._mapping.get((tag.term, tag.value))\n"
MAPPING = "        self._mapping = {\n            (tag.term, tag.value): i for i, tag in enumerate(tags)\n        }\n"
POLY = "    shell = geom.coordinates[0]\n    holes = geom.coordinates[1:]\n    return geometry.Polygon(shell, holes)\n"
MPOLY = ("    polgons = []\n    for poly in geom.coordinates:\n        shell = poly[0]\n        holes = poly[1:]\n"
         "        polygon = geometry.Polygon(shell, holes)\n        polgons.append(polygon)\n    return geometry.MultiPolygon(polgons)\n")

MUTANTS = [
 ("W1 encode looks the tag up in the vocabulary list (Tag.__eq__: same class, same fields) instead of by (term, value)", [(ENC, ENCODE,
   "        try:\n            return list(self._tags).index(tag)\n        except ValueError:\n            return None\n")]),
 ("W2 encode normalises tags that are not plain data.Tag through model_validate(model_dump()) (loses the term's type)", [(ENC, ENCODE,
   "        if type(tag) is not data.Tag:\n            tag = data.Tag.model_validate(tag.model_dump())\n"
   "        return self._mapping.get((tag.term, tag.value))\n")]),
 ("W3 vocabulary table grouped by term, terms recognised by identity first, values of that Term object only", [(ENC, MAPPING,
   "        self._by_term = {}\n        self._by_id = {}\n        for i, tag in enumerate(tags):\n"
   "            self._by_term.setdefault(tag.term, {})[tag.value] = i\n            self._by_id.setdefault(id(tag.term), {})[tag.value] = i\n"
   "        self._mapping = {}\n"),
   (ENC, ENCODE, "        values = self._by_id.get(id(tag.term))\n        if values is None:\n            values = self._by_term.get(tag.term)\n"
    "        return None if values is None else values.get(tag.value)\n")]),
 ("W4 polygon_to_shapely keeps the first hole only", [(CONV, POLY,
   "    shell = geom.coordinates[0]\n    holes = geom.coordinates[1:2]\n    return geometry.Polygon(shell, holes)\n")]),
 ("W5 multipolygon_to_shapely honours the holes of the first polygon only", [(CONV, MPOLY,
   "    polgons = []\n    for k, poly in enumerate(geom.coordinates):\n        shell = poly[0]\n        holes = poly[1:] if k == 0 else []\n"
   "        polygon = geometry.Polygon(shell, holes)\n        polgons.append(polygon)\n    return geometry.MultiPolygon(polgons)\n")]),
 ("W6 polygon_to_shapely drops the holes (the sibling of seeded C08-12)", [(CONV, POLY,
   "    return geometry.Polygon(geom.coordinates[0])\n")]),
]

REWRITES = [
 ("X1 SimpleEncoder: table filled by a loop, encode by membership test, hash of the key precomputed", [(ENC, MAPPING,
   "        self._mapping = {}\n        for i, tag in enumerate(tags):\n            self._mapping[(tag.term, tag.value)] = i\n"),
   (ENC, ENCODE, "        key = (tag.term, tag.value)\n        if key in self._mapping:\n            return self._mapping[key]\n        return None\n")]),
 ("X2 polygon / multipolygon conversion with shapely's vectorised constructors, holes kept", [(CONV, POLY,
   "    rings = [shapely.linearrings(ring) for ring in geom.coordinates]\n"
   "    return shapely.polygons(rings[0], holes=rings[1:] or None)\n"),
   (CONV, MPOLY,
   "    parts = []\n    for poly in geom.coordinates:\n        rings = [shapely.linearrings(ring) for ring in poly]\n"
   "        parts.append(shapely.polygons(rings[0], holes=rings[1:] or None))\n    return shapely.multipolygons(parts)\n")]),
 ("X3 encode accepts any Tag subclass explicitly (isinstance fast path, same key)", [(ENC, ENCODE,
   "        if isinstance(tag, data.Tag):\n            term, value = tag.term, tag.value\n        else:\n"
   "            term, value = getattr(tag, 'term'), getattr(tag, 'value')\n        return self._mapping.get((term, value))\n")]),
]


def sh(cmd):
    return subprocess.run(cmd, shell=True, capture_output=True, text=True, executable="/bin/bash")


def run(kind, name, edits):
    saved = {}
    try:
        for path, old, new in edits:
            full = os.path.join(R, path)
            cur = open(full).read()
            saved.setdefault(full, cur)
            assert cur.count(old) == 1, (name, path, cur.count(old))
            open(full, "w").write(cur.replace(old, new))
        t = sh(f"cd {R} && PYTHONPATH={R}/src /venv/bin/python -m pytest -q -p no:cacheprovider tests/test_evaluation tests/test_data tests/test_geometry 2>&1 | tail -1")
        t0 = time.time()
        sh(f"rm -rf {V}/replays")
        c = sh(f"cd {V} && VERIF_EVIDENCE_DIR={V}/.run/ev-mut SOUNDEVENT_SRC={R}/src ./check C08 --tier quick 2>&1 | grep '^VIOLATION' | head -3; echo rc=${{PIPESTATUS[0]}}")
        first = ""
        rp = os.path.join(V, "replays")
        if os.path.isdir(rp) and os.listdir(rp):
            fn = sorted(os.listdir(rp))[0]
            r = json.load(open(os.path.join(rp, fn)))
            first = f"{fn}: {r['kind']}/{r['op']}: {r['detail'][:260]}"
        lines = c.stdout.strip().splitlines()
        rc = lines[-1] if lines else "?"
        nf = sum("no-failing-input-found" in l for l in lines)
        print(f"[{kind}] {name}\n      repo tests: {t.stdout.strip()[-50:]}\n      check: {rc} ({time.time()-t0:.0f}s)"
              f"{' no-failing-input-found x' + str(nf) if nf else ''} {first}", flush=True)
    finally:
        for full, cur in saved.items():
            open(full, "w").write(cur)


if __name__ == "__main__":
    only = sys.argv[1:] or None
    for kind, items in (("mutant", MUTANTS), ("rewrite", REWRITES)):
        for name, edits in items:
            if only and not any(o in name for o in only):
                continue
            run(kind, name, edits)
