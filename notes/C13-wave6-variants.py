"""follow-up (wave 6): what a call aborted by an exception of the comparison callable may leave behind.  Mutants (M*)
and harmless rewrites (W*) as text substitutions on src/soundevent/geometry/operations.py
(runner: VARIANTS=C13-wave6-variants.py notes/C13-followup3-run.py)"""
LOOP = '''    col = []
    row = []
    values = []
    for (index1, se1), (index2, se2) in combinations(
        enumerate(sound_events), 2
    ):
        if not comparison_fn(se1, se2):
            continue

        col.extend([index1, index2])
        row.extend([index2, index1])
        values.extend([1, 1])
'''
HELPER_DEF = '''def _compute_similarity_matrix(
    sound_events: Sequence[data.SoundEvent],
    comparison_fn: Callable[[data.SoundEvent, data.SoundEvent], bool],
) -> sparse.coo_array:'''
CALL = '''    similarity_matrix = _compute_similarity_matrix(
        sound_events,
        comparison_fn,
    )
'''
RET = "    return list(sequences.values())\n"
V = {}
# M1: "resume" - similar pairs found so far are remembered by uuid pair until a call completes; a later call takes
# remembered pairs as similar without asking the comparison function
V["M1-resume-by-uuid"] = [(HELPER_DEF, "_FOUND_SO_FAR: set = set()\n\n\n" + HELPER_DEF), (LOOP, '''    col = []
    row = []
    values = []
    for (index1, se1), (index2, se2) in combinations(
        enumerate(sound_events), 2
    ):
        key = (se1.uuid, se2.uuid)
        if key not in _FOUND_SO_FAR:
            if not comparison_fn(se1, se2):
                continue
            _FOUND_SO_FAR.add(key)

        col.extend([index1, index2])
        row.extend([index2, index1])
        values.extend([1, 1])
    _FOUND_SO_FAR.clear()
''')]
# M2: a re-entrancy flag that is reset only when the call completes; a call that finds the flag set takes the
# "nested call" shortcut: every event on its own
V["M2-busy-flag"] = [(HELPER_DEF, "_BUSY = [False]\n\n\n" + HELPER_DEF),
                     (CALL, '''    if _BUSY[0]:
        _BUSY[0] = False
        return [data.Sequence(sound_events=[se]) for se in sound_events]
    _BUSY[0] = True
''' + CALL + "    _BUSY[0] = False\n")]
# M3: an exception of the comparison function counts as "not similar"
V["M3-swallow"] = [("        if not comparison_fn(se1, se2):\n            continue\n", '''        try:
            if not comparison_fn(se1, se2):
                continue
        except Exception:
            continue
''')]
# M4: answers drawn through map(): a StopIteration raised by the comparison function ends the loop silently
V["M4-map-stopiteration"] = [(LOOP, '''    col = []
    row = []
    values = []
    pairs = list(combinations(range(len(sound_events)), 2))
    answers = map(lambda p: comparison_fn(sound_events[p[0]], sound_events[p[1]]), pairs)
    for (index1, index2), similar in zip(pairs, answers):
        if not similar:
            continue

        col.extend([index1, index2])
        row.extend([index2, index1])
        values.extend([1, 1])
''')]
# M5: the seeded buffers, emptied at the START of a call only when the previous call "finished" (flag)
V["M5-label-scratch"] = [(HELPER_DEF, "_LINKS: list = []\n\n\n" + HELPER_DEF), (LOOP, '''    col = []
    row = []
    values = []
    links = _LINKS
    for (index1, se1), (index2, se2) in combinations(
        enumerate(sound_events), 2
    ):
        if not comparison_fn(se1, se2):
            continue
        links.append((index1, index2))
    rows = len(sound_events)
    for index1, index2 in links:
        if index2 >= rows:
            continue
        col.extend([index1, index2])
        row.extend([index2, index1])
        values.extend([1, 1])
    del links[:]
''')]
# ------------------------------------------------------------------ harmless
# W1: the seeded buffers, emptied in a finally clause
V["W1-buffers-finally"] = [(HELPER_DEF, "_COL: list = []\n_ROW: list = []\n\n\n" + HELPER_DEF), (LOOP, '''    col_buf, row_buf = _COL, _ROW
    try:
        for (index1, se1), (index2, se2) in combinations(
            enumerate(sound_events), 2
        ):
            if not comparison_fn(se1, se2):
                continue

            col_buf.extend([index1, index2])
            row_buf.extend([index2, index1])
        col, row = list(col_buf), list(row_buf)
        values = [1] * len(col)
    finally:
        del col_buf[:], row_buf[:]
''')]
# W2: the similar pairs come from a generator function: a StopIteration of the comparison function reaches the caller
# as RuntimeError (PEP 479) - another exception type, still an exception
V["W2-generator-pairs"] = [(HELPER_DEF, '''def _similar_pairs(sound_events, comparison_fn):
    for (index1, se1), (index2, se2) in combinations(
        enumerate(sound_events), 2
    ):
        if comparison_fn(se1, se2):
            yield index1, index2


''' + HELPER_DEF), (LOOP, '''    col = []
    row = []
    values = []
    for index1, index2 in _similar_pairs(sound_events, comparison_fn):
        col.extend([index1, index2])
        row.extend([index2, index1])
        values.extend([1, 1])
''')]
# W3: the exception of the comparison function is re-raised with context
V["W3-reraise-wrapped"] = [("        if not comparison_fn(se1, se2):\n            continue\n", '''        try:
            similar = comparison_fn(se1, se2)
        except Exception as err:
            raise RuntimeError(f"comparison failed on events {index1} and {index2}") from err
        if not similar:
            continue
''')]
