#!/venv/bin/python
"""Review R2-C02: behaviour-preserving rewrites (must exit 0) and subtle mutants (must exit 1 with a concrete replay)
of src/soundevent/io/aoef/*.py, run against a scratch worktree of /repo.

  git -C /repo worktree add --detach /work/repo-C02 HEAD
  /venv/bin/python notes/C02-review-mutants.py [name ...]      (no name: all; `R` / `M`: all rewrites / all mutants)

Every edit is (file relative to src/soundevent/io/aoef, old text, new text); `old` must occur exactly once.
The repo's own tests of the area (tests/test_io) are run with each variant: a mutant that they kill is not realistic.
"""
import json
import os
import subprocess
import sys

VERIF = os.environ.get("VERIF_DIR") or os.path.dirname(os.path.dirname(os.path.abspath(__file__)))
SCRATCH = os.environ.get("SCRATCH_REPO", "/work/repo-C02")
AOEF = SCRATCH + "/src/soundevent/io/aoef/"

TO_AOEF = '''        obj_id = self.get_id(obj)

        if obj_id not in self._aoef_store:
            aoef_obj = self.assemble_aoef(obj, obj_id)
            self._aoef_store[obj_id] = aoef_obj

        if obj_id not in self._soundevent_store:
            self._soundevent_store[obj_id] = obj

        return self._aoef_store[obj_id]
'''
SEQ_PARENT = '''        parent = None
        if obj.parent:
            parent = self.to_aoef(obj.parent).uuid
'''
NOTE_USER = '''        user_id = None
        if note.created_by is not None:
            user_id = self._user_adapter.to_aoef(note.created_by).uuid
'''
TASK_LOOP = '''        for badge in obj.status_badges or []:
            if badge.owner is not None:
                self.user_adapter.to_aoef(badge.owner)

'''
REC_OWNERS = '''        owners = [
            self._user_adapter.to_aoef(owner).uuid
            for owner in obj.owners or []
        ]
'''
PROJ_HEAD = '''        tasks = [
            self.annotation_task_adapter.to_aoef(task)
            for task in obj.tasks or []
        ]

        project_tags = [
            self.tag_adapter.to_aoef(tag).id for tag in obj.annotation_tags
        ]

        annotation_set = super().to_aoef(obj)
'''
PROJ_LISTS = '''            users=self.user_adapter.values(),
            tags=self.tag_adapter.values(),
            recordings=self.recording_adapter.values(),
            sound_events=self.sound_event_adapter.values(),
            sequences=self.sequence_adapter.values(),
            clips=self.clip_adapter.values(),
            sound_event_annotations=self.sound_event_annotations_adapter.values(),
            sequence_annotations=self.sequence_annotations_adapter.values(),
            clip_annotations=annotation_set.clip_annotations,
            created_on=obj.created_on,
            name=obj.name,
            description=obj.description,
            instructions=obj.instructions,
'''
PROJ_LISTS_SNAPSHOT = '''            users=annotation_set.users,
            tags=annotation_set.tags,
            recordings=annotation_set.recordings,
            sound_events=annotation_set.sound_events,
            sequences=annotation_set.sequences,
            clips=annotation_set.clips,
            sound_event_annotations=annotation_set.sound_event_annotations,
            sequence_annotations=annotation_set.sequence_annotations,
            clip_annotations=annotation_set.clip_annotations,
            created_on=obj.created_on,
            name=obj.name,
            description=obj.description,
            instructions=obj.instructions,
'''
TAG_KEY = "        return (data.key_from_term(obj.term), obj.value)\n"
CP_TAGS = '''                    for predicted_tag in obj.tags
                    if (tag := self.tag_adapter.to_aoef(predicted_tag.tag))
                    is not None
'''
TO_AEOF_LOOP = '''    for _, data_cls, adapter_cls in ADAPTERS:
        if isinstance(obj, data_cls):
            adapter = adapter_cls(audio_dir=audio_dir)
'''
CA_SEQS = '''                if obj.sequences
                else None
            ),
            notes=(
'''
EV_LOOP = '''        for evaluated_clip in obj.clip_evaluations:
            self.clip_evaluation_adapter.to_aoef(evaluated_clip)
'''

REWRITES = {
    # tag ids allocated 1-based: still unique, by content, resolvable (the property does not pin the numbering)
    # (one repo test pins the first id to 0, so this one is property-preserving rather than test-preserving)
    "R1-tag-ids-one-based": [
        ("tag.py", "        return len(self._mapping)\n", "        return len(self._mapping) + 1\n"),
    ],
    # ids from a counter (largest id handed out so far + 1)
    "R1b-tag-ids-from-max": [
        ("tag.py", "        return len(self._mapping)\n", "        return max(self._mapping.values(), default=-1) + 1\n"),
    ],
    # tag ids from the size of the object store (equal to the key table whenever to_aoef is the only entry point)
    "R2-tag-id-from-store-size-rename-locals": [
        ("tag.py", "        return len(self._mapping)\n", "        return len(self._aoef_store)\n"),
        ("adapters.py", TO_AOEF,
         "        key = self.get_id(obj)\n        store = self._aoef_store\n        if key not in store:\n"
         "            store[key] = self.assemble_aoef(obj, key)\n        self._soundevent_store.setdefault(key, obj)\n"
         "        return store[key]\n"),
    ],
    # the project adapter takes the lists from the snapshot of super().to_aoef(): tasks and project tags were converted
    # before, so the snapshot is complete
    "R3-project-lists-from-super-snapshot": [
        ("annotation_project.py", PROJ_LISTS, PROJ_LISTS_SNAPSHOT),
    ],
    # sequence parent: explicit `is not None`, ancestors converted root-first by a loop instead of recursion
    "R4-sequence-ancestors-iteratively": [
        ("sequence.py", SEQ_PARENT,
         "        chain = []\n        node = obj.parent\n        while node is not None:\n            chain.append(node)\n"
         "            node = node.parent\n        for node in reversed(chain[1:]):\n            self.to_aoef(node)\n"
         "        parent = self.to_aoef(chain[0]).uuid if chain else None\n"),
    ],
    # task adapter: the pre-registration loop is redundant (the comprehension registers the owners itself)
    "R5-task-drop-redundant-preloop-reorder": [
        ("annotation_task.py", TASK_LOOP, ""),
        ("annotation_project.py", PROJ_HEAD,
         "        project_tags = [\n            self.tag_adapter.to_aoef(tag).id for tag in obj.annotation_tags\n        ]\n\n"
         "        tasks = []\n        for task in obj.tasks or []:\n            tasks.append(self.annotation_task_adapter.to_aoef(task))\n\n"
         "        annotation_set = super().to_aoef(obj)\n"),
    ],
    # values(): other emptiness test; get_id: dict.setdefault; error messages changed
    "R6-values-len-getid-setdefault": [
        ("adapters.py", "        if not self._aoef_store:\n            return None\n",
         "        if len(self._aoef_store) == 0:\n            return None\n"),
        ("adapters.py", "        if key not in self._mapping:\n            obj_id = self.get_new_id(obj)\n"
                        "            self._mapping[key] = obj_id\n\n        obj_id = self._mapping[key]\n",
         "        if key not in self._mapping:\n            self._mapping[key] = self.get_new_id(obj)\n"
         "        obj_id = self._mapping.get(key)\n"),
        ("clip.py", 'f"Recording with ID {obj.recording} not found."', 'f"unknown recording {obj.recording}"'),
    ],
    # evaluation set: users etc. from the snapshot, only the tag list re-read after the evaluation tags; note adapter
    # and recording adapter: independent statements reordered (owners before notes before tags)
    "R7-evalset-partial-snapshot-recording-reorder": [
        ("evaluation_set.py", "            users=self.user_adapter.values(),\n", "            users=annotation_set.users,\n"),
        ("evaluation_set.py", "            clips=self.clip_adapter.values(),\n", "            clips=annotation_set.clips,\n"),
        ("recording.py", "        tag_ids = [self._tag_adapter.to_aoef(tag).id for tag in obj.tags]\n\n"
                         "        notes = [self._note_adapter.to_aoef(note) for note in obj.notes]\n\n" + REC_OWNERS,
         REC_OWNERS + "\n        notes = [self._note_adapter.to_aoef(note) for note in obj.notes]\n\n"
         "        tag_ids = [self._tag_adapter.to_aoef(tag).id for tag in obj.tags]\n"),
    ],
    # the evaluation adapter converts the clip evaluations in reverse order and through a comprehension
    "R8-evaluation-members-reversed": [
        ("evaluation.py", EV_LOOP,
         "        _ = [\n            self.clip_evaluation_adapter.to_aoef(evaluated_clip)\n"
         "            for evaluated_clip in reversed(list(obj.clip_evaluations))\n        ]\n"),
    ],
    # users keep a (correct) fast path: an already stored user is returned without going through get_id again
    "R9-user-fast-path-stored": [
        ("user.py", "class UserAdapter(DataAdapter[data.User, UserObject, UUID, UUID]):\n",
         "class UserAdapter(DataAdapter[data.User, UserObject, UUID, UUID]):\n"
         "    def to_aoef(self, obj: data.User) -> UserObject:\n        stored = self._aoef_store.get(obj.uuid)\n"
         "        if stored is not None and obj.uuid in self._mapping:\n            return stored\n"
         "        return super().to_aoef(obj)\n\n"),
    ],
    # modern annotations (PEP 604 / builtin generics / abstract Sequence) and reordered fields in object classes
    "R10-annotations-modernised-fields-reordered": [
        ("sequence.py", "    sound_events: List[UUID]\n    features: Optional[Dict[str, float]] = None\n    parent: Optional[UUID] = None\n",
         "    parent: UUID | None = None\n    sound_events: list[UUID]\n    features: Optional[Dict[str, float]] = None\n"),
        ("recording.py", "    tags: Optional[List[int]] = None\n", "    tags: Optional[typing.Sequence[int]] = None\n"),
        ("recording.py", "import datetime\n", "import datetime\nimport typing\n"),
        ("recording.py", "    owners: Optional[List[UUID]] = None\n", "    owners: list[UUID] | None = None\n"),
        ("clip.py", "    uuid: UUID\n    recording: UUID\n    start_time: float\n    end_time: float\n",
         "    uuid: UUID\n    start_time: float\n    end_time: float\n    recording: UUID\n"),
    ],
    # the sequence adapter lists root sequences first, then the others in conversion order (still parents first)
    "R11-sequence-values-roots-first": [
        ("sequence.py", "    def assemble_soundevent(\n        self,\n        obj: SequenceObject,\n    ) -> data.Sequence:\n",
         "    def values(self):\n        vals = super().values()\n        if vals is None:\n            return None\n"
         "        return [s for s in vals if s.parent is None] + [s for s in vals if s.parent is not None]\n\n"
         "    def assemble_soundevent(\n        self,\n        obj: SequenceObject,\n    ) -> data.Sequence:\n"),
    ],
}


MUTANTS = {
    # every Python Tag object gets its own id: the same (label, value) is defined several times
    "M1-tag-keyed-by-object-identity": [
        ("tag.py", TAG_KEY, "        return (data.key_from_term(obj.term), obj.value, id(obj))\n"),
    ],
    # the note author is only given an id, not written (cf. seeded C02-2, here for users)
    "M2-note-author-get-id": [
        ("note.py", NOTE_USER,
         "        user_id = None\n        if note.created_by is not None:\n"
         "            user_id = self._user_adapter.get_id(note.created_by)\n"),
    ],
    # badge owners: pre-registration loop dropped and the owner's id taken without converting
    "M3-badge-owner-get-id": [
        ("annotation_task.py", TASK_LOOP, ""),
        ("annotation_task.py", "                            self.user_adapter.to_aoef(badge.owner).uuid\n",
         "                            self.user_adapter.get_id(badge.owner)\n"),
    ],
    # deep parent chains are not recursed into (`avoid deep recursion`): depth >= 3 leaves a dangling parent
    "M4-sequence-chain-depth-limit": [
        ("sequence.py", SEQ_PARENT,
         "        parent = None\n        if obj.parent:\n            if obj.parent.parent is not None and obj.parent.parent.parent is not None:\n"
         "                parent = obj.parent.uuid\n            else:\n                parent = self.to_aoef(obj.parent).uuid\n"),
    ],
    # the slot of an object is reserved before it is assembled (cycle guard): insertion order becomes pre-order,
    # a child sequence is listed before its parent
    "M5-slot-reserved-before-assembly": [
        ("adapters.py", "            aoef_obj = self.assemble_aoef(obj, obj_id)\n            self._aoef_store[obj_id] = aoef_obj\n",
         "            self._aoef_store[obj_id] = None  # type: ignore\n"
         "            self._aoef_store[obj_id] = self.assemble_aoef(obj, obj_id)\n"),
    ],
    # users are keyed by e-mail when they have one: two users with one address collapse
    "M6-user-keyed-by-email": [
        ("user.py", "class UserAdapter(DataAdapter[data.User, UserObject, UUID, UUID]):\n",
         "class UserAdapter(DataAdapter[data.User, UserObject, UUID, UUID]):\n"
         "    @classmethod\n    def _get_soundevent_key(cls, obj: data.User):\n        return obj.email or obj.uuid\n\n"),
    ],
    # predicted tags of a clip with score 0 are skipped (truthiness of the score)
    "M7-clip-predicted-tag-zero-score-skipped": [
        ("clip_predictions.py", CP_TAGS,
         "                    for predicted_tag in obj.tags\n                    if predicted_tag.score\n"
         "                    and (tag := self.tag_adapter.to_aoef(predicted_tag.tag))\n                    is not None\n"),
    ],
    # adapters are reused between saves of one type and audio directory (module-level cache)
    "M8-adapter-instance-cached-per-type": [
        ("__init__.py", TO_AEOF_LOOP,
         "    for _, data_cls, adapter_cls in ADAPTERS:\n        if isinstance(obj, data_cls):\n"
         "            _k = (adapter_cls, str(audio_dir))\n            if _k not in _ADAPTER_CACHE:\n"
         "                _ADAPTER_CACHE[_k] = adapter_cls(audio_dir=audio_dir)\n            adapter = _ADAPTER_CACHE[_k]\n"),
        ("__init__.py", 'AOEF_VERSION = "1.1.0"\n', 'AOEF_VERSION = "1.1.0"\n_ADAPTER_CACHE: dict = {}\n'),
    ],
    # tags keyed by value only
    "M9-tag-keyed-by-value": [
        ("tag.py", TAG_KEY, "        return obj.value\n"),
    ],
    # sequence annotations of a clip annotation are written only when it also has sound event annotations
    "M10-clip-annotation-sequences-need-sound-events": [
        ("clip_annotations.py", CA_SEQS, "                if obj.sequences and obj.sound_events\n                else None\n            ),\n            notes=(\n"),
    ],
    # assembled recordings are memoised by uuid across adapter instances: a later save does not register the
    # recording's owners / tags / note authors with its own adapters
    "M11-recording-objects-memoised-across-saves": [
        ("recording.py", "class RecordingAdapter(\n", "_ASSEMBLED: dict = {}\n\n\nclass RecordingAdapter(\n"),
        ("recording.py", "        tag_ids = [self._tag_adapter.to_aoef(tag).id for tag in obj.tags]\n",
         "        _k = (obj.uuid, str(self.audio_dir))\n        if _k in _ASSEMBLED:\n            return _ASSEMBLED[_k]\n"
         "        tag_ids = [self._tag_adapter.to_aoef(tag).id for tag in obj.tags]\n"),
        ("recording.py", "        return RecordingObject(\n            uuid=obj.uuid,\n            path=path,\n",
         "        _ASSEMBLED[_k] = RecordingObject(\n            uuid=obj.uuid,\n            path=path,\n"),
        ("recording.py", "            license=obj.license,\n        )\n\n    def assemble_soundevent",
         "            license=obj.license,\n        )\n        return _ASSEMBLED[_k]\n\n    def assemble_soundevent"),
    ],
    # with an audio directory the owners take a fast path that does not register them
    # (first version of this mutant assigned the fast-path list *after* the registering comprehension had run:
    #  an equivalent mutant, correctly not reported)
    "M12-owners-fast-path-with-audio-dir": [
        ("recording.py", REC_OWNERS,
         "        if self.audio_dir is not None:\n            owners = [owner.uuid for owner in obj.owners or []]\n"
         "        else:\n            owners = [\n                self._user_adapter.to_aoef(owner).uuid\n"
         "                for owner in obj.owners or []\n            ]\n"),
    ],
    # the model run drops the sequence list (prediction sets keep it)
    "M13-model-run-omits-sequences": [
        ("model_run.py", "            sequences=self.sequence_adapter.values(),\n", ""),
    ],
    # tasks are converted after the snapshot of the lists was taken: clips / users reachable only through a task
    "M14-project-tasks-after-snapshot": [
        ("annotation_project.py", PROJ_HEAD,
         "        project_tags = [\n            self.tag_adapter.to_aoef(tag).id for tag in obj.annotation_tags\n        ]\n\n"
         "        annotation_set = super().to_aoef(obj)\n\n"
         "        tasks = [\n            self.annotation_task_adapter.to_aoef(task)\n            for task in obj.tasks or []\n        ]\n"),
        ("annotation_project.py", PROJ_LISTS, PROJ_LISTS_SNAPSHOT),
    ],
    # a sequence's sound events are given ids only (not converted) when the sequence has a parent
    "M15-child-sequence-sound-events-get-id": [
        ("sequence.py", "            self.soundevent_adapter.to_aoef(sound_event).uuid\n",
         "            (\n                self.soundevent_adapter.get_id(sound_event)\n                if parent is not None\n"
         "                else self.soundevent_adapter.to_aoef(sound_event).uuid\n            )\n"),
    ],
    # the tag table keeps growing across saves *and* ids are taken from the per-save store size: ids collide
    "M16-tag-mapping-shared-id-from-store": [
        ("tag.py", "class TagAdapter(DataAdapter[data.Tag, TagObject, Tuple[str, str], int]):  # type: ignore\n",
         "_TAG_IDS: dict = {}\n\n\nclass TagAdapter(DataAdapter[data.Tag, TagObject, Tuple[str, str], int]):  # type: ignore\n"
         "    def __init__(self):\n        super().__init__()\n        self._mapping = _TAG_IDS\n\n"),
        ("tag.py", "        return len(self._mapping)\n", "        return len(self._aoef_store)\n"),
    ],
    # loader of annotation sets: clips registered before recordings... (strict reference: raises) -- not subtle, control
    # loader of prediction sets: users after recordings (lenient reference: owners silently dropped)
    "M17-loader-users-after-recordings": [
        ("prediction_set.py", "        for user in obj.users or []:\n            self.user_adapter.to_soundevent(user)\n\n"
                              "        for recording in obj.recordings or []:\n            self.recording_adapter.to_soundevent(recording)\n",
         "        for recording in obj.recordings or []:\n            self.recording_adapter.to_soundevent(recording)\n\n"
         "        for user in obj.users or []:\n            self.user_adapter.to_soundevent(user)\n"),
    ],
    # loader: a sequence resolves its parent only when the parent has sound events of its own
    "M18-loader-sequences-reversed": [
        ("evaluation.py", "        for sequence in obj.sequences or []:\n            self.sequence_adapter.to_soundevent(sequence)\n",
         "        for sequence in reversed(obj.sequences or []):\n            self.sequence_adapter.to_soundevent(sequence)\n"),
    ],
    # the creator of a sound event annotation is skipped when the user has no name, username or e-mail
    "M19-sound-event-annotation-creator-truthiness-of-name": [
        ("sound_event_annotation.py", "                self.user_adapter.to_aoef(obj.created_by).uuid\n                if obj.created_by\n",
         "                self.user_adapter.to_aoef(obj.created_by).uuid\n                if obj.created_by and (obj.created_by.username or obj.created_by.name or obj.created_by.email)\n"),
    ],
    # sequence predictions: the sequence is converted only when the prediction has tags (otherwise only its id is taken)
    "M20-sequence-prediction-without-tags-get-id": [
        ("sequence_prediction.py", "            sequence=self.sequence_adapter.to_aoef(obj.sequence).uuid,\n",
         "            sequence=(\n                self.sequence_adapter.to_aoef(obj.sequence).uuid\n                if obj.tags\n"
         "                else self.sequence_adapter.get_id(obj.sequence)\n            ),\n"),
    ],
    # evaluation: matches are converted before the clip annotations / predictions and only their ids are kept for
    # unmatched sources (source without target): the prediction is then defined only if the clip prediction lists it
    # -- it always does (validator), so instead: the match list is written only for clip evaluations with a score
    "M21-clip-evaluation-matches-need-score": [
        ("clip_evaluation.py", "                if obj.matches\n                else None\n",
         "                if obj.matches and obj.score is not None\n                else None\n"),
    ],
    # the task's clip is only given an id when the task has no status badge yet
    "M22-task-without-badges-clip-get-id": [
        ("annotation_task.py", "            clip=self.clip_adapter.to_aoef(obj.clip).uuid,\n",
         "            clip=(\n                self.clip_adapter.to_aoef(obj.clip).uuid\n                if obj.status_badges\n"
         "                else self.clip_adapter.get_id(obj.clip)\n            ),\n"),
    ],
    # sequences remember the parent's uuid without converting it when the parent has the same sound events
    "M23-parent-with-same-sound-events-not-converted": [
        ("sequence.py", SEQ_PARENT,
         "        parent = None\n        if obj.parent:\n            if [s.uuid for s in obj.parent.sound_events] == [s.uuid for s in obj.sound_events]:\n"
         "                parent = obj.parent.uuid\n            else:\n                parent = self.to_aoef(obj.parent).uuid\n"),
    ],
    # the evaluation set converts its evaluation tags through get_id when the set has no clip annotations
    "M24-evaluation-tags-get-id-when-empty": [
        ("evaluation_set.py", "            self.tag_adapter.to_aoef(tag).id for tag in obj.evaluation_tags\n",
         "            (self.tag_adapter.to_aoef(tag).id if obj.clip_annotations else self.tag_adapter.get_id(tag))\n"
         "            for tag in obj.evaluation_tags\n"),
    ],
    # notes: the author is registered only for notes that are issues, otherwise only its uuid is copied
    "M25-note-author-registered-only-for-issues": [
        ("note.py", NOTE_USER,
         "        user_id = None\n        if note.created_by is not None:\n            if note.is_issue:\n"
         "                user_id = self._user_adapter.to_aoef(note.created_by).uuid\n            else:\n"
         "                user_id = note.created_by.uuid\n"),
    ],
    # a second save with the same audio directory reuses the user table of the first (class-level store)
    "M26-user-store-shared-between-instances": [
        ("user.py", "class UserAdapter(DataAdapter[data.User, UserObject, UUID, UUID]):\n",
         "_USERS: dict = {}\n\n\nclass UserAdapter(DataAdapter[data.User, UserObject, UUID, UUID]):\n"
         "    def __init__(self):\n        super().__init__()\n        self._aoef_store = _USERS\n\n"),
    ],
    # the evaluation document omits the sequence annotation list
    "M27-evaluation-omits-sequence-annotations": [
        ("evaluation.py", "            sequence_annotations=self.sequence_annotation_adapter.values(),\n", ""),
    ],
    # wiring: the task adapter of a project gets a clip adapter of its own
    "M28-task-adapter-own-clip-adapter": [
        ("annotation_project.py", "            or AnnotationTaskAdapter(\n                self.clip_adapter,\n",
         "            or AnnotationTaskAdapter(\n                type(self.clip_adapter)(self.recording_adapter),\n"),
    ],
    # recordings keyed by their path ('the same file once')
    "M29-recording-keyed-by-path": [
        ("recording.py", "    def assemble_aoef(\n        self,\n        obj: data.Recording,\n",
         "    @classmethod\n    def _get_soundevent_key(cls, obj: data.Recording):\n        return str(obj.path)\n\n"
         "    def assemble_aoef(\n        self,\n        obj: data.Recording,\n"),
    ],
    # assembled tag objects are memoised by content across saves: a later save reuses an object carrying the id of an
    # earlier one, which can coincide with a fresh id
    "M30-tag-objects-memoised-by-content": [
        ("tag.py", "class TagAdapter(DataAdapter[data.Tag, TagObject, Tuple[str, str], int]):  # type: ignore\n",
         "_TAG_OBJECTS: dict = {}\n\n\nclass TagAdapter(DataAdapter[data.Tag, TagObject, Tuple[str, str], int]):  # type: ignore\n"),
        ("tag.py", "        return TagObject(\n            id=obj_id,\n            key=data.key_from_term(obj.term),\n            value=obj.value,\n        )\n",
         "        _k = (data.key_from_term(obj.term), obj.value)\n        if _k not in _TAG_OBJECTS:\n"
         "            _TAG_OBJECTS[_k] = TagObject(id=obj_id, key=_k[0], value=obj.value)\n        return _TAG_OBJECTS[_k]\n"),
    ],
    # the sequence adapter writes its list sorted by uuid ('stable output')
    "M31-sequence-values-sorted-by-uuid": [
        ("sequence.py", "    def assemble_soundevent(\n        self,\n        obj: SequenceObject,\n    ) -> data.Sequence:\n",
         "    def values(self):\n        vals = super().values()\n        return None if vals is None else sorted(vals, key=lambda s: str(s.uuid))\n\n"
         "    def assemble_soundevent(\n        self,\n        obj: SequenceObject,\n    ) -> data.Sequence:\n"),
    ],
    # sound events of a sequence are registered only for the first sequence that mentions them (set of seen uuids kept
    # on the class): a second save in the process does not define them
    "M32-sequence-sound-events-seen-set-on-class": [
        ("sequence.py", "class SequenceAdapter(DataAdapter[data.Sequence, SequenceObject, UUID, UUID]):\n",
         "class SequenceAdapter(DataAdapter[data.Sequence, SequenceObject, UUID, UUID]):\n    _seen: set = set()\n\n"),
        ("sequence.py", "            self.soundevent_adapter.to_aoef(sound_event).uuid\n",
         "            (\n                sound_event.uuid\n                if sound_event.uuid in self._seen\n"
         "                else (self._seen.add(sound_event.uuid) or self.soundevent_adapter.to_aoef(sound_event).uuid)\n            )\n"),
    ],
    # --- histories and unusual construction (HISTORIES.md)
    # the assembled recording is memoised per *Python object* (module-level, keyed by id): visible only when the same
    # live object is saved again in the process
    "H1-recording-memoised-by-object-identity": [
        ("recording.py", "class RecordingAdapter(\n", "_BY_OBJECT: dict = {}\n\n\nclass RecordingAdapter(\n"),
        ("recording.py", "        tag_ids = [self._tag_adapter.to_aoef(tag).id for tag in obj.tags]\n",
         "        _hit = _BY_OBJECT.get(id(obj))\n        if _hit is not None and _hit[0] is obj and _hit[2] == str(self.audio_dir):\n"
         "            return _hit[1]\n        tag_ids = [self._tag_adapter.to_aoef(tag).id for tag in obj.tags]\n"),
        ("recording.py", "        return RecordingObject(\n            uuid=obj.uuid,\n            path=path,\n",
         "        _res = RecordingObject(\n            uuid=obj.uuid,\n            path=path,\n"),
        ("recording.py", "            license=obj.license,\n        )\n\n    def assemble_soundevent",
         "            license=obj.license,\n        )\n        _BY_OBJECT[id(obj)] = (obj, _res, str(self.audio_dir))\n"
         "        return _res\n\n    def assemble_soundevent"),
    ],
    # an `exclude` given to one save becomes the default of the following ones
    "H3-exclude-option-leaks-into-later-saves": [
        ("__init__.py", "IncEx = Union[Set[int], Set[str], Dict[int, Any], Dict[str, Any], None]\n",
         "IncEx = Union[Set[int], Set[str], Dict[int, Any], Dict[str, Any], None]\n_LAST_EXCLUDE: list = [None]\n"),
        ("__init__.py", "    aoef_object = to_aeof(obj, audio_dir=audio_dir)\n",
         "    aoef_object = to_aeof(obj, audio_dir=audio_dir)\n    if exclude is not None:\n        _LAST_EXCLUDE[0] = exclude\n"
         "    exclude = _LAST_EXCLUDE[0]\n"),
    ],
    # the recording of a sound event is converted only when it is a plain `Recording` (exact class), else only its id
    "H6-nested-subclass-instances-only-get-an-id": [
        ("sound_event.py", "            recording=self.recording_adapter.to_aoef(obj.recording).uuid,\n",
         "            recording=(\n                self.recording_adapter.to_aoef(obj.recording).uuid\n"
         "                if type(obj.recording) is data.Recording\n                else self.recording_adapter.get_id(obj.recording)\n            ),\n"),
    ],
    # matches given as a tuple (the field is a Sequence) are not written
    "H7-matches-only-when-a-list": [
        ("clip_evaluation.py", "                if obj.matches\n                else None\n",
         "                if obj.matches and isinstance(obj.matches, list)\n                else None\n"),
    ],
}


# changes of *shape* (robustness): the check must give a verdict (never exit 2); a tie that cannot be re-established
# is a broken obligation (`no-failing-input-found` unless the property really fails)
SHAPES = {
    # a new reference field nothing fills: the reference table no longer matches the declared fields
    "S1-new-reference-field-unfilled": [
        ("clip.py", "    features: Optional[Dict[str, float]] = None\n\n\nclass ClipAdapter",
         "    features: Optional[Dict[str, float]] = None\n    annotator: Optional[UUID] = None\n\n\nclass ClipAdapter"),
    ],
    # `get_id` is renamed throughout the package (harmless): the adapter protocol tie cannot be driven any more
    "S2-get-id-renamed-everywhere": [
        ("*", "get_id(", "lookup_id("),
    ],
    # the recording-set schema loses its `users` list: pydantic drops the keyword silently, owners dangle
    "S3-recording-set-schema-without-users": [
        ("recording_set.py", "    tags: Optional[List[TagObject]] = None\n    users: Optional[List[UserObject]] = None\n",
         "    tags: Optional[List[TagObject]] = None\n"),
    ],
    # a new reference field that *is* filled, by an id that nothing defines: the first owner's uuid as `contact`,
    # taken without converting the user, in the sound event object (whose recording is written by its own adapter)
    "S4-new-reference-field-filled-dangling": [
        ("sound_event.py", "    features: Optional[Dict[str, float]] = None\n\n\nclass SoundEventAdapter",
         "    features: Optional[Dict[str, float]] = None\n    contact: Optional[UUID] = None\n\n\nclass SoundEventAdapter"),
        ("sound_event.py", "            geometry=obj.geometry,\n            uuid=obj.uuid,\n",
         "            geometry=obj.geometry,\n            uuid=obj.uuid,\n"
         "            contact=UUID(int=obj.uuid.int ^ 1),\n"),
    ],
    # tag ids are written negative (still unique and resolvable): the model's Nat ids cannot represent them
    "S5-negative-tag-ids": [
        ("tag.py", "        return len(self._mapping)\n", "        return -len(self._mapping) - 1\n"),
    ],
}

# ---- follow-up (wave 5): the top-level lists of a collection adapter (seeded C02-12 and its class)
EVAL_LOOP = """        for evaluated_clip in obj.clip_evaluations:
            self.clip_evaluation_adapter.to_aoef(evaluated_clip)

        return EvaluationObject("""
REWRITES.update({
    # the seeded change's shape, done right: the lists are collected per clip evaluation and de-duplicated by uuid
    "RW1-evaluation-lists-collected-and-deduplicated": [
        ("evaluation.py", EVAL_LOOP,
         "        collected_annotations, collected_predictions = {}, {}\n"
         "        for evaluated_clip in obj.clip_evaluations:\n"
         "            self.clip_evaluation_adapter.to_aoef(evaluated_clip)\n"
         "            a = self.clip_annotations_adapter.to_aoef(evaluated_clip.annotations)\n"
         "            p = self.clip_predictions_adapter.to_aoef(evaluated_clip.predictions)\n"
         "            collected_annotations.setdefault(a.uuid, a)\n"
         "            collected_predictions.setdefault(p.uuid, p)\n\n"
         "        return EvaluationObject("),
        ("evaluation.py", "            clip_annotations=self.clip_annotations_adapter.values(),\n",
         "            clip_annotations=list(collected_annotations.values()) or None,\n"),
        ("evaluation.py", "            clip_predictions=self.clip_predictions_adapter.values(),\n",
         "            clip_predictions=list(collected_predictions.values()) or None,\n"),
    ],
    # annotations first, predictions next, then the clip evaluations (last to first); the stores read into locals
    "RW2-evaluation-converted-in-three-passes": [
        ("evaluation.py", EVAL_LOOP,
         "        for evaluated_clip in obj.clip_evaluations:\n"
         "            self.clip_annotations_adapter.to_aoef(evaluated_clip.annotations)\n"
         "        for evaluated_clip in obj.clip_evaluations:\n"
         "            self.clip_predictions_adapter.to_aoef(evaluated_clip.predictions)\n"
         "        for evaluated_clip in reversed(list(obj.clip_evaluations)):\n"
         "            self.clip_evaluation_adapter.to_aoef(evaluated_clip)\n"
         "        stored_annotations = self.clip_annotations_adapter.values()\n"
         "        stored_predictions = self.clip_predictions_adapter.values()\n\n"
         "        return EvaluationObject("),
        ("evaluation.py", "            clip_annotations=self.clip_annotations_adapter.values(),\n",
         "            clip_annotations=stored_annotations,\n"),
        ("evaluation.py", "            clip_predictions=self.clip_predictions_adapter.values(),\n",
         "            clip_predictions=stored_predictions,\n"),
    ],
})
MUTANTS.update({
    # the matches listed per clip evaluation: a Match object shared by two clip evaluations is defined twice
    "W1-evaluation-matches-listed-per-clip-evaluation": [
        ("evaluation.py", "            matches=self.match_adapter.values(),\n",
         "            matches=[self.match_adapter.to_aoef(m) for e in obj.clip_evaluations for m in e.matches] or None,\n"),
    ],
    # C02-12 with a de-duplication of *adjacent* repeats only: [ce(A, P1), ce(B, Q), ce(A, P2)] defines A twice
    "W2-evaluation-clip-annotations-adjacent-repeats-only": [
        ("evaluation.py", EVAL_LOOP,
         "        for evaluated_clip in obj.clip_evaluations:\n"
         "            self.clip_evaluation_adapter.to_aoef(evaluated_clip)\n"
         "        listed = []\n"
         "        for evaluated_clip in obj.clip_evaluations:\n"
         "            a = self.clip_annotations_adapter.to_aoef(evaluated_clip.annotations)\n"
         "            if not listed or listed[-1].uuid != a.uuid:\n"
         "                listed.append(a)\n\n"
         "        return EvaluationObject("),
        ("evaluation.py", "            clip_annotations=self.clip_annotations_adapter.values(),\n",
         "            clip_annotations=listed or None,\n"),
    ],
    # recording sets / datasets: the owners listed recording by recording, then whoever else the store holds
    "W3-recording-set-users-listed-per-recording": [
        ("recording_set.py", "            users=self.user_adapter.values(),\n",
         "            users=(lambda own: (own + [u for u in self.user_adapter.values() or [] if u.uuid not in {o.uuid for o in own}]) or None)(\n"
         "                [self.user_adapter.to_aoef(u) for r in obj.recordings for u in r.owners or []]),\n"),
    ],
    # prediction sets / model runs: sound event predictions listed clip prediction by clip prediction
    "W4-prediction-set-sound-event-predictions-listed-per-clip": [
        ("prediction_set.py", "            sound_event_predictions=self.sound_event_prediction_adapter.values(),\n",
         "            sound_event_predictions=[self.sound_event_prediction_adapter.to_aoef(p) for c in obj.clip_predictions "
         "for p in c.sound_events] or None,\n"),
    ],
    # annotation sets / projects / evaluation sets: sequence annotations listed clip annotation by clip annotation
    "W5-annotation-set-sequence-annotations-listed-per-clip": [
        ("annotation_set.py", "            sequence_annotations=self.sequence_annotations_adapter.values(),\n",
         "            sequence_annotations=[self.sequence_annotations_adapter.to_aoef(a) for c in obj.clip_annotations "
         "for a in c.sequences] or None,\n"),
    ],
})


def sh(cmd, **kw):
    return subprocess.run(cmd, shell=True, stdout=subprocess.PIPE, stderr=subprocess.STDOUT, text=True, **kw)


def run_one(name, edits, seed=0, tests=True):
    sh(f"git -C {SCRATCH} checkout -q -- src")
    by_file = {}
    for fn, old, new in edits:
        if fn == "*":        # every occurrence in every file of the package
            for f in sorted(os.listdir(AOEF)):
                if f.endswith(".py"):
                    src = by_file.get(f) or open(AOEF + f).read()
                    if old in src:
                        by_file[f] = src.replace(old, new)
            continue
        src = by_file.get(fn)
        if src is None:
            src = open(AOEF + fn).read()
        if src.count(old) != 1:
            return {"name": name, "error": f"{fn}: pattern occurs {src.count(old)} times: {old[:60]!r}"}
        by_file[fn] = src.replace(old, new)
    for fn, src in by_file.items():
        open(AOEF + fn, "w").write(src)
    t = ""
    if tests:
        t = sh(f"cd {SCRATCH} && PYTHONPATH={SCRATCH}/src /venv/bin/python -m pytest -q -p no:cacheprovider tests/test_io 2>&1 | tail -1").stdout.strip()
    env = dict(os.environ, SOUNDEVENT_SRC=SCRATCH + "/src", VERIF_EVIDENCE_DIR=os.path.join(VERIF, ".run", "mutant-evidence"))
    p = subprocess.run(["./check", "C02", "--tier", "quick", "--seed", str(seed)], cwd=VERIF, env=env,
                       stdout=subprocess.PIPE, stderr=subprocess.PIPE, text=True)
    vio = [l for l in p.stdout.splitlines() if l.startswith("VIOLATION")]
    rep = None
    if vio:
        try:
            rec = json.load(open(os.path.join(VERIF, vio[0].split("replay=")[1].split()[0])))
            rep = {"op": rec.get("op"), "kind": rec.get("kind"), "detail": (rec.get("detail") or "")[:200]}
        except Exception as e:  # noqa: BLE001
            rep = {"error": repr(e)}
    sh(f"git -C {SCRATCH} checkout -q -- src")
    return {"name": name, "tests": t, "rc": p.returncode, "violations": vio[:2], "replay": rep,
            "stderr": p.stderr[-300:] if p.returncode == 2 else ""}


def main():
    want = sys.argv[1:]
    res = []
    for group, table in (("R", REWRITES), ("M", MUTANTS), ("S", SHAPES)):
        for name, edits in table.items():
            if want and not any(w == name or w == group or name.startswith(w + "-") or (len(w) == 1 and name.startswith(w) and group == "M" and w == "H") for w in want):
                continue
            r = run_one(name, edits)
            expect = 0 if group == "R" else 1
            r["ok"] = (r.get("rc") == expect) and not (group == "M" and r["violations"] and "no-failing-input-found" in r["violations"][0])
            if group == "S":
                r["ok"] = r.get("rc") in (0, 1)
            print(json.dumps(r), flush=True)
            res.append(r)
    bad = [r["name"] for r in res if not r.get("ok")]
    print("NOT AS EXPECTED:", bad)


if __name__ == "__main__":
    main()
