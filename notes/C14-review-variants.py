#!/venv/bin/python
"""Review R-C14: behaviour-preserving rewrites (R*, must exit 0) and subtle mutants (M*, must exit 1 with a
replay) of src/soundevent/operations.py, run against copies of a scratch checkout of /repo.

  notes/C14-review-variants.py [names…]        # default: all; 4 in parallel

Each variant is applied to its own copy of /work/repo-R-C14 (git -C /repo worktree add --detach
/work/repo-R-C14 HEAD), the repo's tests/test_operations.py is run with PYTHONPATH on the copy, then
./check C14 --tier quick with SOUNDEVENT_SRC on the copy (each job its own VERIF_SEED so replays do not collide).
"""
import concurrent.futures as cf
import json
import os
import shutil
import subprocess
import sys
import time

SCRATCH = "/work/repo-R-C14"
VERIF = os.environ.get("C14_VERIF") or os.path.dirname(os.path.dirname(os.path.abspath(__file__)))   # C14_VERIF: another checkout of the verification repo (e.g. the state before the review)
WORK = os.environ.get("C14_WORK", "/tmp/c14-variants")

BODY_START = "    if hop is None:\n        hop = duration\n"
LOOP = '''    num_segments = math.ceil(clip.duration / hop)
    for i in range(num_segments):
        start_time = clip.start_time + i * hop
        end_time = start_time + duration

        if start_time >= clip.end_time:
            break

        if end_time > clip.end_time and not include_incomplete:
            break

        end_time = min(end_time, clip.end_time)

        yield data.Clip(
            uuid=uuid.uuid5(
                uuid_namespace,
                f"segment_clip:{clip.uuid}:{start_time}:{end_time}",
            ),
            start_time=start_time,
            end_time=end_time,
            recording=clip.recording,
        )
'''
GUARDS = '''    if duration <= 0:
        raise ValueError("Duration must be positive.")

    if hop <= 0:
        raise ValueError("Hop size must be positive.")

'''
NAME = 'f"segment_clip:{clip.uuid}:{start_time}:{end_time}"'

V = {}

# ------------------------------------------------------------------ rewrites: the property still holds
V["R1-rename-reorder-messages"] = [(GUARDS, '''    if not hop > 0:
        raise ValueError(f"hop must be > 0, got {hop!r}")
    if not duration > 0:
        raise ValueError(f"duration must be > 0, got {duration!r}")

'''), (LOOP, '''    t0, t1, rec = clip.start_time, clip.end_time, clip.recording
    n_windows = math.ceil(clip.duration / hop)
    for k in range(n_windows):
        lo = t0 + k * hop
        hi = lo + duration
        if not lo < t1:
            break
        if hi > t1 and not include_incomplete:
            break
        hi = min(hi, t1)
        yield data.Clip(
            recording=rec,
            end_time=hi,
            start_time=lo,
            uuid=uuid.uuid5(uuid_namespace, f"segment_clip:{clip.uuid}:{lo}:{hi}"),
        )
''')]
V["R2-while-conditional-expr"] = [(LOOP, '''    num_segments = math.ceil(clip.duration / hop)
    i = 0
    while i < num_segments:
        start_time = clip.start_time + i * hop
        i += 1
        end_time = start_time + duration
        if start_time >= clip.end_time:
            return
        overhang = end_time > clip.end_time
        if overhang and not include_incomplete:
            return
        end_time = clip.end_time if overhang else end_time
        yield data.Clip(
            uuid=uuid.uuid5(uuid_namespace, "segment_clip:" + str(clip.uuid) + ":" + repr(start_time) + ":" + repr(end_time)),
            start_time=start_time,
            end_time=end_time,
            recording=clip.recording,
        )
''')]
V["R3-inline-duration-from-imports"] = [
    ("import uuid\n", "import uuid\nfrom uuid import uuid5\nfrom math import ceil\nfrom soundevent.data import Clip\n"),
    ("math.ceil(clip.duration / hop)", "ceil((clip.end_time - clip.start_time) / hop)"),
    ("yield data.Clip(", "yield Clip("), ("uuid=uuid.uuid5(", "uuid=uuid5(")]
V["R4-helper-generator"] = [("def segment_clip(", '''def _windows(t0, t1, duration, hop, partial):
    for i in range(math.ceil((t1 - t0) / hop)):
        a = t0 + i * hop
        b = a + duration
        if a >= t1 or (b > t1 and not partial):
            return
        yield a, (b if b <= t1 else t1)


def _segment_id(parent, a, b):
    return uuid.uuid5(uuid_namespace, f"segment_clip:{parent}:{a}:{b}")


def segment_clip('''), (LOOP, '''    yield from (
        data.Clip(uuid=_segment_id(clip.uuid, a, b), start_time=a, end_time=b, recording=clip.recording)
        for a, b in _windows(clip.start_time, clip.end_time, duration, hop, include_incomplete)
    )
''')]
V["R5-correct-fast-paths"] = [(LOOP, '''    if clip.end_time == clip.start_time:
        return
    if duration > clip.duration and not include_incomplete:
        return
''' + LOOP)]
V["R6-numpy-ceil"] = [("import math\n", "import math\nimport numpy as np\n"),
                      ("math.ceil(clip.duration / hop)", "int(np.ceil(clip.duration / hop))")]
V["R7-incremental-start"] = [(LOOP, LOOP.replace("    for i in range(num_segments):\n        start_time = clip.start_time + i * hop\n",
                                                 "    next_start = clip.start_time\n    for _ in range(num_segments):\n"
                                                 "        start_time = next_start\n        next_start = clip.start_time + (_ + 1) * hop\n"))]
V["R8-bound-plus-one-floor"] = [("math.ceil(clip.duration / hop)", "math.floor(clip.duration / hop) + 1")]
V["R9-bound-plus-two"] = [("math.ceil(clip.duration / hop)", "math.ceil(clip.duration / hop) + 2")]
V["R10-list-then-yield"] = [(LOOP, '''    bounds = []
    for i in range(math.ceil(clip.duration / hop)):
        start_time = clip.start_time + hop * i
        if start_time >= clip.end_time:
            break
        end_time = duration + start_time
        if include_incomplete:
            end_time = min(clip.end_time, end_time)
        elif end_time > clip.end_time:
            break
        bounds.append((start_time, end_time))
    for start_time, end_time in bounds:
        yield data.Clip(
            uuid=uuid.uuid5(uuid_namespace, "segment_clip:%s:%s:%s" % (clip.uuid, repr(start_time), repr(end_time))),
            start_time=start_time, end_time=end_time, recording=clip.recording)
''')]
V["R11-itertools-count"] = [("import math\n", "import math\nimport itertools\n"),
                            ("    num_segments = math.ceil(clip.duration / hop)\n    for i in range(num_segments):",
                             "    for i in itertools.count():")]

# ------------------------------------------------------------------ mutants: the property is violated on specific inputs
V["M1-cache-ignores-flag"] = [("def segment_clip(", "_BOUNDS_CACHE = {}\n\n\ndef segment_clip("), (LOOP, '''    key = (clip.start_time, clip.end_time, duration, hop)
    if key not in _BOUNDS_CACHE:
        out = []
        for i in range(math.ceil(clip.duration / hop)):
            start_time = clip.start_time + i * hop
            end_time = start_time + duration
            if start_time >= clip.end_time:
                break
            if end_time > clip.end_time and not include_incomplete:
                break
            out.append((start_time, min(end_time, clip.end_time)))
        _BOUNDS_CACHE[key] = out
    for start_time, end_time in _BOUNDS_CACHE[key]:
        yield data.Clip(
            uuid=uuid.uuid5(uuid_namespace, f"segment_clip:{clip.uuid}:{start_time}:{end_time}"),
            start_time=start_time, end_time=end_time, recording=clip.recording)
''')]
V["M2-cache-ignores-parent"] = [("def segment_clip(", "_SEG_CACHE = {}\n\n\ndef segment_clip("), (LOOP, '''    key = (clip.recording.uuid, clip.start_time, clip.end_time, duration, hop, include_incomplete)
    if key not in _SEG_CACHE:
        out = []
        for i in range(math.ceil(clip.duration / hop)):
            start_time = clip.start_time + i * hop
            end_time = start_time + duration
            if start_time >= clip.end_time:
                break
            if end_time > clip.end_time and not include_incomplete:
                break
            end_time = min(end_time, clip.end_time)
            out.append(data.Clip(
                uuid=uuid.uuid5(uuid_namespace, f"segment_clip:{clip.uuid}:{start_time}:{end_time}"),
                start_time=start_time, end_time=end_time, recording=clip.recording))
        _SEG_CACHE[key] = out
    yield from _SEG_CACHE[key]
''')]
V["M3-int-hop-fast-path"] = [("math.ceil(clip.duration / hop)",
                              "(int(clip.duration) // hop if isinstance(hop, int) else math.ceil(clip.duration / hop))")]
V["M4-tolerance-on-fit"] = [("if end_time > clip.end_time and not include_incomplete:",
                             "if end_time > clip.end_time + 1e-9 and not include_incomplete:")]
V["M5-bound-minus-epsilon"] = [("math.ceil(clip.duration / hop)", "math.ceil(clip.duration / hop - 1e-9)")]
V["M6-rounded-lattice"] = [("start_time = clip.start_time + i * hop", "start_time = round(clip.start_time + i * hop, 9)")]
V["M7-name-rounded"] = [(NAME, 'f"segment_clip:{clip.uuid}:{start_time:.6f}:{end_time:.6f}"')]
V["M8-name-no-separator"] = [(NAME, 'f"segment_clip:{clip.uuid}:{start_time}{end_time}"')]
V["M9-name-recording-not-clip"] = [(NAME, 'f"segment_clip:{clip.recording.uuid}:{start_time}:{end_time}"')]
V["M10-name-unclamped-end"] = [("        end_time = min(end_time, clip.end_time)\n", ""),
                               ("            end_time=end_time,\n", "            end_time=min(end_time, clip.end_time),\n")]
V["M11-clamp-to-recording"] = [("end_time = min(end_time, clip.end_time)", "end_time = min(end_time, clip.recording.duration)")]
V["M12-default-hop-drops-short-tail"] = [
    ("    if hop is None:\n        hop = duration\n", "    defaulted = hop is None\n    if hop is None:\n        hop = duration\n"),
    ("        end_time = min(end_time, clip.end_time)\n",
     "        end_time = min(end_time, clip.end_time)\n        if defaulted and end_time - start_time < duration / 2:\n            break\n")]
V["M13-empty-clip-yields-parent"] = [(LOOP, "    if clip.duration == 0:\n        yield clip\n        return\n" + LOOP)]
V["M14-numpy-scalar-float32"] = [("import math\n", "import math\nimport numpy as np\n"),
                                 (BODY_START, BODY_START + "    if isinstance(hop, np.floating):\n        hop = float(np.float32(hop)) * (1 + 2 ** -20)\n")]
V["M15-name-includes-duration"] = [(NAME, 'f"segment_clip:{clip.uuid}:{start_time}:{end_time}:{duration}"')]
V["M16-first-window-always"] = [("if end_time > clip.end_time and not include_incomplete:",
                                 "if end_time > clip.end_time and not include_incomplete and i > 0:")]
V["M17-hop-gt-duration-stops-early"] = [("if start_time >= clip.end_time:", "if start_time + hop - duration >= clip.end_time and hop > duration:\n            break\n        if start_time >= clip.end_time:")]
V["M18-call-counter-in-name"] = [("def segment_clip(", "_CALLS = [0]\n\n\ndef segment_clip("),
                                 (BODY_START, BODY_START + "    _CALLS[0] += 1\n    salt = _CALLS[0] // 50000\n"),
                                 (NAME, 'f"segment_clip:{clip.uuid}:{start_time}:{end_time}" + ("" if not salt else f":{salt}")')]
V["M19-mutates-parent"] = [(LOOP, LOOP + "    if include_incomplete and hop > duration and num_segments > 1:\n        clip.end_time = clip.start_time + hop\n")]


def run_one(idx, name):
    d = os.path.join(WORK, name)
    shutil.rmtree(d, ignore_errors=True)
    shutil.copytree(SCRATCH, d, ignore=shutil.ignore_patterns(".git", "docs"))
    f = os.path.join(d, "src/soundevent/operations.py")
    src = open(f).read()
    for old, new in V[name]:
        assert src.count(old) >= 1, (name, old[:50])
        src = src.replace(old, new, 1)
    open(f, "w").write(src)
    env = dict(os.environ, PYTHONPATH=d + "/src")
    t = subprocess.run(["/venv/bin/python", "-m", "pytest", "-q", "-p", "no:cacheprovider", "tests/test_operations.py"],
                       cwd=d, env=env, capture_output=True, text=True)
    tests = (t.stdout.strip().splitlines() or ["?"])[-1].strip("= ")
    env2 = dict(os.environ, SOUNDEVENT_SRC=d + "/src", VERIF_EVIDENCE_DIR=os.path.join(WORK, "ev-" + name),
                VERIF_SEED=str(100 + idx))
    t0 = time.time()
    c = subprocess.run(["./check", "C14", "--tier", "quick"], cwd=VERIF, env=env2, capture_output=True, text=True)
    lines = [f"== {name}: tests[{tests}] rc={c.returncode} {time.time() - t0:.0f}s"]
    for ln in [x for x in c.stdout.splitlines() if x.startswith("VIOLATION")][:2]:
        rp = ln.split("replay=")[1].split()[0]
        try:
            r = json.load(open(os.path.join(VERIF, rp)))
            lines.append(f"     {'NO-INPUT ' if 'no-failing' in ln else ''}{r['kind']} {r['op']} "
                         f"{json.dumps(r['input'])[:230]} | {r['detail'][:160]}")
        except Exception as ex:  # noqa: BLE001
            lines.append(f"     {ln} ({ex})")
    if c.returncode == 2:
        lines.append(c.stderr[-1200:])
    shutil.rmtree(d, ignore_errors=True)
    return "\n".join(lines)


if __name__ == "__main__":
    names = sys.argv[1:] or list(V)
    names = [n for n in V if n in names or n.split("-")[0] in names]
    os.makedirs(WORK, exist_ok=True)
    with cf.ThreadPoolExecutor(4) as ex:
        for out in ex.map(lambda p: run_one(*p), list(enumerate(names))):
            print(out, flush=True)
