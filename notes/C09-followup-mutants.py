#!/venv/bin/python
"""Self-test of the C09 follow-up "pools, histories" (not part of the check): behaviour-preserving rewrites (must
exit 0) and mutants (must exit 1 with a replay; tests/test_evaluation must still pass).

usage: /venv/bin/python notes/C09-followup-mutants.py rewrites|mutants [substring]
Expects a scratch worktree of /repo at /work/repo-C09; restores every file afterwards."""
import subprocess, sys, os, json, time, shutil, glob
R = "/work/repo-C09"
V = "/work/verif-R3-C09"
DET = "src/soundevent/evaluation/tasks/sound_event_detection.py"
SEC = "src/soundevent/evaluation/tasks/sound_event_classification.py"
CC = "src/soundevent/evaluation/tasks/clip_classification.py"
ML = "src/soundevent/evaluation/tasks/clip_multilabel_classification.py"
COMMON = "src/soundevent/evaluation/tasks/common.py"
MET = "src/soundevent/evaluation/metrics.py"
ENC = "src/soundevent/evaluation/encoding.py"

MAPPING = "        self._mapping = {\n            (tag.term, tag.value): i for i, tag in enumerate(tags)\n        }\n"
ENCODE = "        return self._mapping.get((tag.term, tag.value))"


def keyed(expr):
    """SimpleEncoder keyed by `expr` (an expression in `tag`) instead of (tag.term, tag.value)"""
    return lambda s: s.replace(MAPPING, f"        self._mapping = {{\n            {expr}: i for i, tag in enumerate(tags)\n        }}\n").replace(
        ENCODE, f"        return self._mapping.get({expr})")


REWRITES = [
 ("rows of RUN_METRICS reordered in all four tasks", [
     (CC, lambda s: s.replace("    (terms.balanced_accuracy, metrics.balanced_accuracy),\n    (terms.accuracy, metrics.accuracy),\n    (terms.top_3_accuracy, metrics.top_3_accuracy),\n",
                              "    (terms.top_3_accuracy, metrics.top_3_accuracy),\n    (terms.accuracy, metrics.accuracy),\n    (terms.balanced_accuracy, metrics.balanced_accuracy),\n")),
     (DET, lambda s: s.replace("    (terms.mean_average_precision, metrics.mean_average_precision),\n    (terms.balanced_accuracy, metrics.balanced_accuracy),\n",
                               "    (terms.balanced_accuracy, metrics.balanced_accuracy),\n    (terms.mean_average_precision, metrics.mean_average_precision),\n")),
     (SEC, lambda s: s.replace("    (terms.accuracy, metrics.accuracy),\n    (terms.top_3_accuracy, metrics.top_3_accuracy),\n",
                               "    (terms.top_3_accuracy, metrics.top_3_accuracy),\n    (terms.accuracy, metrics.accuracy),\n"))]),
 ("encoder by linear search over the tag list (no dictionary)", [(ENC, lambda s: s.replace(
     ENCODE, "        for i, known in enumerate(self._tags):\n            if known.value == tag.value and known.term == tag.term:\n                return i\n        return None"))]),
 ("overall scores: math.fsum / len instead of np.mean", [
     (CC, lambda s: s.replace("import numpy as np\n", "import math\n\nimport numpy as np\n", 1).replace(
         "    return float(np.mean(non_none_scores)) if non_none_scores else 0.0",
         "    return math.fsum(non_none_scores) / len(non_none_scores) if non_none_scores else 0.0")),
     (SEC, lambda s: s.replace("import numpy as np\n", "import math\n\nimport numpy as np\n", 1).replace(
         "    return float(np.mean(non_none_scores)) if non_none_scores else 0.0",
         "    return math.fsum(non_none_scores) / len(non_none_scores) if non_none_scores else 0.0"))]),
 ("create_tag_encoder memoised correctly (keyed by the whole tuple of tags: Tag hashes by name, compares by content)", [(ENC, lambda s: s.replace(
     "    return SimpleEncoder(tags)",
     "    key = tuple(tags)\n    if key not in _ENCODERS:\n        if len(_ENCODERS) > 64:\n            _ENCODERS.clear()\n        _ENCODERS[key] = SimpleEncoder(list(key))\n    return _ENCODERS[key]").replace(
     "class SimpleEncoder(Encoder):", "_ENCODERS: dict = {}\n\n\nclass SimpleEncoder(Encoder):"))]),
 ("prediction_encoding through a dictionary of the last score per index; classification_encoding with next()", [(ENC, lambda s: s.replace(
     "    encoded = np.zeros(encoder.num_classes, dtype=np.float32)\n    for prediction in tags:\n        index = encoder.encode(prediction.tag)\n        if index is None:\n            continue\n        encoded[index] = prediction.score\n    return encoded",
     "    last = {}\n    for prediction in tags:\n        index = encoder.encode(prediction.tag)\n        if index is not None:\n            last[index] = prediction.score\n    encoded = np.zeros(encoder.num_classes, dtype=np.float32)\n    for index, value in last.items():\n        encoded[index] = value\n    return encoded").replace(
     "    for tag in tags:\n        encoded = encoder.encode(tag)\n        if encoded is not None:\n            return encoded\n    return None",
     "    return next((e for e in (encoder.encode(t) for t in tags) if e is not None), None)"))]),
 ("multilabel clip score: float64 scores handed to log_loss (no float32 logarithms)", [(MET, lambda s: s.replace(
     "    loss = metrics.log_loss(y_true, y_score, normalize=True)",
     "    loss = metrics.log_loss(y_true, np.asarray(y_score, dtype=np.float64), normalize=True)"))]),
 ("clip pairing: annotations looked up through a dict built by a loop; tasks receive lists copied first", [(COMMON, lambda s: s.replace(
     "    annotated_clips = {\n        example.clip.uuid: example for example in clip_annotations\n    }\n",
     "    annotated_clips = {}\n    for example in list(clip_annotations):\n        annotated_clips[example.clip.uuid] = example\n"))]),
]

MUTANTS = [
 # ---- pools / oracle: where the class of a tag comes from
 ("P1 encoder keyed by (term.name, value)", [(ENC, keyed("(tag.term.name, tag.value)"))]),
 ("P2 encoder keyed by the value only", [(ENC, keyed("tag.value"))]),
 ("P3 encoder ignores uri / type (key = label, name, definition, value)", [(ENC, keyed("(tag.term.label, tag.term.name, tag.term.definition, tag.value)"))]),
 ("P4 multilabel_encoding only: a tag unknown to the encoder counts for the class with the same value", [(ENC, lambda s: s.replace(
     "    encoded = np.zeros(encoder.num_classes, dtype=np.int32)\n    for tag in tags:\n        index = encoder.encode(tag)\n        if index is None:\n            continue\n        encoded[index] = 1",
     "    encoded = np.zeros(encoder.num_classes, dtype=np.int32)\n    for tag in tags:\n        index = encoder.encode(tag)\n        if index is None:\n            same = [i for i in range(encoder.num_classes) if encoder.decode(i).value == tag.value and encoder.decode(i).term.label == tag.term.label]\n            if not same:\n                continue\n            index = same[0]\n        encoded[index] = 1"))]),
 # ---- histories: state between calls, memo on argument objects, aliased results
 ("H1 create_tag_encoder memoised by the values of the tags (stale encoder for a sibling vocabulary)", [(ENC, lambda s: s.replace(
     "    return SimpleEncoder(tags)",
     "    key = tuple(tag.value for tag in tags)\n    if key not in _ENCODERS:\n        _ENCODERS[key] = SimpleEncoder(tags)\n    return _ENCODERS[key]").replace(
     "class SimpleEncoder(Encoder):", "_ENCODERS: dict = {}\n\n\nclass SimpleEncoder(Encoder):"))]),
 ("H2 clip_classification memoises the encoded scores per ClipPrediction uuid and vocabulary size", [(CC, lambda s: s.replace(
     "    predicted_class_scores = prediction_encoding(\n        tags=clip_predictions.tags,\n        encoder=encoder,\n    )\n    evaluated = data.ClipEvaluation(",
     "    _key = (clip_predictions.uuid, encoder.num_classes)\n    if _key not in _SCORES:\n        _SCORES[_key] = prediction_encoding(\n            tags=clip_predictions.tags,\n            encoder=encoder,\n        )\n    predicted_class_scores = _SCORES[_key]\n    evaluated = data.ClipEvaluation(").replace(
     "def _evaluate_all_clips(", "_SCORES: dict = {}\n\n\ndef _evaluate_all_clips(", 1))]),
 ("H3 sound_event_classification reuses one Feature object per run-level term (earlier results change later)", [(SEC, lambda s: s.replace(
     "    evaluation_metrics = [\n        data.Feature(\n            term=term,\n            value=metric(\n                true_classes,\n                predicted_classes_scores,\n            ),\n        )\n        for term, metric in RUN_METRICS",
     "    evaluation_metrics = [\n        _feature(\n            term,\n            metric(\n                true_classes,\n                predicted_classes_scores,\n            ),\n        )\n        for term, metric in RUN_METRICS", 1).replace(
     "def _compute_overall_metrics(", "_FEATURES: dict = {}\n\n\ndef _feature(term, value):\n    f = _FEATURES.get(term.label)\n    if f is None:\n        f = _FEATURES[term.label] = data.Feature(term=term, value=value)\n    else:\n        f.value = value\n    return f\n\n\ndef _compute_overall_metrics(", 1))]),
 ("H4 multilabel task memoises the true encoding per ClipAnnotation uuid (stale after the tags were edited)", [(ML, lambda s: s.replace(
     "def _evaluate_clip(", "_TRUTHS: dict = {}\n\n\ndef _evaluate_clip(", 1).replace(
     "    true_class = multilabel_encoding(\n        tags=clip_annotations.tags,\n        encoder=encoder,\n    )",
     "    _k = (clip_annotations.uuid, tuple((t.term.name, t.value) for t in (encoder.decode(i) for i in range(encoder.num_classes))))\n    if _k not in _TRUTHS:\n        _TRUTHS[_k] = multilabel_encoding(\n            tags=clip_annotations.tags,\n            encoder=encoder,\n        )\n    true_class = _TRUTHS[_k]"))]),
 # ---- boundaries, input kinds, siblings
 ("B1 accuracy: fast path for array truths (no mapping of None to the 'none' class)", [(MET, lambda s: nth(s,
     "    y_true_array = np.array(\n        [y if y is not None else num_classes for y in y_true]\n    )",
     "    if isinstance(y_true, np.ndarray):\n        y_true_array = np.where(y_true == None, 0, y_true).astype(int)  # noqa: E711\n    else:\n        y_true_array = np.array(\n            [y if y is not None else num_classes for y in y_true]\n        )", 1))]),
 ("B2 clip_classification skips clips whose prediction carries no tag", [(CC, lambda s: s.replace(
     "        clip_annotations=clip_annotations,\n    ):\n        (\n            true_class,",
     "        clip_annotations=clip_annotations,\n    ):\n        if not predictions.tags:\n            continue\n        (\n            true_class,"))]),
 ("B3 clips paired by position when both lists have the same length", [(COMMON, lambda s: s.replace(
     "    for predictions in clip_predictions:\n        if predictions.clip.uuid in annotated_clips:",
     "    if len(clip_predictions) == len(clip_annotations) and all(\n        p.clip.uuid in annotated_clips for p in clip_predictions\n    ):\n        yield from zip(clip_annotations, clip_predictions)\n        return\n\n    for predictions in clip_predictions:\n        if predictions.clip.uuid in annotated_clips:"))]),
 ("B4 prediction_encoding: the first score of a repeated tag wins", [(ENC, lambda s: s.replace(
     "        encoded[index] = prediction.score\n    return encoded", "        if encoded[index] == 0:\n            encoded[index] = prediction.score\n    return encoded"))]),
 ("B5 example-level average precision ignores classes whose score is exactly 0", [(MET, lambda s: s.replace(
     "    return metrics.average_precision_score(  # type: ignore\n        y_true=y_true,\n        y_score=y_score,\n        average=\"micro\",",
     "    if y_score.ndim == 1 and (y_score > 0).any():\n        y_true, y_score = y_true[y_score > 0], y_score[y_score > 0]\n    return metrics.average_precision_score(  # type: ignore\n        y_true=y_true,\n        y_score=y_score,\n        average=\"micro\","))]),
 ("B6 sound_event_classification skips predicted sound events without geometry", [(SEC, lambda s: s.replace(
     "        if sound_event_prediction.sound_event.uuid not in _valid_sound_events:\n            continue\n",
     "        if sound_event_prediction.sound_event.uuid not in _valid_sound_events:\n            continue\n        if sound_event_prediction.sound_event.geometry is None:\n            continue\n"))]),
 ("B7 top-3 accuracy: an exact tie with the third-best column counts as a hit", [(MET, lambda s: s.replace(
     "    hits = (top_3 == y_true_array[:, np.newaxis]).any(axis=1)",
     "    kth = np.sort(y_score, axis=1)[:, ::-1][:, : min(3, y_score.shape[1])][:, -1]\n    own = y_score[np.arange(len(y_true_array)), y_true_array]\n    hits = (top_3 == y_true_array[:, np.newaxis]).any(axis=1) | (own == kth)"))]),
 ("B9 top-3 accuracy ranks with numpy's default (unstable) sort: the tie order changes beyond 16 columns", [(MET, lambda s: s.replace(
     "kind=\"mergesort\"", "kind=\"quicksort\""))]),
 ("B8 detection: true-class probability of a match read from float64 scores of the prediction (not the stored float32)", [(DET, lambda s: s.replace(
     "    score = metrics.classification_score(true_class, predicted_class_scores)",
     "    score = metrics.classification_score(true_class, predicted_class_scores.astype(np.float64).round(6))"))]),
]


def nth(s, old, new, n):
    i = -1
    for _ in range(n + 1):
        i = s.index(old, i + 1)
    return s[:i] + new + s[i + len(old):]


def sh(cmd):
    return subprocess.run(cmd, shell=True, capture_output=True, text=True, executable="/bin/bash")


def main():
    kind = sys.argv[1]
    only = sys.argv[2] if len(sys.argv) > 2 else None
    todo = (REWRITES if kind == "rewrites" else MUTANTS)
    for name, edits in todo:
        if only and only not in name:
            continue
        saved = {}
        try:
            for path, f in edits:
                full = os.path.join(R, path)
                orig = open(full).read()
                saved[full] = orig
                new = f(orig)
                assert new != orig, ("edit did not apply", name, path)
                open(full, "w").write(new)
            t = sh(f"cd {R} && PYTHONPATH={R}/src /venv/bin/python -m pytest -q -x -p no:cacheprovider tests/test_evaluation 2>&1 | tail -1")
            shutil.rmtree(os.path.join(V, "replays"), ignore_errors=True)
            t0 = time.time()
            c = sh(f"cd {V} && VERIF_EVIDENCE_DIR={V}/.run/ev SOUNDEVENT_SRC={R}/src VERIF_SEED={os.environ.get('VERIF_SEED','0')} ./check C09 --tier quick 2>&1 | grep -v '^KNOWN-FINDING' | cut -c1-260 | head -3; echo rc=${{PIPESTATUS[0]}}")
            ops = {}
            for fn in sorted(glob.glob(os.path.join(V, "replays", "C09_*.json"))):
                try:
                    ops.setdefault(json.load(open(fn)).get("op"), 0)
                    ops[json.load(open(fn)).get("op")] += 1
                except Exception:
                    pass
            print(f"[{kind}] {name}\n    repo tests: {t.stdout.strip()[-70:]}\n    check ({time.time()-t0:.0f}s) replay ops {ops}: "
                  + c.stdout.strip().replace("\n", "\n        "), flush=True)
        finally:
            for full, orig in saved.items():
                open(full, "w").write(orig)
    print(sh(f"cd {R} && git status --short | head").stdout)


main()
