"""mutants and rewrites of /work/repo-C06 (text replacements); each: name -> list of (file, old, new)"""
AFF = "src/soundevent/evaluation/affinity.py"
OPS = "src/soundevent/geometry/operations.py"
CONV = "src/soundevent/geometry/conversion.py"

PREP_OLD = '''    if geometry.type in BUFFER_GEOMETRY_TYPES:
        return buffer_geometry(
            geometry,
            time_buffer=time_buffer,
            freq_buffer=freq_buffer,
        )

    return geometry
'''
HEAD_OLD = '''    geometry1 = _prepare_geometry(geometry1, time_buffer, freq_buffer)
    geometry2 = _prepare_geometry(geometry2, time_buffer, freq_buffer)
'''
SIG_OLD = '''    time_buffer: float = 0.01,
    freq_buffer: float = 100,
) -> float:
    """Compute the geometric affinity between two geometries.'''
CLAMP_OLD = '''    return min(intersection / union, 1.0)
'''
TIME_GUARD_OLD = '''    if union == 0:
        return 0

    return intersection / union
'''

M = {}
# ---- category 1: state between calls
M["H1_buffered_memo_on_object"] = [(AFF, PREP_OLD, '''    if geometry.type in BUFFER_GEOMETRY_TYPES:
        # buffering is the expensive part of matching: keep the buffered
        # geometry on the object, per pair of buffers
        memo = geometry.__dict__.setdefault("_buffered", {})
        key = (time_buffer, freq_buffer)
        if key not in memo:
            memo[key] = buffer_geometry(
                geometry,
                time_buffer=time_buffer,
                freq_buffer=freq_buffer,
            )
        return memo[key]

    return geometry
''')]
M["H2_buffers_leak_into_module_state"] = [(AFF, HEAD_OLD, '''    buffers = _BUFFERS
    buffers["freq_buffer"] = freq_buffer
    if time_buffer != 0.01:
        buffers["time_buffer"] = time_buffer
    geometry1 = _prepare_geometry(geometry1, **buffers)
    geometry2 = _prepare_geometry(geometry2, **buffers)
'''), (AFF, '''def compute_affinity(
    geometry1: data.Geometry,''', '''_BUFFERS = {"time_buffer": 0.01, "freq_buffer": 100}


def compute_affinity(
    geometry1: data.Geometry,''')]
M["H3_result_cache_keyed_by_identity"] = [(AFF, HEAD_OLD, '''    key = (id(geometry1), id(geometry2), time_buffer, freq_buffer)
    if key in _RESULTS:
        return _RESULTS[key][0]
    value = _compute_affinity(geometry1, geometry2, time_buffer, freq_buffer)
    # keep the geometries alive so that their ids are never reused
    _RESULTS[key] = (value, geometry1, geometry2)
    return value


_RESULTS: dict = {}


def _compute_affinity(geometry1, geometry2, time_buffer, freq_buffer):
    geometry1 = _prepare_geometry(geometry1, time_buffer, freq_buffer)
    geometry2 = _prepare_geometry(geometry2, time_buffer, freq_buffer)
''')]
# ---- category 3: construction / passing
M["P1_buffers_swapped_in_signature"] = [(AFF, SIG_OLD, '''    freq_buffer: float = 100,
    time_buffer: float = 0.01,
) -> float:
    """Compute the geometric affinity between two geometries.''')]
M["P2_dispatch_on_class_name"] = [(AFF, PREP_OLD, '''    if type(geometry).__name__ in BUFFER_GEOMETRY_TYPES:
        return buffer_geometry(
            geometry,
            time_buffer=time_buffer,
            freq_buffer=freq_buffer,
        )

    return geometry
''')]
M["P3_integer_buffers_floor_divided"] = [(OPS, '''    factor = [
        1 / time_buffer if time_buffer > 0 else 1e9,
        1 / freq_buffer if freq_buffer > 0 else 1e9,
    ]''', '''    import numpy as np

    def inverse(b):
        # keep integer buffers in integer arithmetic
        if isinstance(b, (int, np.integer)) and not isinstance(b, bool):
            return 1 // b if b > 0 else 1e9
        return 1 / b if b > 0 else 1e9

    factor = [inverse(time_buffer), inverse(freq_buffer)]
    factor = [f if f != 0 else 1e-9 for f in factor]''')]
# ---- category 4: interplay of options
M["O1_equal_buffers_isotropic_path_without_clip"] = [(OPS, '''    transformed = shapely.transform(geometry, lambda x: x * factor)''', '''    if time_buffer == freq_buffer and time_buffer > 0:
        # isotropic buffer: no need to rescale
        buffered = shapely.buffer(
            geometry,
            time_buffer,
            cap_style="round",
            join_style="mitre",
            **kwargs,
        )
        buffered = shapely.clip_by_rect(
            buffered, -1e9, 0, buffered.bounds[2] + 1, data.MAX_FREQUENCY
        )
        json_data = json.loads(shapely.to_geojson(buffered))
        if json_data["type"] == "Polygon":
            return data.Polygon.model_construct(
                coordinates=json_data["coordinates"]
            )
        return data.MultiPolygon.model_construct(
            coordinates=json_data["coordinates"]
        )
    transformed = shapely.transform(geometry, lambda x: x * factor)''')]
M["O2_freq_buffer_capped_at_1kHz"] = [(AFF, PREP_OLD, '''    if geometry.type in BUFFER_GEOMETRY_TYPES:
        return buffer_geometry(
            geometry,
            time_buffer=time_buffer,
            freq_buffer=min(freq_buffer, 1000),
        )

    return geometry
''')]
# ---- category 5: boundaries
M["B1_union_tolerance_guard"] = [(AFF, TIME_GUARD_OLD, '''    if union < 1e-12:
        return 0

    return intersection / union
''')]
M["B2_tolerant_clamp"] = [(AFF, CLAMP_OLD, '''    ratio = intersection / union
    # allow for rounding noise around one
    return ratio if ratio <= 1 + 1e-9 else 1.0
''')]
M["B3_simplify_above_256_vertices"] = [(AFF, '''    intersection = shp1.intersection(shp2).area''', '''    def light(shp):
        n = sum(len(p.exterior.coords) for p in getattr(shp, "geoms", [shp]))
        return shp.simplify(1e-3) if n > 256 else shp

    shp1, shp2 = light(shp1), light(shp2)
    intersection = shp1.intersection(shp2).area''')]
M["B4_multipoint_hull_above_16_points"] = [(AFF, PREP_OLD, '''    if geometry.type == "MultiPoint" and len(geometry.coordinates) > 16:
        # many points: buffer their convex hull instead of every point
        hull = geometry_to_shapely(geometry).convex_hull
        if hull.geom_type == "Polygon":
            ring = [list(c) for c in hull.exterior.coords]
            geometry = data.LineString(coordinates=ring)
    if geometry.type in BUFFER_GEOMETRY_TYPES:
        return buffer_geometry(
            geometry,
            time_buffer=time_buffer,
            freq_buffer=freq_buffer,
        )

    return geometry
''')]
M["B5_relative_touch_tolerance"] = [(AFF, '''    union = (
        (end_time1 - start_time1) + (end_time2 - start_time2) - intersection
    )
''', '''    if intersection <= 1e-9 * max(end_time1, end_time2):
        # touching intervals (up to rounding of large time stamps)
        intersection = 0
    union = (
        (end_time1 - start_time1) + (end_time2 - start_time2) - intersection
    )
''')]

# ---- behaviour-preserving rewrites (must NOT alarm)
R = {}
R["RW1_correct_cache_full_key"] = [(AFF, HEAD_OLD, '''    key = (
        geometry1.model_dump_json(),
        geometry2.model_dump_json(),
        time_buffer,
        freq_buffer,
    )
    try:
        return _AFFINITIES[key]
    except KeyError:
        pass
    value = _compute_affinity(geometry1, geometry2, time_buffer, freq_buffer)
    _AFFINITIES[key] = value
    return value


_AFFINITIES: dict = {}


def _compute_affinity(geometry1, geometry2, time_buffer, freq_buffer):
    geometry1 = _prepare_geometry(geometry1, time_buffer, freq_buffer)
    geometry2 = _prepare_geometry(geometry2, time_buffer, freq_buffer)
''')]
R["RW2_object_memo_validated_by_content"] = [(CONV, '''    if geom.type == "TimeStamp":
        return time_stamp_to_shapely(geom)''', '''    import copy

    memo = geom.__dict__.get("_shapely_memo")
    if memo is not None and memo[0] == geom.coordinates:
        return memo[1]
    shp = _geometry_to_shapely(geom)
    geom.__dict__["_shapely_memo"] = (copy.deepcopy(geom.coordinates), shp)
    return shp


def _geometry_to_shapely(geom):
    if geom.type == "TimeStamp":
        return time_stamp_to_shapely(geom)''')]
R["RW3_signature_extras_and_positional_helpers"] = [(AFF, SIG_OLD, '''    time_buffer: float = 0.01,
    freq_buffer: float = 100,
    *,
    strict: bool = False,
    **_ignored,
) -> float:
    """Compute the geometric affinity between two geometries.'''), (AFF, HEAD_OLD, '''    first, second = (
        _prepare_geometry(g, freq_buffer=freq_buffer, time_buffer=time_buffer)
        for g in (geometry1, geometry2)
    )
    geometry1, geometry2 = first, second
''')]
R["RW4_dispatch_table_conditional_clamp"] = [(AFF, PREP_OLD, '''    needs_buffer = {name: True for name in BUFFER_GEOMETRY_TYPES}
    if not needs_buffer.get(geometry.type, False):
        return geometry
    buffered = buffer_geometry(
        geometry, freq_buffer=freq_buffer, time_buffer=time_buffer
    )
    return buffered
'''), (AFF, CLAMP_OLD, '''    ratio = intersection / union
    return 1.0 if ratio > 1.0 else ratio
''')]
R["RW5_lru_cache_full_key_on_helper"] = [(AFF, HEAD_OLD, '''    return _cached_affinity(
        _Keyed(geometry1), _Keyed(geometry2), time_buffer, freq_buffer
    )


class _Keyed:
    """A geometry with value semantics (hashable by content)."""

    def __init__(self, geometry):
        self.geometry = geometry
        self.key = geometry.model_dump_json()

    def __hash__(self):
        return hash(self.key)

    def __eq__(self, other):
        return self.key == other.key


import functools  # noqa: E402


@functools.lru_cache(maxsize=4096)
def _cached_affinity(keyed1, keyed2, time_buffer, freq_buffer):
    geometry1 = _prepare_geometry(keyed1.geometry, time_buffer, freq_buffer)
    geometry2 = _prepare_geometry(keyed2.geometry, time_buffer, freq_buffer)
''')]
