#!/venv/bin/python
"""Review R-C12: behaviour-preserving rewrites (must exit 0) and subtle mutants (must exit 1 with a concrete replay)
of src/soundevent/geometry/operations.py, run against a scratch worktree of /repo.

  git -C /repo worktree add --detach /work/repo-R-C12 HEAD
  /venv/bin/python notes/C12-review-mutants.py [name ...]
"""
import json
import os
import subprocess
import sys

VERIF = os.environ.get("VERIF_DIR") or os.path.dirname(os.path.dirname(os.path.abspath(__file__)))
SCRATCH = "/work/repo-R-C12"
F = SCRATCH + "/src/soundevent/geometry/operations.py"

BODY_OVERLAP = '''    start1, stop1 = interval1
    start2, stop2 = interval2

    start = max(start1, start2)
    stop = min(stop1, stop2)
'''
GUARD_BOTH = "    if min_absolute_overlap is not None and min_relative_overlap is not None:\n"
CLIP_TEST = '''    if (end_time <= clip.start_time + minimum_overlap) or (
        start_time >= clip.end_time - minimum_overlap
    ):
        return False

    return True
'''
TEMP_BOUNDS = '''    start_time_1, _, end_time_1, _ = compute_bounds(geom1)
    start_time_2, _, end_time_2, _ = compute_bounds(geom2)
'''
FREQ_BOUNDS = '''    _, low_freq_1, _, high_freq_1 = compute_bounds(geom1)
    _, low_freq_2, _, high_freq_2 = compute_bounds(geom2)
'''
CLIP_BOUNDS = "    start_time, _, end_time, _ = compute_bounds(geometry)\n"

REWRITES = {
    "R1-rename-locals-messages": [
        ("    start = max(start1, start2)\n    stop = min(stop1, stop2)\n", "    lo = max(start1, start2)\n    hi = min(stop1, stop2)\n"),
        ("    return stop - start >= overlap\n", "    return hi - lo >= overlap\n"),
        ('"The minimum relative overlap must be in [0, 1]."', '"min_relative_overlap out of range"'),
        ('"The minimum overlap must be non-negative."', '"negative minimum_overlap"'),
    ],
    "R2-conditional-minmax-negated-compare": [
        ("    start = max(start1, start2)\n    stop = min(stop1, stop2)\n",
         "    start = start1 if start1 >= start2 else start2\n    stop = stop2 if stop2 < stop1 else stop1\n"),
        ("    return stop - start >= overlap\n", "    return not (stop - start < overlap)\n"),
    ],
    # harmless, but the tie cannot be re-proved (equal widths: r*w1 = r*w2 is beyond the closing tactic):
    # exit 1 with `no-failing-input-found` (allowed by the rules, undesirable) -- listed, not counted
    "X11-conditional-width": [
        ("        min_width = min(\n            stop1 - start1,\n            stop2 - start2,\n        )\n",
         "        w1 = stop1 - start1\n        w2 = stop2 - start2\n        min_width = w2 if w2 <= w1 else w1\n"),
    ],
    "R3-is_in_clip-positive-form": [
        (CLIP_TEST, "    return (\n        end_time > clip.start_time + minimum_overlap\n"
                    "        and start_time < clip.end_time - minimum_overlap\n    )\n"),
    ],
    "R4-inline-compute_bounds": [
        (TEMP_BOUNDS, "    b1 = geometry_to_shapely(geom1).bounds\n    b2 = geometry_to_shapely(geom2).bounds\n"
                      "    start_time_1, end_time_1 = b1[0], b1[2]\n    start_time_2, end_time_2 = b2[0], b2[2]\n"),
        (FREQ_BOUNDS, "    b1 = geometry_to_shapely(geom1).bounds\n    b2 = geometry_to_shapely(geom2).bounds\n"
                      "    low_freq_1, high_freq_1 = b1[1], b1[3]\n    low_freq_2, high_freq_2 = b2[1], b2[3]\n"),
        (CLIP_BOUNDS, "    start_time, _, end_time, _ = geometry_to_shapely(geometry).bounds\n"),
    ],
    "R5-validate-first-elif-chain": [
        (GUARD_BOTH, "    if min_relative_overlap is not None and (\n        min_relative_overlap < 0 or min_relative_overlap > 1\n"
                     "    ) and min_absolute_overlap is None:\n        raise ValueError(\"bad relative overlap\")\n" + GUARD_BOTH),
    ],
    "R6-shared-private-helper": [
        ("def have_temporal_overlap(", "def _axis_overlap(geom1, geom2, axis, min_absolute_overlap, min_relative_overlap):\n"
         "    bounds1 = compute_bounds(geom1)\n    bounds2 = compute_bounds(geom2)\n"
         "    return intervals_overlap(\n        (bounds1[axis], bounds1[axis + 2]),\n        (bounds2[axis], bounds2[axis + 2]),\n"
         "        min_absolute_overlap=min_absolute_overlap,\n        min_relative_overlap=min_relative_overlap,\n    )\n\n\n"
         "def have_temporal_overlap("),
        (TEMP_BOUNDS, "    return _axis_overlap(geom1, geom2, 0, min_absolute_overlap, min_relative_overlap)\n" + TEMP_BOUNDS),
        (FREQ_BOUNDS, "    return _axis_overlap(geom1, geom2, 1, min_absolute_overlap, min_relative_overlap)\n" + FREQ_BOUNDS),
    ],
    "R7-correct-fast-path-disjoint": [
        ("    overlap = 0\n    if min_absolute_overlap is not None:\n",
         "    if stop < start and min_absolute_overlap is None:\n"
         "        if min_relative_overlap is None:\n            return False\n\n"
         "    overlap = 0\n    if min_absolute_overlap is not None:\n"),
    ],
    "R8-reorder-independent-statements": [
        ("    if minimum_overlap < 0:\n        raise ValueError(\"The minimum overlap must be non-negative.\")\n\n" + CLIP_BOUNDS,
         CLIP_BOUNDS + "    clip_start = clip.start_time\n    clip_end = clip.end_time\n"
         "    if minimum_overlap < 0:\n        raise ValueError(\"The minimum overlap must be non-negative.\")\n\n"),
        (CLIP_TEST, "    if (start_time >= clip_end - minimum_overlap) or (\n        end_time <= clip_start + minimum_overlap\n"
                    "    ):\n        return False\n\n    return True\n"),
        (TEMP_BOUNDS, "    start_time_2, _, end_time_2, _ = compute_bounds(geom2)\n    start_time_1, _, end_time_1, _ = compute_bounds(geom1)\n"),
    ],
    "R9-float-literal-and-unpack-by-index": [
        ("    overlap = 0\n", "    overlap = 0.0\n"),
        ("    start1, stop1 = interval1\n    start2, stop2 = interval2\n",
         "    start1, stop1 = interval1[0], interval1[1]\n    start2, stop2 = interval2[0], interval2[1]\n"),
    ],
    "R10-commuted-product-flipped-compare": [
        ("        overlap = min_relative_overlap * min_width\n", "        overlap = min_width * min_relative_overlap\n"),
        ("    return stop - start >= overlap\n", "    return overlap <= stop - start\n"),
        ("        if min_relative_overlap < 0 or min_relative_overlap > 1:\n",
         "        if not (0 <= min_relative_overlap <= 1):\n"),
    ],
}

MUTANTS = {
    "M1-both-check-by-truthiness": [
        (GUARD_BOTH, "    if min_absolute_overlap and min_relative_overlap:\n"),
    ],
    "M2-relative-to-first-interval": [
        ("        min_width = min(\n            stop1 - start1,\n            stop2 - start2,\n        )\n",
         "        min_width = stop1 - start1\n"),
    ],
    "M3-relative-to-longer-interval": [
        ("        min_width = min(\n            stop1 - start1,", "        min_width = max(\n            stop1 - start1,"),
    ],
    "M4-range-guard-with-tolerance": [
        ("min_relative_overlap > 1:", "min_relative_overlap > 1 + 1e-6:"),
    ],
    "M5-numpy-scalar-fast-path-strict": [
        ("    return stop - start >= overlap\n",
         "    if isinstance(stop - start, np.floating):\n        return bool(np.greater(stop - start, overlap))\n"
         "    return stop - start >= overlap\n"),
    ],
    "M6-bounds-cache-keyed-by-id": [
        ("def compute_bounds(\n", "_BOUNDS_CACHE: dict = {}\n\n\ndef compute_bounds(\n"),
        ("    shp_geom = geometry_to_shapely(geometry)\n    return shp_geom.bounds\n",
         "    key = id(geometry)\n    if key not in _BOUNDS_CACHE:\n"
         "        _BOUNDS_CACHE[key] = geometry_to_shapely(geometry).bounds\n    return _BOUNDS_CACHE[key]\n"),
    ],
    "M7-is_in_clip-default-epsilon": [
        ("    minimum_overlap: float = 0,\n", "    minimum_overlap: float = 1e-9,\n"),
    ],
    "M8-is_in_clip-point-fast-path-closed": [
        (CLIP_BOUNDS, "    if isinstance(geometry, data.Point):\n        t = geometry.coordinates[0]\n"
                      "        return clip.start_time + minimum_overlap <= t <= clip.end_time - minimum_overlap\n" + CLIP_BOUNDS),
    ],
    "M9-frequency-time-only-shortcut": [
        (FREQ_BOUNDS, "    if isinstance(geom1, (data.TimeStamp, data.TimeInterval)) or isinstance(\n"
                      "        geom2, (data.TimeStamp, data.TimeInterval)\n    ):\n        return True\n" + FREQ_BOUNDS),
    ],
    "M10-temporal-timestamp-pair-shortcut": [
        (TEMP_BOUNDS, "    if isinstance(geom1, data.TimeStamp) and isinstance(geom2, data.TimeStamp):\n"
                      "        return geom1.coordinates == geom2.coordinates\n" + TEMP_BOUNDS),
    ],
    "M11-frequency-second-geometry-reads-high-twice": [
        ("    _, low_freq_2, _, high_freq_2 = compute_bounds(geom2)\n", "    _, _, _, high_freq_2 = compute_bounds(geom2)\n    low_freq_2 = high_freq_2\n"),
    ],
    "M12-is_in_clip-end-edge-nonstrict": [
        ("        start_time >= clip.end_time - minimum_overlap\n", "        start_time > clip.end_time - minimum_overlap\n"),
    ],
    "M13-is_in_clip-minimum-only-at-start": [
        ("        start_time >= clip.end_time - minimum_overlap\n", "        start_time >= clip.end_time\n"),
    ],
    "M14-positional-order-swapped": [
        ("def intervals_overlap(\n    interval1: tuple[float, float],\n    interval2: tuple[float, float],\n"
         "    min_absolute_overlap: Optional[float] = None,\n    min_relative_overlap: Optional[float] = None,\n",
         "def intervals_overlap(\n    interval1: tuple[float, float],\n    interval2: tuple[float, float],\n"
         "    min_relative_overlap: Optional[float] = None,\n    min_absolute_overlap: Optional[float] = None,\n"),
    ],
    "M15-relative-width-in-float32": [
        ("        overlap = min_relative_overlap * min_width\n",
         "        overlap = float(np.float32(min_relative_overlap) * np.float32(min_width))\n"),
    ],
    "M16-absolute-threshold-abs-value": [
        ("        overlap = min_absolute_overlap\n", "        overlap = abs(min_absolute_overlap)\n"),
    ],
    "M17-temporal-same-object-shortcut": [
        (TEMP_BOUNDS, "    if geom1 is geom2:\n        return True\n" + TEMP_BOUNDS),
    ],
    "M18-touching-excluded-for-default": [
        ("    return stop - start >= overlap\n",
         "    if min_absolute_overlap is None and min_relative_overlap is None:\n        return stop > start\n"
         "    return stop - start >= overlap\n"),
    ],
}


def sh(cmd, **kw):
    return subprocess.run(cmd, shell=True, stdout=subprocess.PIPE, stderr=subprocess.STDOUT, text=True, **kw)


def run_one(name, edits, expect):
    sh(f"git -C {SCRATCH} checkout -q -- src")
    src = open(F).read()
    for old, new in edits:
        if src.count(old) != 1:
            return {"name": name, "error": f"pattern occurs {src.count(old)} times: {old[:50]!r}"}
        src = src.replace(old, new)
    open(F, "w").write(src)
    t = sh(f"cd {SCRATCH} && PYTHONPATH={SCRATCH}/src /venv/bin/python -m pytest -q -p no:cacheprovider tests/test_geometry 2>&1 | tail -1")
    env = dict(os.environ, SOUNDEVENT_SRC=SCRATCH + "/src", VERIF_EVIDENCE_DIR=os.path.join(VERIF, ".run", "mutant-evidence"))
    p = subprocess.run(["./check", "C12", "--tier", "quick"], cwd=VERIF, env=env, stdout=subprocess.PIPE, stderr=subprocess.PIPE, text=True)
    vio = [l for l in p.stdout.splitlines() if l.startswith("VIOLATION")]
    rep = None
    if vio:
        try:
            rec = json.load(open(os.path.join(VERIF, vio[0].split("replay=")[1].split()[0])))
            rep = {"kind": rec["kind"], "op": rec["op"], "input": rec["input"], "impl": rec["impl"], "model": rec["model"]}
        except Exception as e:  # noqa: BLE001
            rep = repr(e)
    sh(f"git -C {SCRATCH} checkout -q -- src")
    concrete = bool(vio) and "no-failing-input-found" not in vio[0]
    ok = (p.returncode == 0) if expect == 0 else (p.returncode == 1 and concrete)
    return {"name": name, "tests": t.stdout.strip()[-60:], "rc": p.returncode, "as_expected": ok,
            "violation": vio[:1], "replay": rep}


if __name__ == "__main__":
    want = sys.argv[1:]
    out = []
    for table, expect in ((REWRITES, 0), (MUTANTS, 1)):
        for name, edits in table.items():
            if want and not any(name.startswith(w) for w in want):
                continue
            r = run_one(name, edits, expect)
            out.append(r)
            print(json.dumps(r)[:700], flush=True)
    bad = [r["name"] for r in out if not r.get("as_expected")]
    print("NOT AS EXPECTED:", bad)
