"""Behaviour-preserving rewrites (the check must exit 0) and subtle mutants (repo tests pass, the check must exit 1
with a concrete replay) used in the C01 second-engineer review.

usage: /venv/bin/python notes/C01-review-variants.py [--no-tests] [name ...]     (scratch copy: /work/repo-C01,
       created with `git -C /repo worktree add --detach /work/repo-C01 HEAD`)
Each entry: (name, kind, [(file, old, new[, count]), ...]).  The scratch copy is restored after every run.
"""
import json
import os
import subprocess
import sys
import time

SCRATCH = os.environ.get("C01_SCRATCH", "/work/repo-C01")
VERIF = os.environ.get("C01_VERIF", os.path.dirname(os.path.dirname(os.path.abspath(__file__))))
A = "src/soundevent/io/aoef/"
FEAT = """                {
                    data.key_from_term(feature.term): feature.value
                    for feature in obj.features
                }
                if obj.features
                else None"""

CASES = [
    # ------------------------------------------------------------------------------ behaviour-preserving rewrites
    ("R1-adapter-tables-renamed-dead-line-removed", "rewrite", [
        (A + "adapters.py", "_mapping", "_ids", 0), (A + "adapters.py", "_soundevent_store", "_objects", 0),
        (A + "adapters.py", "_aoef_store", "_records", 0), (A + "tag.py", "self._mapping", "self._ids", 0),
        (A + "adapters.py", "        if obj_id not in self._objects:\n            self._objects[obj_id] = obj\n\n        return self._records[obj_id]",
                            "        return self._records[obj_id]"),
        (A + "adapters.py", "        if not self._records:\n            return None\n        return list(self._records.values())",
                            "        return list(self._records.values()) or None")]),
    ("R2-recording-path-arithmetic-rewritten", "rewrite", [
        (A + "recording.py", "        path = obj.path\n        if self.audio_dir is not None:\n            path = Path(obj.path).relative_to(self.audio_dir)\n",
                             "        from pathlib import PurePath\n        stored = PurePath(obj.path)\n        base = self.audio_dir\n"
                             "        if base is not None:\n            stored = stored.relative_to(Path(base))\n        path = Path(stored)\n"),
        (A + "recording.py", "        path = obj.path\n        if self.audio_dir is not None:\n            path = self.audio_dir / obj.path\n",
                             "        path = obj.path\n        if self.audio_dir is not None and not obj.path.is_absolute():\n"
                             "            path = Path(self.audio_dir).joinpath(obj.path)\n"),
        (A + "recording.py", "                obj.time_expansion if obj.time_expansion != 1.0 else None",
                             "                None if obj.time_expansion == 1.0 else obj.time_expansion"),
        (A + "recording.py", "                obj.time_expansion if obj.time_expansion is not None else 1.0",
                             "                1.0 if obj.time_expansion is None else obj.time_expansion")]),
    ("R3-registration-loops-reordered-comprehensions", "rewrite", [
        (A + "annotation_set.py", "        for user in obj.users or []:\n            self.user_adapter.to_soundevent(user)\n\n        for tag in obj.tags or []:\n            self.tag_adapter.to_soundevent(tag)\n",
                                  "        _ = [self.tag_adapter.to_soundevent(t) for t in (obj.tags or ())]\n        _ = [self.user_adapter.to_soundevent(u) for u in (obj.users or ())]\n"),
        (A + "evaluation.py", "        for user in obj.users or []:\n            self.user_adapter.to_soundevent(user)\n\n        for tag in obj.tags or []:\n            self.tag_adapter.to_soundevent(tag)\n",
                              "        for tag in obj.tags or []:\n            self.tag_adapter.to_soundevent(tag)\n\n        for user in obj.users or []:\n            self.user_adapter.to_soundevent(user)\n"),
        (A + "prediction_set.py", "        for sound_event in obj.sound_events or []:\n            self.sound_event_adapter.to_soundevent(sound_event)\n\n        for sequence in obj.sequences or []:\n            self.sequence_adapter.to_soundevent(sequence)\n\n        for clip in obj.clips or []:\n            self.clip_adapter.to_soundevent(clip)\n",
                                  "        for clip in obj.clips or []:\n            self.clip_adapter.to_soundevent(clip)\n\n        for sound_event in obj.sound_events or []:\n            self.sound_event_adapter.to_soundevent(sound_event)\n\n        for sequence in obj.sequences or []:\n            self.sequence_adapter.to_soundevent(sequence)\n")]),
    ("R4-subclass-constructors-explicit", "rewrite", [
        (A + "dataset.py", "        return data.Dataset(\n            **{\n                key: value for key, value in recording_set if value is not None\n            },\n",
                           "        return data.Dataset(\n            uuid=recording_set.uuid,\n            recordings=recording_set.recordings,\n            created_on=recording_set.created_on,\n"),
        (A + "model_run.py", "            **dict(prediction_set),\n",
                             "            uuid=prediction_set.uuid,\n            clip_predictions=list(prediction_set.clip_predictions),\n            created_on=prediction_set.created_on,\n")]),
    ("R5-dispatch-by-dict-version-checked-first-messages", "rewrite", [
        (A + "__init__.py", "    for adapter_type, _, adapter_cls in ADAPTERS:\n        if aoef_object.data.collection_type == adapter_type:\n            adapter = adapter_cls(audio_dir=audio_dir)\n            return adapter.to_soundevent(aoef_object.data)  # type: ignore\n",
                            "    by_name = {name: cls for name, _, cls in ADAPTERS}\n    chosen = by_name.get(aoef_object.data.collection_type)\n    if chosen is not None:\n        return chosen(audio_dir=audio_dir).to_soundevent(aoef_object.data)  # type: ignore\n"),
        (A + "__init__.py", "    if type is not None and aoef_object.data.collection_type != type:\n        raise ValueError(\n            f\"Invalid data type: {aoef_object.data.collection_type} (expected {type})\"\n        )\n\n    if aoef_object.version != AOEF_VERSION:\n        version = aoef_object.version\n        raise ValueError(\n            f\"Invalid AOEF version: {version} (expected {AOEF_VERSION})\"\n        )\n",
                            "    if not aoef_object.version == AOEF_VERSION:\n        raise ValueError(\"unsupported AOEF version\")\n\n    found = aoef_object.data.collection_type\n    if type is not None and found != type:\n        raise ValueError(f\"{path}: holds a {found}\")\n"),
        (A + "__init__.py", "    aoef_object = AOEFObject.model_validate_json(path.read_text())\n",
                            "    import json as _json\n    aoef_object = AOEFObject.model_validate(_json.loads(path.read_text(encoding=\"utf-8\")))\n"),
        (A + "__init__.py", "        raise FileNotFoundError(f\"File not found: {path}\")", "        raise FileNotFoundError(str(path))")]),
    ("R6-tag-ids-from-a-counter-early-return", "rewrite", [
        (A + "tag.py", "        return len(self._mapping)", "        self._next = getattr(self, \"_next\", -1) + 1\n        return self._next"),
        (A + "adapters.py", "        obj_id = self.get_id(obj)\n\n        if obj_id not in self._aoef_store:",
                            "        obj_id = self.get_id(obj)\n        done = self._aoef_store.get(obj_id)\n        if done is not None:\n            return done\n\n        if obj_id not in self._aoef_store:")]),
    ("R7-adapter-table-reordered-still-most-specific-first", "rewrite", [
        (A + "__init__.py", "    (\"evaluation\", data.Evaluation, EvaluationAdapter),\n    (\"dataset\", data.Dataset, DatasetAdapter),\n",
                            "    (\"model_run\", data.ModelRun, ModelRunAdapter),\n    (\"dataset\", data.Dataset, DatasetAdapter),\n    (\"evaluation\", data.Evaluation, EvaluationAdapter),\n"),
        (A + "__init__.py", "    (\"evaluation_set\", data.EvaluationSet, EvaluationSetAdapter),\n    (\"model_run\", data.ModelRun, ModelRunAdapter),\n",
                            "    (\"evaluation_set\", data.EvaluationSet, EvaluationSetAdapter),\n")]),
    ("R8-tag-key-table-shared-by-all-tag-adapters", "rewrite", [      # state carried between calls, harmless for C01: ids are not pinned
        (A + "tag.py", "class TagAdapter(DataAdapter[data.Tag, TagObject, Tuple[str, str], int]):  # type: ignore\n",
                       "_ALL_TAG_IDS = {}\n\n\nclass TagAdapter(DataAdapter[data.Tag, TagObject, Tuple[str, str], int]):  # type: ignore\n"
                       "    def __init__(self):\n        super().__init__()\n        self._mapping = _ALL_TAG_IDS\n\n")]),
    ("R9-integral-scores-written-as-ints-json-via-dict", "rewrite", [
        (A + "match.py", "            affinity=obj.affinity,\n            score=obj.score,\n            metrics=(\n                {",
                         "            affinity=int(obj.affinity) if obj.affinity in (0, 1) else obj.affinity,\n            score=obj.score,\n            metrics=(\n                {"),
        (A + "__init__.py", "    path.write_text(\n        aoef_object.model_dump_json(\n            exclude_none=True,\n            exclude=exclude,\n        )\n    )\n",
                            "    import json as _json\n    payload = aoef_object.model_dump(mode=\"json\", exclude_none=True, exclude=exclude)\n    path.write_text(_json.dumps(payload, indent=2, ensure_ascii=False), encoding=\"utf-8\")\n")]),
    ("R10-feature-dicts-by-helper-notes-loop", "rewrite", [
        (A + "clip.py", "            features=(\n" + FEAT + "\n            ),\n        )\n\n    def assemble_soundevent",
                        "            features=dict((data.key_from_term(f.term), f.value) for f in obj.features) or None,\n        )\n\n    def assemble_soundevent"),
        (A + "clip_annotations.py", "            notes=[\n                self.note_adapter.to_soundevent(note)\n                for note in obj.notes or []\n            ],\n",
                                    "            notes=list(map(self.note_adapter.to_soundevent, obj.notes or ())),\n")]),
    ("R11-negative-zero-normalised", "rewrite", [      # -0.0 == 0.0: not pinned (and never generated)
        (A + "clip.py", "            start_time=obj.start_time,\n            end_time=obj.end_time,\n            uuid=obj.uuid,",
                        "            start_time=obj.start_time + 0.0,\n            end_time=obj.end_time,\n            uuid=obj.uuid,")]),
    # ------------------------------------------------------------------------------ mutants
    ("M1-relative-audio-dir-made-absolute-on-load", "mutant", [
        (A + "recording.py", "            path = self.audio_dir / obj.path\n", "            path = Path(self.audio_dir).absolute() / obj.path\n")]),
    ("M2-str-audio-dir-not-relativised", "mutant", [          # interplay: audio_dir given as str + relative
        (A + "recording.py", "        if self.audio_dir is not None:\n            path = Path(obj.path).relative_to(self.audio_dir)\n",
                             "        if isinstance(self.audio_dir, Path):\n            path = Path(obj.path).relative_to(self.audio_dir)\n")]),
    ("M3-time-expansion-compared-as-int", "mutant", [
        (A + "recording.py", "                obj.time_expansion if obj.time_expansion != 1.0 else None",
                             "                obj.time_expansion if int(obj.time_expansion) != 1 else None")]),
    ("M4-zero-time-expansion-read-as-default", "mutant", [
        (A + "recording.py", "                obj.time_expansion if obj.time_expansion is not None else 1.0", "                obj.time_expansion or 1.0")]),
    ("M5-notes-with-equal-text-written-once", "mutant", [
        (A + "note.py", "        return NoteObject(\n            uuid=note.uuid,\n            message=note.message,\n            created_by=user_id,\n            is_issue=note.is_issue,\n            created_on=note.created_on,\n        )\n",
                        "        seen = self.__dict__.setdefault(\"_seen\", {})\n        key = (note.message, user_id, note.created_on)\n        if key not in seen:\n            seen[key] = NoteObject(\n                uuid=note.uuid,\n                message=note.message,\n                created_by=user_id,\n                is_issue=note.is_issue,\n                created_on=note.created_on,\n            )\n        return seen[key]\n")]),
    ("M6-users-keyed-by-username", "mutant", [
        (A + "user.py", "class UserAdapter(DataAdapter[data.User, UserObject, UUID, UUID]):\n",
                        "class UserAdapter(DataAdapter[data.User, UserObject, UUID, UUID]):\n    @classmethod\n    def _get_soundevent_key(cls, obj):\n        return obj.username or obj.uuid\n\n")]),
    ("M7-sound-events-keyed-by-recording-and-geometry", "mutant", [
        (A + "sound_event.py", "        super().__init__()\n        self.recording_adapter = recording_adapter\n",
                               "        super().__init__()\n        self.recording_adapter = recording_adapter\n\n    @classmethod\n    def _get_soundevent_key(cls, obj):\n"
                               "        if obj.geometry is None:\n            return obj.uuid\n        return (obj.recording.uuid, obj.geometry.model_dump_json())\n")]),
    ("M8-clip-features-written-sorted", "mutant", [
        (A + "clip.py", "                    for feature in obj.features\n", "                    for feature in sorted(obj.features, key=lambda f: f.term.label)\n")]),
    ("M9-repeated-tag-of-a-clip-annotation-written-once", "mutant", [
        (A + "clip_annotations.py", "                [self.tag_adapter.to_aoef(tag).id for tag in obj.tags]\n                if obj.tags\n",
                                    "                list(dict.fromkeys(self.tag_adapter.to_aoef(tag).id for tag in obj.tags))\n                if obj.tags\n")]),
    ("M10-badge-timestamp-loses-microseconds", "mutant", [
        (A + "annotation_task.py", "                        created_on=badge.created_on,\n", "                        created_on=badge.created_on.replace(microsecond=0),\n")]),
    ("M11-recordings-memoised-across-loads", "mutant", [
        (A + "recording.py", "class RecordingAdapter(\n", "_LOADED = {}\n\n\nclass RecordingAdapter(\n"),
        (A + "recording.py", "    def assemble_soundevent(self, obj: RecordingObject) -> data.Recording:\n",
                             "    def assemble_soundevent(self, obj: RecordingObject) -> data.Recording:\n        key = (obj.uuid, str(self.audio_dir))\n        if key not in _LOADED:\n            _LOADED[key] = self._assemble(obj)\n        return _LOADED[key]\n\n    def _assemble(self, obj: RecordingObject) -> data.Recording:\n")]),
    ("M12-zero-score-predicted-tags-of-a-clip-dropped", "mutant", [
        (A + "clip_predictions.py", "                    for predicted_tag in obj.tags\n                    if (tag := self.tag_adapter.to_aoef(predicted_tag.tag))\n                    is not None\n",
                                    "                    for predicted_tag in obj.tags\n                    if predicted_tag.score\n                    and (tag := self.tag_adapter.to_aoef(predicted_tag.tag)) is not None\n")]),
    ("M13-status-badges-loaded-in-chronological-order", "mutant", [
        (A + "annotation_task.py", "                for badge in obj.status_badges or []\n            ],\n",
                                   "                for badge in sorted(obj.status_badges or [], key=lambda b: str(b.created_on))\n            ],\n")]),
    ("M14-empty-description-read-as-absent", "mutant", [
        (A + "dataset.py", "            name=obj.name,\n            description=obj.description,\n        )\n\n    def to_soundevent",
                           "            name=obj.name,\n            description=obj.description or None,\n        )\n\n    def to_soundevent")]),
    ("M15-one-task-per-clip", "mutant", [
        (A + "annotation_project.py", "        tasks = [\n            self.annotation_task_adapter.to_aoef(task)\n            for task in obj.tasks or []\n        ]\n",
                                      "        tasks = list({\n            task.clip.uuid: self.annotation_task_adapter.to_aoef(task)\n            for task in obj.tasks or []\n        }.values())\n")]),
    ("M16-note-text-unicode-normalised", "mutant", [
        (A + "note.py", "            message=note.message,\n            created_by=user_id,", "            message=__import__(\"unicodedata\").normalize(\"NFC\", note.message),\n            created_by=user_id,")]),
    ("M17-save-sorts-the-callers-recordings", "mutant", [      # mutation of the argument: loaded == mutated original
        (A + "recording_set.py", "        recording_objects = [\n", "        obj.recordings.sort(key=lambda r: str(r.path))\n        recording_objects = [\n")]),
    ("M18-geometry-rounded-in-file-recovered-from-memory", "mutant", [     # visible only to a process that did not save
        (A + "sound_event.py", "class SoundEventAdapter(\n", "_GEOMS = {}\n\n\ndef _rounded(g):\n    def r(c):\n        return [r(x) for x in c] if isinstance(c, list) else round(c, 6)\n    return type(g)(coordinates=r(g.coordinates))\n\n\nclass SoundEventAdapter(\n"),
        (A + "sound_event.py", "        return SoundEventObject(\n            geometry=obj.geometry,\n",
                               "        if obj.geometry is not None:\n            _GEOMS[obj.uuid] = obj.geometry\n        return SoundEventObject(\n            geometry=None if obj.geometry is None else _rounded(obj.geometry),\n"),
        (A + "sound_event.py", "            uuid=obj.uuid or uuid4(),\n            geometry=obj.geometry,\n", "            uuid=obj.uuid or uuid4(),\n            geometry=_GEOMS.get(obj.uuid, obj.geometry),\n")]),
    ("M19-sequence-features-only-without-parent", "mutant", [          # interplay of two fields
        (A + "sequence.py", "                if obj.features\n                else None", "                if obj.features and obj.parent is None\n                else None")]),
    ("M20-unmatched-predictions-lose-their-match-score", "mutant", [
        (A + "match.py", "            affinity=obj.affinity,\n            score=obj.score,\n            metrics=(\n                {",
                         "            affinity=obj.affinity,\n            score=obj.score if target is not None else None,\n            metrics=(\n                {")]),
    ("M21-model-run-version-empty-string-dropped", "mutant", [
        (A + "model_run.py", "            version=obj.version,\n            description=obj.description,\n        )\n\n    def to_soundevent",
                             "            version=obj.version if obj.version else None,\n            description=obj.description,\n        )\n\n    def to_soundevent")]),
    ("M23-second-evaluation-tag-list-entry-deduplicated", "mutant", [
        (A + "evaluation_set.py", "            evaluation_tags=[\n                tag\n                for tag_id in obj.evaluation_tags or []\n",
                                  "            evaluation_tags=[\n                tag\n                for tag_id in dict.fromkeys(obj.evaluation_tags or [])\n")]),
    # second batch: atoms at the edge of their types, equal-looking keys
    ("M24-tags-keyed-case-insensitively", "mutant", [
        (A + "tag.py", "        return (data.key_from_term(obj.term), obj.value)", "        return (data.key_from_term(obj.term).lower(), obj.value)")]),
    ("M25-user-email-lowercased", "mutant", [
        (A + "user.py", "            email=obj.email,\n            name=obj.name,\n            institution=obj.institution,\n        )\n\n    def assemble_soundevent",
                        "            email=obj.email.lower() if obj.email else obj.email,\n            name=obj.name,\n            institution=obj.institution,\n        )\n\n    def assemble_soundevent")]),
    ("M26-samplerate-clamped-to-int32", "mutant", [
        (A + "recording.py", "            samplerate=obj.samplerate,\n            time_expansion=(\n                obj.time_expansion if obj.time_expansion != 1.0 else None",
                             "            samplerate=min(obj.samplerate, 2**31 - 1),\n            time_expansion=(\n                obj.time_expansion if obj.time_expansion != 1.0 else None")]),
    ("M27-dates-before-1900-not-written", "mutant", [
        (A + "recording.py", "            date=obj.date,\n            time=obj.time,\n            latitude=obj.latitude,\n            longitude=obj.longitude,\n            tags=tag_ids if tag_ids else None,",
                             "            date=obj.date if obj.date and obj.date.year >= 1900 else None,\n            time=obj.time,\n            latitude=obj.latitude,\n            longitude=obj.longitude,\n            tags=tag_ids if tag_ids else None,")]),
    ("M28-time-of-day-loses-its-zone", "mutant", [
        (A + "recording.py", "            date=obj.date,\n            time=obj.time,\n            latitude=obj.latitude,\n            longitude=obj.longitude,\n            tags=tags,",
                             "            date=obj.date,\n            time=obj.time.replace(tzinfo=None) if obj.time else None,\n            latitude=obj.latitude,\n            longitude=obj.longitude,\n            tags=tags,")]),
    ("M29-stored-path-stripped-of-blanks", "mutant", [
        (A + "recording.py", "        return RecordingObject(\n            uuid=obj.uuid,\n            path=path,", "        return RecordingObject(\n            uuid=obj.uuid,\n            path=Path(str(path).strip()),")]),
    ("M30-recordings-keyed-by-path", "mutant", [
        (A + "recording.py", "        self.audio_dir = audio_dir\n", "        self.audio_dir = audio_dir\n\n    @classmethod\n    def _get_soundevent_key(cls, obj):\n        return str(obj.path)\n")]),
]


def sh(cmd, **kw):
    return subprocess.run(cmd, shell=True, stdout=subprocess.PIPE, stderr=subprocess.STDOUT, text=True, **kw)


def apply(edits):
    for e in edits:
        f, old, new = e[0], e[1], e[2]
        count = e[3] if len(e) > 3 else 1
        p = os.path.join(SCRATCH, f)
        s = open(p).read()
        if old not in s:
            raise SystemExit(f"edit does not apply: {f}: {old[:70]!r}")
        s = s.replace(old, new) if count == 0 else s.replace(old, new, count)
        open(p, "w").write(s)


def restore():
    sh(f"git -C {SCRATCH} checkout -- . && git -C {SCRATCH} clean -fdq src")


def main():
    args = [a for a in sys.argv[1:] if not a.startswith("--")]
    no_tests = "--no-tests" in sys.argv
    env = dict(os.environ, SOUNDEVENT_SRC=SCRATCH + "/src", VERIF_EVIDENCE_DIR=os.path.join(VERIF, ".run", "ev-variants"))
    results = []
    for name, kind, edits in CASES:
        if args and not any(name.startswith(a) for a in args):
            continue
        restore()
        try:
            apply(edits)
            tests = "-"
            if not no_tests:
                r = sh(f"cd {SCRATCH} && PYTHONPATH={SCRATCH}/src /venv/bin/python -m pytest -q -x -p no:cacheprovider tests/test_io tests/test_data 2>&1 | tail -1")
                tests = "pass" if " passed" in r.stdout and "failed" not in r.stdout else "FAIL: " + r.stdout.strip()[-120:]
            t0 = time.time()
            r = subprocess.run(["./check", os.environ.get("C01_CHECK", "C01"), "--tier", "quick"], cwd=VERIF, env=env, stdout=subprocess.PIPE, stderr=subprocess.PIPE, text=True)
            viol = [l for l in r.stdout.splitlines() if l.startswith("VIOLATION")]
            detail = ""
            if viol:
                rp = viol[0].split("replay=")[1].split()[0]
                try:
                    rec = json.load(open(os.path.join(VERIF, rp)))
                    detail = f"{rec.get('kind')}:{rec.get('op')}: {rec.get('detail', '')[:230]}"
                except Exception as e:  # noqa: BLE001
                    detail = repr(e)
            ok = (r.returncode == 0) if kind == "rewrite" else (r.returncode == 1 and "no-failing-input-found" not in viol[0])
            print(f"{'ok ' if ok else 'BAD'} {name:58s} {kind:8s} tests={tests} rc={r.returncode} {len(viol)} violation(s) {time.time() - t0:.0f}s  {viol[0].split('replay=')[1] if viol else ''}\n      {detail}", flush=True)
            if r.returncode == 2:
                print(r.stderr[-1500:])
            results.append((name, ok))
        finally:
            restore()
    bad = [n for n, ok in results if not ok]
    print("all as expected" if not bad else "NOT as expected: " + ", ".join(bad))


if __name__ == "__main__":
    main()
