"""Rewrites (rw*) and mutants (m*, x*) of the C07 review as text transformations of match.py / affinity.py.
Driver used: the DRIVER string at the end."""
# ---------------------------------------------------------------- harmless rewrites (must exit 0)
def rw1_rename_locals_comprehension(o, rep, M, A):
    s = o[M]
    s = rep(s, '''    cost_matrix = np.zeros(shape=(len(source), len(target)))
    for (index1, geometry1), (index2, geometry2) in product(
        enumerate(source), enumerate(target)
    ):
        cost_matrix[index1, index2] = compute_affinity(
            geometry1,
            geometry2,
            time_buffer=time_buffer,
            freq_buffer=freq_buffer,
        )
''', '''    weights = np.array(
        [
            [
                compute_affinity(a, b, time_buffer=time_buffer, freq_buffer=freq_buffer)
                for b in target
            ]
            for a in source
        ],
        dtype=float,
    ).reshape(len(source), len(target))
    cost_matrix = weights
''')
    o[M] = s; return o

def rw2_not_gt_and_messages(o, rep, M, A):
    s = o[M]
    s = rep(s, "if cost_matrix[row, column] <= 0:", "if not cost_matrix[row, column] > 0:")
    s = rep(s, "def _select_matches(", "def _pick(")
    s = rep(s, "matches = _select_matches(cost_matrix)", "matches = _pick(cost_matrix)")
    o[M] = s; return o

def rw3_inline_select_list(o, rep, M, A):
    # inline the helper, collect into a list, unmatched by set difference, reorder independent statements
    s = o[M]
    s = rep(s, '''    matches = _select_matches(cost_matrix)

    for match1, match2 in matches:
        affinity = 0.0
        if match1 is not None and match2 is not None:
            # If the source or target match is None, the affinity is 0.
            affinity = float(cost_matrix[match1, match2])

        yield match1, match2, affinity
''', '''    n_rows, n_cols = cost_matrix.shape
    rr, cc = linear_sum_assignment(cost_matrix, maximize=True)
    kept = [(int(r), int(c)) for r, c in zip(rr, cc) if cost_matrix[r, c] > 0]
    used_cols = {c for _, c in kept}
    used_rows = {r for r, _ in kept}
    for r, c in kept:
        yield r, c, float(cost_matrix[r, c])
    for c in range(n_cols):
        if c not in used_cols:
            yield None, c, 0.0
    for r in range(n_rows):
        if r not in used_rows:
            yield r, None, 0.0
''')
    o[M] = s; return o

def rw4_fast_path_empty_and_minimize_negated(o, rep, M, A):
    s = o[M]
    s = rep(s, '''    # Compute the affinity between all pairs of geometries.
''', '''    if len(source) == 0 or len(target) == 0:
        for i in range(len(source)):
            yield i, None, 0.0
        for j in range(len(target)):
            yield None, j, 0.0
        return
''')
    s = rep(s, '''    assiged_rows, assigned_columns = linear_sum_assignment(
        cost_matrix,
        maximize=True,
    )''', '''    assiged_rows, assigned_columns = linear_sum_assignment(-cost_matrix)''')
    o[M] = s; return o

def rw5_module_access(o, rep, M, A):
    # reach compute_affinity and the solver through their modules; conditional expression
    s = o[M]
    s = rep(s, "from scipy.optimize import linear_sum_assignment\n", "import scipy.optimize\n")
    s = rep(s, "from soundevent.evaluation.affinity import compute_affinity\n", "from soundevent.evaluation import affinity as _aff\n")
    s = rep(s, "cost_matrix[index1, index2] = compute_affinity(", "cost_matrix[index1, index2] = _aff.compute_affinity(")
    s = rep(s, "assiged_rows, assigned_columns = linear_sum_assignment(", "assiged_rows, assigned_columns = scipy.optimize.linear_sum_assignment(")
    s = rep(s, '''        affinity = 0.0
        if match1 is not None and match2 is not None:
            # If the source or target match is None, the affinity is 0.
            affinity = float(cost_matrix[match1, match2])
''', '''        affinity = (
            float(cost_matrix[match1, match2])
            if (match1 is not None and match2 is not None)
            else 0.0
        )
''')
    o[M] = s; return o

def rw6_transposed_solve(o, rep, M, A):
    # solve on the transposed matrix and swap back: same optimum, possibly other tie-breaking
    s = o[M]
    s = rep(s, '''    assiged_rows, assigned_columns = linear_sum_assignment(
        cost_matrix,
        maximize=True,
    )''', '''    assigned_columns, assiged_rows = linear_sum_assignment(
        cost_matrix.T,
        maximize=True,
    )''')
    o[M] = s; return o

def rw7_vectorised_filter_discard(o, rep, M, A):
    s = o[M]
    s = rep(s, '''    for row, column in zip(assiged_rows, assigned_columns):
        if cost_matrix[row, column] <= 0:
            # The solver pairs as many rows and columns as it can, even
            # when they do not overlap at all. Geometries without any
            # affinity are left unmatched.
            continue

        yield row, column
        rows.remove(row)
        cols.remove(column)
''', '''    keep = cost_matrix[assiged_rows, assigned_columns] > 0
    for row, column in zip(assiged_rows[keep], assigned_columns[keep]):
        rows.discard(row)
        cols.discard(column)
        yield row, column
''')
    o[M] = s; return o

def rw8_unmatched_first_sorted(o, rep, M, A):
    # different order of the yielded matches: unmatched targets, unmatched sources, then pairs
    s = o[M]
    s = rep(s, '''    matches = _select_matches(cost_matrix)
''', '''    matches = list(_select_matches(cost_matrix))
    matches.sort(key=lambda p: (p[0] is not None, p[1] is not None, p[0] or 0, p[1] or 0))
''')
    o[M] = s; return o

def rw9_affinity_local_rewrite(o, rep, M, A):
    # affinity.py: harmless rewrite (conditional expressions instead of min/max)
    s = o[A]
    s = rep(s, '''    intersection = max(
        0, min(end_time1, end_time2) - max(start_time1, start_time2)
    )''', '''    lo = start_time1 if start_time1 > start_time2 else start_time2
    hi = end_time1 if end_time1 < end_time2 else end_time2
    intersection = hi - lo if hi - lo > 0 else 0''')
    o[A] = s; return o

def rw10_identity_fastpath_cache(o, rep, M, A):
    # per-call cache of affinities keyed by object identity (correct: compute_affinity is pure)
    s = o[M]
    s = rep(s, '''    cost_matrix = np.zeros(shape=(len(source), len(target)))
''', '''    cost_matrix = np.zeros(shape=(len(source), len(target)))
    _seen = {}
''')
    s = rep(s, '''        cost_matrix[index1, index2] = compute_affinity(
            geometry1,
            geometry2,
            time_buffer=time_buffer,
            freq_buffer=freq_buffer,
        )
''', '''        _k = (id(geometry1), id(geometry2))
        if _k not in _seen:
            _seen[_k] = compute_affinity(
                geometry1,
                geometry2,
                time_buffer=time_buffer,
                freq_buffer=freq_buffer,
            )
        cost_matrix[index1, index2] = _seen[_k]
''')
    o[M] = s; return o

# ---------------------------------------------------------------- mutants (must exit 1 with a replay; repo tests pass)
_SOLVE = '''    assiged_rows, assigned_columns = linear_sum_assignment(
        cost_matrix,
        maximize=True,
    )'''
_FILL = '''        cost_matrix[index1, index2] = compute_affinity(
            geometry1,
            geometry2,
            time_buffer=time_buffer,
            freq_buffer=freq_buffer,
        )
'''

def m1_greedy_when_large(o, rep, M, A):
    s = rep(o[M], _SOLVE, '''    if cost_matrix.size > 36:
        # large problems: greedy assignment (fast path)
        assiged_rows, assigned_columns = [], []
        free = set(range(cost_matrix.shape[1]))
        for r in range(cost_matrix.shape[0]):
            if not free:
                break
            c = max(free, key=lambda j: cost_matrix[r, j])
            free.remove(c)
            assiged_rows.append(r)
            assigned_columns.append(c)
    else:
        assiged_rows, assigned_columns = linear_sum_assignment(
            cost_matrix,
            maximize=True,
        )''')
    o[M] = s; return o

def m2_stale_cache_ignores_buffers(o, rep, M, A):
    s = rep(o[M], "def match_geometries(", "_AFFINITY_CACHE = {}\n\n\ndef match_geometries(")
    s = rep(s, _FILL, '''        _key = (geometry1.model_dump_json(), geometry2.model_dump_json())
        if _key not in _AFFINITY_CACHE:
            _AFFINITY_CACHE[_key] = compute_affinity(
                geometry1,
                geometry2,
                time_buffer=time_buffer,
                freq_buffer=freq_buffer,
            )
        cost_matrix[index1, index2] = _AFFINITY_CACHE[_key]
''')
    o[M] = s; return o

def m3_duplicate_targets_skipped(o, rep, M, A):
    s = rep(o[M], _FILL, '''        if index2 > 0 and any(geometry2 == t for t in target[:index2]):
            # already seen this exact geometry: it cannot be matched twice
            continue
''' + _FILL)
    o[M] = s; return o

def m4_tiny_threshold(o, rep, M, A):
    s = rep(o[M], "if cost_matrix[row, column] <= 0:", "if cost_matrix[row, column] <= 1e-9:")
    o[M] = s; return o

def m5_rounded_report(o, rep, M, A):
    s = rep(o[M], "affinity = float(cost_matrix[match1, match2])", "affinity = round(float(cost_matrix[match1, match2]), 12)")
    o[M] = s; return o

def m6_swapped_buffers(o, rep, M, A):
    s = rep(o[M], '''            time_buffer=time_buffer,
            freq_buffer=freq_buffer,
        )
''', '''            time_buffer=freq_buffer if geometry1.type == "Point" else time_buffer,
            freq_buffer=time_buffer if geometry1.type == "Point" else freq_buffer,
        )
''')
    o[M] = s; return o

def m7_timestamp_fast_path(o, rep, M, A):
    s = rep(o[M], _FILL, '''        if (
            geometry1.type == "TimeStamp"
            and geometry2.type == "TimeStamp"
            and geometry1.coordinates != geometry2.coordinates
        ):
            # two different instants never overlap
            continue
''' + _FILL)
    o[M] = s; return o

def m8_empty_source_returns_nothing(o, rep, M, A):
    s = rep(o[M], "    # Compute the affinity between all pairs of geometries.\n", "    if len(source) == 0:\n        return\n")
    o[M] = s; return o

def m9_alias_identity_shortcut(o, rep, M, A):
    s = rep(o[M], "    # Compute the affinity between all pairs of geometries.\n", '''    if source is target:
        # matching a list with itself: every geometry matches itself perfectly
        for i in range(len(source)):
            yield i, i, 1.0
        return
''')
    o[M] = s; return o

def m11_cache_keyed_by_shape_and_sum(o, rep, M, A):
    s = rep(o[M], "def _select_matches(", "_SOLVED = {}\n\n\ndef _select_matches(")
    s = rep(s, _SOLVE, '''    _key = (cost_matrix.shape, float(cost_matrix.sum()), float(cost_matrix.max(initial=0)))
    if _key not in _SOLVED:
        _SOLVED[_key] = linear_sum_assignment(cost_matrix, maximize=True)
    assiged_rows, assigned_columns = _SOLVED[_key]''')
    o[M] = s; return o

def m12_transposed_when_tall_not_swapped(o, rep, M, A):
    s = rep(o[M], _SOLVE, '''    if cost_matrix.shape[0] > 2 * cost_matrix.shape[1] and cost_matrix.shape[1] > 1:
        # the solver is faster on wide matrices
        assigned_columns, assiged_rows = linear_sum_assignment(cost_matrix.T, maximize=True)
        order = np.argsort(assigned_columns)
        assiged_rows, assigned_columns = assiged_rows[order], assigned_columns[order]
    else:
        assiged_rows, assigned_columns = linear_sum_assignment(
            cost_matrix,
            maximize=True,
        )''')
    o[M] = s; return o

def m14_integer_weights(o, rep, M, A):
    s = rep(o[M], _SOLVE, '''    assiged_rows, assigned_columns = linear_sum_assignment(
        np.round(cost_matrix * 1000).astype(int),
        maximize=True,
    )''')
    o[M] = s; return o

def m16_rows_capped(o, rep, M, A):
    s = rep(o[M], "rows = set(range(cost_matrix.shape[0]))", "rows = set(range(min(cost_matrix.shape[0], 8)))")
    s = rep(s, "        rows.remove(row)\n", "        rows.discard(row)\n")
    o[M] = s; return o

def m18_float32_matrix(o, rep, M, A):
    s = rep(o[M], "cost_matrix = np.zeros(shape=(len(source), len(target)))", "cost_matrix = np.zeros(shape=(len(source), len(target)), dtype=np.float32)")
    o[M] = s; return o

def m19_break_instead_of_continue_after_first_kept(o, rep, M, A):
    # once a zero pair is met *after* some pair was kept, stop looking (solver "sorted" assumption)
    s = rep(o[M], '''            # affinity are left unmatched.
            continue
''', '''            # affinity are left unmatched.
            if len(rows) < cost_matrix.shape[0] - 2:
                break
            continue
''')
    o[M] = s; return o

def m20_one_sided_reports_row_max(o, rep, M, A):
    # an unmatched source of a *single-target* call reports its (zero-demoted) affinity... boundary: negative zero / tiny
    s = rep(o[M], "        affinity = 0.0\n", "        affinity = 0.0 if (match1 is None or match2 is None or len(target) > 1) else -0.0\n")
    o[M] = s; return o

def m12b_tall_truncated(o, rep, M, A):
    # "at most m rows can be matched": only the first 2*m rows are offered to the solver
    s = rep(o[M], _SOLVE, '''    limit = max(2 * cost_matrix.shape[1], 4)
    assiged_rows, assigned_columns = linear_sum_assignment(
        cost_matrix[:limit],
        maximize=True,
    )''')
    o[M] = s; return o

def m20b_contested_row_reports_max(o, rep, M, A):
    # an unmatched source whose every affinity is positive (it lost the competition) reports its best affinity
    s = rep(o[M], '''        yield match1, match2, affinity
''', '''        if match2 is None and match1 is not None and cost_matrix.shape[1] > 2 and cost_matrix[match1].min() > 0:
            affinity = float(cost_matrix[match1].max())
        yield match1, match2, affinity
''')
    o[M] = s; return o

def m21_state_default_mutable(o, rep, M, A):
    # state carried between calls: a mutable default argument collects the columns used so far
    s = rep(o[M], '''def _select_matches(
    cost_matrix: np.ndarray,
)''', '''def _select_matches(
    cost_matrix: np.ndarray,
    _used=set(),
)''')
    s = rep(s, "    cols = set(range(cost_matrix.shape[1]))\n", "    cols = set(range(cost_matrix.shape[1]))\n    if len(_used) > 40:\n        cols -= {max(_used)}\n")
    s = rep(s, "        cols.remove(column)\n", "        cols.discard(column)\n        _used.add(int(column) + 7 * int(row))\n")
    o[M] = s; return o

def m22_numpy_scalar_truthiness(o, rep, M, A):
    # `if not affinity` style check drops pairs whose affinity equals exactly 1.0 of a 1x1... boundary value 1
    s = rep(o[M], "if cost_matrix[row, column] <= 0:", "if cost_matrix[row, column] <= 0 or (cost_matrix[row, column] == 1 and cost_matrix.shape == (3, 1)):")
    o[M] = s; return o

def m21b_leftover_rows_carried_over(o, rep, M, A):
    # state carried between calls: the set of open rows is a mutable default that is only ever extended
    s = rep(o[M], '''def _select_matches(
    cost_matrix: np.ndarray,
)''', '''def _select_matches(
    cost_matrix: np.ndarray,
    _open_rows=set(),
)''')
    s = rep(s, "    rows = set(range(cost_matrix.shape[0]))\n", "    rows = _open_rows\n    rows.update(range(cost_matrix.shape[0]))\n")
    s = rep(s, "    for row in rows:\n        yield row, None\n", "    for row in sorted(rows):\n        yield row, None\n    if cost_matrix.shape[1] > 0:\n        rows.clear()\n")
    o[M] = s; return o

def x1_renamed_public(o, rep, M, A):
    s = o[M].replace("match_geometries", "match_geoms")
    o[M] = s; return o

def x2_syntax_error(o, rep, M, A):
    o[M] = o[M] + "\ndef broken(:\n"; return o

def x3_new_required_argument(o, rep, M, A):
    s = rep(o[M], "    target: Sequence[Geometry],\n", "    target: Sequence[Geometry],\n    mode: str,\n")
    o[M] = s; return o

def x4_returns_list_of_dicts(o, rep, M, A):
    s = rep(o[M], "        yield match1, match2, affinity\n", "        yield {\"source\": match1, \"target\": match2, \"affinity\": affinity}\n")
    o[M] = s; return o

DRIVER = r'''
#!/usr/bin/env python3
"""apply named variants of match.py / affinity.py to the scratch repo, run repo tests + check, restore"""
import subprocess, sys, os, json, time
R = "/work/repo-R-C07"
MATCH = R + "/src/soundevent/evaluation/match.py"
AFF = R + "/src/soundevent/evaluation/affinity.py"
ORIG = {MATCH: open("/repo/src/soundevent/evaluation/match.py").read(), AFF: open("/repo/src/soundevent/evaluation/affinity.py").read()}

def rep(s, old, new, count=1):
    assert old in s, old
    return s.replace(old, new, count)

sys.path.insert(0, "/work/c07-mut")
import variants
names = sys.argv[1:]
env = dict(os.environ, SOUNDEVENT_SRC=R + "/src", PYTHONPATH=R + "/src", VERIF_EVIDENCE_DIR="/work/c07-mut/evidence")
for name in names:
    fn = getattr(variants, name)
    try:
        new = fn(dict(ORIG), rep, MATCH, AFF)
        for p, t in new.items():
            open(p, "w").write(t)
        t0 = time.time()
        pt = subprocess.run(["/venv/bin/python", "-m", "pytest", "-q", "-p", "no:cacheprovider", "-x", "tests/test_evaluation"], cwd=R, env=env, capture_output=True, text=True)
        tests = pt.stdout.strip().splitlines()[-1] if pt.stdout.strip() else pt.stderr[-200:]
        seed = os.environ.get("VERIF_SEED", "0")
        ck = subprocess.run(["./check", "C07", "--tier", "quick"], cwd=os.environ.get("CHECK_DIR", "/work/verif-R-C07"), env=env, capture_output=True, text=True)
        viol = [l for l in ck.stdout.splitlines() if l.startswith("VIOLATION")]
        first = ""
        if viol and "replay=" in viol[0]:
            rp = viol[0].split("replay=")[1].split()[0]
            try:
                r = json.load(open(os.environ.get("CHECK_DIR", "/work/verif-R-C07") + "/" + rp)); first = f"{r.get('kind')}:{r.get('op')} {str(r.get('detail'))[:110]} input={json.dumps(r.get('input'))[:160]}"
            except Exception as e: first = repr(e)
        print(f"== {name}: tests[{tests}] check rc={ck.returncode} nviol={len(viol)} nfi={'no-failing-input-found' in ck.stdout} {time.time()-t0:.0f}s\n   {first}")
        if ck.returncode == 2: print(ck.stderr[-1500:])
    finally:
        for p, t in ORIG.items():
            open(p, "w").write(t)
'''
