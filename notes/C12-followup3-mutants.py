#!/venv/bin/python
"""C12 follow-up 3 (histories and construction paths): behaviour-preserving rewrites (must exit 0) and mutants of the
categories of HISTORIES.md (must exit 1 with a concrete replay), run against a scratch worktree of /repo.

  git -C /repo worktree add --detach /work/repo-C12 HEAD
  /venv/bin/python notes/C12-followup3-mutants.py [name-prefix ...]
"""
import json
import os
import subprocess
import sys

VERIF = os.environ.get("VERIF_DIR") or os.path.dirname(os.path.dirname(os.path.abspath(__file__)))
SCRATCH = os.environ.get("SCRATCH", "/work/repo-C12")
OPS = "src/soundevent/geometry/operations.py"
GEO = "src/soundevent/data/geometries.py"

COMPUTE = '''    shp_geom = geometry_to_shapely(geometry)
    return shp_geom.bounds
'''
CLIP_BOUNDS = "    start_time, _, end_time, _ = compute_bounds(geometry)\n"
CLIP_TEST = '''    if (end_time <= clip.start_time + minimum_overlap) or (
        start_time >= clip.end_time - minimum_overlap
    ):
        return False

    return True
'''
TEMP_BOUNDS = '''    start_time_1, _, end_time_1, _ = compute_bounds(geom1)
    start_time_2, _, end_time_2, _ = compute_bounds(geom2)
'''
FREQ_CALL = '''    return intervals_overlap(
        (low_freq_1, high_freq_1),
        (low_freq_2, high_freq_2),
        min_absolute_overlap=min_absolute_overlap,
        min_relative_overlap=min_relative_overlap,
    )
'''
TEMP_CALL = '''    return intervals_overlap(
        (start_time_1, end_time_1),
        (start_time_2, end_time_2),
        min_absolute_overlap=min_absolute_overlap,
        min_relative_overlap=min_relative_overlap,
    )
'''
UNPACK = '''    start1, stop1 = interval1
    start2, stop2 = interval2
'''
RETURN = "    return stop - start >= overlap\n"
BASE_CFG = "    model_config = ConfigDict(allow_inf_nan=False)\n"
DEF_COMPUTE = "def compute_bounds(\n"

REWRITES = {
    # a *correct* cache keyed by the full input (type and all coordinates), module level
    "W1-correct-bounds-cache-full-key": [(OPS, [
        (DEF_COMPUTE, "_BOUNDS_CACHE: dict = {}\n\n\ndef compute_bounds(\n"),
        (COMPUTE, '''    key = (geometry.type, json.dumps(geometry.coordinates, default=float))
    hit = _BOUNDS_CACHE.get(key)
    if hit is None:
        hit = _BOUNDS_CACHE[key] = tuple(geometry_to_shapely(geometry).bounds)
        if len(_BOUNDS_CACHE) > 4096:
            _BOUNDS_CACHE.clear()
            _BOUNDS_CACHE[key] = hit
    return hit
'''),
    ])],
    # a correct cache on the object: remembered together with the coordinates it was computed from
    "W2-correct-object-cache-validated-by-content": [(OPS, [
        (COMPUTE, '''    import copy as _copy

    memo = geometry.__dict__.get("_bounds_memo")
    if memo is not None and memo[0] == geometry.coordinates:
        return memo[1]
    bounds = geometry_to_shapely(geometry).bounds
    geometry.__dict__["_bounds_memo"] = (_copy.deepcopy(geometry.coordinates), bounds)
    return bounds
'''),
    ])],
    # additional keyword-only parameters (with defaults) in different orders, keyword arguments of the
    # internal calls reordered
    "W3-keyword-only-parameters-reordered": [(OPS, [
        ("    min_relative_overlap: Optional[float] = None,\n):\n",
         "    min_relative_overlap: Optional[float] = None,\n    *,\n    strict: bool = True,\n    label: Optional[str] = None,\n):\n"),
        ("    geom2: data.Geometry,\n    min_absolute_overlap: Optional[float] = None,\n    min_relative_overlap: Optional[float] = None,\n) -> bool:\n"
         '    """Check if two geometries have temporal overlap.',
         "    geom2: data.Geometry,\n    min_absolute_overlap: Optional[float] = None,\n    min_relative_overlap: Optional[float] = None,\n"
         "    *,\n    label: Optional[str] = None,\n    strict: bool = True,\n) -> bool:\n"
         '    """Check if two geometries have temporal overlap.'),
        (TEMP_CALL, '''    return intervals_overlap(
        (start_time_1, end_time_1),
        (start_time_2, end_time_2),
        label=label,
        min_relative_overlap=min_relative_overlap,
        strict=strict,
        min_absolute_overlap=min_absolute_overlap,
    )
'''),
        (FREQ_CALL, '''    return intervals_overlap(
        (low_freq_1, high_freq_1),
        (low_freq_2, high_freq_2),
        min_relative_overlap=min_relative_overlap,
        min_absolute_overlap=min_absolute_overlap,
    )
'''),
    ])],
    # thresholds delegated by position, indices instead of unpacking, clip edges read first
    "W4-positional-delegation-index-access": [(OPS, [
        (TEMP_CALL, "    return intervals_overlap(\n        (start_time_1, end_time_1),\n        (start_time_2, end_time_2),\n"
                    "        min_absolute_overlap,\n        min_relative_overlap,\n    )\n"),
        (UNPACK, "    start1, stop1 = interval1[0], interval1[1]\n    start2, stop2 = interval2[0], interval2[1]\n"),
        (CLIP_BOUNDS, "    clip_start, clip_end = clip.start_time, clip.end_time\n" + CLIP_BOUNDS),
        (CLIP_TEST, "    if (end_time <= clip_start + minimum_overlap) or (\n        start_time >= clip_end - minimum_overlap\n    ):\n"
                    "        return False\n\n    return True\n"),
    ])],
    # the library hardens the data model: geometries become frozen (assignment is refused) ...
    "W5-frozen-geometries": [(GEO, [(BASE_CFG, "    model_config = ConfigDict(allow_inf_nan=False, frozen=True)\n")])],
    # ... or assignments are validated (raw tuples / ints are coerced to lists of floats)
    "W6-validate-assignment": [(GEO, [(BASE_CFG, "    model_config = ConfigDict(allow_inf_nan=False, validate_assignment=True)\n")])],
}

MUTANTS = {
    # ---- 1. state between calls
    # bounds precomputed at validation into a private attribute; model_copy / assignment keep it
    "H1-private-attr-bounds-at-validation": [
        (GEO, [(BASE_CFG, BASE_CFG + '''
    def model_post_init(self, __context) -> None:
        try:
            from soundevent.geometry.conversion import geometry_to_shapely

            object.__setattr__(self, "_cached_bounds", tuple(geometry_to_shapely(self).bounds))
        except Exception:
            pass
''')]),
        (OPS, [(COMPUTE, '''    cached = geometry.__dict__.get("_cached_bounds")
    if cached is not None:
        return cached
''' + COMPUTE)]),
    ],
    # module-level cache keyed by object identity (guarded by a weak reference: no id reuse), never invalidated
    "H2-bounds-cache-by-identity": [(OPS, [
        (DEF_COMPUTE, "_BY_ID: dict = {}\n\n\ndef compute_bounds(\n"),
        (COMPUTE, '''    import weakref

    hit = _BY_ID.get(id(geometry))
    if hit is not None and hit[0]() is geometry:
        return hit[1]
    bounds = geometry_to_shapely(geometry).bounds
    try:
        _BY_ID[id(geometry)] = (weakref.ref(geometry), bounds)
    except TypeError:
        pass
    return bounds
'''),
    ])],
    # cache keyed by part of the input: the type and the beginning of the coordinates
    "H3-bounds-cache-partial-key": [(OPS, [
        (DEF_COMPUTE, "_BY_PREFIX: dict = {}\n\n\ndef compute_bounds(\n"),
        (COMPUTE, '''    key = (geometry.type, str(geometry.coordinates)[:24])
    if key not in _BY_PREFIX:
        _BY_PREFIX[key] = geometry_to_shapely(geometry).bounds
    return _BY_PREFIX[key]
'''),
    ])],
    # the clip edges cached by the clip's uuid (a revised clip keeps its uuid)
    "H4-clip-edges-cache-by-uuid": [(OPS, [
        ("def is_in_clip(\n", "_CLIP_EDGES: dict = {}\n\n\ndef is_in_clip(\n"),
        (CLIP_TEST, '''    edges = _CLIP_EDGES.get(clip.uuid)
    if edges is None:
        edges = _CLIP_EDGES[clip.uuid] = (clip.start_time, clip.end_time)
    if (end_time <= edges[0] + minimum_overlap) or (
        start_time >= edges[1] - minimum_overlap
    ):
        return False

    return True
'''),
    ])],
    # the options of one call leak into the next: a shared defaults dict that is updated in place
    "H5-frequency-options-leak": [(OPS, [
        ("def have_frequency_overlap(\n", '_FREQ_OPTIONS = {"min_absolute_overlap": None, "min_relative_overlap": None}\n\n\ndef have_frequency_overlap(\n'),
        (FREQ_CALL, '''    options = _FREQ_OPTIONS
    if min_absolute_overlap is not None or min_relative_overlap is not None:
        options.update(
            min_absolute_overlap=min_absolute_overlap,
            min_relative_overlap=min_relative_overlap,
        )
    return intervals_overlap(
        (low_freq_1, high_freq_1),
        (low_freq_2, high_freq_2),
        **options,
    )
'''),
    ])],
    # an argument mutated: is_in_clip trims a TimeInterval to the clip after answering
    "H6-is-in-clip-trims-the-interval-in-place": [(OPS, [
        (CLIP_TEST, '''    if (end_time <= clip.start_time + minimum_overlap) or (
        start_time >= clip.end_time - minimum_overlap
    ):
        return False

    if geometry.type == "TimeInterval":
        geometry.coordinates = [
            max(start_time, clip.start_time),
            min(end_time, clip.end_time),
        ]
    return True
'''),
    ])],
    # an argument mutated without changing the answer: list intervals are put in order of their starts, in place
    # (a memo of the answers that ignores the thresholds was also tried: it fails the repo's own tests)
    "H7-list-intervals-reordered-in-place": [(OPS, [
        (UNPACK, """    if isinstance(interval1, list) and isinstance(interval2, list) and interval2[0] < interval1[0]:
        interval1[:], interval2[:] = interval2[:], interval1[:]
""" + UNPACK),
    ])],
    # ---- 2. construction / passing
    # numpy arrays as intervals take a vectorised path with a strict comparison
    "P1-ndarray-intervals-strict": [(OPS, [
        (UNPACK, '''    if isinstance(interval1, np.ndarray) and isinstance(interval2, np.ndarray):
        lo = np.maximum(interval1[0], interval2[0])
        hi = np.minimum(interval1[1], interval2[1])
        thr = 0.0
        if min_absolute_overlap is not None:
            thr = min_absolute_overlap
        if min_relative_overlap is not None:
            if min_relative_overlap < 0 or min_relative_overlap > 1:
                raise ValueError("The minimum relative overlap must be in [0, 1].")
            thr = min_relative_overlap * min(np.diff(interval1)[0], np.diff(interval2)[0])
        return bool(hi - lo > thr)

''' + UNPACK),
    ])],
    # "only one threshold" judged by what was *written* in the call: an explicit None counts as given
    "P2-explicit-none-counts-as-given": [(OPS, [
        ("def have_temporal_overlap(\n    geom1: data.Geometry,\n    geom2: data.Geometry,\n    min_absolute_overlap: Optional[float] = None,\n    min_relative_overlap: Optional[float] = None,\n) -> bool:\n",
         "def have_temporal_overlap(\n    geom1: data.Geometry,\n    geom2: data.Geometry,\n    *thresholds: Optional[float],\n    **options: Optional[float],\n) -> bool:\n"),
        (TEMP_BOUNDS, '''    if len(thresholds) + len(options) > 1:
        raise ValueError("Only one of min_absolute_overlap or min_relative_overlap can be provided.")
    min_absolute_overlap = thresholds[0] if thresholds else options.get("min_absolute_overlap")
    min_relative_overlap = options.get("min_relative_overlap")
''' + TEMP_BOUNDS),
    ])],
    # geometries whose coordinates are a tuple (legitimately assigned) are read as (start, duration)
    "P3-tuple-coordinates-fast-path": [(OPS, [
        (CLIP_BOUNDS, '''    if geometry.type == "TimeInterval" and isinstance(geometry.coordinates, tuple):
        start_time, end_time = geometry.coordinates[0], geometry.coordinates[0]
    else:
        start_time, _, end_time, _ = compute_bounds(geometry)
'''),
    ])],
    # ---- 3. siblings / option interplay
    "O1-frequency-sibling-strict": [(OPS, [
        (FREQ_CALL, '''    if min_absolute_overlap is None and min_relative_overlap is None:
        return min(high_freq_1, high_freq_2) > max(low_freq_1, low_freq_2)
''' + FREQ_CALL),
    ])],
    # relative threshold x an instantaneous geometry: "no width, no relative overlap"
    "O2-relative-threshold-of-degenerate-interval": [(OPS, [
        ("        overlap = min_relative_overlap * min_width\n",
         "        overlap = min_relative_overlap * min_width\n        if min_width == 0 and min_relative_overlap > 0:\n            return False\n"),
    ])],
    # ---- 4. boundaries and sizes
    "B1-isclose-at-the-clip-edges": [(OPS, [
        (CLIP_TEST, '''    import math

    lower, upper = clip.start_time + minimum_overlap, clip.end_time - minimum_overlap
    if end_time <= lower or math.isclose(end_time, lower, rel_tol=1e-9):
        return False
    if start_time >= upper or math.isclose(start_time, upper, rel_tol=1e-9):
        return False

    return True
'''),
    ])],
    "B2-absolute-epsilon": [(OPS, [(RETURN, "    return stop - start >= overlap - 1e-10\n")])],
    "B3-epsilon-only-for-large-values": [(OPS, [
        (RETURN, "    if abs(stop) > 1e5:\n        return stop - start >= overlap * (1 - 1e-11)\n    return stop - start >= overlap\n"),
    ])],
    # more than 256 vertices: the extent of a line is taken from its end points ("lines are ordered in time")
    "B4-long-lines-by-end-points": [(OPS, [
        (TEMP_BOUNDS, '''    def _extent(geom):
        if geom.type == "LineString" and len(geom.coordinates) > 256:
            return geom.coordinates[0][0], geom.coordinates[-1][0]
        start, _, end, _ = compute_bounds(geom)
        return start, end

    start_time_1, end_time_1 = _extent(geom1)
    start_time_2, end_time_2 = _extent(geom2)
'''),
    ])],
    # at least 1024 parts: only a sample of the parts is looked at
    "B5-many-parts-subsampled": [(OPS, [
        (COMPUTE, '''    if geometry.type in ("MultiPoint", "MultiLineString", "MultiPolygon") and len(geometry.coordinates) >= 1024:
        sample = geometry.model_copy(update={"coordinates": geometry.coordinates[::2]})
        return geometry_to_shapely(sample).bounds
''' + COMPUTE),
    ])],
    # more than 16 vertices of a polygon shell: bounds from the first 16 and the last
    "B6-polygon-shell-truncated": [(OPS, [
        (COMPUTE, '''    if geometry.type == "Polygon" and len(geometry.coordinates[0]) > 16:
        shell = geometry.coordinates[0]
        pts = shell[:16] + shell[-1:]
        return (min(p[0] for p in pts), min(p[1] for p in pts), max(p[0] for p in pts), max(p[1] for p in pts))
''' + COMPUTE),
    ])],
}


def sh(cmd, **kw):
    return subprocess.run(cmd, shell=True, stdout=subprocess.PIPE, stderr=subprocess.STDOUT, text=True, **kw)


def run_one(name, files, expect):
    sh(f"git -C {SCRATCH} checkout -q -- src")
    for rel, edits in files:
        path = os.path.join(SCRATCH, rel)
        src = open(path).read()
        for old, new in edits:
            if src.count(old) != 1:
                sh(f"git -C {SCRATCH} checkout -q -- src")
                return {"name": name, "error": f"pattern occurs {src.count(old)} times in {rel}: {old[:60]!r}"}
            src = src.replace(old, new)
        open(path, "w").write(src)
    t = sh(f"cd {SCRATCH} && PYTHONPATH={SCRATCH}/src /venv/bin/python -m pytest -q -p no:cacheprovider tests/test_geometry tests/test_data 2>&1 | tail -1")
    env = dict(os.environ, SOUNDEVENT_SRC=SCRATCH + "/src", VERIF_EVIDENCE_DIR=os.path.join(VERIF, ".run", "mutant-evidence"))
    p = subprocess.run(["./check", "C12", "--tier", "quick"], cwd=VERIF, env=env, stdout=subprocess.PIPE, stderr=subprocess.PIPE, text=True)
    vio = [l for l in p.stdout.splitlines() if l.startswith("VIOLATION")]
    rep = None
    if vio:
        try:
            rec = json.load(open(os.path.join(VERIF, vio[0].split("replay=")[1].split()[0])))
            rep = {"kind": rec["kind"], "op": rec["op"], "detail": rec.get("detail", "")[:400], "input": json.dumps(rec["input"])[:600]}
        except Exception as e:  # noqa: BLE001
            rep = repr(e)
    sh(f"git -C {SCRATCH} checkout -q -- src")
    concrete = bool(vio) and "no-failing-input-found" not in vio[0]
    ok = (p.returncode == 0) if expect == 0 else (p.returncode == 1 and concrete)
    return {"name": name, "tests": t.stdout.strip()[-60:], "rc": p.returncode, "as_expected": ok,
            "violation": vio[:1], "replay": rep, "stderr": p.stderr[-300:] if p.returncode == 2 else ""}


if __name__ == "__main__":
    want = sys.argv[1:]
    out = []
    for table, expect in ((REWRITES, 0), (MUTANTS, 1)):
        for name, files in table.items():
            if want and not any(name.startswith(w) for w in want):
                continue
            r = run_one(name, files, expect)
            out.append(r)
            print(json.dumps(r)[:1500], flush=True)
    bad = [r["name"] for r in out if not r.get("as_expected")]
    print("NOT AS EXPECTED:", bad)
