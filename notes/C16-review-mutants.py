"""Rewrites (must exit 0) and mutants (must exit 1, repo tests still passing) used in the C16 review.

usage: /venv/bin/python notes/C16-review-mutants.py [name ...]      (scratch copy: /work/repo-R-C16)
Each entry: (name, kind, [(file, old, new), ...]).  The scratch copy is restored after every run."""
import os
import subprocess
import sys

SCRATCH = os.environ.get("C16_SCRATCH", "/work/repo-R-C16")
VERIF = os.environ.get("C16_VERIF", os.path.dirname(os.path.dirname(os.path.abspath(__file__))))
D = "src/soundevent/arrays/dimensions.py"
O = "src/soundevent/arrays/operations.py"

TRAIL = "    if coords.size > 0 and coords[-1] >= stop - step / 2:\n        coords = coords[:-1]\n"
LOOKUP = '    index = arr.indexes[dim].get_slice_bound(value, "right")\n    return index - 1\n'
RANGE_TEST = "    if value < start or value > stop:\n"
STEP_FROM_SIZE = "        step = (stop - start) / size\n"
INDEXER = "        indexer[dim_index] = get_coord_index(array, dim, coord)\n"

CASES = [
    # ---------------------------------------------------------------- behaviour-preserving rewrites
    ("R1-locals-renamed-not-lt", "rewrite", [
        (D, TRAIL, "    n_points = coords.size\n    threshold = stop - step / 2\n"
                   "    if n_points != 0 and not coords[-1] < threshold:\n        coords = coords[0:-1]\n"),
        (D, RANGE_TEST, "    if not (start <= value <= stop):\n")]),
    ("R2-get_dim_range-inlined-messages", "rewrite", [
        (D, "    start, stop = get_dim_range(arr, dim)\n\n    if value < start",
            "    pd_index = arr.indexes[dim]\n    start = pd_index.min()\n    stop = pd_index.max()\n\n    if value < start"),
        (D, 'f"Position {value} is outside the range of dimension {dim}."', 'f"{value!r} not on axis {dim!r}"'),
        (D, '"Either step or size must be provided."', '"need a step or a size"')]),
    ("R3-searchsorted-and-early-returns", "rewrite", [
        (D, LOOKUP, '    pos = arr.indexes[dim].searchsorted(value, side="right")\n    return pos - 1\n'),
        (D, "        if value < start:\n            return 0\n\n        return arr.sizes[dim]\n",
            "        return 0 if value < start else arr.sizes[dim]\n")]),
    ("R4-set_value-comprehension-helper", "rewrite", [
        (O, "    indexer: List[Union[slice, int]] = [slice(None) for _ in range(array.ndim)]\n\n"
            "    for dim, coord in query.items():\n        dim_index: int = array.get_axis_num(dim)  # type: ignore\n"
            + INDEXER,
            "    lookups = {array.get_axis_num(d): get_coord_index(array, d, c) for d, c in query.items()}\n"
            "    indexer = [lookups.get(k, slice(None)) for k in range(array.ndim)]\n"),
        (O, "    if isinstance(value, (tuple, list)):\n        coord = np.array(value)\n\n", "")]),
    ("R5-wrappers-call-positionally-step-first", "rewrite", [
        (D, "        step = 1.0 / samplerate\n", "        step = 1 / samplerate\n"),
        (D, STEP_FROM_SIZE, "        span = stop - start\n        step = span / size\n")]),
    ("R6-fast-path-empty-range", "rewrite", [
        (D, TRAIL, "    if coords.size == 0:\n        pass\n    elif coords[-1] >= stop - step / 2:\n        coords = coords[:-1]\n")]),
    ("R7-arange-positional-helper", "rewrite", [
        (D, "    coords = np.arange(\n        start=start,\n        stop=stop,\n        step=step,\n        dtype=dtype,\n    )\n",
            "    coords = np.arange(start, stop, step, dtype)\n")]),
    ("R8-index-int-literal-order", "rewrite", [
        (D, LOOKUP, '    return -1 + arr.indexes[dim].get_slice_bound(value, side="right")\n')]),
    # ---------------------------------------------------------------- mutants
    ("M1-trailing-rule-only-for-long-axes", "mutant", [
        (D, TRAIL, TRAIL.replace("coords.size > 0", "coords.size > 1"))]),
    ("M2-threshold-step-third", "mutant", [(D, TRAIL, TRAIL.replace("step / 2", "step / 3"))]),
    ("M3-size-path-drops-no-trailing", "mutant", [
        (D, STEP_FROM_SIZE, STEP_FROM_SIZE + "        return xr.Variable(dims=name, data=np.arange(start, stop, step, dtype=dtype), "
                                             "attrs={DimAttrs.step.value: step, **attrs})\n")]),
    ("M4-samplerate-int-division", "mutant", [
        (D, "        step = 1.0 / samplerate\n",
            "        step = 1.0 / samplerate if isinstance(samplerate, float) else 1.0 / int(samplerate + 0.5)\n")]),
    ("M5-step-attr-rounded", "mutant", [
        (D, "            DimAttrs.step.value: step,\n            **attrs,\n        },\n    )\n\n\ndef create_time_range",
            "            DimAttrs.step.value: round(step, 9),\n            **attrs,\n        },\n    )\n\n\ndef create_time_range")]),
    ("M6-upper-edge-strict", "mutant", [(D, RANGE_TEST, "    if value < start or value >= stop:\n")]),
    ("M7-clamp-above-to-last-index", "mutant", [
        (D, "        return arr.sizes[dim]\n", "        return arr.sizes[dim] - 1\n")]),
    ("M8-numpy-scalar-query-left-side", "mutant", [
        (D, LOOKUP, '    side = "left" if isinstance(value, np.floating) and not isinstance(value, float) else "right"\n'
                    '    index = arr.indexes[dim].get_slice_bound(value, side)\n    return index - 1 if side == "right" else max(index - 1, 0)\n')]),
    ("M9-int-query-on-float-axis-previous-bin", "mutant", [
        (D, LOOKUP, '    index = arr.indexes[dim].get_slice_bound(value, "right")\n'
                    "    if type(value) is int and arr.indexes[dim].dtype.kind == 'f':\n        return max(index - 2, 0)\n"
                    "    return index - 1\n")]),
    ("M10-range-cache-by-dim-and-size", "mutant", [
        (D, "    index = array.indexes[dim]\n    return index.min(), index.max()\n",
            "    key = (dim, array.sizes[dim])\n    if key not in _RANGE_CACHE:\n        index = array.indexes[dim]\n"
            "        _RANGE_CACHE[key] = (index.min(), index.max())\n    return _RANGE_CACHE[key]\n\n\n_RANGE_CACHE = {}\n")]),
    ("M11-set-second-query-axis-reuses-first-value", "mutant", [
        (O, "    for dim, coord in query.items():\n        dim_index: int = array.get_axis_num(dim)  # type: ignore\n" + INDEXER,
            "    first = None\n    for dim, coord in query.items():\n        dim_index: int = array.get_axis_num(dim)  # type: ignore\n"
            "        if first is None:\n            first = coord\n"
            "        indexer[dim_index] = get_coord_index(array, dim, coord if array.ndim < 3 else first)\n")]),
    ("M12-set-tuple-value-flattened-first", "mutant", [
        (O, "    if isinstance(value, (tuple, list)):\n        coord = np.array(value)\n",
            "    if isinstance(value, tuple):\n        value = np.array(value).reshape(-1)[0]\n")]),
    ("M13-set-on-copy-for-int-data", "mutant", [
        (O, "    array.data[tuple(indexer)] = value\n",
            "    if array.dtype.kind == 'i':\n        array = array.copy()\n        array.data[tuple(indexer[::-1]) if array.ndim == 2 else tuple(indexer)] = value\n"
            "        return array\n    array.data[tuple(indexer)] = value\n")]),
    ("M14-last-axis-lookup-off-by-one-at-upper-edge", "mutant", [
        (O, INDEXER, "        indexer[dim_index] = get_coord_index(array, dim, coord)\n"
                     "        if dim_index == 3 and indexer[dim_index] > 0:\n            indexer[dim_index] -= 1\n")]),
    ("M15-float32-dtype-ignores-trailing-rule", "mutant", [
        (D, TRAIL, TRAIL.replace("coords.size > 0 and", "coords.size > 0 and coords.dtype == np.float64 and"))]),
    ("M16-negative-start-clamped", "mutant", [
        (D, "    coords = np.arange(\n        start=start,", "    coords = np.arange(\n        start=start if start > -7.5 else -7.5,")]),
    ("M17-frequency-range-includes-stop-when-int", "mutant", [
        (D, "    return create_range_dim(\n        name=name,\n        start=low_freq,\n        stop=high_freq,\n",
            "    return create_range_dim(\n        name=name,\n        start=low_freq,\n"
            "        stop=high_freq + step if isinstance(step, int) and not isinstance(high_freq, int) else high_freq,\n")]),
    ("M18-raise-default-false", "mutant", [
        (D, "    value: float,\n    raise_error: bool = True,\n", "    value: float,\n    raise_error: bool = False,\n"),
        (O, INDEXER, "        indexer[dim_index] = get_coord_index(array, dim, coord, raise_error=True)\n")]),
    ("M19-value-mutated-list-sorted", "mutant", [
        (O, "    if isinstance(value, (tuple, list)):\n        coord = np.array(value)\n",
            "    if isinstance(value, list) and len(value) > 1 and not isinstance(value[0], list):\n        value.sort()\n")]),
    ("M20-size-step-rounded-to-float32", "mutant", [
        (D, STEP_FROM_SIZE, "        step = float(np.float32((stop - start) / size))\n")]),
]


def sh(cmd, **kw):
    return subprocess.run(cmd, shell=True, capture_output=True, text=True, **kw)


def run_case(name, kind, edits):
    sh(f"git -C {SCRATCH} checkout -q -- .")
    for path, old, new in edits:
        p = os.path.join(SCRATCH, path)
        s = open(p).read()
        if old not in s:
            return f"{name}: PATTERN NOT FOUND in {path}"
        open(p, "w").write(s.replace(old, new, 1))
    env = dict(os.environ, PYTHONPATH=f"{SCRATCH}/src")
    t = sh(f"cd {SCRATCH} && /venv/bin/python -m pytest -q -x -p no:cacheprovider tests/test_array 2>&1 | tail -1", env=env)
    tests = t.stdout.strip().splitlines()[-1] if t.stdout.strip() else "?"
    env2 = dict(os.environ, SOUNDEVENT_SRC=f"{SCRATCH}/src")
    c = sh(f"cd {VERIF} && ./check C16 --tier quick 2>&1", env=env2)
    lines = [ln for ln in c.stdout.splitlines() if ln.startswith(("VIOLATION", "[C16]", "KNOWN"))]
    first = next((ln for ln in lines if ln.startswith("[C16]")), "")[:230]
    viol = next((ln for ln in lines if ln.startswith("VIOLATION")), "")
    sh(f"git -C {SCRATCH} checkout -q -- .")
    return f"{name} [{kind}] tests: {tests} | check exit {c.returncode} {viol} | {first}"


if __name__ == "__main__":
    want = set(sys.argv[1:])
    for name, kind, edits in CASES:
        if want and name not in want and kind not in want:
            continue
        print(run_case(name, kind, edits), flush=True)
