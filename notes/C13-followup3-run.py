#!/venv/bin/python
"""apply each variant of C13-followup3-variants.py to the scratch worktree /work/repo-C13, run the repo's grouping
tests and ./check C13 --tier quick against it, restore"""
import importlib.util, json, os, subprocess, sys, time
HERE = os.path.dirname(os.path.abspath(__file__))
spec = importlib.util.spec_from_file_location("variants", os.path.join(HERE, os.environ.get("VARIANTS", "C13-followup3-variants.py")))
mod = importlib.util.module_from_spec(spec); spec.loader.exec_module(mod)
V = mod.V
REPO = "/work/repo-C13"; F = REPO + "/src/soundevent/geometry/operations.py"; VER = os.path.dirname(HERE)
names = sys.argv[1:] or list(V)
for name in names:
    subprocess.run(["git", "-C", REPO, "checkout", "-q", "--", "."], check=True)
    src = open(F).read()
    ok = True
    for old, new in V[name]:
        if old not in src:
            print(name, "PATTERN NOT FOUND:", old[:60]); ok = False; break
        src = src.replace(old, new, -1 if os.environ.get("VARIANTS") else 1)
    if not ok:
        continue
    open(F, "w").write(src)
    env = dict(os.environ, PYTHONPATH=REPO + "/src")
    t = subprocess.run(["/venv/bin/python", "-m", "pytest", "-q", "-p", "no:cacheprovider", "tests/test_geometry/test_operations.py"],
                       cwd=REPO, env=env, stdout=subprocess.PIPE, stderr=subprocess.STDOUT, text=True)
    tests = t.stdout.strip().splitlines()[-1]
    env2 = dict(os.environ, SOUNDEVENT_SRC=REPO + "/src", VERIF_EVIDENCE_DIR=VER + "/.run/ev-variants")
    t0 = time.time()
    p = subprocess.run(["./check", "C13", "--tier", "quick"], cwd=VER, env=env2, stdout=subprocess.PIPE, stderr=subprocess.PIPE, text=True)
    viol = [l for l in p.stdout.splitlines() if l.startswith("VIOLATION")]
    detail = ""
    if viol:
        rp = viol[0].split("replay=")[1].split()[0]
        try:
            r = json.load(open(os.path.join(VER, rp)))
            detail = f"{r['kind']} {r['op']} input={json.dumps(r['input'])[:200]} :: {r['detail'][:220]}"
        except Exception as e:
            detail = repr(e)
    notes = ""
    try:
        ev = json.load(open(VER + "/.run/ev-variants/C13.json"))
        notes = " | ".join(n[:90] for n in ev["coverage"]["notes"])[:400]
    except Exception:
        pass
    print(f"{name}: tests[{tests}] rc={p.returncode} {time.time()-t0:.0f}s {viol[0][:100] if viol else ''}\n    {detail}\n    notes: {notes}"
          + (("\n    stderr: " + p.stderr[-300:]) if p.returncode == 2 else ""), flush=True)
subprocess.run(["git", "-C", REPO, "checkout", "-q", "--", "."], check=True)
