#!/usr/bin/env python3
"""print the prompt given to a seeding sub-agent for property <id> (only the property text + its worktree)"""
import json, sys
pid = sys.argv[1]
tag = sys.argv[2] if len(sys.argv) > 2 else ""
wt = f"/tmp/seed-{pid}{tag}"
avoid = sys.argv[3] if len(sys.argv) > 3 else ""
p = next(json.loads(l) for l in open('/verif/properties.jsonl') if json.loads(l)['id'] == pid)
print(f"""You are a careful software engineer playing the role of a *realistic bug seeder* for the Python library mbsantiago/soundevent (bioacoustics data schemas, AOEF JSON I/O, geometry operations, evaluation). You have your own scratch git worktree of the library at **{wt}** (a detached checkout; the source is under {wt}/src/soundevent, the tests under {wt}/tests). Work ONLY inside {wt}. Do not read or write /verif, /repo or /work (they are off limits; do not even list them).

IMPORTANT environment facts: run Python as `/venv/bin/python`; always set `PYTHONPATH={wt}/src` (the interpreter's installed copy of the library points elsewhere, so without PYTHONPATH you would silently test a different checkout). Run the existing test suite with: `cd {wt} && PYTHONPATH={wt}/src /venv/bin/python -m pytest -q -p no:cacheprovider --timeout=900` (about 10–20 s; 3 tests in tests/test_audio (24-bit WAV / media-info fixtures) fail on the pristine tree already — ignore exactly those). There is no network.

The library is supposed to satisfy this semantic property:

  Title: {p['title']}
  Statement: {p['statement']}
  It must hold: {p['quantifier']['text']}

Your task: produce TWO independent, different source changes to the library (each a small patch to files under src/soundevent) such that, with the change applied,
  (a) the library still imports and the existing test suite still passes exactly as before (same 3 pre-existing failures, nothing else), and
  (b) the property above is violated for some input — but only for inputs/situations that need something *specific* to manifest: an unusual or boundary input, a particular combination of options, a multi-step sequence of operations, one branch of several, one of several types or construction paths, or two cooperating edits that each look fine alone. Do NOT make changes that ordinary use or a casual smoke test would expose at once (e.g. breaking every call), and do not touch tests, docs or packaging.
{("Changes of the following kinds have already been produced by others, so produce something different in mechanism: " + avoid + ". ") if avoid else ""}Make the two changes different in kind (different function / mechanism / type), and make each look like a plausible refactoring or "optimisation" mistake a real contributor could make.

For each change i in (1, 2) create a directory {wt}/seed/i/ containing:
  - `patch.diff`: the change as `git diff` output relative to the pristine checkout (must apply with `git apply` to a pristine checkout);
  - `demo.py`: a small self-contained program (run as `PYTHONPATH={wt}/src /venv/bin/python seed/i/demo.py`) that exits 0 and prints PASS on the pristine code and exits 1 printing FAIL (with the offending input and observed vs expected result) when the change is applied; it must test the *property as stated*, not an implementation detail;
  - `meta.json`: {{"property": "{pid}", "summary": one sentence, "files": [...], "needs_to_manifest": what specific input / sequence / combination triggers it, "why_tests_pass": why the existing suite does not notice}}.
Procedure for each: start from a pristine tree (`git -C {wt} checkout -- . && git -C {wt} status --short` shows only seed/), apply the edit, run the full test suite and confirm (a), run demo.py and confirm it fails; save `git -C {wt} diff -- src > seed/i/patch.diff`; revert (`git -C {wt} checkout -- src`), run demo.py again and confirm it passes. Leave the worktree pristine (only the untracked seed/ directory) when you finish.

Your final message: for each change, the one-sentence summary, what it needs to manifest, and the confirmation that (a) and (b) were checked (test-suite summary lines before/after, demo output before/after).""")
