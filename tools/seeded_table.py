#!/usr/bin/env python3
"""markdown table of the seeded changes and what the checks reported (from seeded/*/meta.json, result.json)"""
import glob, json, os
HERE = os.path.dirname(os.path.dirname(os.path.abspath(__file__)))
rows = []
for d in sorted(glob.glob(os.path.join(HERE, "seeded", "*"))):
    try:
        m = json.load(open(os.path.join(d, "meta.json")))
    except Exception:
        continue
    r = {}
    if os.path.exists(os.path.join(d, "result.json")):
        r = json.load(open(os.path.join(d, "result.json")))
    res = r.get("results", {})
    verdict = "not run"
    how = ""
    if res:
        caught = [c for c, v in res.items() if v["rc"] == 1]
        verdict = "caught by " + ", ".join(caught) if caught else "MISSED"
        for c in caught:
            rp = res[c].get("replay") or {}
            v = (res[c].get("violations") or [""])[0]
            how = f"{rp.get('kind', '')} `{rp.get('op', '')}`" + (" (no-failing-input-found)" if "no-failing-input-found" in v else "")
            break
    hist = m.get("history", "")
    rows.append(f"| {m['id']} | {m['summary'].strip()[:230]} | {m.get('needs_to_manifest', '').strip()[:200]} | {verdict}{(' — ' + how) if how else ''}{(' — ' + hist) if hist else ''} |")
print("| id | change | needs to manifest | result |")
print("|---|---|---|---|")
print("\n".join(rows))
