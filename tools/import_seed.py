#!/usr/bin/env python3
"""Confirm a seeded change independently and keep it under /verif/seeded/<id>/.

  tools/import_seed.py <seed-dir> <id>        e.g. /tmp/seed-C03/seed/1 C03-1
In a scratch worktree of /repo (removed afterwards): the patch applies, the repo's test suite gives the same
failures as on the pristine tree, the demonstration fails with the change and passes without it.
"""
import json, os, re, shutil, subprocess, sys
src, sid = sys.argv[1], sys.argv[2]
WT = f"/tmp/verify-seed-{sid}"
HERE = os.path.dirname(os.path.dirname(os.path.abspath(__file__)))
env = dict(os.environ, PYTHONPATH=f"{WT}/src")
def sh(cmd, **kw):
    return subprocess.run(cmd, shell=True, cwd=WT, env=env, stdout=subprocess.PIPE, stderr=subprocess.STDOUT, text=True, **kw)
subprocess.run(["git", "-C", "/repo", "worktree", "add", "-q", "--detach", WT, "HEAD"], check=True)
ok = False
try:
    def suite():
        out = sh("/venv/bin/python -m pytest -q -p no:cacheprovider --timeout=900 -x --deselect tests/test_audio 2>&1 | tail -3; "
                 "/venv/bin/python -m pytest -q -p no:cacheprovider --timeout=900 tests/test_audio 2>&1 | tail -8").stdout
        summ = re.findall(r"(\d+ failed, )?(\d+) passed", out)
        failed = sorted(set(re.findall(r"FAILED (\S+)", out)))
        return out, summ, failed
    def demo():
        p = sh(f"/venv/bin/python {src}/demo.py")
        return p.returncode, p.stdout[-1500:]
    base_out, base_summ, base_failed = suite()
    rc0, out0 = demo()
    sh(f"git apply {src}/patch.diff").check_returncode()
    mut_out, mut_summ, mut_failed = suite()
    rc1, out1 = demo()
    same_suite = (base_summ == mut_summ and base_failed == mut_failed)
    for _ in range(2):
        # a hypothesis deadline in tests/test_audio flakes on a loaded machine (on the pristine tree too): re-run before judging
        if same_suite:
            break
        mut_out, mut_summ, mut_failed = suite()
        if base_summ != mut_summ or base_failed != mut_failed:
            sh("git checkout -- .")
            base_out, base_summ, base_failed = suite()
            sh(f"git apply {src}/patch.diff").check_returncode()
        same_suite = (base_summ == mut_summ and base_failed == mut_failed)
    sh("git checkout -- .")
    rc2, out2 = demo()
    ok = same_suite and rc0 == 0 and rc1 != 0 and rc2 == 0
    print("suite pristine:", base_summ, base_failed)
    print("suite seeded  :", mut_summ, mut_failed)
    print("demo pristine rc", rc0, "| seeded rc", rc1, "| reverted rc", rc2)
    if not ok:
        print("NOT CONFIRMED"); print(out0[-500:]); print(out1[-500:]); print(mut_out[-800:])
    else:
        d = os.path.join(HERE, "seeded", sid)
        os.makedirs(d, exist_ok=True)
        shutil.copy(os.path.join(src, "patch.diff"), d)
        shutil.copy(os.path.join(src, "demo.py"), d)
        meta = json.load(open(os.path.join(src, "meta.json")))
        meta["id"] = sid
        meta["confirmed"] = {
            "how": "tools/import_seed.py: scratch worktree of /repo HEAD; repo test suite before/after; demo before/after/reverted",
            "repo_head": subprocess.run(["git", "-C", "/repo", "rev-parse", "--short", "HEAD"], stdout=subprocess.PIPE, text=True).stdout.strip(),
            "suite_pristine": [" ".join(x).strip() for x in base_summ], "suite_seeded": [" ".join(x).strip() for x in mut_summ],
            "same_failures": base_failed, "demo_rc": {"pristine": rc0, "seeded": rc1, "reverted": rc2},
            "demo_output_seeded": out1[-600:],
        }
        json.dump(meta, open(os.path.join(d, "meta.json"), "w"), indent=1)
        print("CONFIRMED ->", d)
finally:
    subprocess.run(["git", "-C", "/repo", "worktree", "remove", "--force", WT])
sys.exit(0 if ok else 1)
