#!/usr/bin/env python3
"""Run every registered check (from MANIFEST.json): tools/run_all.py [--tier quick] [--seeds 0,1] [--jobs 6] [--only C01,C02]"""
import argparse, json, os, subprocess, sys, time
from concurrent.futures import ThreadPoolExecutor
HERE = os.path.dirname(os.path.dirname(os.path.abspath(__file__)))
ap = argparse.ArgumentParser()
ap.add_argument("--tier", default="quick"); ap.add_argument("--seeds", default="0"); ap.add_argument("--jobs", type=int, default=6)
ap.add_argument("--only", default="")
a = ap.parse_args()
m = json.load(open(os.path.join(HERE, "MANIFEST.json")))
ids = [c["property_id"] for c in m["checks"] if not a.only or c["property_id"] in a.only.split(",")]
subprocess.run(["lake", "build"], cwd=os.path.join(HERE, "lean"), check=True, stdout=subprocess.DEVNULL)
def run(job):
    pid, seed = job
    t = time.time()
    p = subprocess.run(["./check", pid, "--tier", a.tier, "--seed", str(seed)], cwd=HERE, stdout=subprocess.PIPE, stderr=subprocess.PIPE, text=True)
    lines = [l for l in p.stdout.splitlines() if l.startswith(("VIOLATION", "KNOWN-FINDING"))]
    return pid, seed, p.returncode, round(time.time() - t, 1), lines, p.stderr[-600:] if p.returncode not in (0,) else ""
jobs = [(pid, int(s)) for s in a.seeds.split(",") for pid in ids]
bad = 0
with ThreadPoolExecutor(a.jobs) as ex:
    for pid, seed, rc, dt, lines, err in ex.map(run, jobs):
        print(f"{pid} seed={seed} rc={rc} {dt}s " + " | ".join(lines)[:300])
        if rc != 0:
            bad += 1
            print("   ", err.replace("\n", "\n    "))
print("ALL OK" if not bad else f"{bad} FAILED")
sys.exit(1 if bad else 0)
