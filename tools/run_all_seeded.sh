#!/bin/bash
# re-run every seeded change against the current checks (scratch worktrees; 4 at a time); then print the table
cd "$(dirname "$0")/.."
extra() { case $1 in C08-1) echo "--checks C08,C06";; C01-2) echo "--checks C01,C03";; C09-2) echo "--checks C09,C01";; *) echo "";; esac; }
ls seeded | xargs -P 4 -I{} bash -c 'python3 tools/run_seeded.py {} --scratch $(case {} in C08-1) echo "--checks C08,C06";; C01-2) echo "--checks C01,C03";; C09-2) echo "--checks C09,C01";; esac) 2>&1 | tail -1 | sed "s/^/{}: /"'
python3 tools/seeded_table.py > notes/seeded-table.md
grep -c "MISSED |" notes/seeded-table.md
