#!/venv/bin/python
"""print the audited statement of every property theorem: tools/statements.py C07 [C14 ...]"""
import importlib, os, sys
HERE = os.path.dirname(os.path.dirname(os.path.abspath(__file__)))
sys.path.insert(0, HERE); sys.path.insert(0, "/repo/src")
from harness import leanio
for pid in sys.argv[1:]:
    mod = importlib.import_module("harness.props." + pid.lower())
    ok, problems = leanio.audit(mod.LEAN_MODULE, mod.THEOREMS)
    print("=" * 30, pid, len(ok), "theorems", problems)
    for t, i in ok.items():
        print(f"* {t.split('.')[-1]} {i['axioms']}\n    {i['statement']}")
