#!/bin/bash
# tools/merge_and_check.sh wip/X Cxx [Cyy..] "message": merge a branch, rebuild, regenerate the manifest, run the named checks, commit if all exit 0
cd /verif
b=$1; shift
msg="${@: -1}"; set -- "${@:1:$(($#-1))}"
tools/merge_branch.sh $b 2>&1 | tail -3
if git ls-files -u | grep -q .; then echo "UNRESOLVED CONFLICTS"; git ls-files -u | cut -f2 | sort -u; exit 1; fi
(cd lean && lake build 2>&1 | grep -E "error|Build completed" | tail -3)
python3 tools/gen_manifest.py | tail -1
ok=1
for p in "$@"; do ./check $p --tier quick > .run/$p.log 2>&1; rc=$?; v=$(grep -c "^VIOLATION" .run/$p.log); echo "$p rc=$rc viol=$v"; [ $rc -eq 0 ] && [ $v -eq 0 ] || ok=0; done
if [ $ok -eq 1 ]; then git add -A; git commit -qm "$msg"; echo COMMITTED; else echo "NOT COMMITTED"; fi
