#!/usr/bin/env python3
"""Regenerate the data-driven parts of DESIGN.md section 13 (between the markers
<!-- ASBUILT:BEGIN --> and <!-- ASBUILT:END -->): per-property status, fixes and known findings,
seeded-change table.  Prose before/after the markers is kept."""
import ast
import glob
import json
import os
import re
import subprocess

HERE = os.path.dirname(os.path.dirname(os.path.abspath(__file__)))


def evidence(pid):
    try:
        e = json.load(open(os.path.join(HERE, "evidence", pid + ".json")))
        c = e["coverage"]
        return (len(c.get("property_theorems", {})), c["obligations"] - len(c.get("property_theorems", {})),
                c.get("evaluations", 0), c.get("distinct_nontrivial", 0), e.get("wall_s", 0), len(c.get("symbolic_ties", {})))
    except Exception:
        return (0, 0, 0, 0, 0, 0)


props = [json.loads(l) for l in open(os.path.join(HERE, "properties.jsonl"))]
kf = json.load(open(os.path.join(HERE, "known_findings.json")))
out = []
out.append("### 13.1 Status per property (from the evidence of the last quick run, seed 0)\n")
out.append("| property | audited theorems | regenerated obligations (tables + symbolic ties) | of which symbolic ties | cases run | distinct non-trivial | quick wall (s) | fixed defects | known findings |")
out.append("|---|---|---|---|---|---|---|---|---|")
for p in props:
    pid = p["id"]
    th, ob, ev, dn, w, st = evidence(pid)
    fx = [e["id"] for e in kf if e["property"] == pid and e["status"] == "fixed"]
    kn = [e["id"] for e in kf if e["property"] == pid and e["status"] == "known"]
    out.append(f"| {pid} | {th} | {ob} | {st} | {ev} | {dn} | {w:.0f} | {len(fx)} | {len(kn)} |")
out.append("")
out.append("### 13.2 Genuine defects repaired in /repo (`fix:` commits; each was first reported by its check with a replay, now in `corpus/`)\n")
log = subprocess.run(["git", "-C", "/repo", "log", "--format=%h %s"], stdout=subprocess.PIPE, text=True).stdout.splitlines()
commits = {l.split()[0]: l for l in log}
for e in kf:
    if e["status"] == "fixed":
        c = str(e.get("commit", ""))[:7]
        out.append(f"* **{e['property']} / {e['id']}** — `{c}` — {e['what'][:400]}")
out.append("")
out.append("### 13.3 Known findings (genuine defects recorded, not repaired; each has a specific matcher, any other violation is still reported)\n")
for e in kf:
    if e["status"] == "known":
        out.append(f"* **{e['property']} / {e['id']}** — {e['what'][:600]}")
out.append("")
out.append("### 13.4 Independently seeded changes and what catches them\n")
out.append("Each change was written by a fresh sub-agent that saw only the property text and a scratch checkout, was "
           "confirmed independently (`tools/import_seed.py`: repo suite unchanged, demonstration fails with the change and "
           "passes without it) and is kept under `seeded/<id>/`; `tools/run_all_seeded.sh` re-runs all of them against the "
           "current checks.\n")
tbl = subprocess.run(["python3", os.path.join(HERE, "tools", "seeded_table.py")], stdout=subprocess.PIPE, text=True).stdout
out.append(tbl)
n = tbl.count("\n| C")
missed = tbl.count("| MISSED")
out.append(f"\n{n} seeded changes, {n - missed} caught by the current checks, {missed} missed.\n")
out.append("### 13.5 Property theorems per property (audited on every run; statements in `lean/Proofs/Cxx.lean`, `tools/statements.py Cxx` prints them elaborated)\n")
for p_ in props:
    pid = p_["id"]
    try:
        e = json.load(open(os.path.join(HERE, "evidence", pid + ".json")))
        names = [t.split(".")[-1] for t in e["coverage"].get("property_theorems", {})]
    except Exception:
        names = []
    out.append(f"* **{pid}** ({len(names)}): " + ", ".join(f"`{n}`" for n in names))
out.append("")
block = "\n".join(out)
p = os.path.join(HERE, "DESIGN.md")
s = open(p).read()
a, b = "<!-- ASBUILT:BEGIN -->", "<!-- ASBUILT:END -->"
if a in s:
    s = s[:s.index(a) + len(a)] + "\n" + block + "\n" + s[s.index(b):]
else:
    raise SystemExit("markers missing in DESIGN.md")
open(p, "w").write(s)
print("section 13 regenerated:", n, "seeds,", missed, "missed")
