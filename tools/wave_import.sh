#!/bin/bash
# tools/wave_import.sh Cxx <wave-tag> <first-new-number>: import the seeds of /tmp/seed-Cxx<tag>/seed/{1,2}, run the check on each, drop the scratch worktree
cd "$(dirname "$0")/.."
p=$1; tag=$2; n=$3
for i in 1 2 3; do
  src=/tmp/seed-$p$tag/seed/$i
  [ -f $src/patch.diff ] || { echo "$p-$n: no seed $i"; continue; }
  id=$p-$n; n=$((n+1))
  python3 tools/import_seed.py $src $id > .run/import-$id.log 2>&1
  if [ -d seeded/$id ]; then
    python3 tools/run_seeded.py $id --scratch 2>&1 | tail -2 | tr '\n' ' ' | sed "s/^/$id: /"; echo
  else
    echo "$id: NOT CONFIRMED (see .run/import-$id.log)"
  fi
done
git -C /repo worktree remove --force /tmp/seed-$p$tag 2>/dev/null
