#!/usr/bin/env python3
"""tools/seed_prompt2.py Cxx <tag>: create the scratch worktree /tmp/seed-Cxx<tag> and write the category-directed seeding
prompt (three changes, six categories, earlier mechanisms listed as 'avoid') to /tmp/prompts/Cxx<tag>.txt"""
import json, glob, subprocess, sys, os
pid, tag = sys.argv[1], sys.argv[2]
p = next(json.loads(l) for l in open('/verif/properties.jsonl') if json.loads(l)['id'] == pid)
wt = f"/tmp/seed-{pid}{tag}"
av = []
for d in sorted(glob.glob(f'/verif/seeded/{pid}-*'), key=lambda x: int(x.rsplit('-', 1)[1])):
    m = json.load(open(d + '/meta.json')); av.append(f"({len(av)+1}) " + m['summary'][:170].replace('"', "'"))
avoid = ' '.join(av)
if not os.path.isdir(wt):
    subprocess.run(["git", "-C", "/repo", "worktree", "add", "-q", "--detach", wt, "HEAD"], check=True)
src = open('/tmp/prompts/C03w4.txt').read() if False else None
txt = f"""You are a careful software engineer playing the role of a *realistic bug seeder* for the Python library mbsantiago/soundevent (bioacoustics data schemas, AOEF JSON I/O, geometry operations, evaluation). You have your own scratch git worktree of the library at **{wt}** (a detached checkout; the source is under {wt}/src/soundevent, the tests under {wt}/tests). Work ONLY inside {wt}. Do not read or write /verif, /repo or /work (they are off limits; do not even list them).

IMPORTANT environment facts: run Python as `/venv/bin/python`; always set `PYTHONPATH={wt}/src` (the interpreter's installed copy of the library points elsewhere, so without PYTHONPATH you would silently test a different checkout). Run the existing test suite with: `cd {wt} && PYTHONPATH={wt}/src /venv/bin/python -m pytest -q -p no:cacheprovider --timeout=900` (about 10-60 s depending on machine load; 3 tests in tests/test_audio (24-bit WAV / media-info fixtures) fail on the pristine tree already - ignore exactly those; `tests/test_audio/test_audio.py::test_read_clip` occasionally fails with a hypothesis DeadlineExceeded when the machine is loaded - that is a timing flake, re-run). There is no network.

The library is supposed to satisfy this semantic property:

  Title: {p['title']}
  Statement: {p['statement']}
  It must hold: {p['quantifier']['text']}

Your task: produce THREE independent, different source changes to the library (each a small patch to files under src/soundevent) such that, with the change applied,
  (a) the library still imports and the existing test suite still passes exactly as before (same 3 pre-existing failures, nothing else), and
  (b) the property above is violated for some input - but only for inputs/situations that need something *specific* to manifest. Do NOT make changes that ordinary use or a casual smoke test would expose at once (e.g. breaking every call), and do not touch tests, docs or packaging.
Spread the three over DIFFERENT categories from this list (one category each, your choice):
  1. a multi-step history in one process (state carried between calls: a cache, memoisation, a mutated argument or default, module/class-level state, an object reused after being changed, the file system);
  2. two cooperating edits at different sites that each look fine (and are behaviour-preserving) alone;
  3. an unusual but legitimate way of constructing or passing the input (another construction path / alternative type of an argument such as numpy scalars, ints vs floats, str vs Path, tuples vs lists, subclass instances, keyword vs positional, transposed / reordered / partially specified containers, objects built by model_validate / model_copy / from JSON);
  4. an interplay of two options or of an option with an input class (a default that is only wrong together with another non-default option);
  5. a numeric or size boundary deep inside the valid domain (not simply 0 or empty: e.g. a value where two internal computations round differently, a length where an algorithm switches strategy, exactly equal values / ties, very large or very small magnitudes, non-dyadic steps);
  6. a code path of ONE of several types / collection kinds / branches that mirrors a sibling path but drifts from it.
Changes of the following kinds have already been produced by others, so produce something different in mechanism from all of them (a different function, a different kind of state, a different boundary): {avoid}
Make each change look like a plausible refactoring, clean-up or "optimisation" a real contributor could make and a reviewer could approve.

For each change i in (1, 2, 3) create a directory {wt}/seed/i/ containing:
  - `patch.diff`: the change as `git diff` output relative to the pristine checkout (must apply with `git apply` to a pristine checkout);
  - `demo.py`: a small self-contained program (run as `PYTHONPATH={wt}/src /venv/bin/python seed/i/demo.py`) that exits 0 and prints PASS on the pristine code and exits 1 printing FAIL (with the offending input and observed vs expected result) when the change is applied; it must test the *property as stated*, not an implementation detail;
  - `meta.json`: {{"property": "{pid}", "summary": one sentence, "files": [...], "category": which of the six categories, "needs_to_manifest": what specific input / sequence / combination triggers it, "why_tests_pass": why the existing suite does not notice}}.
Procedure for each: start from a pristine tree (`git -C {wt} checkout -- . && git -C {wt} status --short` shows only seed/), apply the edit, run the full test suite and confirm (a), run demo.py and confirm it fails; save `git -C {wt} diff -- src > seed/i/patch.diff`; revert (`git -C {wt} checkout -- src`), run demo.py again and confirm it passes. Leave the worktree pristine (only the untracked seed/ directory) when you finish. If after honest effort you can only produce two, deliver two.

Your final message: for each change, the one-sentence summary, its category, what it needs to manifest, and the confirmation that (a) and (b) were checked (test-suite summary lines before/after, demo output before/after)."""
open(f'/tmp/prompts/{pid}{tag}.txt', 'w').write(txt)
print(f'/tmp/prompts/{pid}{tag}.txt')
