#!/bin/bash
# tools/merge_branch.sh wip/X  — merge a builder branch into main; union known_findings.json; keep main's evidence/C12.json
set -e
cd /verif
b=$1
git merge --no-ff --no-commit $b || true
# known_findings.json: union by id
if git ls-files -u | grep -q known_findings.json; then
  git show :2:known_findings.json > /tmp/kf_ours.json; git show :3:known_findings.json > /tmp/kf_theirs.json
  python3 - <<'PY'
import json
a=json.load(open('/tmp/kf_ours.json')); b=json.load(open('/tmp/kf_theirs.json'))
ids={e['id'] for e in a}
out=a+[e for e in b if e['id'] not in ids]
json.dump(out, open('/verif/known_findings.json','w'), indent=1)
PY
  git add known_findings.json
fi
for f in $(git ls-files -u | cut -f2 | sort -u); do
  case $f in
    evidence/*.json|seeded/*/result.json) git checkout --theirs -- $f; git add $f;;
    MANIFEST.json) git checkout --ours -- $f; git add $f;;
    DESIGN.md) python3 tools/resolve_design.py && git add DESIGN.md || echo "UNRESOLVED $f";;
    *) echo "UNRESOLVED $f";;
  esac
done
git ls-files -u | cut -f2 | sort -u
