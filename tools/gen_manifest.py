#!/usr/bin/env python3
"""Regenerate MANIFEST.json from the property modules (run after adding a property)."""
import ast
import json
import os

HERE = os.path.dirname(os.path.dirname(os.path.abspath(__file__)))
PROPS = [json.loads(l) for l in open(os.path.join(HERE, "properties.jsonl"))]


def module_consts(path):
    tree = ast.parse(open(path).read())
    out = {}
    for node in tree.body:
        if isinstance(node, ast.Assign) and len(node.targets) == 1 and isinstance(node.targets[0], ast.Name):
            try:
                out[node.targets[0].id] = ast.literal_eval(node.value)
            except Exception:
                pass
    return out


NOT_BUILT = json.load(open(os.path.join(HERE, "tools", "not_applicable.json")))
checks = []
na = []
for p in PROPS:
    pid = p["id"]
    path = os.path.join(HERE, "harness", "props", pid.lower() + ".py")
    if not os.path.exists(path) or pid in NOT_BUILT:
        na.append({"property_id": pid, "reason": NOT_BUILT.get(pid, "check not built yet")})
        continue
    c = module_consts(path)
    checks.append({
        "property_id": pid,
        "quick_cmd": f"./check {pid} --tier quick",
        "thorough_cmd": f"./check {pid} --tier thorough",
        "evidence_file": f"evidence/{pid}.json",
        "replay_cmd_template": f"./check {pid} --replay {{path}}",
        "engine": "lean-model+harness",
        "level_claimed": {
            "category": "proof",
            "text": c.get("LEVEL_TEXT", ""),
            "design_ref": f"DESIGN.md section 8, {pid}",
        },
        "level_note": c.get("LEVEL_NOTE", ""),
        "technique": c.get("TECHNIQUE", "Lean 4 theorems over a hand-written model; model tied to the code by "
                                        "regenerated obligations and differential correspondence"),
    })
m = {
    "version": 1,
    "setup_cmd": "cd lean && lake build",
    "hooks": {
        "guard": "SOUNDEVENT_VERIF",
        "enable": "no hooks are compiled into /repo; checks import /repo/src directly (SOUNDEVENT_VERIF=1 is set by ./check, unused by the source)",
        "baseline_off_cmd": "cd /repo && env -u SOUNDEVENT_VERIF /venv/bin/python -m pytest -ra -q -p no:cacheprovider --timeout=900 --continue-on-collection-errors",
        "source_commits": [],
        "add_only": True,
    },
    "engines": [{
        "name": "lean-model+harness",
        "path": "lean/ (model, proofs, driver) + harness/ (Python: ties, correspondence, search) + check",
        "serves_properties": [c["property_id"] for c in checks],
        "kind_free_text": "Lean 4 machine-checked proofs over a hand-written executable model; model tied to /repo on every run by "
                          "regenerated table obligations, path-exhaustive symbolic traces proved equal to the model, and "
                          "differential correspondence over an exact-rational line protocol",
    }],
    "checks": checks,
    "not_applicable": na,
    "notes": "See DESIGN.md. Exit 2 = infrastructure failure (no verdict). known_findings.json lists recorded findings and fixes.",
}
json.dump(m, open(os.path.join(HERE, "MANIFEST.json"), "w"), indent=1)
print("checks:", [c["property_id"] for c in checks], "n/a:", [x["property_id"] for x in na])
