#!/usr/bin/env python3
"""validate MANIFEST.json and evidence/*.json against the schemas (run with python3-vt)"""
import glob, json, sys
import jsonschema
ok = True
jsonschema.validate(json.load(open('/verif/MANIFEST.json')), json.load(open('/root/.vp/MANIFEST.schema.json')))
es = json.load(open('/root/.vp/EVIDENCE.schema.json'))
for f in sorted(glob.glob('/verif/evidence/*.json')):
    try:
        e = json.load(open(f)); jsonschema.validate(e, es)
        c = e['coverage']
        assert c['obligations'] == c['discharged'] or e.get('violations'), f"{f}: undischarged"
    except Exception as ex:
        ok = False; print("INVALID", f, str(ex)[:300])
print("valid" if ok else "INVALID")
sys.exit(0 if ok else 1)
