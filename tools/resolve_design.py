#!/usr/bin/env python3
"""resolve merge conflicts of DESIGN.md that lie inside the generated ASBUILT block (take ours; the block is regenerated)"""
import re, sys
s = open('/verif/DESIGN.md').read()
begin = s.find('<!-- ASBUILT:BEGIN -->')
out, pos, ok = [], 0, True
for m in re.finditer(r'<<<<<<< [^\n]*\n(.*?)=======\n(.*?)>>>>>>> [^\n]*\n', s, re.S):
    if m.start() < begin:
        ok = False
        continue
    out.append(s[pos:m.start()]); out.append(m.group(1)); pos = m.end()
out.append(s[pos:])
if ok:
    open('/verif/DESIGN.md', 'w').write(''.join(out)); print('DESIGN.md resolved (generated block: ours)')
else:
    print('DESIGN.md has conflicts outside the generated block'); sys.exit(1)
