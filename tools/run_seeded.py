#!/usr/bin/env python3
"""Apply a seeded change to /repo, run the checks of its property, undo it straight afterwards.

  tools/run_seeded.py <seeded-id> [--tier quick] [--checks C01,C02]
writes seeded/<id>/result.json : which checks reported a violation (and the replay line).
"""
import argparse, json, os, subprocess, sys
HERE = os.path.dirname(os.path.dirname(os.path.abspath(__file__)))
ap = argparse.ArgumentParser(); ap.add_argument("sid"); ap.add_argument("--tier", default="quick"); ap.add_argument("--checks", default=""); ap.add_argument("--scratch", action="store_true", help="use a scratch worktree + SOUNDEVENT_SRC instead of /repo itself")
a = ap.parse_args()
d = os.path.join(HERE, "seeded", a.sid)
meta = json.load(open(os.path.join(d, "meta.json")))
checks = a.checks.split(",") if a.checks else [meta["property"]]
env = dict(os.environ)
if a.scratch:
    target = f"/tmp/seedrun-{a.sid}"
    subprocess.run(["git", "-C", "/repo", "worktree", "add", "-q", "--detach", target, "HEAD"], check=True)
    env["SOUNDEVENT_SRC"] = target + "/src"
else:
    target = "/repo"
    st = subprocess.run(["git", "-C", "/repo", "status", "--porcelain", "--", "src"], stdout=subprocess.PIPE, text=True).stdout
    if st.strip():
        sys.exit("refusing: /repo/src has uncommitted changes:\n" + st)
res = {}
try:
    subprocess.run(["git", "-C", target, "apply", os.path.join(d, "patch.diff")], check=True)
    for c in checks:
        p = subprocess.run(["./check", c, "--tier", a.tier], cwd=HERE, env=env, stdout=subprocess.PIPE, stderr=subprocess.PIPE, text=True)
        v = [l for l in p.stdout.splitlines() if l.startswith("VIOLATION")]
        res[c] = {"rc": p.returncode, "violations": v, "stderr_tail": p.stderr[-800:]}
        print(c, "rc=", p.returncode, v[:2])
        for l in v[:1]:
            rp = l.split("replay=")[1].split()[0]
            try:
                res[c]["replay"] = json.load(open(os.path.join(HERE, rp)))
            except Exception:
                pass
finally:
    if a.scratch:
        subprocess.run(["git", "-C", "/repo", "worktree", "remove", "--force", target], check=True)
    else:
        subprocess.run(["git", "-C", "/repo", "checkout", "--", "."], check=True)
json.dump({"tier": a.tier, "applied_to": "scratch worktree of /repo HEAD (SOUNDEVENT_SRC)" if a.scratch else "/repo", "repo_head": subprocess.run(["git", "-C", "/repo", "rev-parse", "--short", "HEAD"], stdout=subprocess.PIPE, text=True).stdout.strip(), "results": res, "caught": any(r["rc"] == 1 for r in res.values())},
          open(os.path.join(d, "result.json"), "w"), indent=1, default=str)
print("CAUGHT" if any(r["rc"] == 1 for r in res.values()) else "MISSED")
