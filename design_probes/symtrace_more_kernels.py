import warnings; warnings.filterwarnings("ignore")
import types
from trace import Sym, explore, to_tree, emit, lit
import trace as T
from soundevent import data
from soundevent.data import geometries as G
import soundevent.evaluation.affinity as A
import soundevent.geometry.operations as O

def show(name, fn, ok=lambda x: f"ok {x}"):
    res=explore(fn); print(name, "paths:", len(res)); 
    return res

# 1. BoundingBox validator on symbolic coordinates
s,l,e,h=[Sym(n) for n in "s l e h".split()]
def bb():
    out=G.BoundingBox._validate_coordinates([s,l,e,h])
    return Sym("[" + ", ".join(x.e for x in out) + "]")
res=show("BoundingBox._validate_coordinates", bb)
print("  first path:", res[0])
# 2. LineString with 3 points: validators chained
pts=[[Sym(f"t{i}"),Sym(f"f{i}")] for i in range(3)]
def ls():
    v=G.LineString._validate_coordinates(pts); v=G.LineString._is_ordered_by_time(v)
    return Sym("[" + ", ".join(f"({p[0].e}, {p[1].e})" for p in v) + "]")
res=show("LineString validators (3 pts)", ls)
# 3. compute_affinity non-time branch with stubbed shapely objects
class Shp:
    def __init__(self,name): self.name=name; self.area=Sym(f"A_{name}")
    def intersection(self,o): return types.SimpleNamespace(area=Sym(f"I_{self.name}_{o.name}"))
def aff():
    orig_prep, orig_to = A._prepare_geometry, A.geometry_to_shapely
    A._prepare_geometry=lambda g,tb,fb: g
    A.geometry_to_shapely=lambda g: Shp(g.name)
    try: return A.compute_affinity(types.SimpleNamespace(type="Polygon",name="x"), types.SimpleNamespace(type="Polygon",name="y"))
    finally: A._prepare_geometry, A.geometry_to_shapely = orig_prep, orig_to
res=show("compute_affinity (2-D branch)", aff)
for r in res: print("  ", r)
# 4. compute_affinity_in_time with stubbed bounds
def afft():
    orig=A.compute_bounds
    A.compute_bounds=lambda g: g.b
    try: return A.compute_affinity_in_time(types.SimpleNamespace(b=(Sym("s1"),Sym("l1"),Sym("e1"),Sym("h1"))), types.SimpleNamespace(b=(Sym("s2"),Sym("l2"),Sym("e2"),Sym("h2"))))
    finally: A.compute_bounds=orig
res=show("compute_affinity_in_time", afft)
print("  ", res[0])
# 5. buffer_bounding_box_geometry with stub BoundingBox class
def buf():
    rec={}
    class DataStub:
        MAX_FREQUENCY=data.MAX_FREQUENCY
        @staticmethod
        def BoundingBox(coordinates): return coordinates
    orig=O.data; O.data=DataStub
    try:
        out=O.buffer_bounding_box_geometry(types.SimpleNamespace(coordinates=[s,l,e,h]), time_buffer=Sym("tb"), freq_buffer=Sym("fb"))
        return Sym("[" + ", ".join(x.e if isinstance(x,Sym) else lit(x) for x in out) + "]")
    finally: O.data=orig
res=show("buffer_bounding_box_geometry", buf)
for r in res[:2]: print("  ", r)
# 6. get_geometry_point
def gp(pos):
    def f():
        orig=O.compute_bounds; O.compute_bounds=lambda g: (s,l,e,h)
        try:
            x,y=O.get_geometry_point(None,pos); return Sym(f"({x.e}, {y.e})")
        finally: O.compute_bounds=orig
    return f
for pos in ["top-left","center-right","center"]:
    print(pos, explore(gp(pos))[0][1])
