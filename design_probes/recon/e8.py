import warnings; warnings.filterwarnings("ignore")
from soundevent import data
from soundevent.io.crowsetta import label_to_tags, label_from_tags, label_from_tag
import soundevent.io.crowsetta as c
T=data.term_from_key
tagA=data.Tag(term=T("k"),value="v")
print("key+key_mapping miss:", label_to_tags("lab", key_mapping={"other":"kk"}, key="explicit"))
print("term+tag_mapping hit:", label_to_tags("lab", tag_mapping={"lab":tagA}, term=T("tt")))
print("key+tag_mapping hit:", label_to_tags("lab", tag_mapping={"lab":tagA}, key="kk"))
print("term_mapping+tag_mapping:", label_to_tags("lab", tag_mapping={"lab":tagA}, term_mapping={"lab":T("tm")}))
try: print(label_from_tags([tagA], select_by_key="k", value_only=True))
except Exception as e: print("select+value_only EXC", type(e).__name__, e)
print(label_from_tags([tagA], select_by_key="k"), label_from_tags([tagA], index=5), label_from_tags([tagA,tagA]), label_from_tags([tagA,tagA],value_only=True, separator="|"))
print(label_from_tags([tagA,tagA], index=-1))
import crowsetta
print(crowsetta.__version__)
rec = data.Recording(path="/a/b.wav", duration=100, channels=1, samplerate=8000, time_expansion=10)
seg = crowsetta.Segment.from_keyword(label="a", onset_s=1.0, offset_s=2.0, onset_sample=None, offset_sample=None)
print(c.segment_to_annotation(seg, rec).sound_event.geometry)
seg = crowsetta.Segment.from_keyword(label="a", onset_sample=800, offset_sample=1600, onset_s=None, offset_s=None)
print(c.segment_to_annotation(seg, rec).sound_event.geometry)
# bbox above nyquist
rec1 = data.Recording(path="/a/b.wav", duration=100, channels=1, samplerate=8000)
ann = data.SoundEventAnnotation(sound_event=data.SoundEvent(recording=rec1, geometry=data.BoundingBox(coordinates=[0,5000,1,6000])), tags=[tagA])
try: print(c.bbox_from_annotation(ann))
except Exception as e: print("bbox above nyq EXC", type(e).__name__, e)
ann = data.SoundEventAnnotation(sound_event=data.SoundEvent(recording=rec1, geometry=data.TimeStamp(coordinates=1.5)), tags=[tagA])
print(c.segment_from_annotation(ann))
try: print(c.bbox_from_annotation(ann, raise_on_time_geometries=False))
except Exception as e: print("EXC", type(e).__name__, e)
