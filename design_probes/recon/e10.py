import warnings; warnings.filterwarnings("ignore")
import json, tempfile, datetime
from soundevent import data, io
T=data.term_from_key
u1,u2,u3,u4=[data.User(name=f"u{i}", email=f"u{i}@x.org", username=f"n{i}", institution="I") for i in range(4)]
tg=lambda k,v: data.Tag(term=T(k),value=v)
ft=lambda k,v: data.Feature(term=T(k),value=v)
note=lambda m,u: data.Note(message=m, created_by=u, is_issue=True)
rec = data.Recording(path="/a/b.wav", duration=100, channels=2, samplerate=8000, time_expansion=10, hash="h", date=datetime.date(2020,1,2), time=datetime.time(3,4,5), latitude=1.5, longitude=-2.5, owners=[u1], rights="r", tags=[tg("a","1")], features=[ft("f",1.5)], notes=[note("n",u2)])
rec2 = data.Recording(path="/a/c.wav", duration=10, channels=1, samplerate=8000)
clip=data.Clip(recording=rec,start_time=0,end_time=1, features=[ft("cf",2)])
se1=data.SoundEvent(recording=rec, geometry=data.BoundingBox(coordinates=[0,1,2,3]), features=[ft("sf",3)])
se2=data.SoundEvent(recording=rec2, geometry=None)
seqp=data.Sequence(sound_events=[se1], features=[ft("qf",1)])
seq=data.Sequence(sound_events=[se1,se2], parent=seqp)
sa1=data.SoundEventAnnotation(sound_event=se1, tags=[tg("s","x")], notes=[note("m",u3)], created_by=u3)
sa2=data.SoundEventAnnotation(sound_event=se2)
qa=data.SequenceAnnotation(sequence=seq, tags=[tg("q","y")], notes=[note("qq",None)], created_by=u4)
ca=data.ClipAnnotation(clip=clip, sound_events=[sa1,sa2], sequences=[qa], tags=[tg("c","z")], notes=[note("cn",u1)])
sp1=data.SoundEventPrediction(sound_event=se1, score=.5, tags=[data.PredictedTag(tag=tg("p","only"),score=.25)])
sp2=data.SoundEventPrediction(sound_event=data.SoundEvent(recording=rec,geometry=data.TimeStamp(coordinates=1)), score=.75)
qp=data.SequencePrediction(sequence=seq, score=.5, tags=[data.PredictedTag(tag=tg("qp","only"),score=.5)])
cp=data.ClipPrediction(clip=clip, sound_events=[sp1,sp2], sequences=[qp], tags=[data.PredictedTag(tag=tg("cp","t"),score=.125)], features=[ft("pf",4)])
m=[data.Match(source=sp1,target=sa1,affinity=.5,score=.25,metrics=[ft("mm",1)]), data.Match(source=sp2,affinity=0,score=0), data.Match(target=sa2)]
ce=data.ClipEvaluation(annotations=ca,predictions=cp,matches=m,metrics=[ft("cm",.5)],score=.5)
ev=data.Evaluation(evaluation_task="t", clip_evaluations=[ce], metrics=[ft("em",.5)], score=.5)
d=tempfile.mkdtemp()
def diff(a,b,path=""):
    if type(a)!=type(b): print(path,"TYPE",type(a),type(b)); return
    if hasattr(a,"model_fields"):
        for f in type(a).model_fields: diff(getattr(a,f),getattr(b,f),path+"."+f)
    elif isinstance(a,(list,tuple)):
        if len(a)!=len(b): print(path,"LEN",len(a),len(b))
        for i,(x,y) in enumerate(zip(a,b)): diff(x,y,path+f"[{i}]")
    elif a!=b: print(path,repr(a),repr(b))
for name,obj in [("ev",ev),("as",data.AnnotationSet(clip_annotations=[ca])),("mr",data.ModelRun(name="m",version="1",description="d",clip_predictions=[cp])),("ds",data.Dataset(name="d",description="x",recordings=[rec,rec2]))]:
    io.save(obj,d+f"/{name}.json"); l=io.load(d+f"/{name}.json"); print(name, l==obj, type(l).__name__); diff(obj,l)
    io.save(l,d+f"/{name}2.json"); l2=io.load(d+f"/{name}2.json"); print("  fix", l2==l)
io.save(ev,d+"/ev.json",audio_dir="/a"); l=io.load(d+"/ev.json",audio_dir="/zz"); print(l.clip_evaluations[0].annotations.clip.recording.path)
try: io.save(ev,d+"/evx.json",audio_dir="/q")
except Exception as e: print("outside EXC",type(e).__name__,e)
import os; print(os.path.exists(d+"/evx.json"))
