import warnings; warnings.filterwarnings("ignore")
import numpy as np, xarray as xr, soundfile as sf, tempfile, os
from soundevent import arrays, data, audio
d=tempfile.mkdtemp()
sr=8000; n=sr*2
x=np.random.RandomState(0).randn(n,2)*0.1
sf.write(d+"/a.wav", x, sr, subtype="PCM_16")
rec=data.Recording.from_file(d+"/a.wav")
print(rec.duration, rec.samplerate, rec.channels)
w=audio.load_recording(rec)
print(w.shape, w.time.values[:3], w.time.attrs)
for ws,hs in [(0.064,0.032),(0.01,0.0033),(0.02,0.0101)]:
    s=audio.compute_spectrogram(w, ws, hs)
    t=s.time.values; st=s.time.attrs["step"]
    dev=np.abs(t-(t[0]+np.arange(len(t))*st)).max()
    print(ws,hs,"n",len(t),"realised hop",np.diff(t).mean(),"attr",st,"maxdev/step",dev/st, "t0", t[0])
    fr=s.frequency.values; fs=s.frequency.attrs["step"]; print("  freq dev/step", np.abs(fr-(fr[0]+np.arange(len(fr))*fs)).max()/fs)
# load_clip
for (a,b) in [(0.1,0.5),(0.10003,0.50007),(1.9,2.5),(0,2)]:
    c=data.Clip(recording=rec,start_time=a,end_time=b)
    y=audio.load_clip(c)
    off=int(np.floor(a*sr)); ns=int(np.floor((b-a)*sr))
    print((a,b), y.shape, ns, len(y.time), y.time.values[0], off/sr)
r=audio.resample(w, 11025); print(r.shape, r.time.attrs.get("step"), np.diff(r.time.values).mean(), 1/11025)
r=audio.resample(w, 4410); print(r.shape, r.time.attrs.get("step"), np.diff(r.time.values).mean(), 1/4410)
