import warnings; warnings.filterwarnings("ignore")
import numpy as np, xarray as xr
from soundevent import arrays, data
from soundevent.arrays import operations as ops
from soundevent.geometry import rasterize
# C17 extend width
bad=0; tot=0; ex=None
for step in [0.01, 1/3, 0.1, 1/44100, 0.5, 1.0, 0.004]:
    for n in [5,10,37]:
        for start in [0.0, 0.3, 12.7]:
            coords = start + step*np.arange(n)
            a = xr.DataArray(np.arange(n,dtype=float), dims=["time"], coords={"time": arrays.create_time_dim_from_array(coords, step=step)})
            for w in [n+1,n+2,n+7,2*n+1]:
                for pos in ["start","end","center"]:
                    tot+=1
                    r = ops.adjust_dim_width(a,"time",w,position=pos)
                    if r.sizes["time"]!=w: bad+=1; ex=(step,n,start,w,pos,r.sizes["time"])
print("extend width wrong", bad, tot, ex)
# C20 rasterize time-first non-square
t = arrays.create_time_range(0,1,step=0.1); f = arrays.create_frequency_range(0,500,step=100)
for dims,shape in [(("frequency","time"),(5,10)),(("time","frequency"),(10,5))]:
    arr = xr.DataArray(np.zeros(shape), dims=dims, coords={"time":t,"frequency":f})
    try:
        r = rasterize([data.BoundingBox(coordinates=[0.2,100,0.5,300])], arr)
        print(dims, r.dims, r.shape); print(r.transpose("frequency","time").values[::-1])
    except Exception as e: print(dims,"EXC",type(e).__name__,str(e)[:200])
# C16 create_range_dim
bad=0;tot=0
for start in [0,0.5,3.7]:
  for step in [0.1,1/44100,0.25,1/3,0.01,1e-3]:
    for n in [1,2,3,10,100,4410,1000]:
        stop = start + n*step
        tot+=1
        c = arrays.create_range_dim("x", start, stop, step=step)
        if len(c)!=n: bad+=1; print("range", start, step, n, len(c))
print("range bad", bad, tot)
try: print(arrays.create_range_dim("x",0,0,step=0.1))
except Exception as e: print("empty range EXC", type(e).__name__, e)
