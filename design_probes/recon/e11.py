import warnings; warnings.filterwarnings("ignore")
import numpy as np, xarray as xr, soundfile as sf, tempfile, random
from soundevent import arrays, data, audio, geometry
from soundevent.geometry.operations import have_temporal_overlap
random.seed(0)
d=tempfile.mkdtemp()
fails=0; tot=0; ex=None
for sr in [8000, 11025, 22050, 44100, 48000, 12345, 96000, 250000]:
    n=int(sr*1.0)
    sf.write(d+f"/a{sr}.wav", np.zeros((n,1)), sr, subtype="PCM_16")
    rec=data.Recording.from_file(d+f"/a{sr}.wav", compute_hash=False)
    for k in range(150):
        a=random.uniform(0,0.9); b=random.uniform(a,1.3)
        tot+=1
        try:
            y=audio.load_clip(data.Clip(recording=rec,start_time=a,end_time=b))
        except Exception as e:
            fails+=1; ex=(sr,a,b,type(e).__name__,str(e)[:100])
print("load_clip crashes", fails, tot, ex)
try:
    y=audio.load_clip(data.Clip(recording=rec,start_time=0.5,end_time=0.5)); print("zero-length", y.shape)
except Exception as e: print("zero-length EXC", type(e).__name__, e)
# te recording
rec=data.Recording.from_file(d+"/a8000.wav", time_expansion=10, compute_hash=False); print(rec.samplerate, rec.duration)
y=audio.load_clip(data.Clip(recording=rec,start_time=0.01,end_time=0.05)); print(y.shape, y.time.values[:2], y.time.values[-1])
# grouping order
rec2=data.Recording(path="/a/b.wav", duration=100, channels=1, samplerate=8000)
ses=[data.SoundEvent(recording=rec2, geometry=data.TimeInterval(coordinates=[a,b])) for a,b in [(0,1),(5,6),(0.5,2),(10,11),(5.5,7)]]
seqs=geometry.group_sound_events(ses, lambda x,y: have_temporal_overlap(x.geometry,y.geometry))
print([[ses.index(s) for s in q.sound_events] for q in seqs])
print(geometry.group_sound_events([], lambda x,y: True))
# positions
g=data.Polygon(coordinates=[[[1,10],[3,10],[3,30],[1,30],[1,10]]])
for p in ["bottom-left","bottom-right","top-left","top-right","center-left","center-right","top-center","bottom-center","center","centroid","point_on_surface"]:
    print(p, geometry.get_geometry_point(g,p))
# buffer near edges
for g in [data.Point(coordinates=[0,0]), data.Point(coordinates=[0.001,4999999]), data.LineString(coordinates=[[0,0],[1,5e6]]), data.MultiPoint(coordinates=[[0,0],[5,5e6]])]:
    for tb,fb in [(0,0),(0.01,100),(5,1e7),(0,10),(1,0)]:
        try:
            r=geometry.buffer_geometry(g,tb,fb); b=geometry.compute_bounds(r); print(g.type,tb,fb,r.type,[round(x,6) for x in b])
        except Exception as e: print(g.type,tb,fb,"EXC",type(e).__name__,str(e)[:120].replace("\n"," "))
